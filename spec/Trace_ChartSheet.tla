-------------------------- MODULE Trace_ChartSheet --------------------------
(* Validates what the driver read back from saved decks against ChartSheet (C08):
   R.cols   : [n, digits] of the real _column_reference for every n the driver called it with (whole domain)
   R.traces : [id, site, data, raised, obs] one per chart built by add_chart / rewritten by replace_data;
              obs = references, point counts and cached points of every series + the worksheet they name,
              read from the saved bytes with the driver's own .xlsx reader.
   Clauses are the statement's: RefSizeIsPtCount, PointEqualsCell, CellHoldsData, ColumnLetters; the exact
   references and the whole sheet (RefsAsSpec, SheetAsSpec) are drift only.                              *)
EXTENDS ChartSheet, Json, IOUtils
VARIABLE dummy
R  == JsonDeserialize(IOEnv.TRACE_FILE)
T  == R.traces

BadCols == {k \in 1..Len(R.cols) : R.cols[k].digits # ColLetters(R.cols[k].n)}
ASSUME \A k \in BadCols : PrintT(<<"VERDICT", ToJson([kind |-> "col", id |-> ToString(R.cols[k].n), failing |-> {"ColumnLetters"},
                                                        got |-> R.cols[k].digits, want |-> ColLetters(R.cols[k].n)])>>)

W(k)       == Witnesses(T[k].data, T[k].obs)
Failing(k) == {w.clause : w \in W(k)} \cup (IF T[k].raised # "" THEN {"Raises"} ELSE {})
OneEach(k) == {CHOOSE w \in W(k) : w.clause = c : c \in {w.clause : w \in W(k)}}
BadTraces  == {k \in 1..Len(T) : Failing(k) # {}}
ASSUME \A k \in BadTraces : PrintT(<<"VERDICT", ToJson([kind |-> "chart", id |-> T[k].id, failing |-> Failing(k), witness |-> (IF Cardinality(W(k)) <= 40 THEN W(k) ELSE OneEach(k)),
                                                          nwit |-> Cardinality(W(k))])>>)
Drift(t)   == IF t.raised # "" THEN 0 ELSE RefDrift(t.data, t.obs) + (IF SheetDrift(t.data, t.obs) > 0 THEN 1 ELSE 0)
Points(t)  == FoldLeft(LAMBDA acc, s : acc + FoldLeft(LAMBDA a2, p : a2 + FoldLeft(LAMBDA a3, l : a3 + Len(l), 0, PartOf(s, p).lvls), 0, Parts),
                       0, t.obs.sers)
ASSUME PrintT(<<"SUMMARY", ToJson([cols |-> Len(R.cols), traces |-> Len(T), rejected |-> Cardinality(BadTraces) + Cardinality(BadCols),
                                   points |-> FoldLeft(LAMBDA acc, t : acc + Points(t), 0, T),
                                   drift |-> FoldLeft(LAMBDA acc, t : acc + Drift(t), 0, T)])>>)
Init == dummy = 0
Next == UNCHANGED dummy
=============================================================================
