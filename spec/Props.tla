-------------------------------- MODULE Props --------------------------------
(* Property C09: a property reads back as set, survives save/re-open; None restores inheritance; a value outside the
   domain raises TypeError or ValueError; an assignment leaves the readings of the other, independent properties unchanged.

   The catalogue (mbt/catalog/props.py, measured and serialised by mbt/drive/props.py) is a sequence of object kinds
     [kind, props : Seq(Desc)]
   Desc = [p, dom : "emu" | "cpt" | "angle" | "frac" | "int" | "double" | "linespacing" | "bool" | "enum" | "str" | "rgb" |
                    "underline" | "ro",
           hasLo, hasHi, edgeDoc, isFloat : BOOLEAN,     bounds exist; bounds are DOCUMENTED; values are floats
           ntyp, nmid, nthr, nmem, nret : Nat,            typical values, seeded interior draws, seeded rounding-threshold
                                                          neighbours, assignable enum members, return-only enum members
           none : BOOLEAN, noneReads : STRING,            None is documented to restore inheritance; the reading then
           coupled, weak, needs : Seq(Nat), needsObs : Nat,   indices into props (declared dependence; see catalogue)
           ro, truthy : BOOLEAN, initSet : BOOLEAN]       observer only; setter takes bool(value); fixture starts with it set

   A value is a TOKEN [cls, anchor, delta] - never a raw number (floats and EMU >= 2^31 cannot go through TLC):
     cls "in"   anchor "lo" | "hi" (bound + delta quanta), "typ" (delta-th typical value), "mid" (delta-th seeded interior
                draw), "thr" (|delta|-th seeded rounding threshold, just below / above by sign), "member" (delta-th
                assignable enum member), "true" | "false", string classes "ascii" | "unicode" | "empty" | "long" | "spaces",
                colours "black" | "white" | "mid", line spacing in points "pts"
     cls "out"  anchor "lo" | "hi": one quantum outside the bound
     cls "bad"  a wrong python type / non-finite float: "str" "int" "float" "nan" "inf" "ninf" "none" "bytes" "tuple" "ret" "int2"
     cls "INHERIT" (no explicit setting), "INIT" (whatever the fixture starts with), "UNKNOWN" (abstract state only)
   The driver concretises a token (drive/props.py: concretise), computes |read - assigned| <= quantum with exact
   arithmetic (Fractions) and logs the boolean: TLC requires it.

   PART 1 generates the value classes; PART 2 is the abstract machine (IMPL layer: what the declared catalogue predicts);
   PART 3 is the PROPERTY layer: named clauses over one OBSERVED step.                                                *)
EXTENDS Integers, Sequences, FiniteSets, TLC

Tok(c, a, d) == [cls |-> c, anchor |-> a, delta |-> d]
Inherit == Tok("INHERIT", "", 0)
Unknown == Tok("UNKNOWN", "", 0)
InitTok == Tok("INIT", "", 0)
Rng(s) == {s[i] : i \in DOMAIN s}
NumDoms == {"emu", "cpt", "angle", "frac", "int", "double", "linespacing"}
Errors  == {"TypeError", "ValueError"}

\* ---------------------------------------------------------------- PART 1: value classes
\* lvl 1: the whole sweep (every boundary, interior and threshold class); lvl 2: classes used in ordered pairs;
\* lvl 3: classes used in ordered triples
NumIn(d, lvl) ==
  CASE lvl = 1 -> (IF d.hasLo THEN {Tok("in", "lo", 0), Tok("in", "lo", 1)} ELSE {})
                  \cup (IF d.hasHi THEN {Tok("in", "hi", 0), Tok("in", "hi", -1)} ELSE {})
                  \cup {Tok("in", "typ", i) : i \in 1..d.ntyp} \cup {Tok("in", "mid", i) : i \in 1..d.nmid}
                  \cup {Tok("in", "thr", i) : i \in ((0 - d.nthr)..d.nthr) \ {0}}
                  \cup (IF d.dom = "linespacing" THEN {Tok("in", "pts", i) : i \in 1..4} ELSE {})
    [] lvl = 2 -> {Tok("in", "typ", 1), Tok("in", "mid", 1)}
                  \cup (IF d.ntyp > 1 THEN {Tok("in", "typ", d.ntyp)} ELSE {})     \* the last typical value is the reset-like one (0, default)
                  \cup (IF d.hasHi /\ d.edgeDoc THEN {Tok("in", "hi", 0)} ELSE {})
                  \cup (IF d.dom = "linespacing" THEN {Tok("in", "pts", 1)} ELSE {})
    [] OTHER    -> {Tok("in", "typ", 1)}
MemIn(d, lvl) ==
  CASE lvl = 1 -> {Tok("in", "member", i) : i \in 1..d.nmem}
    [] lvl = 2 -> {Tok("in", "member", i) : i \in {1, d.nmem}}
    [] OTHER    -> {Tok("in", "member", 1)}
Bools == {Tok("in", "true", 0), Tok("in", "false", 0)}
InTokens(d, lvl) ==
  CASE d.dom \in NumDoms    -> NumIn(d, lvl)
    [] d.dom = "enum"      -> MemIn(d, lvl)
    [] d.dom = "bool"      -> Bools
    [] d.dom = "underline" -> Bools \cup MemIn(d, lvl)
    [] d.dom = "str"       -> (CASE lvl = 1 -> {Tok("in", s, 0) : s \in {"ascii", "unicode", "empty", "long", "spaces"} \ (IF d.nonEmpty THEN {"empty"} ELSE {})}
                                         \cup {Tok("in", "typ", i) : i \in 1..d.ntyp}
                                 [] lvl = 2 -> {Tok("in", "ascii", 0), Tok("in", "unicode", 0)}
                                 [] OTHER   -> {Tok("in", "ascii", 0)})
    [] d.dom = "rgb"       -> (CASE lvl = 1 -> {Tok("in", "black", 0), Tok("in", "white", 0)} \cup {Tok("in", "mid", i) : i \in 1..d.nmid}
                                 [] lvl = 2 -> {Tok("in", "mid", 1), Tok("in", "white", 0)}
                                 [] OTHER   -> {Tok("in", "mid", 1)})
    [] OTHER -> {}
BadTok(s) == Tok("bad", s, 0)
OutTokensAll(d) ==
  (CASE d.dom \in NumDoms -> (IF d.hasLo THEN {Tok("out", "lo", -1)} ELSE {}) \cup (IF d.hasHi THEN {Tok("out", "hi", 1)} ELSE {})
                            \cup {BadTok("str"), BadTok("nan"), BadTok("inf"), BadTok("ninf")} \cup (IF d.isFloat THEN {} ELSE {BadTok("float")})
     [] d.dom = "enum"      -> {BadTok("str"), BadTok("int")} \cup {Tok("bad", "ret", i) : i \in 1..d.nret}
     [] d.dom = "bool"      -> {BadTok("str"), BadTok("int2")}
     [] d.dom = "underline" -> {BadTok("str"), BadTok("int")}
     [] d.dom = "str"       -> {BadTok("int"), BadTok("bytes")}
     [] d.dom = "rgb"       -> {BadTok("str"), BadTok("tuple")}
     [] OTHER -> {})
  \cup (IF d.none \/ d.ro THEN {} ELSE {BadTok("none")})
OutTokens(d, lvl) == IF lvl = 1 THEN OutTokensAll(d) ELSE IF lvl = 2 THEN OutTokensAll(d) \cap {BadTok("str"), BadTok("int"), Tok("out", "hi", 1)} ELSE {}

\* the statement's "value outside the domain": a verdict only where the domain is DOCUMENTED; everything else is tried and reported
Judged(d, v) ==
  CASE v.cls = "out" -> d.edgeDoc
    [] v.cls = "bad" /\ v.anchor = "str"   -> ~d.truthy
    [] v.cls = "bad" /\ v.anchor \in {"int", "bytes", "tuple"} -> d.dom \in {"enum", "str", "rgb", "underline"}
    [] v.cls = "bad" /\ v.anchor \in {"nan", "inf", "ninf"} -> d.edgeDoc /\ d.hasLo /\ d.hasHi
    [] OTHER -> FALSE                        \* "none" where None is not documented, "float" for integers, 2 for a bool, return-only members
\* in-domain values that MUST be accepted: everything but the bounds of an undocumented (schema) range
MustAccept(d, v) == v.cls = "in" /\ (v.anchor \in {"lo", "hi"} => d.edgeDoc)

\* ---------------------------------------------------------------- PART 2: the abstract machine (IMPL layer)
\* state: Seq(Tok), one token per property of the kind.  Acts: [op, p, v]
Set(p, v)     == [op |-> "Set", p |-> p, v |-> v]
SetNone(p)    == [op |-> "SetNone", p |-> p, v |-> Inherit]
SetOut(p, v)  == [op |-> "SetOut", p |-> p, v |-> v]
SaveReopen    == [op |-> "SaveReopen", p |-> 0, v |-> InitTok]
InitState(K)  == [i \in DOMAIN K.props |-> InitTok]
Acts(K, lvl)  == UNION {{Set(i, v) : v \in InTokens(K.props[i], lvl)} \cup {SetOut(i, v) : v \in OutTokens(K.props[i], lvl)}
                          \cup (IF K.props[i].none THEN {SetNone(i)} ELSE {}) : i \in {j \in DOMAIN K.props : ~K.props[j].ro}}
\* a property that needs another one (brightness needs a colour) is assignable once one of them has been assigned, or from the start
NeedsOK(K, st, i) == LET d == K.props[i] IN
  d.needs = <<>> \/ d.initSet \/ \E q \in Rng(d.needs) : st[q].cls = "in"
NeedsKnown(K, st, i) == LET d == K.props[i] IN
  d.needs = <<>> \/ d.initSet \/ \A q \in Rng(d.needs) : st[q].cls \in {"in", "INIT"}
\* predicted outcome: "ok" | "refused" | "free" (the declared catalogue does not decide)
Expect(K, st, a) ==
  CASE a.op = "SaveReopen" -> "ok"
    [] a.op = "SetNone"    -> "ok"
    [] a.op = "Set"        -> IF ~NeedsKnown(K, st, a.p) THEN "free"
                              ELSE IF ~NeedsOK(K, st, a.p) THEN "free"      \* refusal is what the code does, the docs do not say
                              ELSE IF MustAccept(K.props[a.p], a.v) THEN "ok" ELSE "free"
    [] OTHER               -> IF Judged(K.props[a.p], a.v) THEN "refused" ELSE "free"
ImplStep(K, st, a) ==
  LET e == Expect(K, st, a) IN
  IF a.op = "SaveReopen" \/ e = "refused" THEN st
  ELSE LET d == K.props[a.p] IN
       [q \in DOMAIN st |-> IF q = a.p THEN (IF e = "ok" THEN a.v ELSE Unknown)
                            ELSE IF q \in Rng(d.coupled) THEN Unknown ELSE st[q]]

\* ---------------------------------------------------------------- PART 3: the PROPERTY layer, over one observed step
(* observed state  s = [r : Seq(STRING), x : Seq(STRING)]   r[i]: canonical reading of property i ("!Exc" when the reader raises),
                                                             x[i]: "yes" | "no" | "na" the explicit attribute/element is in the XML
   step = [a, out, m]    out: "ok" | exception class;  m = [within : BOOLEAN, av, rv : STRING]  the quantum monitor and its inputs
   taint: properties whose reading is no longer covered by the statement (an accepted out-of-domain / undefined assignment earlier) *)
NeedsObs(d, s) == d.needsObs = 0 \/ s.r[d.needsObs] # "None"
Defined(d, s, a) == a.op = "Set" /\ NeedsObs(d, s)                \* an in-domain assignment the statement speaks about
Frame(K, d, s, a) == (DOMAIN K.props) \ ({a.p} \cup Rng(d.coupled) \cup {w \in Rng(d.weak) : s.x[w] # "yes"})
PostNames == <<"InDomainAccepted", "ReadBackWithinQuantum", "NoneRestoresInheritance", "OutOfDomainRefused", "RefusalClass",
               "OthersUnchanged", "ReopenSame", "TwinUnchanged">>
PostHolds(n, K, s, a, out, m, t, taint) ==
  LET d == IF a.p = 0 THEN K.props[1] ELSE K.props[a.p] IN
  CASE n = "InDomainAccepted" ->        \* every value in the documented domain can be assigned
         (Defined(d, s, a) /\ MustAccept(d, a.v) /\ a.p \notin taint) => out = "ok"
    [] n = "ReadBackWithinQuantum" ->   \* reading after assignment returns the assigned value to within the storage quantum
         (Defined(d, s, a) /\ out = "ok" /\ a.p \notin taint) => m.within
    [] n = "NoneRestoresInheritance" -> \* None removes the explicit setting, the reader reports inheritance
         a.op = "SetNone" => (out = "ok" /\ t.r[a.p] = d.noneReads /\ t.x[a.p] # "yes")
    [] n = "OutOfDomainRefused" ->      \* a value outside the (documented) domain raises TypeError or ValueError
         (a.op = "SetOut" /\ Judged(d, a.v)) => out \in Errors
    [] n = "RefusalClass" ->            \* whatever is refused is refused with TypeError or ValueError (in the domain: accepted;
         (a.op # "SaveReopen" /\ out # "ok" /\ ~(Defined(d, s, a) /\ MustAccept(d, a.v) /\ a.p \notin taint)) => out \in Errors   \* outside: one of the two)
    [] n = "OthersUnchanged" ->         \* readings of the other, independent properties are unchanged
         (a.op \in {"Set", "SetNone"} /\ out = "ok" /\ (a.op = "Set" => NeedsObs(d, s))) =>
            \A q \in Frame(K, d, s, a) \ taint : t.r[q] = s.r[q]
    [] n = "TwinUnchanged" ->           \* the readings of ANOTHER object of the same kind (same path on an identical second slide; given the same value
                                        \* after the first accepted assignment) do not change when this object is assigned to, and vice versa:
         m.tw # "changed"               \* "the object's other, independent properties" a fortiori covers other objects
    \* (every other history re-opens the saved file RESPELLED as another producer may spell it, value for value the same by the schema:
    \* hexBinary colours in lower case, xsd:boolean "1" / "0" as "true" / "false" - C11: "every schema-valid lexical form met in a
    \* document can be read", judged at the READER: the readings are those of the file as the library spelled it)
    [] n = "ReopenSame" ->              \* the same value is read after saving and re-opening
         a.op = "SaveReopen" => ((taint = {} => out = "ok") /\ (out = "ok" => \A q \in (DOMAIN K.props) \ taint : t.r[q] = s.r[q]))
PostFailing(K, s, a, out, m, t, taint) ==
  {PostNames[i] : i \in {j \in DOMAIN PostNames : ~PostHolds(PostNames[j], K, s, a, out, m, t, taint)}}

\* REPORT-ONLY observations (the statement does not say): what a refused assignment leaves behind; what happens to the
\* out-of-domain candidates of an undocumented domain
RefusedLeavesReadings(s, a, out, t) == (a.op # "SaveReopen" /\ out # "ok") => t.r = s.r
AcceptedUndocumented(K, a, out) == a.op = "SetOut" /\ out = "ok" /\ ~Judged(K.props[a.p], a.v)
RefusedUndocumentedEdge(K, s, a, out) == a.op = "Set" /\ out # "ok" /\ ~MustAccept(K.props[a.p], a.v) /\ NeedsObs(K.props[a.p], s)
\* after such a step the property (and what is coupled with it) is outside the statement for the rest of the trace
Taints(K, s, a, out) ==
  IF out = "ok" /\ a.op # "SaveReopen" /\ (a.op = "SetOut" \/ (a.op = "Set" /\ ~NeedsObs(K.props[a.p], s)))
  THEN {a.p} \cup Rng(K.props[a.p].coupled) \cup {w \in Rng(K.props[a.p].weak) : s.x[w] # "yes"} ELSE {}

\* value class used in signatures  Clause@Kind.prop[class]
ClassOf(a) == CASE a.op = "SaveReopen" -> "reopen" [] a.op = "SetNone" -> "None"
                [] OTHER -> a.v.cls \o ":" \o a.v.anchor
=============================================================================
