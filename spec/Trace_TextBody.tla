---------------------------- MODULE Trace_TextBody ----------------------------
(* Validates text-body traces observed from the real library against TextBody (C04).
   R.traces[k] = [ id, site, prior,
                   pre   : observation after the prior body was built (before the first action),
                   steps : Seq([a, out, same, t]) ]    t = observation after the call (<<>> when same = TRUE: identical to the
                                                       previous observation); out = "ok" or the exception class
   Every clause of TextBody!PostNames is evaluated on every OBSERVED step; "Accepted" is added when an assignment raised.
   Drift (no verdict): observed body differs from ImplBody, public readers differ from the readers computed on the
   projected tree, the prior body differs from the modelled one.                                                     *)
EXTENDS TextBody, Json, IOUtils
VARIABLE dummy
R == JsonDeserialize(IOEnv.TRACE_FILE)
G == R.traces

RECURSIVE StateAt(_, _)
StateAt(g, k) == IF k = 0 THEN g.pre ELSE IF g.steps[k].same THEN StateAt(g, k - 1) ELSE g.steps[k].t

StepFailing(g, k) ==
  LET st == g.steps[k] IN
  \* a public call that raised is named by that alone (the clauses describe what a call that returned has done)
  IF st.out # "ok" THEN {"Accepted"}
  ELSE IF st.same /\ st.a.op = "SaveReopen" THEN {} ELSE Failing(StateAt(g, k - 1), st.a, StateAt(g, k))
Bad(g) == {[at |-> "step", k |-> k, op |-> g.steps[k].a.op, failing |-> StepFailing(g, k)] :
             k \in {j \in DOMAIN g.steps : StepFailing(g, j) # {}}}

Applicable(b, a) ==
  CASE a.op \in {"SetPara", "AddRun", "AddBreak", "AddField", "SetParaProp"} -> a.i <= Len(b)
    [] a.op = "SetRun" -> a.i <= Len(b) /\ a.j <= Len(Runs(b[a.i]))
    [] OTHER -> TRUE
DriftImpl(g) == Cardinality({k \in DOMAIN g.steps :
                  LET b == StateAt(g, k - 1).body a == g.steps[k].a IN
                  g.steps[k].out = "ok" /\ ~(g.steps[k].same /\ a.op = "SaveReopen") /\ (~Applicable(b, a) \/ StateAt(g, k).body # ImplBody(b, a))})
ReadersOff(o) == o.rd # Readers(o.body)
DriftReaders(g) == (IF ReadersOff(g.pre) THEN 1 ELSE 0) +
                   Cardinality({k \in DOMAIN g.steps : ~g.steps[k].same /\ ReadersOff(g.steps[k].t)})
DriftPrior(g) == IF g.pre.body # Prior(g.prior, g.site) THEN 1 ELSE 0

BadTraces == {k \in DOMAIN G : Bad(G[k]) # {}}
ASSUME \A k \in BadTraces : PrintT(<<"VERDICT", ToJson([id |-> G[k].id, k |-> k, bad |-> Bad(G[k])])>>)
Sum(f(_)) == FoldLeft(LAMBDA acc, g : acc + f(g), 0, G)
NSteps(g) == Len(g.steps)
NAssign(g) == Len(SelectSeq(g.steps, LAMBDA s : IsAssign(s.a)))
NReopen(g) == Len(SelectSeq(g.steps, LAMBDA s : s.a.op = "SaveReopen"))
ASSUME PrintT(<<"SUMMARY", ToJson([traces |-> Len(G), rejected |-> Cardinality(BadTraces), steps |-> Sum(NSteps),
                                   assigns |-> Sum(NAssign), reopens |-> Sum(NReopen),
                                   driftImpl |-> Sum(DriftImpl), driftReaders |-> Sum(DriftReaders), driftPrior |-> Sum(DriftPrior),
                                   drift |-> Sum(DriftImpl) + Sum(DriftReaders) + Sum(DriftPrior)])>>)
Init == dummy = 0
Next == UNCHANGED dummy
=============================================================================
