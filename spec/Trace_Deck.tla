------------------------------ MODULE Trace_Deck ------------------------------
(* Validates deck histories observed from the real library (C02, C06; C12/C13/C15 add their own step clauses).
   R.traces[k] = [ id, steps : Seq([a, out, t : obs, savedSame]), saves : Seq([at, z]) ]   (see Deck.tla)          *)
EXTENDS Deck, Json, IOUtils, SequencesExt
VARIABLE dummy
R == JsonDeserialize(IOEnv.TRACE_FILE)
TraceSegs == R.segs
T == R.traces

StepBadOf(tr, k) ==
  LET s == tr.steps[k-1].t  a == tr.steps[k].a  t == tr.steps[k].t  out == tr.steps[k].out
      f1 == StepFailing(s, a, t)
      \* a refused call (IndexError, KeyError, ValueError ...) is part of the history; the properties served here do not
      \* constrain it further.  Any other operation of the alphabet is expected to succeed.
      f2 == IF a.op = "rejected" \/ out = "ok" THEN {} ELSE {"OperationSucceeds"}
  IN f1 \cup f2
Bad(tr) == {[at |-> "step", k |-> k, failing |-> StepBadOf(tr, k)] : k \in {j \in 2..Len(tr.steps) : StepBadOf(tr, j) # {}}}
      \cup {[at |-> "saved", k |-> tr.saves[i].at, failing |-> IF tr.saves[i].ok THEN SavedFailing(tr.saves[i].z) ELSE {"SaveSucceeds"}] :
              i \in {j \in DOMAIN tr.saves : IF tr.saves[j].ok THEN SavedFailing(tr.saves[j].z) # {} ELSE TRUE}}
BadTraces == {k \in DOMAIN T : Bad(T[k]) # {}}
ASSUME \A k \in BadTraces : PrintT(<<"VERDICT", ToJson([id |-> T[k].id, bad |-> Bad(T[k])])>>)
ASSUME PrintT(<<"SUMMARY", ToJson([traces |-> Len(T), rejected |-> Cardinality(BadTraces),
                                   steps |-> FoldLeft(LAMBDA acc, tr : acc + Len(tr.steps), 0, T),
                                   saves |-> FoldLeft(LAMBDA acc, tr : acc + Len(tr.saves), 0, T)])>>)
Init == dummy = 0
Next == UNCHANGED dummy
=============================================================================
