---------------------------- MODULE MC_OpcPackage ----------------------------
(* Builder state machine over OpcPackage: TLC constructs every physical package within the
   bounds (parts in canonical order, relationships in every order), seals it (optionally with a
   fault), and runs Open / Save / Open / Save on the model.  Each sealed package is printed and
   replayed by the driver against the real library in zip-path, stream and directory form.

   Design-level checks (invariants): the transcribed writer satisfies SaveOK, re-opening gives
   the same package, the second save equals the first.                                          *)
EXTENDS OpcPackage, Json, TLC
CONSTANTS CANDS,        \* set of candidate indices into Cand
          MAXPARTS, MAXRELS,
          FREETYPES,    \* TRUE: every type / Default-or-Override / case-flip choice per part; FALSE: first choice only
          AUTOROOT,     \* TRUE: adding a part also relates it from the package (star), so every part is reachable
          FORMS,        \* set of reference-form indices 1..7 (Variants) a relationship target may be spelled in
          DANGLING,     \* TRUE: relationships may target candidates that are not members
          FAULTS,       \* TRUE: Seal may drop the content-types stream / a content type / make a non-package
          RULE          \* "lastwins" | "override": the content-type rule the Impl layer transcribes
VARIABLES ph, pk, stage, pk1, ph1

vars == <<ph, pk, stage, pk1, ph1>>

\* candidate part names (segment indices into DefaultSegs)
Cand == << <<2>>,          \* /slide21.xml               root level
           <<1, 2>>,       \* /slide/slide21.xml
           <<8, 10>>,      \* /slide21/p.bin             sibling-prefix directory of /slide
           <<1, 11>>,      \* /slide/q%20r.bin          a percent-escape that belongs to the name
           <<1, 9, 6>>,    \* /slide/ppt/P3.XML          depth 3, upper-case extension
           <<1, 5>>,       \* /slide/thumbnail           no extension
           <<1, 12>> >>    \* /slide/r.BIN               upper-case extension sharing "bin"
CT_SLIDE == "application/vnd.openxmlformats-officedocument.presentationml.slide+xml"
CT_UNK   == "application/x-unknown-thing"
\* content types select the PART CLASS the loader builds (pptx/__init__.py registers them): slide parts (XML), plain parts, and - for
\* the .bin names - an image type: image parts compare and hash by their own rules, and several parts may hold the same bytes
CT_IMG   == "image/png"
\* ... a type the library has no class for that ENDS IN "+xml" (an SVG picture: an opaque payload that happens to be XML - it is kept
\* byte for byte, DOCTYPE, entities and comments included), and the type of a macro-enabled embedded workbook (a sibling of a type the
\* library does have a class for)
CT_SVG   == "image/svg+xml"
CT_XLSM  == "application/vnd.ms-excel.sheet.macroEnabled.12"
TypesFor(c) == CASE c \in {1, 2, 5} -> <<CT_SLIDE, CT_XML>>
                 [] c \in {3, 4, 7} -> <<CT_PRN_P, CT_PRN_S, CT_IMG, CT_SVG, CT_XLSM>>
                 [] OTHER           -> <<CT_UNK>>
\* payload tokens: X/Y canonical classes of two different slide documents (several spellings each,
\* chosen by the driver), B0 empty bytes, B1/B2 binary strings
PayloadsFor(t) == IF t = CT_SLIDE THEN <<"X", "Y">> ELSE IF t = CT_XML THEN <<"G1", "G2">> ELSE IF t = CT_SVG THEN <<"BS", "B1">> ELSE <<"B1", "B0", "B2">>
RelTypes == <<"http://example.invalid/rel/one", "http://example.invalid/rel/two">>
IdTable  == << <<"rId1", "rId2", "rId3", "rId4", "rId5", "rId6">>,
               <<"foo", "rId7", "bar9", "rId07", "x", "rId3">> >>
\* targets of external relationships are opaque strings, kept as spelled: escapes of reserved characters (SharePoint / redirect links),
\* lower-case hex escapes and a fragment, back-slashes (a file link as Windows writes it), an escaped percent sign
ExtUrls == <<"http://example.invalid/a?b=c&d=e",
             "https://example.invalid/sites/x/Forms/AllItems.aspx?id=%2Fsites%2FR%26D%2Fdeck.pptx&parent=%2Fsites%3Fa%3D1",
             "http://example.invalid/caf%c3%a9%20menu.pdf#page=2",
             "file:///C:\\Users\\me\\My%20Docs\\book.xlsx",
             "mailto:someone@example.invalid?subject=100%25%20sure">>
EXTURL == ExtUrls[1]
NoPkg  == [ok |-> FALSE, err |-> "none", parts |-> <<>>, rels |-> <<>>]
NoRef  == [abs |-> FALSE, segs |-> <<>>]

Empty == [kind |-> "pkg", mem |-> <<>>, ct |-> [present |-> TRUE, defs |-> <<>>, ovrs |-> <<>>], rels |-> <<>>, ids |-> 1]

Init == /\ ph \in {[Empty EXCEPT !.ids = s] : s \in {1, 2}}
        /\ pk = NoPkg /\ stage = "parts" /\ pk1 = NoPkg /\ ph1 = Empty

CandIdx(n) == CHOOSE c \in DOMAIN Cand : Cand[c] = n
MaxCand(p) == IF p.mem = <<>> THEN 0 ELSE CandIdx(p.mem[Len(p.mem)].n)
NRels(p)   == LET F[i \in 0..Len(p.rels)] == IF i = 0 THEN 0 ELSE F[i-1] + Len(p.rels[i].items) IN F[Len(p.rels)]

WithRel(p, src, it) ==
  IF HasRelsItem(p, src)
  THEN [p EXCEPT !.rels = [i \in DOMAIN p.rels |-> IF p.rels[i].src = src
                                                    THEN [p.rels[i] EXCEPT !.items = Append(@, it)] ELSE p.rels[i]]]
  ELSE [p EXCEPT !.rels = Append(@, [src |-> src, items |-> <<it>>])]
NextId(p, src) == IdTable[p.ids][Len(RelItems(p, src)) + 1]
FormRef(src, tgt, f) == Variants(Dir(src), tgt, 1)[f]

AddPart(c, ti, how, flip, pi) ==
  /\ stage = "parts" /\ c \in CANDS /\ c > MaxCand(ph) /\ Len(ph.mem) < MAXPARTS
  /\ LET n == Cand[c]
         t == TypesFor(c)[ti]
         e == LowerExt(Ext(n))
         p1 == [ph EXCEPT !.mem = Append(@, [n |-> n, pl |-> PayloadsFor(t)[pi]])]
         p2 == IF how = "o" THEN [p1 EXCEPT !.ct.ovrs = Append(@, [n |-> n, flip |-> flip, type |-> t])]
               ELSE IF \E d \in Range(p1.ct.defs) : d.ext = e THEN p1
               ELSE [p1 EXCEPT !.ct.defs = Append(@, [ext |-> e, flip |-> flip, type |-> t])]
         p3 == IF AUTOROOT THEN WithRel(p2, ROOT, [id |-> NextId(p2, ROOT), type |-> RelTypes[1], ext |-> FALSE,
                                                   ref |-> FormRef(ROOT, n, 1), url |-> ""])
               ELSE p2
     IN /\ how = "d" => (e # "" /\ \A d \in Range(ph.ct.defs) : d.ext = e => (d.type = t /\ ~flip))
        /\ ph' = p3
  /\ UNCHANGED <<pk, stage, pk1, ph1>>

PartChoices(c) == IF FREETYPES
                  THEN {<<ti, how, flip, pi>> : ti \in DOMAIN TypesFor(c), how \in {"d", "o"}, flip \in BOOLEAN, pi \in {1, 2}}
                  ELSE {<<1, "o", FALSE, 1>>, <<1, "d", FALSE, 2>>}

DoneParts == stage = "parts" /\ stage' = "rels" /\ UNCHANGED <<ph, pk, pk1, ph1>>

AddRel(src, tgt, ty, f) ==
  /\ stage = "rels" /\ NRels(ph) < MAXRELS + (IF AUTOROOT THEN Len(ph.mem) ELSE 0)
  /\ src \in {ROOT} \cup MemNames(ph)
  /\ ph' = WithRel(ph, src, [id |-> NextId(ph, src), type |-> RelTypes[ty], ext |-> FALSE, ref |-> FormRef(src, tgt, f), url |-> ""])
  /\ UNCHANGED <<pk, stage, pk1, ph1>>
AddExt(src) ==
  /\ stage = "rels" /\ NRels(ph) < MAXRELS + (IF AUTOROOT THEN Len(ph.mem) ELSE 0)
  /\ src \in {ROOT} \cup MemNames(ph)
  /\ ph' = WithRel(ph, src, [id |-> NextId(ph, src), type |-> RelTypes[2], ext |-> TRUE, ref |-> NoRef,
                           \* (which spelling: by position, so that the choice adds no branching)
                           url |-> ExtUrls[((NRels(ph) + Len(ph.mem) + (IF src = ROOT THEN 0 ELSE 1)) % Len(ExtUrls)) + 1]])
  /\ UNCHANGED <<pk, stage, pk1, ph1>>
RelTargets == {Cand[c] : c \in {x \in CANDS : DANGLING \/ Cand[x] \in MemNames(ph)}}

\* faults applied when sealing (C16)
Seal(f) ==
  /\ stage = "rels" /\ stage' = "sealed"
  /\ ph' = CASE f = "none"      -> ph
             [] f = "noCT"      -> [ph EXCEPT !.ct.present = FALSE]
             [] f = "dropDefs"  -> [ph EXCEPT !.ct.defs = <<>>]
             [] f = "dropOvrs"  -> [ph EXCEPT !.ct.ovrs = <<>>]
             [] f = "noPkgRels" -> [ph EXCEPT !.rels = SelectSeq(@, LAMBDA r : r.src # ROOT)]
             [] f = "notzip"    -> [ph EXCEPT !.kind = "notzip"]
             [] f = "truncated" -> [ph EXCEPT !.kind = "truncated"]
             [] f = "nopath"    -> [ph EXCEPT !.kind = "nopath"]
  /\ PrintT(<<"PKG", ToJson(ph')>>)
  /\ UNCHANGED <<pk, pk1, ph1>>
SealFaults == IF FAULTS THEN {"none", "noCT", "dropDefs", "dropOvrs", "noPkgRels", "notzip", "truncated", "nopath"} ELSE {"none"}

Open1 == stage = "sealed" /\ pk' = OpenOf(ph, "path") /\ pk1' = pk' /\ stage' = "opened1" /\ UNCHANGED <<ph, ph1>>
Save1 == stage = "opened1" /\ pk.ok /\ ph' = ImplSave(pk, RULE) /\ ph1' = ph' /\ stage' = "saved1" /\ UNCHANGED <<pk, pk1>>
Open2 == stage = "saved1" /\ pk' = OpenOf(ph, "stream") /\ stage' = "opened2" /\ UNCHANGED <<ph, pk1, ph1>>
Save2 == stage = "opened2" /\ pk.ok /\ ph' = ImplSave(pk, RULE) /\ stage' = "saved2" /\ UNCHANGED <<pk, pk1, ph1>>

DoAddPart == \E c \in CANDS : \E ch \in PartChoices(c) : AddPart(c, ch[1], ch[2], ch[3], ch[4])
DoAddRel  == \E src \in {ROOT} \cup MemNames(ph) : \E tgt \in RelTargets : \E ty \in {1, 2} : \E f \in FORMS : AddRel(src, tgt, ty, f)
DoAddExt  == \E src \in {ROOT} \cup MemNames(ph) : AddExt(src)
DoSeal    == \E f \in SealFaults : Seal(f)
Next == DoAddPart \/ DoneParts \/ DoAddRel \/ DoAddExt \/ DoSeal \/ Open1 \/ Save1 \/ Open2 \/ Save2
Spec == Init /\ [][Next]_vars
ASSUME PrintT(<<"SEGS", ToJson(DefaultSegs)>>)

\* ---- design-level invariants on the transcription
InvSaveOK        == stage \in {"saved1", "saved2"} => SaveOK(pk, ph)
InvReopenSame    == stage = "opened2" => SamePkg(pk, pk1)
InvSecondSave    == stage = "saved2" => SamePhys(ph, ph1)
InvOpenReachable == stage = "opened1" /\ pk.ok => PartNames(pk) = ReachParts(ph)
InvOutcomeClass  == stage = "opened1" /\ ~pk.ok => pk.err \in {"PackageNotFoundError", "BadZipFile", "KeyError"}
=============================================================================
