------------------------------ MODULE MC_Freeform ------------------------------
(* Freeform pens: vertices in LO..HI (negative, repeated), <= NOPS operations (several contours via move),
   scales from SCALES (num/den pairs, non-uniform), origins from ORIGINS.  Convert prints the case.        *)
EXTENDS Geometry, Json
CONSTANTS LO, HI, NOPS, NSCALE
VARIABLES c, done
Neg1 == -1
Neg2 == -2
Neg3 == -3
V == LO..HI
Scales == << <<1, 1>>, <<3, 1>>, <<914400, 100>>, <<1, 2>>, <<7, 3>>, <<12700, 1>> >>
Origins == << <<0, 0>>, <<914400, 457200>>, <<-5, 3>> >>
Init == \E sx \in V, sy \in V, i \in 1..NSCALE, j \in 1..NSCALE, o \in 1..3 :
          /\ c = [sx |-> sx, sy |-> sy, xn |-> Scales[i][1], xd |-> Scales[i][2], yn |-> Scales[j][1], yd |-> Scales[j][2],
                  ops |-> <<>>, ox |-> Origins[o][1], oy |-> Origins[o][2], cuts |-> <<>>]
          /\ done = FALSE
AddOp(op) == ~done /\ Len(c.ops) < NOPS /\ c' = [c EXCEPT !.ops = Append(@, op)] /\ UNCHANGED done
Line  == \E x \in V, y \in V : AddOp([k |-> "line", x |-> x, y |-> y])
Move  == \E x \in V, y \in V : AddOp([k |-> "move", x |-> x, y |-> y])
Close == c.ops # <<>> /\ c.ops[Len(c.ops)].k = "line" /\ AddOp([k |-> "close", x |-> 0, y |-> 0])
\* the builder is an object with a life: convert_to_shape may be called while the pen is half drawn (a "cut" after that many
\* operations) and again later - the shape of the LAST call must obey the clauses for ALL operations, whatever an earlier call computed
Snap  == ~done /\ c.ops # <<>> /\ c.ops[Len(c.ops)].k # "move" /\ Len(c.ops) < NOPS /\ c.cuts = <<>>
         /\ c' = [c EXCEPT !.cuts = <<Len(c.ops)>>] /\ UNCHANGED done
Convert == ~done /\ done' = TRUE /\ UNCHANGED c /\ PrintT(<<"CASE", ToJson(c)>>)
Next == Line \/ Move \/ Close \/ Snap \/ Convert
Spec == Init /\ [][Next]_<<c, done>>
ImplOK == done => FfFailing(c, FfImpl(c)) = {}
=============================================================================
