--------------------------- MODULE Trace_SimpleTypes ---------------------------
(* Validates the records observed from the real library against the property layer of SimpleTypes (C11).
   R.w : Seq(write record), R.r : Seq(read record)   (see SimpleTypes PART 2); every record names its pair and site.      *)
EXTENDS SimpleTypes, Json, IOUtils, SequencesExt
VARIABLE dummy
Types == JsonDeserialize(IOEnv.TYPES_FILE)
R == JsonDeserialize(IOEnv.TRACE_FILE)
W == R.w
Rd == R.r
P(r) == Types[r.pair]

BadW == {k \in DOMAIN W : WFailing(P(W[k]), W[k]) # {}}
BadE == {k \in DOMAIN W : ~EHolds(P(W[k]), W[k])}
BadRange == {k \in DOMAIN W : ~RangeAgrees(P(W[k]), W[k])}
BadR == {k \in DOMAIN Rd : ~CHolds(P(Rd[k]), Rd[k])}
ASSUME \A k \in BadW : PrintT(<<"VERDICT", ToJson([kind |-> "w", k |-> k, failing |-> WFailing(P(W[k]), W[k])])>>)
ASSUME \A k \in BadR : PrintT(<<"VERDICT", ToJson([kind |-> "r", k |-> k, failing |-> {"C"}])>>)
ASSUME \A k \in BadE : PrintT(<<"EREP", ToJson([k |-> k, judged |-> P(W[k]).judgeE])>>)
ASSUME \A k \in DOMAIN W : ~AUnvalidated(P(W[k]), W[k]) \/ PrintT(<<"AREP", ToJson([k |-> k])>>)
ASSUME \A k \in BadRange : PrintT(<<"RANGE", ToJson([k |-> k])>>)
Count(S) == Cardinality(S)
ASSUME PrintT(<<"SUMMARY", ToJson([w |-> Len(W), r |-> Len(Rd),
     rejected |-> Count(BadW) + Count(BadR) + Count({k \in BadE : P(W[k]).judgeE}),
     accepted |-> Count({k \in DOMAIN W : W[k].acc}), refused |-> Count({k \in DOMAIN W : ~W[k].acc}),
     lexValidRead |-> Count({k \in DOMAIN Rd : Rd[k].lexValid}),
     eApplies |-> Count({k \in DOMAIN W : EApplies(P(W[k]), W[k])}), eFails |-> Count(BadE),
     rangeChecked |-> Count({k \in DOMAIN W : W[k].acc /\ W[k].present /\ W[k].isInt /\ RangeDecides(P(W[k]))}),
     rangeDisagree |-> Count(BadRange), drift |-> 0])>>)
Init == dummy = 0
Next == UNCHANGED dummy
=============================================================================
