----------------------------- MODULE MC_TextBody -----------------------------
(* Every string of length <= MAXLEN over the class alphabet ALPHA, assigned at each level (frame / cell / shape,
   every paragraph, every run) onto every prior body of the family PRIORS in every container kind SITES, histories of
   up to DEPTH actions.  Checks that the Impl layer satisfies the property layer (Refines) and prints every explored
   API transition as a scenario: CASE = the history (hist[1] names the prior and the container), last element = the action.

   The string to assign is part of the state (st.buf) and is typed one class at a time (DoType, a model-internal
   step that is not an API call and does not enter the history): every string is reached exactly once per body, TLC
   spreads the states over its workers and never enumerates a set of tens of thousands of sequences.
   With VIEW ViewSt every distinct (body, buf, number of actions so far) is expanded once, so for DEPTH > 1 every
   (reachable body, action) pair is emitted with one history leading to it; st.n (the number of API actions taken) is in the
   state so that the set of emitted scenarios does not depend on the order in which TLC's workers find the states.  The driver appends the save/re-open cycles (the model's SaveReopen
   is the identity on the body, a self-loop under the view).                                                         *)
EXTENDS TextBody, Json
CONSTANTS MAXLEN, ALPHA, PRIORS, SITES, DEPTH, BUILD,
          REASSIGN     \* also assign, at frame and paragraph level, exactly the string that level READS at the moment (field same):
                       \* the documented translation applies to it like to any other string (a newline a run holds as a character
                       \* becomes a paragraph separator / a line break), the body is rebuilt, nothing may be skipped as "unchanged"
VARIABLES st, hist

Init == \E p \in PRIORS, site \in SITES :
          /\ st = [site |-> site, body |-> Prior(p, site), buf |-> <<>>, n |-> 0]
          /\ hist = << [op |-> "Prior", id |-> p, site |-> site] >>

DoType == /\ st.n < DEPTH /\ Len(st.buf) < MAXLEN
          /\ \E c \in ALPHA : st' = [st EXCEPT !.buf = Append(@, c)]
          /\ UNCHANGED hist

Step(a) == /\ st.n < DEPTH
           /\ st' = [st EXCEPT !.body = ImplBody(st.body, a), !.buf = <<>>, !.n = @ + 1]
           /\ hist' = Append(hist, a)
           /\ PrintT(<<"CASE", ToJson(hist')>>)

DoSetFrame     == st.site \in {"frame", "nobody"} /\ Step([op |-> "SetFrame", s |-> st.buf])
DoSetCell      == st.site \in {"cell", "spanned"} /\ Step([op |-> "SetCell", s |-> st.buf])     \* "spanned": the cell hidden behind a merged cell
DoSetShapeText == st.site = "shape" /\ Step([op |-> "SetShapeText", s |-> st.buf])
DoSetPara      == \E i \in 1..Len(st.body) : Step([op |-> "SetPara", i |-> i, s |-> st.buf])
DoSetRun       == \E i \in 1..Len(st.body) : \E j \in 1..Len(Runs(st.body[i])) : Step([op |-> "SetRun", i |-> i, j |-> j, s |-> st.buf])
Idle == st.buf = <<>>
DoReassignFrame == REASSIGN /\ Idle /\ Step([op |-> CASE st.site \in {"frame", "nobody"} -> "SetFrame" [] st.site \in {"cell", "spanned"} -> "SetCell" [] OTHER -> "SetShapeText",
                                                s |-> FrameText(st.body), same |-> TRUE])
DoReassignPara  == REASSIGN /\ Idle /\ \E i \in 1..Len(st.body) : Step([op |-> "SetPara", i |-> i, s |-> ParaText(st.body[i]), same |-> TRUE])
\* builders deepen the histories when BUILD (they carry no property clause; the driver replays them all the same)
DoAddPara      == BUILD /\ Idle /\ Len(st.body) < 3 /\ Step([op |-> "AddPara"])
DoAddRun       == BUILD /\ Idle /\ \E i \in 1..Len(st.body) : Len(st.body[i].items) < 4 /\ \E s \in {<<>>, <<SP>>, <<PLAIN, NL>>} : Step([op |-> "AddRun", i |-> i, s |-> s])
DoAddBreak     == BUILD /\ Idle /\ \E i \in 1..Len(st.body) : Len(st.body[i].items) < 4 /\ Step([op |-> "AddBreak", i |-> i])
DoSetParaProp  == BUILD /\ Idle /\ \E i \in 1..Len(st.body), v \in 1..3 : Step([op |-> "SetParaProp", i |-> i, v |-> v])
DoSaveReopen   == Idle /\ st.n < DEPTH /\ st' = st /\ hist' = Append(hist, [op |-> "SaveReopen"])
Next == DoType \/ DoSetFrame \/ DoSetCell \/ DoSetShapeText \/ DoSetPara \/ DoSetRun \/ DoAddPara \/ DoAddRun \/ DoAddBreak
        \/ DoSetParaProp \/ DoSaveReopen \/ DoReassignFrame \/ DoReassignPara
Spec == Init /\ [][Next]_<<st, hist>>

ViewSt == st
\* the transcription satisfies every clause of the property layer on every explored API transition
Refines == [][hist' # hist => LET a == hist'[Len(hist')] IN Post(Obs(st.body), a, Obs(st'.body))]_<<st, hist>>
\* LONG strings (the typed ones cannot hold ten paragraphs): not explored (a long body multiplies every later step, and TLC's evaluation of
\* the clauses on it is slow) but written out as one-assignment histories for the driver; Trace_TextBody judges them like all others
Rep(x, n) == [i \in 1..(n * Len(x)) |-> x[((i - 1) % Len(x)) + 1]]
LongStrings == {Rep(<<PLAIN, NL>>, 9) \o <<PLAIN>>}      \* ten paragraphs
FrameOpOf(site) == CASE site \in {"frame", "nobody"} -> "SetFrame" [] site \in {"cell", "spanned"} -> "SetCell" [] OTHER -> "SetShapeText"
LongCases == {<<[op |-> "Prior", id |-> 1, site |-> site], [op |-> FrameOpOf(site), s |-> s]>> : site \in SITES, s \in LongStrings}
ASSUME PrintT(<<"LONG", ToJson(SetToSeq(LongCases))>>)
\* the prior family, written out for the driver (single source: TextBody!PriorActs)
ASSUME PrintT(<<"PRIORS", ToJson([p \in 1..5 |-> PriorActs(p)])>>)
=============================================================================
