-------------------------------- MODULE Layout --------------------------------
(* Property C13: a new slide mirrors its layout's placeholders and inherits their geometry.

   Placeholder record (as read from the XML of a layout / master / slide by the driver, document order):
     [type : STRING, idx : Int, orient : STRING, sz : STRING, po, pe : BOOLEAN (its a:xfrm holds a:off / a:ext), own = po /\ pe, x, y, cx, cy : Int, name : STRING,
      rdo, rde : BOOLEAN (the position / size readers returned numbers), rd = rdo /\ rde, rx, ry, rcx, rcy : Int (what left/top/width/height report; 0 if None)]
   Observation of a deck:  [ slides : Seq([tok, layout : Int, phs : Seq(Ph)]), ... ]                                       *)
EXTENDS Naturals, Integers, Sequences, FiniteSets, TLC

SeqSet(s) == {s[i] : i \in DOMAIN s}
NoDup(s) == \A i, j \in DOMAIN s : i # j => s[i] # s[j]
Latent == {"dt", "ftr", "sldNum"}
NonLatent(phs) == SelectSeq(phs, LAMBDA p : p.type \notin Latent)
Key(p) == [type |-> p.type, idx |-> p.idx, orient |-> p.orient, sz |-> p.sz]
Geo(p) == <<p.x, p.y, p.cx, p.cy>>
Read(p) == <<p.rx, p.ry, p.rcx, p.rcy>>
\* the master placeholder a layout placeholder of a given type falls back to
\* (header and slide-image placeholders have no counterpart on a slide master: they inherit nothing)
MasterType(t) == CASE t \in {"title", "ctrTitle"} -> "title" [] t \in Latent -> t [] t \in {"hdr", "sldImg"} -> "none" [] OTHER -> "body"

\* candidates for what a slide placeholder with index idx may report: its layout counterpart(s) with that idx; what such a
\* counterpart does not carry itself comes from the master placeholder of the mapped type.  Geometry is inherited PAIR by pair: a
\* placeholder's a:xfrm may hold a position (a:off: po) without a size (a:ext: pe) or the reverse (schema-valid; what a setter writes
\* when only the position / only the size of a geometry-less placeholder is assigned); own = po /\ pe.
PairOf(l, mas, has(_), val(_)) ==
  IF has(l) THEN <<TRUE, val(l)>>
  ELSE LET ms == {m \in SeqSet(mas) : m.type = MasterType(l.type) /\ has(m)} IN
       IF ms = {} THEN <<FALSE, <<0, 0>>>> ELSE <<TRUE, val(CHOOSE m \in ms : TRUE)>>
HasOff(q) == q.po
HasExt(q) == q.pe
OffVal(q) == <<q.x, q.y>>
ExtVal(q) == <<q.cx, q.cy>>
Inherited(p, lay, mas) ==
  LET cs == {l \in SeqSet(lay) : l.idx = p.idx} IN
  {<<PairOf(l, mas, HasOff, OffVal), PairOf(l, mas, HasExt, ExtVal)>> : l \in cs}
\* what the geometry readers of a placeholder report, pair by pair (rdo / rde: the pair's two readers returned numbers)
ReadPairs(p) == << <<p.rdo, IF p.rdo THEN <<p.rx, p.ry>> ELSE <<0, 0>>>>, <<p.rde, IF p.rde THEN <<p.rcx, p.rcy>> ELSE <<0, 0>>>> >>

\* a = [op |-> "addSlide", l] ; s, t observations; lay/mas = placeholders of the layout used and of its master
Names == <<"PhMirror", "PhNamesUnique", "PhInherit", "NoOwnGeometry", "LastInOrder", "RelatedToLayout", "OthersUntouched">>
Holds(n, s, a, t, lay, mas) ==
  LET new == t.slides[Len(t.slides)] IN
  CASE n = "PhMirror"        -> [i \in DOMAIN new.phs |-> Key(new.phs[i])] = [i \in DOMAIN NonLatent(lay) |-> Key(NonLatent(lay)[i])]
    [] n = "PhNamesUnique"   -> NoDup([i \in DOMAIN new.phs |-> new.phs[i].name]) /\ \A p \in SeqSet(new.phs) : p.name # ""
    [] n = "PhInherit"       -> \A p \in SeqSet(new.phs) : (~p.po /\ ~p.pe) => ReadPairs(p) \in Inherited(p, lay, mas)
    [] n = "NoOwnGeometry"   -> TRUE      \* (a new placeholder may or may not carry its own xfrm; nothing is demanded)
    [] n = "LastInOrder"     -> Len(t.slides) = Len(s.slides) + 1
    [] n = "RelatedToLayout" -> new.layout = a.l
    [] n = "OthersUntouched" -> \A k \in DOMAIN s.slides : t.slides[k].tok = s.slides[k].tok /\ t.slides[k].layout = s.slides[k].layout
Failing(s, a, t, lay, mas) == {Names[i] : i \in {j \in DOMAIN Names : ~Holds(Names[j], s, a, t, lay, mas)}}

\* overriding: [op |-> "setGeom", k, j, x, y, cx, cy] then the placeholder reports its own values
OverrideOK(a, t) == LET p == t.slides[a.k].phs[a.j] IN p.own /\ p.rd /\ Read(p) = <<a.x, a.y, a.cx, a.cy>> /\ Geo(p) = Read(p)

\* notes slide: mirrors the notes master's slide image, body and slide number placeholders
NotesWanted == {"sldImg", "body", "sldNum"}
NotesOK(nphs, nmas) ==
  LET want == SelectSeq(nmas, LAMBDA p : p.type \in NotesWanted) IN
  /\ [i \in DOMAIN nphs |-> [type |-> nphs[i].type, idx |-> nphs[i].idx]] = [i \in DOMAIN want |-> [type |-> want[i].type, idx |-> want[i].idx]]
  /\ NoDup([i \in DOMAIN nphs |-> nphs[i].name])
  /\ \A p \in SeqSet(nphs) : ~p.own => \E m \in SeqSet(nmas) : m.idx = p.idx /\ ((m.own /\ p.rd /\ Read(p) = Geo(m)) \/ (~m.own /\ ~p.rd))

\* Impl layer for generated populations: what clone_layout_placeholders produces (document order, latent ones skipped)
ImplMirror(lay) == [i \in DOMAIN NonLatent(lay) |-> Key(NonLatent(lay)[i])]
=============================================================================
