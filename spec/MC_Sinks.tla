------------------------------ MODULE MC_Sinks ------------------------------
(* Every sink of the catalogue x every string of length <= MAXLEN over the class alphabet ALPHA.  The string is typed one
   class at a time (DoType, a model-internal step), so every string is reached exactly once per sink and TLC never builds the
   set of all sequences; DoStore is the API call: it prints the case [sink, s] for the driver and moves to the state the
   Impl layer predicts.  Refines: the Impl layer satisfies every clause of the property layer.
   SINKS / NOEMPTY (entry points that document the empty string as "remove", or whose file cannot be named by an extension alone)
   are written into the cfg by the check from mbt/catalog/sinks.py.                                                        *)
EXTENDS Sinks, Json
CONSTANTS SINKS, NOEMPTY, ALPHA, MAXLEN
VARIABLES st, hist

PlainTok == [elems |-> "plain", pkg |-> "plain"]
Init == \E k \in SINKS : st = [sink |-> k, buf |-> <<>>, obs |-> Fresh] /\ hist = <<>>

DoType == /\ st.obs = Fresh /\ Len(st.buf) < MAXLEN
          /\ \E c \in ALPHA : st' = [st EXCEPT !.buf = Append(@, c)]
          /\ UNCHANGED hist

Store(sink, s) == LET a == [op |-> "Store", sink |-> sink, s |-> s, want |-> s, stored |-> TRUE, plain |-> PlainTok] IN
                  /\ st' = [st EXCEPT !.obs = ImplStore(a)]
                  /\ hist' = <<a>>
                  /\ PrintT(<<"CASE", ToJson([sink |-> sink, s |-> s])>>)
DoStore == st.obs = Fresh /\ ~(st.buf = <<>> /\ st.sink \in NOEMPTY) /\ Store(st.sink, st.buf)

Next == DoType \/ DoStore
Spec == Init /\ [][Next]_<<st, hist>>
ViewSt == st
Refines == [][hist' # hist => Post(st.obs, hist'[1], st'.obs)]_<<st, hist>>
=============================================================================
