----------------------------- MODULE MC_CoreProps -----------------------------
(* Every history of exactly NASSIGN property actions (assignments, first access, lexical loads) drawn from the alphabet
   ALPHA, interleaved with NREOPEN save/re-open cycles, from each initial package of INITS.  hist is part of the state,
   so every history is a distinct state and one line is printed per history ("ST"); the leaves (all budgets used) are the
   scenarios replayed into the real library - every shorter history is a prefix of a leaf and is observed on the way.

   Refinement: every explored transition of the IMPL layer is evaluated against the PROPERTY layer; a transition that
   fails a clause is printed ("DESIGN") instead of stopping TLC, so that emission stays complete.  Such a design-level
   counterexample means something only if the real traces of the same class are rejected by Trace_CoreProps.        *)
EXTENDS CoreProps, Json, IOUtils, SequencesExt
CONSTANTS ALPHA, INITS, NASSIGN, NREOPEN
VARIABLES st, hist, na, nr
vars == <<st, hist, na, nr>>

Now == [has |-> TRUE, y |-> 2026, m |-> 10, d |-> 4, H |-> 12, M |-> 0, S |-> 0]
Neg1 == -1
NegBig == -2147483647

\* ------------------------------------------------------------------ value domains
Pure(c, L) == << <<c, L>> >>
Edge(L)    == << <<3, 1>>, <<1, L - 2>>, <<3, 1>> >>                                       \* leading and trailing white space
Mixed(L)   == << <<2, 1>>, <<4, 1>>, <<5, 1>>, <<3, 2>>, <<1, L - 10>>, <<5, 2>>, <<2, 2>>, <<4, 1>> >>
BigLens    == {254, 255, 256}
\* class 6 spells "_xABCD_" (seven characters that LOOK like an OOXML character escape; in a core property they are seven characters)
EscLike(n) == << <<6, 7 * n>> >>
TextsFull  == {<<>>} \cup {Pure(c, 1) : c \in 1..5} \cup {Pure(c, L) : c \in 1..5, L \in BigLens}
              \cup {Edge(L) : L \in BigLens} \cup {Mixed(L) : L \in BigLens} \cup {EscLike(1), EscLike(2), <<<<1, 7>>, <<6, 7>>, <<1, 2>>>>}
SetStr(p, v) == [op |-> "SetStr", p |-> p, v |-> v]

D(y, m, d, H, M, S, us) == [y |-> y, m |-> m, d |-> d, H |-> H, M |-> M, S |-> S, us |-> us]
Instants == {<<1, 1, 1, 0, 0, 0>>, <<999, 1, 2, 3, 4, 5>>, <<999, 12, 31, 23, 59, 59>>, <<1000, 1, 1, 0, 0, 0>>,
             <<1899, 12, 31, 23, 59, 59>>, <<1900, 2, 28, 23, 59, 59>>, <<1900, 3, 1, 0, 0, 0>>, <<1970, 1, 1, 0, 0, 0>>,
             <<2000, 2, 29, 12, 0, 0>>, <<2023, 1, 31, 23, 59, 59>>, <<2023, 4, 30, 0, 0, 0>>, <<2024, 2, 29, 23, 59, 59>>,
             <<2024, 12, 31, 23, 59, 59>>, <<2025, 1, 1, 0, 0, 0>>, <<2038, 1, 19, 3, 14, 8>>, <<2100, 2, 28, 23, 59, 59>>,
             <<9999, 12, 31, 23, 59, 59>>}
DatesFull == {D(i[1], i[2], i[3], i[4], i[5], i[6], us) : i \in Instants, us \in BOOLEAN}
SetDate(p, v) == [op |-> "SetDate", p |-> p, kind |-> "datetime", v |-> v]
BadDate(p, k) == [op |-> "SetDate", p |-> p, kind |-> k, v |-> D(2020, 2, 29, 1, 2, 3, FALSE)]
SetRev(k, n)  == [op |-> "SetRev", kind |-> k, n |-> n]
\* 2147483001..3 are CODES (TLC integers are 32-bit): the driver assigns and recognises 2^31, 2^53 + 1 (the first integer a double
\* cannot hold) and 10^20 for them - "revision accepts positive integers", whatever their size
RevsFull == {SetRev("int", n) : n \in {1, 2, 255, 2147483647, 0, Neg1, NegBig, 2147483001, 2147483002, 2147483003}}
            \cup {SetRev("float", 1), SetRev("float", 2), SetRev("str", 2), SetRev("none", 0), SetRev("bool", 1), SetRev("bool", 0)}

Lx(g, b, f, z) == [g |-> g, y |-> b[1], m |-> b[2], d |-> b[3], H |-> b[4], M |-> b[5], S |-> IF g = "hm" THEN 0 ELSE b[6],
                   f |-> f, tz |-> z.tz, sg |-> z.sg, hh |-> z.hh, mm |-> z.mm]
Zone(tz, sg, hh, mm) == [tz |-> tz, sg |-> sg, hh |-> hh, mm |-> mm]
NoZone == Zone("none", 1, 0, 0)
Zulu   == Zone("Z", 1, 0, 0)
Offs   == {<<0, 0>>, <<0, 1>>, <<0, 30>>, <<1, 0>>, <<5, 30>>, <<5, 45>>, <<8, 0>>, <<12, 0>>, <<13, 59>>, <<14, 0>>}
ZonesAll == {NoZone, Zulu} \cup {Zone("off", sg, o[1], o[2]) : sg \in {1, Neg1}, o \in Offs}
\* local times at (or one second before) a day / month / leap-day / year / year-1000 / range boundary
Bases == {<<2000, 1, 1, 0, 0, 0>>, <<1999, 12, 31, 23, 59, 59>>, <<2000, 3, 1, 0, 0, 0>>, <<2000, 2, 28, 23, 59, 59>>,
          <<1900, 3, 1, 0, 0, 0>>, <<1900, 2, 28, 23, 59, 59>>, <<2023, 5, 1, 0, 0, 0>>, <<2023, 4, 30, 23, 30, 0>>,
          <<1000, 1, 1, 0, 0, 0>>, <<1, 1, 1, 0, 0, 0>>, <<9999, 12, 31, 23, 59, 59>>, <<2003, 12, 31, 10, 14, 55>>,
          <<2024, 2, 29, 12, 0, 0>>}
FracBases == {<<2003, 12, 31, 10, 14, 55>>, <<1999, 12, 31, 23, 59, 59>>}
LexWhole == {Lx("full", b, 0, z) : b \in Bases, z \in ZonesAll}
LexFrac  == {Lx("full", b, f, z) : b \in FracBases, f \in {1, 3, 4, 6, 7, 9, 12}, z \in ZonesAll}   \* 7: the .NET round-trip format; xsd:dateTime bounds nothing
LexDate  == {Lx(g, b, 0, NoZone) : g \in {"y", "ym", "ymd"},
             b \in {<<2003, 12, 31, 0, 0, 0>>, <<1, 1, 1, 0, 0, 0>>, <<9999, 12, 31, 0, 0, 0>>, <<2024, 2, 29, 0, 0, 0>>, <<1000, 1, 1, 0, 0, 0>>}}
LexHm    == {Lx("hm", b, 0, z) : b \in FracBases, z \in {Zulu, Zone("off", 1, 1, 0), Zone("off", Neg1, 8, 0), Zone("off", 1, 14, 0)}}
LexFull  == LexWhole \cup LexFrac \cup LexDate \cup LexHm
LexSmall == {Lx("full", b, f, z) : b \in {<<2000, 1, 1, 0, 0, 0>>, <<1999, 12, 31, 23, 59, 59>>}, f \in {0, 3},
                                   z \in {Zulu, Zone("off", 1, 0, 1), Zone("off", Neg1, 0, 1), Zone("off", 1, 14, 0), Zone("off", Neg1, 14, 0)}}
            \cup LexDate \cup LexHm
\* every offset of whole minutes in -14:00..+14:00 across the year boundary, both directions
MinuteGrid == {<<b, sg, hh, mm>> : b \in {<<2000, 1, 1, 0, 0, 0>>, <<1999, 12, 31, 23, 59, 59>>}, sg \in {1, Neg1}, hh \in 0..14, mm \in 0..59}
LexMinutes == {Lx("full", x[1], 0, Zone("off", x[2], x[3], x[4])) : x \in {g \in MinuteGrid : g[3] * 60 + g[4] <= 840}}
Load(p, v) == [op |-> "LoadLexical", p |-> p, v |-> v]

\* ------------------------------------------------------------------ alphabets: [str, date, rev, lex] sets of action records
ValuesQuick ==
  [str  |-> {SetStr(p, v) : p \in StrProps, v \in TextsFull},
   date |-> {SetDate(p, v) : p \in DateProps, v \in DatesFull} \cup {BadDate(p, k) : p \in DateProps, k \in {"date", "none", "str", "int"}},
   rev  |-> RevsFull,
   lex  |-> {Load("created", v) : v \in LexFull} \cup {Load(p, v) : p \in {"modified", "last_printed"}, v \in LexSmall}]
ValuesThorough ==
  [ValuesQuick EXCEPT !.lex = {Load(p, v) : p \in DateProps, v \in LexFull} \cup {Load("modified", v) : v \in LexMinutes}]

Y999  == D(999, 1, 2, 3, 4, 5, FALSE)
Leap  == D(2024, 2, 29, 23, 59, 59, TRUE)
EndOfTime == D(9999, 12, 31, 23, 59, 59, FALSE)
LxYear == Lx("full", <<2000, 1, 1, 0, 0, 0>>, 0, Zone("off", 1, 5, 30))
LxFrac == Lx("full", <<1999, 12, 31, 23, 59, 59>>, 3, Zone("off", Neg1, 8, 0))
LxYmd  == Lx("ymd", <<2024, 2, 29, 0, 0, 0>>, 0, NoZone)
\* orders of 2 assignments (quick): two properties of each schema kind (dc: SimpleLiteral, cp: CT_Keywords) and one more
OrdersQuick ==
  [str  |-> {SetStr(p, v) : p \in {"title", "keywords"}, v \in {<<>>, Mixed(255), Pure(1, 256)}} \cup {SetStr("author", Pure(5, 255)), SetStr("subject", EscLike(1))},
   date |-> {SetDate(p, v) : p \in {"created", "last_printed"}, v \in {Y999, Leap}} \cup {SetDate("modified", EndOfTime), BadDate("created", "date")},
   rev  |-> {SetRev("int", 7), SetRev("int", 0), SetRev("bool", 1)},
   lex  |-> {Load("created", LxYear), Load("last_printed", LxFrac), Load("modified", LxYmd)}]
\* orders of 2 assignments (thorough): every property, accepted and refused values of each kind
OrdersWide ==
  [str  |-> {SetStr(p, Mixed(255)) : p \in StrProps} \cup {SetStr(p, v) : p \in {"title", "keywords", "version"}, v \in {<<>>, Pure(3, 1), Pure(1, 256)}},
   date |-> {SetDate(p, v) : p \in DateProps, v \in {Y999, Leap, EndOfTime}} \cup {BadDate(p, "date") : p \in DateProps},
   rev  |-> {SetRev("int", 7), SetRev("int", 2147483647), SetRev("int", 0), SetRev("bool", 1), SetRev("none", 0)},
   lex  |-> {Load(p, v) : p \in DateProps, v \in {LxYear, LxFrac, LxYmd}}]
\* orders of 3 assignments (thorough)
OrdersDeep ==
  [str  |-> {SetStr("title", Mixed(255)), SetStr("title", Pure(1, 256)), SetStr("keywords", Pure(2, 1))},
   date |-> {SetDate("created", Y999), SetDate("created", Leap), SetDate("last_printed", EndOfTime)},
   rev  |-> {SetRev("int", 7), SetRev("int", 0)},
   lex  |-> {Load("created", LxYear), Load("last_printed", LxFrac)}]

\* ------------------------------------------------------------------ the machine
InitAct(k) == [op |-> "init", kind |-> k]
Init == \E k \in INITS : /\ hist = <<InitAct(k)>>
                         /\ st = EmptyState(k # "absent")
                         /\ na = 0 /\ nr = 0
Step(a) == LET r == ImplStep(st, a, Now)
               f == PostFailing(st, a, r.out, r.t)
           IN /\ st' = r.t
              /\ hist' = Append(hist, a)
              /\ (IF f = {} THEN TRUE ELSE PrintT(<<"DESIGN", ToJson([f |-> f, op |-> a.op, cls |-> ActClass(a)])>>))
Assign(a) == Step(a) /\ na' = na + 1 /\ nr' = nr
\* the budget test stands before the quantifier: the alphabet is not even enumerated on states without budget
DoFirstAccess == na < NASSIGN /\ ~st.present /\ Assign([op |-> "FirstAccess"])
DoSetStr      == na < NASSIGN /\ \E a \in ALPHA.str : Assign(a)
DoSetDate     == na < NASSIGN /\ \E a \in ALPHA.date : Assign(a)
DoSetRev      == na < NASSIGN /\ \E a \in ALPHA.rev : Assign(a)
DoLoadLexical == na < NASSIGN /\ st.present /\ \E a \in ALPHA.lex : Assign(a)
DoSaveReopen  == na >= 1 /\ nr < NREOPEN /\ Step([op |-> "SaveReopen"]) /\ nr' = nr + 1 /\ na' = na
Next == DoFirstAccess \/ DoSetStr \/ DoSetDate \/ DoSetRev \/ DoLoadLexical \/ DoSaveReopen
Spec == Init /\ [][Next]_vars

EmitState == PrintT(<<"ST", ToJson([leaf |-> (na = NASSIGN /\ nr = NREOPEN), h |-> hist])>>)
\* type-level sanity of the Impl layer on every reachable state
TypeOK == /\ st.present \in BOOLEAN /\ st.xsd \in BOOLEAN
          /\ DOMAIN st.str = StrProps /\ DOMAIN st.date = DateProps
          /\ (~st.present => st = EmptyState(FALSE))

\* ToUtc table for every lexical form of the alphabet, cross-checked against an independent calendar by the check
AllLex == {a.v : a \in ALPHA.lex}
ASSUME IOEnv.UTC_FILE = "-" \/ JsonSerialize(IOEnv.UTC_FILE, SetToSeq({[v |-> v, u |-> ToUtc(v)] : v \in AllLex}))
=============================================================================
