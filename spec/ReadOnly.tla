------------------------------- MODULE ReadOnly -------------------------------
(* Property C12: inspecting a presentation does not change it.
   A package is observed as Seq([role, tok]) — role = part name with slide parts named by presentation position (the first
   access to the slide collection renames slide parts; C06 makes that the specified behaviour), tok = canonical XML class
   after repeatedly deleting empty attribute-less elements (exact bytes for non-XML parts).
   Trace: [id, base : Pkg (saved straight after opening), saves : Seq(Pkg) (every save made during / after the traversal),
           order : Seq(STRING)]                                                                                        *)
EXTENDS Naturals, Sequences, FiniteSets, TLC
SeqSet(s) == {s[i] : i \in DOMAIN s}
Roles(p) == {x.role : x \in SeqSet(p)}
TokOf(p, r) == (CHOOSE x \in SeqSet(p) : x.role = r).tok
Names == <<"SameParts", "ReadLeavesMeaning", "SuccessiveSavesIdentical">>
Holds(n, tr) ==
  CASE n = "SameParts"         -> \A i \in DOMAIN tr.saves : Roles(tr.saves[i]) = Roles(tr.base) /\ Len(tr.saves[i]) = Len(tr.base)
    [] n = "ReadLeavesMeaning" -> \A i \in DOMAIN tr.saves : \A r \in Roles(tr.base) \cap Roles(tr.saves[i]) : TokOf(tr.saves[i], r) = TokOf(tr.base, r)
    [] n = "SuccessiveSavesIdentical" -> \A i \in DOMAIN tr.saves : i > 1 => SeqSet(tr.saves[i]) = SeqSet(tr.saves[i-1])
Failing(tr) == {Names[i] : i \in {j \in DOMAIN Names : ~Holds(Names[j], tr)}}
Changed(tr) == {r \in Roles(tr.base) : \E i \in DOMAIN tr.saves : r \in Roles(tr.saves[i]) /\ TokOf(tr.saves[i], r) # TokOf(tr.base, r)}
=============================================================================
