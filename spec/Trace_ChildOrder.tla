--------------------------- MODULE Trace_ChildOrder ---------------------------
(* Validates child sequences OBSERVED on real python-pptx elements (C10).
   IOEnv.CASES_FILE = the extracted constants (same file MC_ChildOrder read);
   IOEnv.TRACE_FILE = [steps : Seq([id, k : case index, x : declaration index, op, s : kids before, t : kids OBSERVED after])].
   Verdict: the property layer of ChildOrder (Holds/Failing) on every observed step.  Drift: observed t differs from
   ImplStep (counted, never a verdict).                                                                              *)
EXTENDS ChildOrder, Json, IOUtils, SequencesExt, FiniteSetsExt, TLC
VARIABLE dummy
Cfg == JsonDeserialize(IOEnv.CASES_FILE)
Cases == Cfg.cases
Rr == JsonDeserialize(IOEnv.TRACE_FILE)
T == Rr.steps

CaseOf(e) == Cases[e.k]
DeclOf(e) == Cases[e.k].decls[e.x]
Bad(e) == Failing(CaseOf(e), DeclOf(e), e.s, e.op, e.t)
Drifts(e) == e.t # ImplStep(e.s, e.op, DeclOf(e))

BadSteps == {i \in DOMAIN T : Bad(T[i]) # {}}
ASSUME \A i \in BadSteps : PrintT(<<"VERDICT", ToJson([id |-> T[i].id, k |-> T[i].k, x |-> T[i].x, op |-> T[i].op,
                                                        failing |-> SetToSeq(Bad(T[i])), drift |-> Drifts(T[i])])>>)
DriftSteps == {i \in DOMAIN T : Drifts(T[i])}
ASSUME \A i \in DriftSteps : PrintT(<<"DRIFT", ToJson([id |-> T[i].id, expected |-> ImplStep(T[i].s, T[i].op, DeclOf(T[i]))])>>)
ASSUME PrintT(<<"SUMMARY", ToJson([steps |-> Len(T), rejected |-> Cardinality(BadSteps), drift |-> Cardinality(DriftSteps)])>>)
Init == dummy = 0
Next == UNCHANGED dummy
=============================================================================
