------------------------------ MODULE MC_Alloc ------------------------------
(* TLC explores, for every allocator, EVERY initial identifier set drawn from the kind's universe and every sequence of
   at most DEPTH operations (allocate, allocate by first gap, release one identifier, switch the turbo cache on) with at most
   MAXREL releases, checks the transcribed allocators against the property layer on every allocation (counterexamples are
   printed as CE records, not errors: whether the real library shows them is decided by replaying the same history), and
   prints every maximal history as an H record for mbt/drive/alloc.py to replay on the real objects.                 *)
EXTENDS Alloc, Json, SequencesExt, FiniteSetsExt
CONSTANTS KINDS, DEPTH, MAXREL
VARIABLES st, hist

T(c, n) == Tok(c, n)
\* the universe of pre-existing identifiers of a kind, and those that are always there
Universe(kind) ==
  CASE kind = "rid"      -> {T("canon", 0), T("canon", 1), T("canon", 2), T("canon", 3), T("canon", 5), T("pad", 1), T("alpha", 1)}
    [] kind = "partname" -> {T("canon", 0), T("canon", 1), T("canon", 2), T("canon", 3), T("canon", 5), T("pad", 1), T("alpha", 1)}
    [] kind = "image"    -> {T("canon", 1), T("canon", 2), T("canon", 3), T("alt", 1), T("alt", 2), T("pad", 1), T("alpha", 1)}
    [] kind = "media"    -> {T("canon", 1), T("canon", 2), T("canon", 4), T("alt", 1), T("alt", 3), T("pad", 2), T("alpha", 1)}
    [] kind = "slideid"  -> {T("canon", 256), T("canon", 257), T("canon", 258), T("canon", 300), T("canon", 2147483646), T("canon", 2147483647)}
    [] kind = "shape"    -> {T("canon", 2), T("canon", 3), T("canon", 4), T("canon", 6), T("pad", 5), T("alpha", 1)}
    [] kind = "ctn"      -> {T("canon", 2), T("canon", 3), T("canon", 7), T("pad", 4)}
Fixed(kind) == CASE kind = "shape" -> {T("canon", 1)}          \* p:spTree's own p:cNvPr id="1"
                 [] kind = "ctn"   -> {T("canon", 1)}          \* the root p:cTn
                 [] OTHER -> {}

\* identifier populations that cross a decimal-digit boundary (1..9, 1..10, 1..12, with a gap at 2 or at 10): an allocator that orders
\* identifiers as TEXT ("image10" < "image2") is right on every small set and wrong here
BigSets(kind) ==
  IF kind \in {"rid", "partname", "image", "media", "shape"}
  THEN {{T("canon", i) : i \in (1..n) \ {g}} : n \in {9, 10, 11, 12}, g \in {0, 2, 10}}
  ELSE {}
Act(op, arg, new) == [op |-> op, arg |-> arg, new |-> new]
None == T("none", 0)
\* DOCUMENT ORDER of the pre-existing identifiers (the order of the p:sldId / Relationship / shape elements, of the parts in the
\* package walk): the allocators are functions of the SET, so the result must not depend on it.  "asc" lays the identifiers down in
\* TLC's set order, "desc" in the reverse (the last element then holds a small number whose successor is taken).
\* "nested" (shape ids): the shapes that carry the pre-existing identifiers are not children of the shape tree but members of a group
\* in it, the last of them inside an mc:AlternateContent fallback: identifiers are unique in the SLIDE, wherever the element sits.
Ordered(S, ord) == IF ord = "desc" THEN Reverse(SetToSeq(S)) ELSE SetToSeq(S)
Orders(kind) == IF kind = "shape" THEN {"asc", "desc", "nested"} ELSE {"asc", "desc"}
Init == \E kind \in KINDS : \E S \in (SUBSET Universe(kind)) \cup BigSets(kind) : \E ord \in Orders(kind) :
          /\ (ord = "desc") => (Cardinality(S) >= 2 /\ S \notin BigSets(kind))
          /\ (ord = "nested") => (S # {} /\ S \notin BigSets(kind))
          /\ st = [kind |-> kind, used |-> S \cup Fixed(kind), turbo |-> 0 - 1, nrel |-> 0]
          /\ hist = <<[op |-> "init", kind |-> kind, ord |-> ord, used |-> Ordered(S \cup Fixed(kind), ord)]>>
\* (shape histories have eight kinds of step and three layings-out of the initial set: they stop one step earlier than DEPTH > 3 asks)
More == Len(hist) <= (IF st.kind = "shape" /\ DEPTH > 3 THEN 3 ELSE DEPTH)

DoAlloc(op) ==
  LET n == ImplNew(st.kind, op, st.used, st.turbo)
      new == IF n = RAISES THEN None ELSE T("canon", n)
      f == IF n = RAISES THEN {} ELSE Failing(st.kind, st.used, new, st.used \cup {new})
  IN /\ More
     /\ st' = [st EXCEPT !.used = IF n = RAISES THEN @ ELSE @ \cup {new},
                         !.turbo = IF st.kind = "shape" /\ op = "alloc" /\ @ >= 0 /\ n # RAISES THEN n ELSE @]
     /\ hist' = Append(hist, Act(op, None, new))
     /\ (f # {}) => PrintT(<<"CE", ToJson([kind |-> st.kind, used |-> SetToSeq(st.used), turbo |-> st.turbo, op |-> op, new |-> new,
                                            failing |-> SetToSeq(f), hist |-> hist])>>)
Alloc    == DoAlloc("alloc")
AllocGap == st.kind = "shape" /\ DoAlloc("allocGap")
\* a shape added INSIDE a group of the slide (the group's collection has no turbo cache of its own; with the slide's cache on, the two
\* allocators are the recorded turbo finding's business, so the action is taken with the cache off)
AllocIn  == st.kind = "shape" /\ st.turbo < 0 /\ DoAlloc("allocIn")
Release  == \E u \in st.used \ Fixed(st.kind) :
              /\ More /\ st.nrel < MAXREL
              /\ st' = [st EXCEPT !.used = @ \ {u}, !.nrel = @ + 1]
              /\ hist' = Append(hist, Act("release", u, None))
TurboOn  == /\ More /\ st.kind = "shape" /\ st.turbo < 0
            /\ st' = [st EXCEPT !.turbo = MaxOr(Digits(st.used), 0)]          \* turbo_add_enabled = True caches max_shape_id
            /\ hist' = Append(hist, Act("turbo", None, None))
\* a freeform: a builder is drawn and converted (allocFree); the SAME builder converted again places another shape of that geometry
\* (allocAgain: "multiple shapes of the same geometry") - every placement is a shape of its own with an identifier of its own
AllocFree  == st.kind = "shape" /\ DoAlloc("allocFree")
AllocAgain == st.kind = "shape" /\ (\E i \in DOMAIN hist : hist[i].op = "allocFree") /\ DoAlloc("allocAgain")
Next == Alloc \/ AllocGap \/ AllocIn \/ AllocFree \/ AllocAgain \/ Release \/ TurboOn
Spec == Init /\ [][Next]_<<st, hist>>

\* every maximal history is printed once (state = <st, hist>: a history is a state)
Emit == (Len(hist) = (IF st.kind = "shape" /\ DEPTH > 3 THEN 3 ELSE DEPTH) + 1) => PrintT(<<"H", ToJson(hist)>>)
TypeOK == st.kind \in KINDS /\ st.turbo >= 0 - 1
=============================================================================
