------------------------------ MODULE Trace_Layout ------------------------------
(* R.traces[k] = [id, lay : Seq(Seq(Ph)) (placeholders per layout), mas : Seq(Seq(Ph)) (per layout: its master's placeholders),
                  nmas : Seq(Ph) (notes master), steps : Seq([a, out, t, notes : Seq(Ph), lay : Seq(Ph) (the layout a.l as read at this step)])]                                  *)
EXTENDS Layout, Json, IOUtils, SequencesExt
VARIABLE dummy
R == JsonDeserialize(IOEnv.TRACE_FILE)
T == R.traces
StepBad(tr, k) ==
  LET s == tr.steps[k-1].t  a == tr.steps[k].a  t == tr.steps[k].t IN
  (IF tr.steps[k].out # "ok" THEN {"OperationSucceeds"}
   ELSE CASE a.op = "addSlide" -> Failing(s, a, t, tr.steps[k].lay, tr.mas[a.l])    \* the layout as it is at this addition
          [] a.op = "setGeom"  -> (IF OverrideOK(a, t) THEN {} ELSE {"OverrideReported"})
                                  \cup (IF \A k2 \in DOMAIN s.slides : k2 # a.k => t.slides[k2] = s.slides[k2] THEN {} ELSE {"OthersUntouched"})
          [] a.op = "notes"    -> IF NotesOK(tr.steps[k].notes, tr.nmas) THEN {} ELSE {"NotesMirror"}
          [] a.op = "reopen"   -> (IF [i \in DOMAIN t.slides |-> t.slides[i].phs] = [i \in DOMAIN s.slides |-> s.slides[i].phs] THEN {} ELSE {"ReopenKeepsPlaceholders"})
                                  \* "the other slides are untouched" also in the file that is written: every slide is still there, in order, with its content
                                  \cup (IF [i \in DOMAIN t.slides |-> t.slides[i].tok] = [i \in DOMAIN s.slides |-> s.slides[i].tok] THEN {} ELSE {"ReopenKeepsSlides"})
          [] OTHER -> IF Len(t.slides) = Len(s.slides) /\ \A i \in DOMAIN s.slides : i # a.k => t.slides[i].tok = s.slides[i].tok THEN {} ELSE {"OthersUntouched"})
Bad(tr) == {[at |-> "step", k |-> k, failing |-> StepBad(tr, k)] : k \in {j \in 2..Len(tr.steps) : StepBad(tr, j) # {}}}
BadT == {k \in DOMAIN T : Bad(T[k]) # {}}
ASSUME \A k \in BadT : PrintT(<<"VERDICT", ToJson([id |-> T[k].id, bad |-> Bad(T[k])])>>)
ASSUME PrintT(<<"SUMMARY", ToJson([traces |-> Len(T), rejected |-> Cardinality(BadT),
                                   steps |-> FoldLeft(LAMBDA acc, tr : acc + Len(tr.steps) - 1, 0, T)])>>)
Init == dummy = 0
Next == UNCHANGED dummy
=============================================================================
