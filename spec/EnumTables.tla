------------------------------ MODULE EnumTables ------------------------------
(* Property C20: enumerations and the preset-shape table agree with the standard.

   Tab is extracted at run time (mbt/extract/enums.py) from the live classes and the files of the standard:
     Tab.enums   : Seq([name, members : Seq([name, canonical, pyAlias, value, tok, hasTok, toXml, fromXml, roundTrip]),
                        uses : Seq([site, xsdType, hasEnum, xsdEnum : Seq(STRING), lexValid : Seq(STRING)])])
                   toXml / fromXml / roundTrip are RECORDED from the real class ("!Exc" when it raised);
                   pyAlias = a second python name of the same member object (same int value) - not a member of its own
     Tab.shapes  : Seq([member, av : Seq([n, v])])                    pptx.spec.autoshape_types
     Tab.presets : Seq([name, count, alts : Seq(Seq([n, v, isVal]))])  presetShapeDefinitions.xml, by preset name
     Tab.charts  : Seq([member, writable, plots, read, tokens : Seq([site, tok, xsdType, inEnum])])

   PART 1  a relation over the tables: named clauses, each yielding the set of offending members.
   PART 2  a trivial machine  AddAutoShape(t) / AddChart(ct) -> SaveReopen -> ReadBack  with a property layer (what the
           statement says is read back) and an Impl layer (what the code does today: from_xml takes the first member
           carrying the token, adjustments come from autoshape_types of THAT member).                               *)
EXTENDS Integers, Sequences, FiniteSets, TLC
CONSTANT Tab

Range(s) == {s[i] : i \in DOMAIN s}
\* (Tab is bound to a JsonDeserialize expression in the cfg; TLC re-evaluates a substituted constant at every reference but
\*  caches zero-arity definitions, so every access goes through these four)
TEnums   == Tab.enums
TShapes  == Tab.shapes
TPresets == Tab.presets
TCharts  == Tab.charts
Enums    == Range(TEnums)
EnumNamed(n) == CHOOSE e \in Enums : e.name = n
HasEnum(n)   == \E e \in Enums : e.name = n
\* members that have an XML value (the quantifier of the property); python-level aliases are the same object
Tok(e)   == {m \in Range(e.members) : m.hasTok /\ ~m.pyAlias}
PresetNames == {p.name : p \in Range(TPresets)}
Preset(n)   == CHOOSE p \in Range(TPresets) : p.name = n
ShapeEnum   == "MSO_AUTO_SHAPE_TYPE"
ShapeMembers == IF HasEnum(ShapeEnum) THEN Tok(EnumNamed(ShapeEnum)) ELSE {}
InSpec(mn)  == \E s \in Range(TShapes) : s.member = mn
SpecOf(mn)  == CHOOSE s \in Range(TShapes) : s.member = mn
NamesOf(av) == [i \in DOMAIN av |-> av[i].n]
ValsOf(av)  == [i \in DOMAIN av |-> av[i].v]
\* tokens the schema enumerates for a:prstGeom/@prst that the definitions file does not define (the file shipped with
\* the standard names one definition twice and so lacks "upArrow"): an inconsistency INSIDE the standard; members
\* carrying such a token are reported, not judged, by the three preset clauses.
SchemaShapeTokens == IF HasEnum(ShapeEnum) THEN UNION {Range(u.xsdEnum) : u \in Range(EnumNamed(ShapeEnum).uses)} ELSE {}
StdGap == SchemaShapeTokens \ PresetNames

\* ---------------------------------------------------------------- PART 1: the relation, clause by clause
Clauses == <<"TokenInjective", "TokenInSchemaEnum", "RoundTrip", "PresetExists", "HasTableEntry",
             "AdjNamesAndOrderEqual", "AdjDefaultsEqual", "ChartTypeInverse", "ChartTokenInSchemaEnum">>

\* every member that has an XML value maps to a DISTINCT token: offenders are the tokens shared by several members
SharedTok(e) == {m.tok : m \in {x \in Tok(e) : \E y \in Tok(e) : y.name # x.name /\ y.tok = x.tok}}
BadTokenInjective ==
  UNION {{[clause |-> "TokenInjective", enum |-> e.name, member |-> t, members |-> {m.name : m \in {x \in Tok(e) : x.tok = t}}, site |-> ""] :
            t \in SharedTok(e)} : e \in Enums}

\* ... each token belongs to the corresponding simple type's enumeration in the schema (for every attribute the
\* enumeration is declared on; a simple type without enumeration - ST_Lang = xsd:string - is asked for validity itself)
TokOk(u, m) == IF u.hasEnum THEN m.tok \in Range(u.xsdEnum) ELSE m.name \in Range(u.lexValid)
BadTokenInSchemaEnum ==
  UNION {UNION {{[clause |-> "TokenInSchemaEnum", enum |-> e.name, member |-> m.name, members |-> {m.tok}, site |-> u.site] :
            m \in {x \in Tok(e) : ~TokOk(u, x)}} : u \in Range(e.uses)} : e \in Enums}

\* ... and back to itself: to_xml(m) is m's token and from_xml of it is m (recorded from the real class)
BadRoundTrip ==
  UNION {{[clause |-> "RoundTrip", enum |-> e.name, member |-> m.name, members |-> {m.toXml, m.roundTrip}, site |-> ""] :
            m \in {x \in Tok(e) : x.toXml # x.tok \/ x.roundTrip # x.name}} : e \in Enums}

\* for every preset auto-shape type the XML preset name exists in the standard's preset shape definitions
Judged(m) == m.tok \notin StdGap
BadPresetExists ==
  {[clause |-> "PresetExists", enum |-> ShapeEnum, member |-> m.name, members |-> {m.tok}, site |-> ""] :
     m \in {x \in ShapeMembers : Judged(x) /\ x.tok \notin PresetNames}}
\* (needed for "can be added to a slide": AutoShapeType raises KeyError without an entry)
BadHasTableEntry ==
  {[clause |-> "HasTableEntry", enum |-> ShapeEnum, member |-> m.name, members |-> {m.tok}, site |-> ""] :
     m \in {x \in ShapeMembers : ~InSpec(x.name)}}
Comparable == {m \in ShapeMembers : m.tok \in PresetNames /\ InSpec(m.name)}
NamesAgree(m) == \E alt \in Range(Preset(m.tok).alts) : NamesOf(SpecOf(m.name).av) = NamesOf(alt)
\* defaults are compared where the names already agree (otherwise the positions mean nothing) and the standard's
\* default is a literal ("val N")
DefaultsAgree(m) == \E alt \in Range(Preset(m.tok).alts) :
     NamesOf(SpecOf(m.name).av) = NamesOf(alt) /\ \A i \in DOMAIN alt : alt[i].isVal => SpecOf(m.name).av[i].v = alt[i].v
BadAdjNames ==
  {[clause |-> "AdjNamesAndOrderEqual", enum |-> ShapeEnum, member |-> m.name, members |-> {m.tok}, site |-> ""] :
     m \in {x \in Comparable : ~NamesAgree(x)}}
BadAdjDefaults ==
  {[clause |-> "AdjDefaultsEqual", enum |-> ShapeEnum, member |-> m.name, members |-> {m.tok}, site |-> ""] :
     m \in {x \in Comparable : NamesAgree(x) /\ ~DefaultsAgree(x)}}

\* chart types the library can write: what PlotTypeInspector reads from the written XML is the type written
Writable == {c \in Range(TCharts) : c.writable}
BadChartInverse ==
  {[clause |-> "ChartTypeInverse", enum |-> "XL_CHART_TYPE", member |-> c.member, members |-> {c.read}, site |-> ""] :
     c \in {x \in Writable : x.read # x.member}}
BadChartTokens ==
  UNION {{[clause |-> "ChartTokenInSchemaEnum", enum |-> "XL_CHART_TYPE", member |-> c.member, members |-> {k.tok}, site |-> k.site] :
            k \in {x \in Range(c.tokens) : ~x.inEnum}} : c \in Writable}

Offenders == BadTokenInjective \cup BadTokenInSchemaEnum \cup BadRoundTrip \cup BadPresetExists \cup BadHasTableEntry
             \cup BadAdjNames \cup BadAdjDefaults \cup BadChartInverse \cup BadChartTokens
\* reported, not judged
NotJudged == {m.name : m \in {x \in ShapeMembers : ~Judged(x)}}
Evaluations == [members |-> Cardinality(UNION {{<<e.name, m.name>> : m \in Tok(e)} : e \in Enums}),
                tokenUses |-> Cardinality(UNION {UNION {{<<e.name, u.site, m.name>> : m \in Tok(e)} : u \in Range(e.uses)} : e \in Enums}),
                shapes |-> Cardinality(ShapeMembers), comparable |-> Cardinality(Comparable),
                charts |-> Cardinality(Range(TCharts)), writable |-> Cardinality(Writable)]

\* ---------------------------------------------------------------- PART 2: the machine
\* state  [phase : "empty" | "added" | "reopened" | "read", kind : "none" | "shape" | "chart", item : member name, host]
\* observed after every step  [ok, prst, gdN, apiType, adj : Seq(Int), adjExact, plots : Seq(STRING), apiChart]
\*    prst, gdN, plots from the lxml tree / the saved bytes; apiType, adj, apiChart from the public readers
InitSt == [phase |-> "empty", kind |-> "none", item |-> "", host |-> ""]
\* "sibling": the slide already holds a shape of the SAME type whose adjustments were all given other values (for a chart: a chart of
\* the same type) - a new shape still reports the definition's defaults, whatever its neighbours were made to look like
\* "partial": the shape as ANOTHER producer may have written it - its a:avLst carries the definition's guides explicitly (with the
\* default values) but in REVERSE document order (schema-valid; PowerPoint writes the complete list in definition order or none):
\* adjustments[i] is the i-th adjustment of the DEFINITION, wherever its guide sits in the document
Hosts == {"slide", "group", "sibling", "partial"}
AddAutoShape(s, t, h) == s.phase = "empty" /\ t \in {m.name : m \in ShapeMembers} /\ h \in Hosts
AfterAddShape(t, h)   == [phase |-> "added", kind |-> "shape", item |-> t, host |-> h]
AddChart(s, c, h)     == s.phase = "empty" /\ c \in {x.member : x \in Writable} /\ h \in Hosts
AfterAddChart(c, h)   == [phase |-> "added", kind |-> "chart", item |-> c, host |-> h]
SaveReopen(s) == s.phase = "added"
ReadBack(s)   == s.phase = "reopened"

MemberNamed(t) == CHOOSE m \in ShapeMembers : m.name = t
\* the standard's adjustments for a member (any definition under the preset's name)
StdAdjOk(t, adj) == LET m == MemberNamed(t) IN
   (m.tok \in PresetNames /\ Judged(m)) => \E alt \in Range(Preset(m.tok).alts) :
        Len(adj) = Len(alt) /\ \A i \in DOMAIN alt : alt[i].isVal => adj[i] = alt[i].v
StdAdjCountOk(t, n) == LET m == MemberNamed(t) IN
   (m.tok \in PresetNames /\ Judged(m)) => \E alt \in Range(Preset(m.tok).alts) : n = Len(alt)

\* Property layer: clauses on the state observed after a step of scenario (kind, item)
ObsNames == <<"Ok", "PrstIsToken", "TypeReadBack", "AdjCount", "AdjDefaults", "ChartTypeReadBack">>
ObsHolds(n, kind, item, o) ==
  CASE n = "Ok"                -> o.ok
    [] n = "PrstIsToken"       -> (o.ok /\ kind = "shape") => o.prst = MemberNamed(item).tok
    [] n = "TypeReadBack"      -> (o.ok /\ kind = "shape") => o.apiType = item
    [] n = "AdjCount"          -> (o.ok /\ kind = "shape") => StdAdjCountOk(item, Len(o.adj))
    [] n = "AdjDefaults"       -> (o.ok /\ kind = "shape" /\ StdAdjCountOk(item, Len(o.adj))) => (o.adjExact /\ StdAdjOk(item, o.adj))
    [] n = "ChartTypeReadBack" -> (o.ok /\ kind = "chart") => o.apiChart = item
ObsFailing(kind, item, o) == {ObsNames[i] : i \in {j \in DOMAIN ObsNames : ~ObsHolds(ObsNames[j], kind, item, o)}}

\* Impl layer: what the code does today, from the extracted tables
FirstWithTok(tok) == LET ms == EnumNamed(ShapeEnum).members
                         k == CHOOSE i \in DOMAIN ms : ms[i].hasTok /\ ms[i].tok = tok /\ \A j \in 1..(i-1) : ~(ms[j].hasTok /\ ms[j].tok = tok)
                     IN ms[k].canonical
ImplObs(kind, item) ==
  IF kind = "shape"
  THEN LET m == MemberNamed(item)  r == FirstWithTok(m.tok) IN
       IF InSpec(item) /\ InSpec(r)
       THEN [ok |-> TRUE, prst |-> m.tok, apiType |-> r, adj |-> ValsOf(SpecOf(r).av), adjExact |-> TRUE, apiChart |-> ""]
       ELSE [ok |-> FALSE, prst |-> "", apiType |-> "", adj |-> <<>>, adjExact |-> TRUE, apiChart |-> ""]
  ELSE [ok |-> TRUE, prst |-> "", apiType |-> "", adj |-> <<>>, adjExact |-> TRUE,
        apiChart |-> (CHOOSE c \in Writable : c.member = item).read]
\* design-level: scenarios on which the transcription does not satisfy the property layer
ImplFailing(kind, item) == ObsFailing(kind, item, ImplObs(kind, item))
Project(o) == [ok |-> o.ok, prst |-> o.prst, apiType |-> o.apiType, adj |-> o.adj, adjExact |-> o.adjExact, apiChart |-> o.apiChart]

\* ---------------------------------------------------------------- reading a token at one attribute after reading it at another
(* Several enumerations share XML tokens ("wave" is a preset shape and a pattern, "none" a tick mark, a marker style and a tick-label
   position, "b" a legend and a data-label position) and are declared on attributes of the same local name (prst, val).  "Maps ... back
   to itself": a token read through an attribute comes back as the member of THAT attribute's enumeration, whatever was read before in
   the same process.  Record (all reads of the family happen in one process, in this order):
     [attr, tok, first (site read just before), site, enum (the enumeration declared at site), ok, gotType, gotTok]                 *)
CrossNames == <<"ReadIsOfTheAttributesEnumeration">>
CrossHolds(n, r) == CASE n = "ReadIsOfTheAttributesEnumeration" -> r.ok /\ r.gotType = r.enum /\ r.gotTok = r.tok
CrossFailing(r) == {CrossNames[i] : i \in {j \in DOMAIN CrossNames : ~CrossHolds(CrossNames[j], r)}}
=============================================================================
