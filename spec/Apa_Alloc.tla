------------------------------ MODULE Apa_Alloc ------------------------------
(* Symbolic companion of Alloc.tla: Apalache checks the freshness of the transcribed allocators for EVERY set of
   pre-existing numbers drawn from a 24-element range (2^24 sets per allocator, against the 64-128 explicit subsets TLC
   enumerates and replays) and, for slide ids, from a range hugging both bounds of the value space.  The state is the set
   itself; the invariants are evaluated on the initial states (--length=0).                                         *)
EXTENDS Integers, FiniteSets
VARIABLES
  \* @type: Set(Int);
  used,
  \* @type: Set(Int);
  sids

MIN_SID == 256
MAX_SID == 2147483647
Lo == 0
Hi == 23
SidRange == (256..267) \union (2147483636..2147483647)

Init == used \in SUBSET (Lo..Hi) /\ sids \in SUBSET SidRange
Next == UNCHANGED <<used, sids>>

\* for n in range(len(xs) + 1, 0, -1): first n not in xs     (_next_rId, next_partname)
CountDownIsFresh ==
  LET top == Cardinality(used) + 1 IN
  \E n \in 1..25 : /\ n <= top /\ n \notin used
                   /\ \A m \in 1..25 : (m > n /\ m <= top) => m \in used
\* max + 1                                                    (_BaseShapes._next_shape_id; the spTree's own id 1 is always there)
MaxPlusOneIsFresh ==
  LET ids == used \union {1} IN
  \A mx \in ids : (\A z \in ids : z <= mx) => (mx + 1) \notin ids /\ mx + 1 > 0
\* first n in 1..len+1 not in xs                              (CT_GroupShape._next_shape_id)
FirstGapIsFresh ==
  LET ids == used \union {1} IN
  \E n \in 1..26 : n <= Cardinality(ids) + 1 /\ n \notin ids /\ \A m \in 1..26 : m < n => m \in ids
\* CT_SlideIdList._next_id
SlideIdFresh ==
  LET withFloor == sids \union {MIN_SID - 1} IN
  \A mx \in withFloor : (\A z \in withFloor : z <= mx) =>
     IF mx < MAX_SID THEN (mx + 1) \notin sids /\ mx + 1 >= MIN_SID /\ mx + 1 <= MAX_SID
     ELSE \E n \in MIN_SID..(MIN_SID + 24) : n \notin sids /\ n <= MIN_SID + Cardinality(sids) /\ \A m \in MIN_SID..(MIN_SID + 24) : m < n => m \in sids
Inv == CountDownIsFresh /\ MaxPlusOneIsFresh /\ FirstGapIsFresh /\ SlideIdFresh
=============================================================================
