----------------------------- MODULE Trace_ReadOnly -----------------------------
EXTENDS ReadOnly, Json, IOUtils
VARIABLE dummy
R == JsonDeserialize(IOEnv.TRACE_FILE)
T == R.traces
BadT == {k \in DOMAIN T : Failing(T[k]) # {}}
ASSUME \A k \in BadT : PrintT(<<"VERDICT", ToJson([id |-> T[k].id, failing |-> Failing(T[k]), changed |-> Changed(T[k])])>>)
ASSUME PrintT(<<"SUMMARY", ToJson([traces |-> Len(T), rejected |-> Cardinality(BadT)])>>)
Init == dummy = 0
Next == UNCHANGED dummy
=============================================================================
