---------------------------- MODULE Trace_Geometry ----------------------------
(* Validates traces observed from the real library against Geometry (C17).
   R.cxn : Seq([id, path : Seq([a, t]), steps : Seq([a, t])])     steps are applied to copies of the last path state
   R.grp : Seq([id, path : Seq([a, t])])                           t = Seq(Node) after each addition
   R.ff  : Seq([id, c, t])                                                                                       *)
EXTENDS Geometry, Json, IOUtils, SequencesExt
VARIABLE dummy
R == JsonDeserialize(IOEnv.TRACE_FILE)

CxnBad(g) == {[at |-> "path", k |-> k, failing |-> CxnFailing(IF k = 1 THEN g.path[1].t ELSE g.path[k-1].t, g.path[k].a, g.path[k].t)] :
                k \in {j \in DOMAIN g.path : CxnFailing(IF j = 1 THEN g.path[1].t ELSE g.path[j-1].t, g.path[j].a, g.path[j].t) # {}}}
         \cup {[at |-> "step", k |-> k, failing |-> CxnFailing(g.path[Len(g.path)].t, g.steps[k].a, g.steps[k].t)] :
                k \in {j \in DOMAIN g.steps : CxnFailing(g.path[Len(g.path)].t, g.steps[j].a, g.steps[j].t) # {}}}
CxnDrift(g) == Cardinality({k \in DOMAIN g.steps : g.steps[k].t # CxnImplStep(g.path[Len(g.path)].t, g.steps[k].a)})

IdsToSet(a) == [a EXCEPT !.ids = {a.ids[i] : i \in DOMAIN a.ids}]
GrpBad(g) == {[at |-> "path", k |-> k, failing |-> GrpFailing(IF k = 1 THEN <<>> ELSE g.path[k-1].t, IdsToSet(g.path[k].a), g.path[k].t)] :
                k \in {j \in DOMAIN g.path : GrpFailing(IF j = 1 THEN <<>> ELSE g.path[j-1].t, IdsToSet(g.path[j].a), g.path[j].t) # {}}}
GrpDrift(g) == Cardinality({k \in DOMAIN g.path : g.path[k].t # GrpImplStep(IF k = 1 THEN <<>> ELSE g.path[k-1].t, IdsToSet(g.path[k].a))})

BadCxn == {k \in DOMAIN R.cxn : CxnBad(R.cxn[k]) # {}}
BadGrp == {k \in DOMAIN R.grp : GrpBad(R.grp[k]) # {}}
BadFf  == {k \in DOMAIN R.ff : FfFailing(R.ff[k].c, R.ff[k].t) # {}}
ASSUME \A k \in BadCxn : PrintT(<<"VERDICT", ToJson([kind |-> "cxn", id |-> R.cxn[k].id, bad |-> CxnBad(R.cxn[k])])>>)
ASSUME \A k \in BadGrp : PrintT(<<"VERDICT", ToJson([kind |-> "grp", id |-> R.grp[k].id, bad |-> GrpBad(R.grp[k])])>>)
ASSUME \A k \in BadFf  : PrintT(<<"VERDICT", ToJson([kind |-> "ff", id |-> R.ff[k].id, bad |-> {[at |-> "convert", k |-> 1, failing |-> FfFailing(R.ff[k].c, R.ff[k].t)]}])>>)
ASSUME PrintT(<<"SUMMARY", ToJson([cxn |-> Len(R.cxn), grp |-> Len(R.grp), ff |-> Len(R.ff),
    rejected |-> Cardinality(BadCxn) + Cardinality(BadGrp) + Cardinality(BadFf),
    cxnSteps |-> FoldLeft(LAMBDA acc, g : acc + Len(g.steps) + Len(g.path), 0, R.cxn),
    grpSteps |-> FoldLeft(LAMBDA acc, g : acc + Len(g.path), 0, R.grp),
    drift |-> FoldLeft(LAMBDA acc, g : acc + CxnDrift(g), 0, R.cxn) + FoldLeft(LAMBDA acc, g : acc + GrpDrift(g), 0, R.grp)
             + Cardinality({k \in DOMAIN R.ff : R.ff[k].t # FfImpl(R.ff[k].c)})])>>)
Init == dummy = 0
Next == UNCHANGED dummy
=============================================================================
