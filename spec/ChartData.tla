------------------------------ MODULE ChartData ------------------------------
(* A chart as python-pptx builds and rewrites it (property C07): add_chart, replace_data, formatting, save / re-open.

   data  == as in ChartSheet.tla: [kind, catKind, tod, cats (forest), series : Seq([name, vals, xs, sizes])]
   chart == [ raised   : "" | exception class,
              date1904 : BOOLEAN,
              xsd      : Seq(error signature)        \* monitor: dml-chart.xsd after markup-compatibility preprocessing
              outer    : token                       \* monitor: the part without its plots (canonical XML, equality only)
              plots    : Seq([ kind  : "barChart" | ...,  tok : token (the plot without its series),
                               depth, leaf : Seq(label), flat : Seq(Seq(label)), levels : Seq(Seq([idx, lab])),   \* the read API
                               sers  : Seq([idx, order, fmt : token (c:ser without data, idx, order), name, vals]) ]) ]
   Series are always listed in plot order, then by c:order value: the order of the read API's data and of replace_data.

   PROPERTY layer: Holds / Failing over (s, a, t) — exactly the clauses of the statement; the same definitions judge the
   abstract successor ImplStep(s, a) (model checking: Refines) and the OBSERVED successor (trace validation).
   IMPL layer: ImplStep transcribes ChartXmlWriter (idx = order = position), _adjust_ser_count, _add_cloned_sers,
   _trim_ser_count_by, next_idx / next_order (max + 1) as coded today; differences from it are drift only.            *)
EXTENDS ChartSheet

PlotOf(fam) == CASE fam = "area" -> "areaChart" [] fam = "bar" -> "barChart" [] fam = "doughnut" -> "doughnutChart"
                 [] fam = "line" -> "lineChart" [] fam = "pie" -> "pieChart" [] fam = "radar" -> "radarChart"
                 [] fam = "xy" -> "scatterChart" [] fam = "bubble" -> "bubbleChart"
KindOfFam(fam) == IF fam = "xy" THEN "xy" ELSE IF fam = "bubble" THEN "bubble" ELSE "cat"

Empty == [raised |-> "", date1904 |-> FALSE, xsd |-> <<>>, outer |-> "", plots |-> <<>>]

\* ---------------------------------------------------------------- what the read API must report for `data`
NONE == "none"
ExpName(d, i) == d.series[i].name
ExpVals(d, i) == [j \in 1..SerLen(d, i) |-> IF d.series[i].vals[j] = MISSING THEN NONE ELSE d.series[i].vals[j]]
ExpDepth(d)   == IF d.kind = "cat" THEN Depth(d.cats) ELSE 0
ExpLeaf(d, d1904)   == IF d.kind # "cat" THEN <<>>
                       ELSE [j \in 1..Leaves(d.cats) |-> LabTok(d.catKind, d1904, Level(d.cats, 1)[j].lab)]
ExpFlat(d, d1904)   == IF d.kind # "cat" THEN <<>>
                       ELSE [j \in 1..Leaves(d.cats) |-> [k \in 1..Depth(d.cats) |-> LabTok(d.catKind, d1904, Flat(d.cats, j - 1)[k])]]
\* categories.levels is empty for single-level categories, leaf level first otherwise
ExpLevels(d, d1904) == IF d.kind # "cat" \/ Depth(d.cats) <= 1 THEN <<>>
                       ELSE [k \in 1..Depth(d.cats) |->
                               [j \in 1..Len(Level(d.cats, k)) |-> [idx |-> Level(d.cats, k)[j].idx,
                                                                    lab |-> LabTok(d.catKind, d1904, Level(d.cats, k)[j].lab)]]]

\* ---------------------------------------------------------------- series in plot order, then c:order
AllSers(c)  == FoldLeft(LAMBDA acc, p : acc \o p.sers, <<>>, c.plots)
SerPlots(c) == FoldLeft(LAMBDA acc, k : acc \o [j \in 1..Len(c.plots[k].sers) |-> k], <<>>, [k \in 1..Len(c.plots) |-> k])
PlotKey(p)  == <<p.kind, p.tok>>
Min2(a, b)  == IF a < b THEN a ELSE b
RECURSIVE IsSubSeq(_, _)
IsSubSeq(a, b) == IF a = <<>> THEN TRUE ELSE IF b = <<>> THEN FALSE
                  ELSE IF Head(a) = Head(b) THEN IsSubSeq(Tail(a), Tail(b)) ELSE IsSubSeq(a, Tail(b))
Distinct(seq) == \A i, j \in 1..Len(seq) : i # j => seq[i] # seq[j]

\* ---------------------------------------------------------------- PROPERTY layer
(* a == [op |-> "add", fam, data] | [op |-> "replace", data] | [op |-> "format", i] | [op |-> "reopen"] | [op |-> "load"] *)
Clauses == <<"NoRaise", "XsdValid", "XsdKept", "OnePlotFamily", "NamesAsGiven", "ValsAsGiven", "CatsAsGiven", "LevelsReadable",
             "IdxUnique", "OrderUnique", "FmtSurvives", "PlotsSurvive", "OutsideUnchanged", "ReopenSame", "FormatApplied">>
\* which clauses speak about which operation
Applies(n, s, a, t) ==
  CASE n = "NoRaise"   -> a.op \in {"add", "reopen", "format"}
                          \/ (a.op = "replace" /\ s.plots # <<>>)
                             \* a chart whose plots were all removed (the statement's own "removal of plots left without any")
                             \* has no plot family left (chart_type is undefined): what replace_data must do then is not stated
    [] t.raised # ""   -> FALSE                                      \* nothing else is judged on a refused / failed call
    [] n = "XsdValid"  -> a.op = "add"
    [] n = "XsdKept"   -> a.op \in {"replace", "reopen"} /\ t.plots # <<>>
                             \* c:plotArea needs one plot: a chart emptied by replace_data (as the statement demands) cannot be valid
    [] n = "OnePlotFamily" -> a.op = "add"
    [] n \in {"NamesAsGiven", "ValsAsGiven", "CatsAsGiven", "LevelsReadable", "IdxUnique", "OrderUnique"} -> a.op \in {"add", "replace"}
    [] n \in {"FmtSurvives", "PlotsSurvive", "OutsideUnchanged"} -> a.op = "replace"
    [] n = "ReopenSame" -> a.op = "reopen"
    [] n = "FormatApplied" -> a.op = "format"
    [] OTHER -> FALSE
SameReads(p1, p2) == p1.depth = p2.depth /\ p1.leaf = p2.leaf /\ p1.flat = p2.flat /\ p1.levels = p2.levels /\ p1.sers = p2.sers
                     /\ p1.kind = p2.kind /\ p1.tok = p2.tok
Holds(n, s, a, t) ==
  CASE n = "NoRaise"        -> t.raised = ""
    [] n = "XsdValid"       -> t.xsd = <<>>
    [] n = "XsdKept"        -> Range(t.xsd) \subseteq Range(s.xsd)              \* only validity that was there and is lost counts
    [] n = "OnePlotFamily"  -> Len(t.plots) = 1 /\ t.plots[1].kind = PlotOf(a.fam)
    [] n = "NamesAsGiven"   -> /\ Len(AllSers(t)) = NSer(a.data)
                               /\ \A i \in 1..Min2(Len(AllSers(t)), NSer(a.data)) : AllSers(t)[i].name = ExpName(a.data, i)
    [] n = "ValsAsGiven"    -> /\ Len(AllSers(t)) = NSer(a.data)
                               /\ \A i \in 1..Min2(Len(AllSers(t)), NSer(a.data)) : AllSers(t)[i].vals = ExpVals(a.data, i)
    \* every plot that holds a series reports the categories; a plot without series has nowhere to keep them
    [] n = "CatsAsGiven"    -> a.data.kind = "cat" =>
                                 \A k \in 1..Len(t.plots) : t.plots[k].sers # <<>> =>
                                    /\ t.plots[k].leaf = ExpLeaf(a.data, t.date1904)
                                    /\ t.plots[k].flat = ExpFlat(a.data, t.date1904)
    [] n = "LevelsReadable" -> a.data.kind = "cat" =>
                                 \A k \in 1..Len(t.plots) : t.plots[k].sers # <<>> =>
                                    /\ t.plots[k].depth = ExpDepth(a.data)
                                    /\ t.plots[k].levels = ExpLevels(a.data, t.date1904)
    [] n = "IdxUnique"      -> Distinct([i \in 1..Len(AllSers(t)) |-> AllSers(t)[i].idx])
    [] n = "OrderUnique"    -> Distinct([i \in 1..Len(AllSers(t)) |-> AllSers(t)[i].order])
    \* the first min(old, new) series keep their formatting, idx and order
    [] n = "FmtSurvives"    -> \A i \in 1..Min2(Min2(Len(AllSers(s)), NSer(a.data)), Len(AllSers(t))) :
                                  /\ AllSers(t)[i].fmt = AllSers(s)[i].fmt
                                  /\ AllSers(t)[i].idx = AllSers(s)[i].idx /\ AllSers(t)[i].order = AllSers(s)[i].order
    \* plots are only ever removed, never touched; a surviving series stays in its plot; a plot keeping a series stays
    [] n = "PlotsSurvive"   -> /\ IsSubSeq([k \in 1..Len(t.plots) |-> PlotKey(t.plots[k])], [k \in 1..Len(s.plots) |-> PlotKey(s.plots[k])])
                               /\ \A i \in 1..Min2(Min2(Len(AllSers(s)), NSer(a.data)), Len(AllSers(t))) :
                                     PlotKey(t.plots[SerPlots(t)[i]]) = PlotKey(s.plots[SerPlots(s)[i]])
    [] n = "OutsideUnchanged" -> t.outer = s.outer
    [] n = "ReopenSame"     -> /\ t.outer = s.outer /\ t.date1904 = s.date1904 /\ Len(t.plots) = Len(s.plots)
                               /\ \A k \in 1..Min2(Len(t.plots), Len(s.plots)) : SameReads(t.plots[k], s.plots[k])
    \* (instrumentation, not the property) Format(i) changes the token of series i and of no other
    [] n = "FormatApplied"  -> /\ Len(AllSers(t)) = Len(AllSers(s))
                               /\ \A j \in 1..Min2(Len(AllSers(t)), Len(AllSers(s))) :
                                     (AllSers(t)[j].fmt # AllSers(s)[j].fmt) <=> (j = a.i)
Failing(s, a, t) == {Clauses[k] : k \in {j \in 1..Len(Clauses) : Applies(Clauses[j], s, a, t) /\ ~Holds(Clauses[j], s, a, t)}}

\* ---------------------------------------------------------------- IMPL layer (as coded today)
ReadsOf(d, d1904, nonempty) ==
  IF nonempty THEN [depth |-> ExpDepth(d), leaf |-> ExpLeaf(d, d1904), flat |-> ExpFlat(d, d1904), levels |-> ExpLevels(d, d1904)]
  ELSE [depth |-> 0, leaf |-> <<>>, flat |-> <<>>, levels |-> <<>>]
MkPlot(kind, tok, sers, d, d1904) ==
  LET r == ReadsOf(d, d1904, sers # <<>> /\ d.kind = "cat") IN
  [kind |-> kind, tok |-> tok, depth |-> r.depth, leaf |-> r.leaf, flat |-> r.flat, levels |-> r.levels, sers |-> sers]
\* ChartXmlWriter: one plot, series i gets idx = order = i - 1 (the pie writer takes series[0] only and needs it)
ImplAdd(fam, d) ==
  IF fam = "pie" /\ NSer(d) = 0 THEN [Empty EXCEPT !.raised = "IndexError"]
  ELSE LET n == IF fam = "pie" THEN 1 ELSE NSer(d)
           sers == [i \in 1..n |-> [idx |-> i - 1, order |-> i - 1, fmt |-> "base", name |-> ExpName(d, i), vals |-> ExpVals(d, i)]]
       IN [Empty EXCEPT !.outer = "o:" \o fam, !.plots = <<MkPlot(PlotOf(fam), "p1", sers, d, FALSE)>>]
MaxOf(seq, dflt) == IF seq = <<>> THEN dflt ELSE CHOOSE m \in Range(seq) : \A x \in Range(seq) : x <= m
\* _trim_ser_count_by: drop the last `count` series (plot order, then order), then every plot without series
Trim(plots, count) ==
  LET total == FoldLeft(LAMBDA acc, p : acc + Len(p.sers), 0, plots)
      keep  == total - count
      cut   == FoldLeft(LAMBDA acc, p : [left |-> IF acc.left > Len(p.sers) THEN acc.left - Len(p.sers) ELSE 0,
                                          out  |-> Append(acc.out, [p EXCEPT !.sers = SubSeq(p.sers, 1, Min2(acc.left, Len(p.sers)))])],
                        [left |-> keep, out |-> <<>>], plots).out
  IN SelectSeq(cut, LAMBDA p : p.sers # <<>>)
\* _add_cloned_sers: `count` deep copies of the last series of the LAST plot, each with idx = max idx + 1, order = max order + 1
RECURSIVE Grow(_, _)
Grow(plots, count) ==
  IF count = 0 THEN plots
  ELSE LET all  == FoldLeft(LAMBDA acc, p : acc \o p.sers, <<>>, plots)
           lp   == plots[Len(plots)]
           src  == lp.sers[Len(lp.sers)]
           new  == [src EXCEPT !.idx = MaxOf([i \in 1..Len(all) |-> all[i].idx], -1) + 1,
                               !.order = MaxOf([i \in 1..Len(all) |-> all[i].order], -1) + 1]
       IN Grow([plots EXCEPT ![Len(plots)].sers = Append(@, new)], count - 1)
ImplReplace(s, d) ==
  LET old  == Len(AllSers(s))
      diff == NSer(d) - old
  IN IF s.plots = <<>> THEN [s EXCEPT !.raised = "IndexError"]                                    \* chart_type: self.plots[0]
     ELSE IF diff > 0 /\ s.plots[Len(s.plots)].sers = <<>> THEN [s EXCEPT !.raised = "AttributeError"]   \* last_ser is None
     ELSE LET adj == IF diff > 0 THEN Grow(s.plots, diff) ELSE IF diff < 0 THEN Trim(s.plots, -diff) ELSE s.plots
              \* _rewrite_ser_data over zip(plotArea.sers, chart_data): names and values become the data's, in order
              offs == FoldLeft(LAMBDA acc, p : Append(acc, (IF acc = <<>> THEN 0 ELSE acc[Len(acc)]) + Len(p.sers)), <<>>, adj)
              re(k) == LET base == IF k = 1 THEN 0 ELSE offs[k - 1] IN
                       MkPlot(adj[k].kind, adj[k].tok,
                              [j \in 1..Len(adj[k].sers) |-> [adj[k].sers[j] EXCEPT !.name = ExpName(d, base + j), !.vals = ExpVals(d, base + j)]],
                              d, s.date1904)
          IN [s EXCEPT !.plots = [k \in 1..Len(adj) |-> re(k)]]
ImplFormat(s, i) ==
  LET sp == SerPlots(s)
      k  == sp[i]
      j  == i - Cardinality({x \in 1..(i - 1) : sp[x] # k})
  IN [s EXCEPT !.plots[k].sers[j].fmt = "F" \o ToString(i)]
ImplStep(s, a) ==
  CASE a.op = "add" -> ImplAdd(a.fam, a.data)
    [] a.op = "replace" -> ImplReplace(s, a.data)
    [] a.op = "format" -> ImplFormat(s, a.i)
    [] OTHER -> s
\* the part of a chart the Impl layer predicts exactly from an OBSERVED predecessor (drift comparison)
Skeleton(c) == [raised |-> c.raised, plots |-> [k \in 1..Len(c.plots) |->
                   [kind |-> c.plots[k].kind, tok |-> c.plots[k].tok,
                    sers |-> [j \in 1..Len(c.plots[k].sers) |-> [idx |-> c.plots[k].sers[j].idx, order |-> c.plots[k].sers[j].order,
                                                                 fmt |-> c.plots[k].sers[j].fmt]]]]]
=============================================================================
