---------------------------- MODULE Trace_PackUri ----------------------------
(* Validates records observed from the real PackURI against the PackUri operators (C19).
   Clauses are exactly what the property states; the spelling of relative_ref is drift only.   *)
EXTENDS PackUri, Json, IOUtils
VARIABLE dummy

R == JsonDeserialize(IOEnv.TRACE_FILE)
TraceSegs == R.segs

\* ---- accessor records: [p, dir, file, ext, idx, member, rels |-> [dir, mid, of], noslash]
AccClauses == <<"Dir", "Filename", "Ext", "Idx", "Member", "RelsUri">>
AccHolds(n, r) ==
  CASE n = "Dir"      -> r.dir = Dir(r.p)
    [] n = "Filename" -> r.file = FileSeg(r.p)
    [] n = "Ext"      -> r.ext = Ext(r.p)
    [] n = "Idx"      -> (IdxJudged(FileSeg(r.p)) \/ r.p = <<>>) => r.idx = Idx(r.p)
    [] n = "Member"   -> r.member = Member(r.p)
    [] n = "RelsUri"  -> r.rels.dir = RelsUri(r.p).dir /\ r.rels.of = RelsUri(r.p).of /\ r.rels.mid = "_rels"
AccFailing(r) == {AccClauses[i] : i \in {j \in 1..Len(AccClauses) : ~AccHolds(AccClauses[j], r)}}

\* ---- relative-reference records: [b, q, ref |-> [abs, segs], back]
RelClauses == <<"RoundTripSpec", "RoundTripImpl">>
RelHolds(n, r) ==
  CASE n = "RoundTripSpec" -> Resolve(r.b, r.ref) = r.q       \* the real reference, resolved by the spec
    [] n = "RoundTripImpl" -> r.back = r.q                      \* the real reference, resolved by the real resolver
RelFailing(r) == {RelClauses[i] : i \in {j \in 1..Len(RelClauses) : ~RelHolds(RelClauses[j], r)}}
RelDrift(r)   == r.ref # RelRef(r.b, r.q)

\* ---- resolve records: [b, q, i, ref, got]
ResHolds(r) == r.got = Resolve(r.b, r.ref)

\* ---- rejection records: [s, raised]   (strings not starting with "/")
RejHolds(r) == r.raised

BadAcc == {k \in 1..Len(R.acc) : AccFailing(R.acc[k]) # {}}
BadRel == {k \in 1..Len(R.rel) : RelFailing(R.rel[k]) # {}}
BadRes == {k \in 1..Len(R.res) : ~ResHolds(R.res[k])}
BadRej == {k \in 1..Len(R.rej) : ~RejHolds(R.rej[k])}
Drift  == Cardinality({k \in 1..Len(R.rel) : RelDrift(R.rel[k])})

ASSUME \A k \in BadAcc : PrintT(<<"VERDICT", ToJson([kind |-> "acc", k |-> k, failing |-> AccFailing(R.acc[k]), rec |-> R.acc[k]])>>)
ASSUME \A k \in BadRel : PrintT(<<"VERDICT", ToJson([kind |-> "rel", k |-> k, failing |-> RelFailing(R.rel[k]), rec |-> R.rel[k],
                                                       expect |-> RelRef(R.rel[k].b, R.rel[k].q)])>>)
ASSUME \A k \in BadRes : PrintT(<<"VERDICT", ToJson([kind |-> "res", k |-> k, failing |-> {"ResolveAgrees"}, rec |-> R.res[k],
                                                       expect |-> Resolve(R.res[k].b, R.res[k].ref)])>>)
ASSUME \A k \in BadRej : PrintT(<<"VERDICT", ToJson([kind |-> "rej", k |-> k, failing |-> {"NoSlash"}, rec |-> R.rej[k]])>>)
ASSUME PrintT(<<"SUMMARY", ToJson([acc |-> Len(R.acc), rel |-> Len(R.rel), res |-> Len(R.res), rej |-> Len(R.rej),
                                   rejected |-> Cardinality(BadAcc) + Cardinality(BadRel) + Cardinality(BadRes) + Cardinality(BadRej),
                                   drift |-> Drift])>>)
Init == dummy = 0
Next == UNCHANGED dummy
=============================================================================
