---------------------------- MODULE Apa_Connector ----------------------------
(* One axis of the connector (offset p, extent d, flip f) with history variables b0/e0 holding the endpoints
   the property says it must have.  Apalache discharges the inductive step IndInv /\ Next => IndInv' for
   UNBOUNDED integers:  the moved end takes n, the other stays, the extent stays non-negative.              *)
EXTENDS Integers
VARIABLES
  \* @type: Int;
  p,
  \* @type: Int;
  d,
  \* @type: Bool;
  f,
  \* @type: Int;
  b0,
  \* @type: Int;
  e0

Abs(a) == IF a < 0 THEN -a ELSE a
Begin == IF f THEN p + d ELSE p
End   == IF f THEN p ELSE p + d

SetBegin(n) ==
  IF f THEN LET old == p + d IN LET dx == Abs(n - old) IN
       IF n >= old     THEN p' = p /\ d' = d + dx /\ f' = f
       ELSE IF dx <= d THEN p' = p /\ d' = d - dx /\ f' = f
       ELSE                 f' = FALSE /\ p' = n /\ d' = dx - d
  ELSE LET dx == Abs(n - p) IN
       IF n <= p       THEN p' = n /\ d' = d + dx /\ f' = f
       ELSE IF dx <= d THEN p' = n /\ d' = d - dx /\ f' = f
       ELSE                 f' = TRUE /\ p' = p + d /\ d' = dx - d
SetEnd(n) ==
  IF f THEN LET dx == Abs(n - p) IN
       IF n <= p       THEN p' = n /\ d' = d + dx /\ f' = f
       ELSE IF dx <= d THEN p' = n /\ d' = d - dx /\ f' = f
       ELSE                 f' = FALSE /\ p' = p + d /\ d' = dx - d
  ELSE LET old == p + d IN LET dx == Abs(n - old) IN
       IF n >= old     THEN p' = p /\ d' = d + dx /\ f' = f
       ELSE IF dx <= d THEN p' = p /\ d' = d - dx /\ f' = f
       ELSE                 f' = TRUE /\ p' = n /\ d' = dx - d

IndInv  == d >= 0 /\ b0 = Begin /\ e0 = End
IndInit == p \in Int /\ d \in Int /\ f \in BOOLEAN /\ b0 \in Int /\ e0 \in Int /\ IndInv
Next    == \E n \in Int : (SetBegin(n) /\ b0' = n /\ e0' = e0) \/ (SetEnd(n) /\ e0' = n /\ b0' = b0)
=============================================================================
