------------------------------ MODULE Trace_Table ------------------------------
(* Validates table traces observed from the real library (C14).
   R.groups[k] = [ id, h : path (h[1] = create action), created : state right after add_table,
                   path : Seq([a, out, t]) the observed states along h (path[1].t = state after the texts were set),
                   steps : Seq([a, out, same, t]) every action applied to (a copy of) the last state of the path ]    *)
EXTENDS Table, Json, IOUtils, SequencesExt
VARIABLE dummy
Rr == JsonDeserialize(IOEnv.TRACE_FILE)
G == Rr.groups

Final(g) == g.path[Len(g.path)].t
TOf(g, k) == IF g.steps[k].same THEN Final(g) ELSE g.steps[k].t

\* An object with a life: the Table object the caller obtained BEFORE the call (and read through once).  "kept" = the merge readers of
\* every cell as reached through THAT object after the call; they are the readers a fresh object gives (a view of the table, not a copy).
Flags(t) == [r \in DOMAIN t.rows |-> [c \in DOMAIN t.rows[r] |-> [o |-> t.rows[r][c].o, sp |-> t.rows[r][c].sp, sh |-> t.rows[r][c].sh, sw |-> t.rows[r][c].sw]]]
KeptFailing(kept, t) == IF WellFormed(t) /\ kept # Flags(t) THEN {"KeptObjectAgrees"} ELSE {}
\* failures of one group, as a set of records
PathF(g, k) == PostFailing(g.path[k-1].t, g.path[k].a, g.path[k].out, g.path[k].t) \cup InvFailing(g.path[k].t) \cup KeptFailing(g.path[k].kept, g.path[k].t)
StepF(g, k) == PostFailing(Final(g), g.steps[k].a, g.steps[k].out, TOf(g, k)) \cup InvFailing(TOf(g, k)) \cup KeptFailing(g.steps[k].kept, TOf(g, k))
PathBad(g) == {[at |-> "path", k |-> k, failing |-> PathF(g, k)] : k \in {j \in 2..Len(g.path) : PathF(g, j) # {}}}
StepBad(g) == {[at |-> "step", k |-> k, failing |-> StepF(g, k)] : k \in {j \in DOMAIN g.steps : StepF(g, j) # {}}}
CreateBad(g) == LET c == g.h[1] f == CreateFailing(c.r, c.c, c.w, c.h, g.created) \cup InvFailing(g.created) \cup InvFailing(g.path[1].t)
                IN IF f = {} THEN {} ELSE {[at |-> "create", k |-> 0, failing |-> f]}
Bad(g) == CreateBad(g) \cup PathBad(g) \cup StepBad(g)
DriftOf(g) == Cardinality({k \in DOMAIN g.steps : TOf(g, k) # ImplStep(Final(g), g.steps[k].a)})

BadGroups == {k \in DOMAIN G : Bad(G[k]) # {}}
ASSUME \A k \in BadGroups : PrintT(<<"VERDICT", ToJson([id |-> G[k].id, k |-> k, bad |-> Bad(G[k])])>>)
SumUp(f(_), k) == FoldLeft(LAMBDA acc, g : acc + f(g), 0, G)
NSteps(g) == Len(g.steps) + Len(g.path)
ASSUME PrintT(<<"SUMMARY", ToJson([groups |-> Len(G), rejected |-> Cardinality(BadGroups),
                                   steps |-> SumUp(NSteps, Len(G)), drift |-> SumUp(DriftOf, Len(G))])>>)
Init == dummy = 0
Next == UNCHANGED dummy
=============================================================================
