--------------------------- MODULE Trace_OpcPackage ---------------------------
(* Validates open/save/open/save traces observed from the real library against OpcPackage.
   One record per (package, form):  [id, form, api, ph0, pk1, ph2, pk3, ph4, bytesSame, slidesExp, slidesSeen, slidesReopen, slidesSTS]
   strict = TRUE for C01 inputs (all internal relationships resolve): every SaveClause is required.
   For irregular inputs (C16) the same clauses are required of what is still reachable — OpenOf
   already drops dangling relationships, so no relaxation is needed.                            *)
EXTENDS OpcPackage, Json, IOUtils, TLC
VARIABLE dummy
R == JsonDeserialize(IOEnv.TRACE_FILE)
TraceSegs == R.segs
T == R.traces

Clauses == <<"OpenAsSpec", "ExactlyReachableParts", "SameContentType", "SamePayload", "SameRelationships",
             "NoStrayRelItems", "ContentTypesPresent", "ReopenSame", "SecondSaveSame", "RefusalIsClean",
             "SlidesInOrder", "SlidesAfterSaveTouchSave">>
Holds(c, t) ==
  CASE c = "OpenAsSpec"      -> SamePkg(t.pk1, IF t.api THEN ApiOutcome(t.ph0, t.form) ELSE OpenOf(t.ph0, t.form))
    [] c = "SlidesInOrder"   -> (t.api /\ t.pk1.ok) => (t.slidesSeen = t.slidesExp /\ t.slidesReopen = t.slidesExp)
    [] c = "SlidesAfterSaveTouchSave" -> (t.api /\ t.pk1.ok) => t.slidesSTS = t.slidesExp
    [] c = "ReopenSame"      -> t.pk1.ok => SamePkg(t.pk3, t.pk1)
    [] c = "SecondSaveSame"  -> t.pk1.ok => (SamePhys(t.ph4, t.ph2) /\ t.bytesSame)
    [] c = "RefusalIsClean"  -> ~t.pk1.ok => t.pk1.err \in {"PackageNotFoundError", "BadZipFile", "KeyError", "ValueError"}
    [] OTHER                 -> t.pk1.ok => SaveHolds(c, t.pk1, t.ph2)
Failing(t) == {Clauses[i] : i \in {j \in DOMAIN Clauses : ~Holds(Clauses[j], t)}}
\* drift against the transcribed writer is measured on model-sized packages only (the depth-first transcription recurses per part)
DriftLast(t) == t.pk1.ok /\ Len(t.pk1.parts) <= 12 /\ ~SamePhys(t.ph2, ImplSave(t.pk1, "lastwins"))
DriftOvr(t)  == t.pk1.ok /\ Len(t.pk1.parts) <= 12 /\ ~SamePhys(t.ph2, ImplSave(t.pk1, "override"))

Bad == {k \in DOMAIN T : Failing(T[k]) # {}}
ASSUME \A k \in Bad : PrintT(<<"VERDICT", ToJson([id |-> T[k].id, k |-> k, failing |-> Failing(T[k])])>>)
ASSUME PrintT(<<"SUMMARY", ToJson([traces |-> Len(T), rejected |-> Cardinality(Bad),
                                   refused |-> Cardinality({k \in DOMAIN T : ~T[k].pk1.ok}),
                                   driftLastwins |-> Cardinality({k \in DOMAIN T : DriftLast(T[k])}),
                                   driftOverride |-> Cardinality({k \in DOMAIN T : DriftOvr(T[k])})])>>)
Init == dummy = 0
Next == UNCHANGED dummy
=============================================================================
