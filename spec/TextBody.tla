------------------------------ MODULE TextBody ------------------------------
(* Text bodies (a:txBody / p:txBody): text assigned at frame, cell, shape, paragraph and run level
   is the text read back, with only the documented translations (property C04).

   Characters.  TLC strings are atoms, so text is always a sequence of integer tokens.
     token  = class + 16 * variant     class in 1..15 (below), variant = which concrete representative
                                        the driver chose (all other C0 controls, several astral code points ...)
     1000+c = the "_xHHHH_" escape of the character with token c (seven plain characters in the file)
     9999   = a character the driver could not classify
   The model checker works with variant 0 only (the classes); the trace validator sees the variants the driver
   really used, so the identity of every character is checked, not only its class.

   Observation (JSON-native, this is what the driver logs after every call):
     [ body : Seq(Para),                          projected from the lxml tree of the shape
       rd   : [frame : Text, paras : Seq(Text), runs : Seq(Seq(Text))] ]     the PUBLIC .text readers
     Para = [props : Nat, items : Seq(Item)]      props: 0 = no a:pPr, 1 algn=ctr, 2 algn=r lvl=1, 3 lvl=2, 4 empty a:pPr, 9 other
     Item = [k : "r" | "br" | "fld", t : Text]    t = <<>> for "br" (uniform records keep TLC and JSON simple)

   Two layers.  PROPERTY layer: the documented translation (FrameSplit, ParaSplit, Esc, the readers) and the named
   Post clauses, which say only what the property statement says.  IMPL layer: ImplBody, what TextFrame.text /
   _Paragraph.text / _Run.text (CT_TextParagraph.append_text, _escape_ctrl_chars) build today: runs split around
   breaks, no empty runs, fresh paragraphs without properties.  A difference from the Impl layer is drift only.  *)
EXTENDS Naturals, Integers, Sequences, FiniteSets, SequencesExt, TLC

NL == 1  VT == 2  TAB == 3  CR == 4  C0 == 5  SP == 6  LT == 7  AMP == 8  GT == 9  QUOT == 10
PLAIN == 11  ASTRAL == 12  XESC == 13  C1 == 14  DEL == 15
Classes == 1..15
IsEscTok(c) == c >= 1000
Cls(c) == IF IsEscTok(c) THEN PLAIN ELSE c % 16          \* an escape is plain text in the file
E(c)   == 1000 + c

Cat(seqs) == FoldLeft(LAMBDA acc, x : acc \o x, <<>>, seqs)
Count(s, classes) == Len(SelectSeq(s, LAMBDA c : ~IsEscTok(c) /\ Cls(c) \in classes))

\* ------------------------------------------------------------------ the documented translation
\* pieces of s between separator characters (always at least one piece; k separators give k+1 pieces)
Split(s, seps) == FoldLeft(LAMBDA acc, c : IF ~IsEscTok(c) /\ Cls(c) \in seps THEN Append(acc, <<>>)
                                           ELSE [acc EXCEPT ![Len(acc)] = Append(@, c)], << <<>> >>, s)
FrameSplit(s) == Split(s, {NL})        \* frame / cell / shape: a newline separates paragraphs (a vertical tab is a break)
ParaSplit(s)  == Split(s, {NL, VT})    \* paragraph: newline and vertical tab are both line breaks

\* level in {"frame", "para", "run"}.  tabEsc chooses between two readings of the statement for TAB, see Reads.
EscCh(level, c, tabEsc) ==
  LET cl == Cls(c) IN
  CASE IsEscTok(c)      -> c
    [] cl = NL          -> IF level = "para" THEN VT ELSE c      \* para: a break, read back as VT; frame: the separator; run: a character
    [] cl = VT          -> IF level = "run" THEN E(c) ELSE VT    \* a break, read back as VT; inside a run it is escaped
    [] cl = TAB         -> IF tabEsc THEN E(c) ELSE c
    [] cl \in {CR, C0}  -> E(c)                                  \* every other C0 control becomes _xHHHH_
    [] OTHER            -> c                                     \* markup characters, astral, C1, DEL, "_x000A_"-looking text: unchanged
EscWith(level, s, tabEsc) == [i \in 1..Len(s) |-> EscCh(level, s[i], tabEsc)]
Esc(level, s) == EscWith(level, s, FALSE)
(* AMBIGUITY, both readings accepted: the statement says "every other C0 control character ... becomes its _xHHHH_
   escape" after naming only newline and vertical tab, which read literally includes TAB; the documentation the
   statement refers to ("changed only as documented": docstrings of TextFrame.text, _Run.text, _escape_ctrl_chars)
   says tab is not escaped.  A read-back with every TAB kept or with every TAB escaped satisfies ReadBack.       *)
Reads(level, s) == {EscWith(level, s, FALSE), EscWith(level, s, TRUE)}

\* readers, defined on the body
Br == [k |-> "br", t |-> <<>>]
Run(t) == [k |-> "r", t |-> t]
ItemText(it) == IF it.k = "br" THEN <<VT>> ELSE it.t
ParaText(p)  == Cat([m \in 1..Len(p.items) |-> ItemText(p.items[m])])
JoinNL(ts)   == IF ts = <<>> THEN <<>> ELSE FoldLeft(LAMBDA acc, x : acc \o <<NL>> \o x, Head(ts), Tail(ts))
FrameText(b) == JoinNL([k \in 1..Len(b) |-> ParaText(b[k])])
Runs(p)      == SelectSeq(p.items, LAMBDA it : it.k = "r")
RunText(it)  == it.t
RunTexts(p)  == [j \in 1..Len(Runs(p)) |-> RunText(Runs(p)[j])]
Readers(b)   == [frame |-> FrameText(b), paras |-> [k \in 1..Len(b) |-> ParaText(b[k])], runs |-> [k \in 1..Len(b) |-> RunTexts(b[k])]]
Obs(b)       == [body |-> b, rd |-> Readers(b), rdk |-> Readers(b).paras]     \* rdk: the paragraph texts read through a TextFrame object
                                                                              \* obtained BEFORE the call (one text body, one text)

BrCount(p)   == Len(SelectSeq(p.items, LAMBDA it : it.k = "br"))
RunIx(p, j)  == SelectSeq([m \in 1..Len(p.items) |-> m], LAMBDA m : p.items[m].k = "r")[j]     \* item index of the j-th a:r

\* whitespace profile <<leading, trailing, total>> of blanks and tabs (breaks are structure, counted by BreakPerBreak)
IsWs(c) == c = E(TAB) \/ (~IsEscTok(c) /\ Cls(c) \in {SP, TAB})
Lead(x) == LET F[i \in 0..Len(x)] == IF i = 0 THEN 0 ELSE IF F[i-1] = i - 1 /\ IsWs(x[i]) THEN i ELSE F[i-1] IN F[Len(x)]
WsProfile(x) == <<Lead(x), Lead(Reverse(x)), Len(SelectSeq(x, IsWs))>>

\* ------------------------------------------------------------------ actions
\* [op |-> "SetFrame" | "SetCell" | "SetShapeText", s]     TextFrame.text / _Cell.text / Shape.text  = s
\* [op |-> "SetPara", i, s]     paragraphs[i].text = s        [op |-> "SetRun", i, j, s]   paragraphs[i].runs[j].text = s
\* [op |-> "AddPara"]  [op |-> "AddRun", i, s]  [op |-> "AddBreak", i]  [op |-> "SetParaProp", i, v]      (public API)
\* [op |-> "AddField", i]   an a:fld (and a:endParaRPr) written into the tree directly: stands for PowerPoint-authored content
\* [op |-> "SaveReopen"]
IsFrameOp(a) == a.op \in {"SetFrame", "SetCell", "SetShapeText"}
IsAssign(a)  == IsFrameOp(a) \/ a.op \in {"SetPara", "SetRun"}
ValidPara(o, i)   == i >= 1 /\ i <= Len(o.body) /\ i <= Len(o.rd.paras) /\ i <= Len(o.rd.runs)
ValidRun(o, i, j) == ValidPara(o, i) /\ j >= 1 /\ j <= Len(Runs(o.body[i])) /\ j <= Len(o.rd.runs[i])

\* ------------------------------------------------------------------ PROPERTY layer: named clauses on observations s --a--> t
PostNames == <<"ReadBack", "WhitespaceKept", "ParaPerSegment", "BreakPerBreak", "KeepsProps", "OthersKept",
               "ReopenSameText", "ReopenWhitespace", "KeptObjectAgrees">>
RunProfiles(o) == [k \in 1..Len(o.rd.runs) |-> [j \in 1..Len(o.rd.runs[k]) |-> WsProfile(o.rd.runs[k][j])]]
Holds(n, s, a, t) ==
  CASE n = "ReadBack" ->            \* the reader of the level assigned to returns the string, translated as documented for that level
         CASE IsFrameOp(a)     -> t.rd.frame \in Reads("frame", a.s)
           [] a.op = "SetPara" -> ValidPara(t, a.i) /\ t.rd.paras[a.i] \in Reads("para", a.s)
           [] a.op = "SetRun"  -> ValidRun(t, a.i, a.j) /\ t.rd.runs[a.i][a.j] \in Reads("run", a.s)
           [] OTHER            -> TRUE
    [] n = "WhitespaceKept" ->      \* leading, trailing and whitespace-only content is kept
         CASE IsFrameOp(a)     -> WsProfile(t.rd.frame) = WsProfile(a.s)
           [] a.op = "SetPara" -> ValidPara(t, a.i) /\ WsProfile(t.rd.paras[a.i]) = WsProfile(a.s)
           [] a.op = "SetRun"  -> ValidRun(t, a.i, a.j) /\ WsProfile(t.rd.runs[a.i][a.j]) = WsProfile(a.s)
           [] OTHER            -> TRUE
    [] n = "ParaPerSegment" ->      \* exactly one paragraph per frame-level segment, holding that segment
         IsFrameOp(a) => LET segs == FrameSplit(a.s) IN
                           /\ Len(t.body) = Len(segs)
                           /\ \A k \in 1..Len(segs) : ParaText(t.body[k]) \in Reads("frame", segs[k])
    [] n = "BreakPerBreak" ->       \* one line-break element per break (none is made at run level: both stay characters)
         CASE IsFrameOp(a)     -> LET segs == FrameSplit(a.s) IN
                                    Len(t.body) = Len(segs) /\ \A k \in 1..Len(segs) : BrCount(t.body[k]) = Count(segs[k], {VT})
           [] a.op = "SetPara" -> ValidPara(t, a.i) /\ BrCount(t.body[a.i]) = Count(a.s, {NL, VT})
           [] a.op = "SetRun"  -> Len(t.body) = Len(s.body) /\ \A k \in 1..Len(s.body) : BrCount(t.body[k]) = BrCount(s.body[k])
           [] OTHER            -> TRUE
    [] n = "KeepsProps" ->          \* paragraph-level assignment keeps that paragraph's properties
         a.op = "SetPara" => ValidPara(t, a.i) /\ ValidPara(s, a.i) /\ t.body[a.i].props = s.body[a.i].props
    [] n = "OthersKept" ->          \* ... and the other paragraphs.  Run level: the string is assigned to that run, so the frame condition
                                    \* is the rest of the body (DESIGN C04: "SetRun keeps everything else"); only the run's own text may change
         CASE a.op = "SetPara" -> Len(t.body) = Len(s.body) /\ \A k \in 1..Len(s.body) : k # a.i => t.body[k] = s.body[k]
           [] a.op = "SetRun"  -> /\ Len(t.body) = Len(s.body) /\ ValidRun(s, a.i, a.j)
                                  /\ \A k \in 1..Len(s.body) : k # a.i => t.body[k] = s.body[k]
                                  /\ t.body[a.i].props = s.body[a.i].props
                                  /\ Len(t.body[a.i].items) = Len(s.body[a.i].items)
                                  /\ \A m \in 1..Len(s.body[a.i].items) :
                                        IF m = RunIx(s.body[a.i], a.j) THEN t.body[a.i].items[m].k = "r"
                                        ELSE t.body[a.i].items[m] = s.body[a.i].items[m]
           [] OTHER            -> TRUE
    [] n = "ReopenSameText" ->      \* the same text is read after saving and re-opening (every reader, every level)
         a.op = "SaveReopen" => t.rd = s.rd
    [] n = "ReopenWhitespace" ->    \* ... whitespace-only and leading/trailing blanks included
         a.op = "SaveReopen" => WsProfile(t.rd.frame) = WsProfile(s.rd.frame) /\ RunProfiles(t) = RunProfiles(s)
    [] n = "KeptObjectAgrees" ->    \* "the text read back": through whichever object of that text body it is read - a text frame the caller
                                    \* obtained before the call reads what a fresh one reads (it is a view of the shape, not a copy)
         t.rdk = t.rd.paras
Failing(s, a, t) == {PostNames[i] : i \in {j \in DOMAIN PostNames : ~Holds(PostNames[j], s, a, t)}}
Post(s, a, t) == Failing(s, a, t) = {}

\* ------------------------------------------------------------------ IMPL layer: what the code builds today (drift only)
\* CT_TextParagraph.append_text: split on \n|\v, a:br between pieces, no a:r for an empty piece; a:t text escaped as in a run
AppendText(s) == LET ps == ParaSplit(s) IN
                 Cat([m \in 1..Len(ps) |-> (IF m > 1 THEN <<Br>> ELSE <<>>) \o
                                           (IF ps[m] # <<>> THEN <<Run(Esc("run", ps[m]))>> ELSE <<>>)])
Fld == [k |-> "fld", t |-> <<LT, PLAIN, GT>>]
ImplBody(b, a) ==
  CASE IsFrameOp(a)          -> LET segs == FrameSplit(a.s) IN [k \in 1..Len(segs) |-> [props |-> 0, items |-> AppendText(segs[k])]]
    [] a.op = "SetPara"      -> [b EXCEPT ![a.i].items = AppendText(a.s)]                  \* clear() keeps a:pPr
    [] a.op = "SetRun"       -> [b EXCEPT ![a.i].items[RunIx(b[a.i], a.j)].t = Esc("run", a.s)]
    [] a.op = "AddPara"      -> Append(b, [props |-> 0, items |-> <<>>])
    [] a.op = "AddRun"       -> [b EXCEPT ![a.i].items = Append(@, Run(Esc("run", a.s)))]
    [] a.op = "AddBreak"     -> [b EXCEPT ![a.i].items = Append(@, Br)]
    [] a.op = "AddField"     -> [b EXCEPT ![a.i].items = Append(@, Fld)]
    [] a.op = "SetParaProp"  -> [b EXCEPT ![a.i].props = a.v]
    [] a.op = "SaveReopen"   -> b

\* ------------------------------------------------------------------ the family of prior body states (built by the driver with these actions)
\* a new text box / table cell holds one empty paragraph; a new autoshape's paragraph already has <a:pPr algn="ctr"/>
\* (site "nobody": a p:sp without a p:txBody - the first touch of its text_frame gives it a body with one empty paragraph)
Empty(site) == << [props |-> IF site = "shape" THEN 1 ELSE 0, items |-> <<>>] >>
PriorActs(p) ==
  CASE p = 1 -> <<>>                                                                       \* one empty paragraph
    [] p = 2 -> << [op |-> "AddRun", i |-> 1, s |-> <<PLAIN, SP>>], [op |-> "SetParaProp", i |-> 1, v |-> 2],        \* several paragraphs with properties
                   [op |-> "AddPara"], [op |-> "AddRun", i |-> 2, s |-> <<SP>>], [op |-> "AddRun", i |-> 2, s |-> <<AMP, PLAIN>>],
                   [op |-> "SetParaProp", i |-> 2, v |-> 1], [op |-> "AddPara"], [op |-> "SetParaProp", i |-> 3, v |-> 3] >>
    [] p = 3 -> << [op |-> "AddRun", i |-> 1, s |-> <<PLAIN>>], [op |-> "AddBreak", i |-> 1], [op |-> "AddField", i |-> 1],   \* a field and breaks
                   [op |-> "AddBreak", i |-> 1], [op |-> "AddRun", i |-> 1, s |-> <<>>], [op |-> "SetParaProp", i |-> 1, v |-> 3] >>
    [] p = 4 -> << [op |-> "AddBreak", i |-> 1], [op |-> "AddRun", i |-> 1, s |-> <<SP, PLAIN>>], [op |-> "SetParaProp", i |-> 1, v |-> 1],  \* begins with a break
                   [op |-> "AddPara"], [op |-> "AddBreak", i |-> 2] >>
    [] p = 5 -> << [op |-> "AddRun", i |-> 1, s |-> <<PLAIN, NL, PLAIN>>], [op |-> "AddPara"],                       \* runs that hold a newline / a tab as plain characters
                   [op |-> "AddRun", i |-> 2, s |-> <<SP, NL>>], [op |-> "AddRun", i |-> 2, s |-> <<TAB, PLAIN>>] >>
Prior(p, site) == FoldLeft(LAMBDA b, a : ImplBody(b, a), Empty(site), PriorActs(p))
=============================================================================
