---------------------------- MODULE MC_ChildOrder ----------------------------
(* Init IS the quantifier of C10: every case (registered class x XSD type) x every declared insertable child x the
   sibling contexts
       one other permitted child (each) | all later children | all earlier children | all permitted children
       | for repeatable mixed content (a:p r/br/fld, p:spTree shapes) every ordering of two kinds
       | duplicates of a ZeroOrOne child (for "remove removes all")
       | two members of one choice group, each ordered pair (for "change to leaves exactly one")
       | SUBSETS: for element types with <= MAXSLOTS slots every schema-permitted subset of the slots (thorough)
   and only schema-PERMITTED ones: required slots are always populated (except the slot of the child being added), an
   exclusive (non-repeatable choice) slot contributes exactly one alternative - each in turn (rotation j).
   Next applies every generated method of every declaration of the class (Impl layer).  "Insert after insert" (DEPTH 2):
   a state one Impl step away from a context is expanded too (operations L2OPS, element types of at most L2MAXSLOTS
   slots); its successors all collapse into one Sink state, so that (VIEW = st) the states expanded are exactly the
   contexts and their successors, each once, whatever the worker interleaving - the set of transitions is deterministic.
   TLC evaluates the property layer on every Impl transition; nothing stops at the first counterexample: each is printed
   as a CEX record and every transition is printed as a TR tuple, to be replayed on the real element.               *)
EXTENDS ChildOrder, Json, IOUtils, SequencesExt, FiniteSetsExt, TLC
CONSTANTS DEPTH, SUBSETS, MAXSLOTS, L2OPS, L2MAXSLOTS
VARIABLES st, depth

Cfg == JsonDeserialize(IOEnv.CASES_FILE)
Cases == Cfg.cases

N(c) == Len(c.slots)
MaxAlt(c) == Max({1} \cup {Len(c.slots[i].alts) : i \in DOMAIN c.slots} \cup {c.slots[i].br : i \in DOMAIN c.slots})
\* rotation j: the j-th alternative of every slot (modulo its number of alternatives)
Pick(c, i, j) == LET a == c.slots[i].alts IN a[((j - 1) % Len(a)) + 1]
\* refined choices: only one alternative may be populated - the one of the child to be added, else rotation j
NBr(c, a) == Max({c.slots[i].br : i \in {x \in DOMAIN c.slots : c.slots[x].alt = a}})
ChosenBr(c, a, k, j) == IF k # 0 /\ c.slots[k].alt = a THEN c.slots[k].br ELSE ((j - 1) % NBr(c, a)) + 1
BranchOK(c, i, k, j) == c.slots[i].alt = 0 \/ c.slots[i].br = ChosenBr(c, c.slots[i].alt, k, j)
\* slots in S populated, plus every required slot other than k (k = slot of the child to be added, 0 = none)
Base(c, k, S, j) == [i \in 1..N(c) |-> IF (i \in S \/ (c.slots[i].req /\ i # k)) /\ BranchOK(c, i, k, j) THEN Pick(c, i, j) ELSE <<>>]
Flat(f) == FlattenSeq(f)
With(f, i, v) == [f EXCEPT ![i] = v]

OwnSlots(c) == {Rk(c, c.decls[x].child) : x \in DOMAIN c.decls}
Later(c, k) == {i \in 1..N(c) : i > k}
Earlier(c, k) == {i \in 1..N(c) : i < k}
All(c) == 1..N(c)
Rots(c) == 1..MaxAlt(c)

FamSets(c, k) ==       \* nothing else | all later | all earlier | all permitted - each without and with the own slot
  {Flat(Base(c, k, S, j)) : S \in {{}, Later(c, k), Earlier(c, k), All(c) \ {k},                      \* (own slot populated:
                                   {k}, Later(c, k) \cup {k}, Earlier(c, k) \cup {k}, All(c)}, j \in Rots(c)} \* change-to, idempotence)
SameAlternative(c, i, k) == c.slots[i].alt = 0 \/ c.slots[i].alt # c.slots[k].alt \/ c.slots[i].br = c.slots[k].br
FamOne(c, k) ==        \* one other permitted child, each (an exclusive slot: each alternative); own slot empty / populated
  UNION {{Flat(With(Base(c, k, {}, 1), i, c.slots[i].singles[x])) : x \in DOMAIN c.slots[i].singles} : i \in 1..N(c)}
  \cup UNION {{Flat(With(Base(c, k, {k}, j), i, c.slots[i].singles[x])) : x \in DOMAIN c.slots[i].singles, j \in DOMAIN c.slots[k].alts}
                : i \in {y \in 1..N(c) : SameAlternative(c, y, k)}}
MixedSlots(c) == {i \in 1..N(c) : Len(c.slots[i].pairs) >= 2}
FamPairs(c, k) ==      \* repeatable mixed content: every ordering of two kinds, alone and among all other children
  UNION {{Flat(With(Base(c, k, S, 1), i, <<c.slots[i].pairs[x], c.slots[i].pairs[y]>>)) :
            x \in DOMAIN c.slots[i].pairs, y \in DOMAIN c.slots[i].pairs, S \in {{}, All(c)}} : i \in MixedSlots(c)}
FamDup(c) ==           \* the child twice (not schema-permitted; only RemoveRemovesAll is judged there)
  UNION {{Flat(With(Base(c, Rk(c, c.decls[x].child), S, 1), Rk(c, c.decls[x].child), <<c.decls[x].child, c.decls[x].child>>)) : S \in {{}, All(c)}}
           : x \in {y \in DOMAIN c.decls : c.decls[y].kind = "ZeroOrOne"}}
FamDupChoice(c) ==     \* two different members of one choice group (not schema-permitted; "change to leaves exactly one" is judged)
  UNION {{Flat(With(Base(c, Rk(c, c.decls[x].child), S, 1), Rk(c, c.decls[x].child), <<c.decls[x].group[a], c.decls[x].group[b]>>)) :
            S \in {{}, All(c)}, a \in DOMAIN c.decls[x].group, b \in DOMAIN c.decls[x].group}
           : x \in {y \in DOMAIN c.decls : c.decls[y].kind = "Choice" /\ Known(c, c.decls[y].child) /\ Len(c.decls[y].group) >= 2}}
FamSubsets(c, k) ==    \* every schema-permitted subset of the slots
  IF SUBSETS /\ N(c) <= MAXSLOTS THEN {Flat(Base(c, k, S, j)) : S \in SUBSET All(c), j \in Rots(c)} ELSE {}

Contexts(c) == FamDup(c) \cup FamDupChoice(c) \cup UNION {FamSets(c, k) \cup FamOne(c, k) \cup FamPairs(c, k) \cup FamSubsets(c, k) : k \in OwnSlots(c)}

\* constant-level table (TLC evaluates a constant definition once)
CtxOf == [k \in DOMAIN Cases |-> Contexts(Cases[k])]
Init == /\ depth = 0
        /\ \E k \in DOMAIN Cases : \E kids \in CtxOf[k] : st = [cls |-> k, kids |-> kids]
Sink == [cls |-> 0, kids |-> <<>>]

Step(op, x) ==
  LET c == Cases[st.cls]
      d == c.decls[x]
      t == ImplStep(st.kids, op, d)
      jd == OrderedJudged(c, d, st.kids, op)
      f == FailingJ(c, d, st.kids, op, t, jd)
  IN /\ st # Sink /\ depth < DEPTH
     /\ (depth = 0 \/ (op \in L2OPS /\ N(c) <= L2MAXSLOTS))   \* "insert after insert": what is applied to a state reached by one
     /\ InSeq(d.ops, op)
     /\ OpEnabled(c, d, st.kids, op)
     /\ st' = IF depth = 0 THEN [st EXCEPT !.kids = t] ELSE Sink
     /\ depth' = depth + 1
     /\ PrintT(<<"TR", ToJson(<<st.cls, x, op, st.kids, t, SetToSeq(f), jd>>)>>)
     /\ (f # {}) => PrintT(<<"CEX", ToJson([tag |-> c.tag, cls |-> c.cls, xtype |-> c.xtype, child |-> d.child, op |-> op,
                                             successors |-> d.succ, context |-> st.kids, result |-> t, failing |-> SetToSeq(f)])>>)

Decls == IF st = Sink THEN {} ELSE DOMAIN Cases[st.cls].decls
DoInsert    == \E x \in Decls : Step("Insert", x)
DoAdd       == \E x \in Decls : Step("Add", x)
DoPublicAdd == \E x \in Decls : Step("PublicAdd", x)
DoGetOrAdd  == \E x \in Decls : Step("GetOrAdd", x)
DoRemoveAll == \E x \in Decls : Step("RemoveAll", x)
DoChangeTo  == \E x \in Decls : Step("ChangeTo", x)
DoHand      == \E x \in Decls : Step("Hand", x)
DoHandGetOrAdd == \E x \in Decls : Step("HandGetOrAdd", x)
Next == DoInsert \/ DoAdd \/ DoPublicAdd \/ DoGetOrAdd \/ DoRemoveAll \/ DoChangeTo \/ DoHand \/ DoHandGetOrAdd
Spec == Init /\ [][Next]_<<st, depth>>
ViewSt == st

\* sanity of the extracted constants and of the context builder: every initial context is schema-permitted for the
\* child whose family it belongs to, or is a duplicate context (checked as an invariant on depth-0 states)
TypeOK == /\ st = Sink \/ st.cls \in DOMAIN Cases
          /\ depth \in 0..DEPTH
InitPermitted == depth = 0 => LET c == Cases[st.cls]
                              IN \/ \E x \in DOMAIN c.decls : PermittedFor(c, st.kids, c.decls[x].child)
                                 \/ st.kids \in FamDup(c) \cup FamDupChoice(c)

ASSUME PrintT(<<"NCASES", ToJson([cases |-> Len(Cases), decls |-> FoldLeft(LAMBDA a, c : a + Len(c.decls), 0, Cases),
                                  contexts |-> FoldLeft(LAMBDA a, k : a + Cardinality(CtxOf[k]), 0, [k \in DOMAIN Cases |-> k])])>>)
=============================================================================
