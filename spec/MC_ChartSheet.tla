--------------------------- MODULE MC_ChartSheet ---------------------------
(* Domain generator + spec-level theorems for ChartSheet (C08).  TLC checks the column-letter bijection on the
   whole domain 1..16384 and the layout theorems on every enumerated data shape, then writes the shapes the
   driver turns into real chart data (add_chart and replace_data) — and the column table the real
   _column_reference is compared with.                                                                       *)
EXTENDS ChartShapes, Json, IOUtils
CONSTANTS MAXLEAF,      \* leaf bound of the enumerated category trees
          SMALLN,       \* series counts crossed with every category shape
          BIGN,         \* series counts crossing the Z / ZZ column boundaries (few category shapes)
          XYN,          \* max number of XY / bubble series (every length sequence over XYLENS)
          XYLENS,
          LONG          \* TRUE: add shapes with hundreds of points
VARIABLE dummy

Forests(d) == {f \in UNION {[1..b -> ShapesOfDepth(d)] : b \in 1..3} : SumLeaves(f) <= MAXLEAF}
\* ---- category choices: [catKind, cats]
StrCats ==
  LET per(d) == LET fs == SetToSeq(Forests(d)) IN
                {[catKind |-> "str", cats |-> LabelNodes(fs[k], 0, 1, IF d = 1 THEN k - 1 ELSE (k % 3))] : k \in 1..Len(fs)}
                \cup (IF d = 1 THEN {[catKind |-> "str", cats |-> LabelNodes(fs[k], 0, 1, 3)] : k \in 1..Len(fs)} ELSE {})
  IN UNION {per(d) : d \in 1..4}
NumCats  == {[catKind |-> "num", cats |-> [j \in 1..n |-> Leaf(Num(2, j))]] : n \in 1..3}
            \cup {[catKind |-> "num", cats |-> <<Leaf("n:-3"), Leaf("n:0"), Leaf("n:2.5"), Leaf("n:0.1")>>]}     \* a zero that is not the first label
            \cup {[catKind |-> "num", cats |-> <<Leaf("n:0"), Leaf("n:0.5"), Leaf("n:1")>>]}                       \* ... and one that is
DateSeqs == {<<"d:1900-02-28">>, <<"d:1900-02-28", "d:1900-03-01">>, <<"d:1900-03-01", "d:1900-02-28", "d:1900-01-01">>,
             <<"d:1899-12-31", "d:1900-01-01", "d:1900-02-28", "d:1900-03-01", "d:1900-03-02">>,
             <<"d:2000-02-29", "d:2024-12-31", "d:1904-01-01">>}
DateCats == {[catKind |-> "date", cats |-> [j \in 1..Len(s) |-> Leaf(s[j])]] : s \in DateSeqs}
TodCat   == [catKind |-> "date", cats |-> <<Leaf("d:2000-02-29"), Leaf("d:2024-12-31"), Leaf("d:1900-01-01")>>]
CatChoices == StrCats \cup NumCats \cup DateCats
BigCatChoices ==
  {[catKind |-> "str", cats |-> <<Leaf(STok("plain", 1)), Leaf(STok("eq", 2))>>],
   [catKind |-> "str", cats |-> LabelNodes(<< << <<>>, <<>> >>, << <<>> >> >>, 0, 1, 0)],                       \* 2 levels, ragged
   [catKind |-> "str", cats |-> LabelNodes(<< << << << <<>> >> >>, << << <<>>, <<>> >> >> >> >>, 0, 1, 0)]}      \* 4 levels

SmallCat == {CatShape(cc, n, pat, "full", (n + pat) % 4) : cc \in CatChoices, n \in SMALLN, pat \in 0..3}
            \cup {CatShape(cc, n, 0, lm, 1) : cc \in NumCats \cup DateCats, n \in SMALLN \ {0}, lm \in {"short", "empty"}}
BigCat   == {CatShape(cc, n, pat, "full", IF n % 2 = 0 THEN 0 ELSE 2) : cc \in BigCatChoices, n \in BIGN, pat \in {0, 3}}
TodShapes == {[CatShape(TodCat, n, 0, "full", 0) EXCEPT !.tod = TRUE] : n \in {1, 2}}
LenSeqs == UNION {[1..n -> XYLENS] : n \in 0..XYN}
XyShapes == {XyShape(k, lens, pat, (Len(lens) + pat) % 4) : k \in {"xy", "bubble"}, lens \in LenSeqs, pat \in {0, 1, 2, 3}}
LongShapes ==
  IF ~LONG THEN {}
  ELSE {CatShape([catKind |-> "str", cats |-> [j \in 1..300 |-> Leaf(STok("plain", j))]], 2, 3, "full", 0),
        CatShape([catKind |-> "num", cats |-> [j \in 1..120 |-> Leaf(Num(1, j))]], 50, 0, "short", 0),
        XyShape("xy", <<150, 0, 200, 1>>, 3, 0), XyShape("bubble", <<101, 3, 0, 250>>, 3, 1)}

Shapes == SetToSeq(SmallCat) \o SetToSeq(XyShapes) \o SetToSeq(BigCat) \o SetToSeq(LongShapes) \o SetToSeq(TodShapes)

\* ---- theorems
ASSUME T_ColLetters == ThmColLetters
ASSUME T_Serial     == ThmSerial
\* rectangle test used for the big shapes, validated against the cell sets on the small ones
DisjRect(a, b) == Size(a) = 0 \/ Size(b) = 0 \/ a[3] < b[1] \/ b[3] < a[1] \/ a[4] < b[2] \/ b[4] < a[2]
ThmDisjointRect(data) ==
  LET R == AllRefs(data) IN
  /\ \A i, j \in 1..NSer(data) : i < j => \A a \in R[i], b \in R[j] : DisjRect(a, b)
  /\ \A i \in 1..NSer(data) : (\A a, b \in R[i] : a # b => DisjRect(a, b))
                              /\ (data.kind = "cat" => \A a \in R[i] : DisjRect(a, CatRef(data)))
Small(data) == NSer(data) <= 5 /\ \A i \in 1..NSer(data) : SerLen(data, i) <= 8
ASSUME T_Shapes == \A k \in 1..Len(Shapes) :
                      LET s == Shapes[k] IN
                      /\ ThmDisjointRect(s) /\ ThmSizes(s) /\ ThmOffsets(s)
                      /\ Small(s) => ThmDisjoint(s) /\ ThmCellAtRef(s, FALSE)
\* flattened labels: every leaf has one label per level, top first, ending in the leaf's own label
ASSUME T_Flat == \A cc \in StrCats : \A j \in 0..(Leaves(cc.cats) - 1) :
                    /\ Len(Flat(cc.cats, j)) = Depth(cc.cats)
                    /\ Flat(cc.cats, j)[Depth(cc.cats)] = Level(cc.cats, 1)[j + 1].lab

ASSUME WriteCases == JsonSerialize(IOEnv.CASES_FILE, [shapes |-> Shapes, cols |-> [n \in 1..MaxCol |-> ColLetters(n)]])
ASSUME PrintT(<<"DOMAIN", ToJson([shapes |-> Len(Shapes), cat |-> Cardinality(SmallCat), xy |-> Cardinality(XyShapes),
                                  big |-> Cardinality(BigCat), long |-> Cardinality(LongShapes),
                                  catChoices |-> Cardinality(CatChoices), cols |-> MaxCol])>>)
Init == dummy = 0
Next == UNCHANGED dummy
=============================================================================
