------------------------------- MODULE MC_Props -------------------------------
(* C09 scenario generator.  For every object kind of KINDS (indices into the catalogue) TLC enumerates every sequence of
   exactly DEPTH assignments over the kind's properties and the value classes of level LVL (Props, PART 1) - any order,
   the same property twice included: pairs are where one setter disturbs another - followed by SaveReopen.  hist is part
   of the state, so every sequence is a distinct state; the complete ones (leaves) are printed ("ST": kind, action
   indices, predicted outcomes) and replayed on a real object; every shorter sequence is a prefix and is observed on the way.
   The action table of each kind is written once (ACTS_FILE); its order is the index used in "ST".

   The abstract machine (Props, PART 2) runs along: it predicts the outcome of every step from the DECLARED catalogue
   ("ok" / "refused" / "free").  The invariants are design-level sanity of the catalogue and of the value-class generator. *)
EXTENDS Props, Json, IOUtils, SequencesExt, FiniteSetsExt
CONSTANTS KINDS, DEPTH, LVL
VARIABLES kind, hist, exps, st, done
vars == <<kind, hist, exps, st, done>>

Cat == JsonDeserialize(IOEnv.CAT_FILE)
ActSeqs == [k \in DOMAIN Cat |-> SetToSeq(Acts(Cat[k], LVL))]
ASSUME WriteActs == JsonSerialize(IOEnv.ACTS_FILE, ActSeqs)

Init == \E k \in KINDS : kind = k /\ hist = <<>> /\ exps = <<>> /\ st = InitState(Cat[k]) /\ done = FALSE
\* the abstract machine on the transition taken: a predicted refusal changes nothing; an assignment touches only the
\* property and its declared coupling (TLC stops with this message otherwise)
FrameSound(a, t) == /\ Expect(Cat[kind], st, a) = "refused" => t = st
                    /\ \A q \in DOMAIN st : (q # a.p /\ q \notin Rng(Cat[kind].props[a.p].coupled)) => t[q] = st[q]
Take(i) == LET a == ActSeqs[kind][i] IN
           /\ Assert(FrameSound(a, ImplStep(Cat[kind], st, a)), <<"FrameSound violated", kind, a>>)
           /\ st' = ImplStep(Cat[kind], st, a)
           /\ hist' = Append(hist, i)
           /\ exps' = Append(exps, Expect(Cat[kind], st, a))
           /\ UNCHANGED <<kind, done>>
Budget == ~done /\ Len(hist) < DEPTH          \* stands before the quantifier: the alphabet is not enumerated without budget
DoSet        == Budget /\ \E i \in DOMAIN ActSeqs[kind] : ActSeqs[kind][i].op = "Set" /\ Take(i)
DoSetNone    == Budget /\ \E i \in DOMAIN ActSeqs[kind] : ActSeqs[kind][i].op = "SetNone" /\ Take(i)
DoSetOut     == Budget /\ \E i \in DOMAIN ActSeqs[kind] : ActSeqs[kind][i].op = "SetOut" /\ Take(i)
DoSaveReopen == ~done /\ Len(hist) = DEPTH /\ done' = TRUE /\ UNCHANGED <<kind, hist, exps, st>>
Next == DoSet \/ DoSetNone \/ DoSetOut \/ DoSaveReopen
Spec == Init /\ [][Next]_vars

EmitState == done => PrintT(<<"ST", ToJson([k |-> kind, h |-> hist, e |-> exps])>>)

\* ---------------------------------------------------------------- design-level sanity
Idx(K) == DOMAIN K.props
ASSUME CatOK == \A k \in DOMAIN Cat : LET K == Cat[k] IN \A i \in Idx(K) : LET d == K.props[i] IN
         /\ Rng(d.coupled) \subseteq Idx(K) \ {i} /\ Rng(d.weak) \subseteq Idx(K) \ {i} /\ Rng(d.needs) \subseteq Idx(K) \ {i}
         /\ (d.needsObs # 0 => d.needsObs \in Idx(K) /\ K.props[d.needsObs].ro)
         /\ (d.ro => InTokens(d, 1) = {} /\ OutTokens(d, 1) = {})
         /\ (~d.ro => InTokens(d, 3) # {} /\ InTokens(d, 3) \subseteq InTokens(d, 2) /\ InTokens(d, 2) \subseteq InTokens(d, 1))
         \* no value class is both demanded to be accepted and demanded to be refused
         /\ \A v \in InTokens(d, 1) \cup OutTokens(d, 1) : ~(MustAccept(d, v) /\ Judged(d, v))
         /\ \A v \in OutTokens(d, 1) : ~MustAccept(d, v)
ASSUME PrintT(<<"DOMAIN", ToJson([kinds |-> Cardinality(KINDS),
                                  acts |-> FoldLeft(LAMBDA acc, k : acc + Len(ActSeqs[k]), 0, SetToSeq(KINDS)),
                                  leaves |-> FoldLeft(LAMBDA acc, k : acc + Len(ActSeqs[k]) ^ DEPTH, 0, SetToSeq(KINDS))])>>)
=============================================================================
