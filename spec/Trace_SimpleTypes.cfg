INIT Init
NEXT Next
CHECK_DEADLOCK FALSE
CONSTANTS DELTA = 2
 ULP = 1
 NRAND = 0
