------------------------------ MODULE CoreProps ------------------------------
(* OPC core document properties as python-pptx exposes them (property C18).

   State (JSON-native; the same record is what the driver logs):
     [ present : BOOLEAN,                 the package graph holds /docProps/core.xml (FALSE: never accessed, absent)
       xsd     : BOOLEAN,                 monitor: the serialised part validates against opc-coreProperties.xsd (TRUE when absent)
       str  : [p \in StrProps  |-> [has, x, r]],      has: the element exists; x: Text read from the XML bytes; r: Text the public reader returns
       date : [p \in DateProps |-> [has, w, e, r]],   w: monitor, the element alone is schema-valid; e: the reader raised; r: DateVal the reader returns
       rev  : [has, x, r] ]                            x: integer in the XML text (-1: not a plain integer), r: reader
   Text    = Seq(<<class, count>>)  run-length coded sequence of character classes (TLC strings are atoms):
             1 ascii letter/digit, 2 markup < & > " ', 3 white space (space, tab, CR, LF), 4 non-ASCII BMP, 5 astral,
             8 reader raised, 9 opaque (a string that is not the concretisation of a class sequence)
   DateVal = [has, y, m, d, H, M, S]  (has = FALSE: None)
   DateTok = [y, m, d, H, M, S, us]   a datetime given to a setter (us: it carries microseconds)
   Lex     = [g, y, m, d, H, M, S, f, tz, sg, hh, mm]  a W3CDTF lexical form: g in "y","ym","ymd","hm","full";
             f = number of fractional-second digits; tz in "none","Z","off"; sg*(hh:mm) the numeric offset

   Actions (records): [op |-> "FirstAccess"], [op |-> "SetStr", p, v : Text], [op |-> "SetDate", p, kind, v : DateTok]
   (kind "datetime", or "date"/"none"/"str"/"int" = not a datetime), [op |-> "SetRev", kind, n] (kind "int","float","str","none","bool"),
   [op |-> "SaveReopen"], [op |-> "LoadLexical", p, v : Lex] (the lexical form is written into core.xml of the saved package, which is re-opened).

   Two layers.  PROPERTY layer: Post as named clauses, exactly what the statement of C18 says.  IMPL layer: ImplStep,
   what oxml/coreprops.py does today (strftime without year padding, the [:19]/len==6 offset rule, str(True)).     *)
EXTENDS Naturals, Integers, Sequences, FiniteSets, TLC

StrProps  == {"author", "category", "comments", "content_status", "identifier", "keywords", "language",
              "last_modified_by", "subject", "title", "version"}
DateProps == {"created", "last_printed", "modified"}
TypedDateProps == {"created", "modified"}          \* carry xsi:type="dcterms:W3CDTF"; last_printed is xs:dateTime

\* ------------------------------------------------------------------ text
RECURSIVE TLen(_)
TLen(t) == IF t = <<>> THEN 0 ELSE Head(t)[2] + TLen(Tail(t))
TClasses(t) == {t[i][1] : i \in DOMAIN t}
ClassName(c) == CASE c = 1 -> "ascii" [] c = 2 -> "markup" [] c = 3 -> "space" [] c = 4 -> "bmp" [] c = 5 -> "astral" [] c = 6 -> "esclike" [] OTHER -> "opaque"
MixName(t) == IF t = <<>> THEN "empty" ELSE IF Cardinality(TClasses(t)) > 1 THEN "mixed" ELSE ClassName(t[1][1])

\* ------------------------------------------------------------------ dates: civil calendar on <<days, secondOfDay>> (32-bit safe)
NoDate == [has |-> FALSE, y |-> 0, m |-> 0, d |-> 0, H |-> 0, M |-> 0, S |-> 0]
Trunc(v) == [has |-> TRUE, y |-> v.y, m |-> v.m, d |-> v.d, H |-> v.H, M |-> v.M, S |-> v.S]    \* to the second: microseconds dropped

\* days since 1970-01-01 of the proleptic Gregorian date y-m-d (\div is floor division, % is non-negative)
DaysFromCivil(y, m, d) ==
  LET yy  == IF m <= 2 THEN y - 1 ELSE y
      era == yy \div 400
      yoe == yy - era * 400
      mp  == (m + 9) % 12
      doy == (153 * mp + 2) \div 5 + d - 1
      doe == yoe * 365 + yoe \div 4 - yoe \div 100 + doy
  IN era * 146097 + doe - 719468
CivilFromDays(z) ==
  LET z2  == z + 719468
      era == z2 \div 146097
      doe == z2 - era * 146097
      yoe == (doe - doe \div 1460 + doe \div 36524 - doe \div 146096) \div 365
      doy == doe - (365 * yoe + yoe \div 4 - yoe \div 100)
      mp  == (5 * doy + 2) \div 153
      m   == IF mp < 10 THEN mp + 3 ELSE mp - 9
  IN [y |-> yoe + era * 400 + (IF m <= 2 THEN 1 ELSE 0), m |-> m, d |-> doy - (153 * mp + 2) \div 5 + 1]
MinDay == DaysFromCivil(1, 1, 1)
MaxDay == DaysFromCivil(9999, 12, 31)

HasZone(v)   == v.g \in {"full", "hm"} /\ v.tz \in {"Z", "off"}
OffsetSec(v) == IF v.tz = "off" THEN v.sg * (v.hh * 60 + v.mm) * 60 ELSE 0
\* The instant a W3CDTF form denotes, as UTC civil time to the second.  "+01:00" means local = UTC + 1 h, so UTC = local - offset.
\* ok = FALSE: the UTC equivalent is outside years 0001..9999 (not representable as a datetime; nothing is demanded then).
ToUtc(v) ==
  LET tot == v.H * 3600 + v.M * 60 + (IF v.g = "hm" THEN 0 ELSE v.S) - OffsetSec(v)
      dd  == DaysFromCivil(v.y, v.m, v.d) + tot \div 86400
      ss  == tot % 86400
      c   == CivilFromDays(dd)
  IN [ok |-> dd >= MinDay /\ dd <= MaxDay,
      v  |-> [has |-> TRUE, y |-> c.y, m |-> c.m, d |-> c.d, H |-> ss \div 3600, M |-> (ss % 3600) \div 60, S |-> ss % 60]]

\* ------------------------------------------------------------------ state helpers
Reads(s) == [str  |-> [p \in StrProps |-> s.str[p].r],
             date |-> [p \in DateProps |-> [r |-> s.date[p].r, e |-> s.date[p].e]],
             rev  |-> s.rev.r]
ReadsExcept(s, p) == [str  |-> [q \in StrProps \ {p} |-> s.str[q].r],
                      date |-> [q \in DateProps \ {p} |-> [r |-> s.date[q].r, e |-> s.date[q].e]],
                      rev  |-> IF p = "revision" THEN 0 ELSE s.rev.r]
NoStr  == [has |-> FALSE, x |-> <<>>, r |-> <<>>]
NoDt   == [has |-> FALSE, w |-> TRUE, e |-> FALSE, r |-> NoDate]
NoRev  == [has |-> FALSE, x |-> 0, r |-> 0]
EmptyState(present) == [present |-> present, xsd |-> TRUE, str |-> [p \in StrProps |-> NoStr],
                        date |-> [p \in DateProps |-> NoDt], rev |-> NoRev]

\* ------------------------------------------------------------------ PROPERTY layer
Touches(a) == a.op \in {"FirstAccess", "SetStr", "SetDate", "SetRev"}      \* goes through Package.core_properties
IsSet(a)   == a.op \in {"SetStr", "SetDate", "SetRev"}
PropOf(a)  == IF a.op = "SetRev" THEN "revision" ELSE a.p
\* the value is one the statement says is accepted
Accept(a) == CASE a.op = "SetStr"  -> TLen(a.v) <= 255
               [] a.op = "SetDate" -> a.kind = "datetime"
               [] a.op = "SetRev"  -> a.kind = "int" /\ a.n >= 1
               [] OTHER            -> TRUE
\* bool is a subclass of int in Python: "True" is either the positive integer 1 or a non-integer; both readings are accepted
Ambig(a) == a.op = "SetRev" /\ a.kind = "bool" /\ a.n = 1

PostNames == <<"Outcome", "RejectedUnchanged", "ReadStr", "ReadDate", "ReadRev", "OthersKept", "DefaultPart",
               "ReopenIdentity", "XsdValid", "LexUtc">>
PostHolds(n, s, a, out, t) ==
  CASE n = "Outcome" ->           \* accepted values are accepted, other values raise ValueError
         IF Ambig(a) THEN out \in {"ok", "ValueError"} ELSE out = (IF Accept(a) THEN "ok" ELSE "ValueError")
    [] n = "RejectedUnchanged" -> \* a refused value (or a refusal) leaves every value as it was
         (IsSet(a) /\ s.present /\ (~(Accept(a) \/ Ambig(a)) \/ out # "ok")) => (t.present /\ Reads(t) = Reads(s))
    [] n = "ReadStr" ->           \* returns it unchanged
         (a.op = "SetStr" /\ Accept(a) /\ out = "ok") => t.str[a.p].r = a.v
    [] n = "ReadDate" ->          \* returns it to one-second resolution
         (a.op = "SetDate" /\ Accept(a) /\ out = "ok") => (t.date[a.p].r = Trunc(a.v) /\ ~t.date[a.p].e)
    [] n = "ReadRev" ->
         (a.op = "SetRev" /\ out = "ok") => ((Accept(a) => t.rev.r = a.n) /\ (Ambig(a) => t.rev.r = 1))
    [] n = "OthersKept" ->        \* any assignment order: every property returns the value last assigned to IT
         (IsSet(a) /\ s.present /\ out = "ok") => (t.present /\ ReadsExcept(t, PropOf(a)) = ReadsExcept(s, PropOf(a)))
    [] n = "DefaultPart" ->       \* a package without core properties gains a default part on first access
         (~s.present /\ Touches(a)) => t.present
    [] n = "ReopenIdentity" ->    \* the values are the same after save and re-open
         (CASE a.op = "SaveReopen"  -> out = "ok" /\ t.present = s.present /\ Reads(t) = Reads(s)
            [] a.op = "LoadLexical" -> out = "ok" /\ t.present /\ ReadsExcept(t, a.p) = ReadsExcept(s, a.p)
            [] OTHER -> TRUE)
    [] n = "XsdValid" ->          \* the part stays valid (a LoadLexical text is written by the driver, not by the library)
         (s.xsd /\ a.op # "LoadLexical") => t.xsd
    [] n = "LexUtc" ->            \* a W3CDTF timestamp carrying a time-zone offset is read as the equivalent UTC time
         (a.op = "LoadLexical" /\ HasZone(a.v) /\ ToUtc(a.v).ok) =>
            \/ t.date[a.p].r = ToUtc(a.v).v /\ ~t.date[a.p].e
            \* hh:mm without seconds is W3CDTF per the W3C note but not per the dcterms:W3CDTF schema type (xs:dateTime
            \* needs seconds): both readings accepted - the UTC equivalent, or ignored as an invalid string (None)
            \/ a.v.g = "hm" /\ t.date[a.p].r = NoDate /\ ~t.date[a.p].e
PostFailing(s, a, out, t) == {PostNames[i] : i \in {j \in DOMAIN PostNames : ~PostHolds(PostNames[j], s, a, out, t)}}
Post(s, a, out, t) == PostFailing(s, a, out, t) = {}

\* state clauses for the first state of a trace
InitNames == <<"InitValid", "AbsentIsBlank">>
InitHolds(n, kind, s) ==
  CASE n = "InitValid"     -> s.xsd
    [] n = "AbsentIsBlank" -> (kind = "absent") => s = EmptyState(FALSE)
InitFailing(kind, s) == {InitNames[i] : i \in {j \in DOMAIN InitNames : ~InitHolds(InitNames[j], kind, s)}}

\* value class of an action, used in signatures  clause@op[class]
ActClass(a) ==          \* m = "x": no sub-class
  CASE a.op = "SetStr"  -> [k |-> "str", c |-> (IF TLen(a.v) > 255 THEN "len>255" ELSE "len<=255"), m |-> MixName(a.v)]
    [] a.op = "SetDate" -> [k |-> "date", c |-> (IF a.kind # "datetime" THEN "not-datetime" ELSE IF a.v.y < 1000 THEN "year<1000" ELSE "year>=1000"),
                            m |-> (IF a.kind # "datetime" THEN a.kind ELSE IF a.v.y < 1000 THEN "x" ELSE IF a.v.us THEN "us" ELSE "whole")]
    [] a.op = "SetRev"  -> [k |-> "rev", c |-> a.kind, m |-> (IF a.kind # "int" THEN "x" ELSE IF a.n >= 1 THEN "positive" ELSE "nonpositive")]
    [] a.op = "LoadLexical" -> [k |-> "lex", c |-> (IF a.v.f > 0 THEN a.v.g \o ".frac" ELSE a.v.g), m |-> a.v.tz]
    [] OTHER -> [k |-> "part", c |-> "x", m |-> "x"]

\* ------------------------------------------------------------------ IMPL layer (what the code does today)
\* Defects of the pinned tree transcribed below; add the name here when the corresponding fix has landed, so that the Impl
\* layer keeps describing the code:  "yearpad" (years < 1000 written zero-padded), "frac" (fractional seconds skipped before
\* the offset is split off), "boolrev" (bool refused as a revision).
ImplFixed == {"yearpad", "frac", "boolrev"}
Opaque(n) == << <<9, n>> >>
\* CorePropertiesPart.default: title, last_modified_by, revision 1, modified = now
ImplDefault(now) ==
  LET e == EmptyState(TRUE) IN
  [e EXCEPT !.str["title"] = [has |-> TRUE, x |-> Opaque(23), r |-> Opaque(23)],            \* "PowerPoint Presentation"
            !.str["last_modified_by"] = [has |-> TRUE, x |-> Opaque(11), r |-> Opaque(11)],   \* "python-pptx"
            !.rev = [has |-> TRUE, x |-> 1, r |-> 1],
            !.date["modified"] = [has |-> TRUE, w |-> TRUE, e |-> FALSE, r |-> now]]
ImplAccess(s, now) == IF s.present THEN s ELSE ImplDefault(now)
ImplXsd(t) == [t EXCEPT !.xsd = \A p \in DateProps : t.date[p].w]

\* _parse_W3CDTF_to_datetime: strptime on the first 19 characters with four templates, the remainder is an offset
\* only when it is exactly 6 characters long and matches [+-]dd:dd (else ValueError -> None); otherwise it is ignored.
RestLen(v) == (IF v.f > 0 /\ "frac" \notin ImplFixed THEN v.f + 1 ELSE 0) + (CASE v.tz = "none" -> 0 [] v.tz = "Z" -> 1 [] OTHER -> 6)
ImplLexRead(v) ==
  CASE v.g = "y"   -> [e |-> FALSE, r |-> [has |-> TRUE, y |-> v.y, m |-> 1, d |-> 1, H |-> 0, M |-> 0, S |-> 0]]
    [] v.g = "ym"  -> [e |-> FALSE, r |-> [has |-> TRUE, y |-> v.y, m |-> v.m, d |-> 1, H |-> 0, M |-> 0, S |-> 0]]
    [] v.g = "ymd" -> [e |-> FALSE, r |-> [has |-> TRUE, y |-> v.y, m |-> v.m, d |-> v.d, H |-> 0, M |-> 0, S |-> 0]]
    [] v.g = "hm"  -> [e |-> FALSE, r |-> NoDate]                                            \* no template matches
    [] OTHER       -> IF RestLen(v) # 6 THEN [e |-> FALSE, r |-> Trunc(v)]                    \* remainder ignored
                      ELSE IF (v.f > 0 /\ "frac" \notin ImplFixed) \/ v.tz # "off" THEN [e |-> FALSE, r |-> NoDate]       \* ".1234Z", ".12345": not an offset -> None
                      ELSE IF ToUtc(v).ok THEN [e |-> FALSE, r |-> ToUtc(v).v]
                      ELSE [e |-> TRUE, r |-> NoDate]                                        \* OverflowError escapes the getter
\* schema validity of a lexical form in its element (libxml2: gYear | gYearMonth | date | dateTime for created/modified)
LexW(p, v) == /\ v.g # "hm"
              /\ (p \notin TypedDateProps => v.g = "full")
              /\ (v.tz = "off" => v.hh * 60 + v.mm <= 840)

\* returns [out, t]
ImplStep(s, a, now) ==
  LET s1 == IF Touches(a) THEN ImplAccess(s, now) ELSE s IN
  CASE a.op = "FirstAccess" -> [out |-> "ok", t |-> s1]
    [] a.op = "SetStr" ->
         IF TLen(a.v) > 255 THEN [out |-> "ValueError", t |-> s1]
         ELSE [out |-> "ok", t |-> [s1 EXCEPT !.str[a.p] = [has |-> TRUE, x |-> a.v, r |-> a.v]]]
    [] a.op = "SetDate" ->
         IF a.kind # "datetime" THEN [out |-> "ValueError", t |-> s1]
         \* value.strftime("%Y-%m-%dT%H:%M:%SZ"): glibc %Y does not zero-pad, the reader's strptime %Y needs four digits
         ELSE IF a.v.y < 1000 /\ "yearpad" \notin ImplFixed THEN [out |-> "ok", t |-> ImplXsd([s1 EXCEPT !.date[a.p] = [has |-> TRUE, w |-> FALSE, e |-> FALSE, r |-> NoDate]])]
         ELSE [out |-> "ok", t |-> ImplXsd([s1 EXCEPT !.date[a.p] = [has |-> TRUE, w |-> TRUE, e |-> FALSE, r |-> Trunc(a.v)]])]
    [] a.op = "SetRev" ->
         IF a.kind = "int" /\ a.n >= 1 THEN [out |-> "ok", t |-> [s1 EXCEPT !.rev = [has |-> TRUE, x |-> a.n, r |-> a.n]]]
         \* isinstance(True, int) and True >= 1: str(True) = "True" is written, the reader maps non-integers to 0
         ELSE IF a.kind = "bool" /\ a.n = 1 /\ "boolrev" \notin ImplFixed THEN [out |-> "ok", t |-> [s1 EXCEPT !.rev = [has |-> TRUE, x |-> -1, r |-> 0]]]
         ELSE [out |-> "ValueError", t |-> s1]
    [] a.op = "SaveReopen" -> [out |-> "ok", t |-> s]
    [] a.op = "LoadLexical" ->
         LET rd == ImplLexRead(a.v) IN
         [out |-> "ok", t |-> ImplXsd([s EXCEPT !.date[a.p] = [has |-> TRUE, w |-> LexW(a.p, a.v), e |-> rd.e, r |-> rd.r]])]
=============================================================================
