------------------------------- MODULE MC_Group -------------------------------
(* Groups nested to MAXDEPTH with leaf members at the boxes BOXES; <= DEPTH additions.  *)
EXTENDS Geometry, Json, SequencesExt
CONSTANTS DEPTH, MAXDEPTH, NBOX
VARIABLES st, hist
\* (the third box lies entirely at negative coordinates: a group holding only such members has its far corner left of / above the origin)
Boxes == << [x |-> 0, y |-> 0, cx |-> 1, cy |-> 1], [x |-> 2, y |-> 3, cx |-> 2, cy |-> 1], [x |-> -7, y |-> -5, cx |-> 2, cy |-> 1],
            [x |-> 5, y |-> 1, cx |-> 0, cy |-> 4], [x |-> -2, y |-> 4, cx |-> 3, cy |-> 3], [x |-> 1, y |-> 1, cx |-> 0, cy |-> 0] >>
RECURSIVE DepthOf(_, _)
DepthOf(N, gid) == IF gid = 0 THEN 0 ELSE 1 + DepthOf(N, (CHOOSE n \in NodeSet(N) : n.id = gid).parent)
Groups(N) == {n.id : n \in {m \in NodeSet(N) : m.grp}}
\* histories start from the empty slide, and from a slide that already holds nested groups (built by the driver with the same four
\* calls): an outer group holding an inner group with one member, and a second member beside it - every two further actions from there
A0(op, parent, b) == [op |-> op, parent |-> parent, x |-> b.x, y |-> b.y, cx |-> b.cx, cy |-> b.cy, ids |-> {}]
Prefix == << A0("group", 0, Zero), A0("group", 1, Zero), A0("leaf", 2, Boxes[2]), A0("leaf", 1, Boxes[1]) >>
Init == \/ st = <<>> /\ hist = <<>>
        \/ st = FoldLeft(LAMBDA acc, a : GrpImplStep(acc, a), <<>>, Prefix) /\ hist = Prefix
Nested == Len(hist) >= 4 /\ SubSeq(hist, 1, 4) = Prefix
Do(a) == Len(hist) < (IF Nested /\ DEPTH < 6 THEN 6 ELSE DEPTH) /\ st' = GrpImplStep(st, a) /\ hist' = Append(hist, a)
AddLeaf == \E g \in Groups(st) \cup {0} : \E b \in 1..NBOX :
             Do([op |-> "leaf", parent |-> g, x |-> Boxes[b].x, y |-> Boxes[b].y, cx |-> Boxes[b].cx, cy |-> Boxes[b].cy, ids |-> {}])
AddGroup == \E g \in Groups(st) \cup {0} : DepthOf(st, g) < MAXDEPTH /\
             Do([op |-> "group", parent |-> g, x |-> 0, y |-> 0, cx |-> 0, cy |-> 0, ids |-> {}])
TopLeaves(N) == {n.id : n \in {m \in NodeSet(N) : m.parent = 0 /\ ~m.grp}}
AddGroupOf == \E ids \in SUBSET TopLeaves(st) :
             Do([op |-> "groupOf", parent |-> 0, x |-> 0, y |-> 0, cx |-> 0, cy |-> 0, ids |-> ids])
\* one member is moved / resized through its setters (at most once per history): the groups around it are out of date until an addition obliges them
Leaves(N) == {n.id : n \in {m \in NodeSet(N) : ~m.grp}}
NMoves == Cardinality({i \in DOMAIN hist : hist[i].op = "move"})
Move == NMoves = 0 /\ \E l \in Leaves(st) : \E b \in 1..NBOX : BoxOf(st[l]) # Boxes[b] /\
             Do([op |-> "move", parent |-> 0, id |-> l, x |-> Boxes[b].x, y |-> Boxes[b].y, cx |-> Boxes[b].cx, cy |-> Boxes[b].cy, ids |-> {}])
Next == AddLeaf \/ AddGroup \/ AddGroupOf \/ Move
Spec == Init /\ [][Next]_<<st, hist>>
ViewSt == st
Refines == [][GrpFailing(st, hist'[Len(hist')], st') = {}]_<<st, hist>>
EmitState == PrintT(<<"ST", ToJson(hist)>>)
=============================================================================
