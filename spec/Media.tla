-------------------------------- MODULE Media --------------------------------
(* Property C15: images are stored once, byte-exact, typed by content, sized from pixels and DPI.

   Image universe (constant U, indexed 1..N): [fmt, ext (extension the FILE is called by), pw, ph, dx, dy]
     dx/dy = the DPI an independent reader sees, already normalised as documented: nearest integer, 72 when absent
     or implausible (< 1 or > 2048); the driver cross-checks this normalisation with its own reader.
   Observed state after every step:
     [ media : Seq([name, ext, ctype, img])     image parts of the package (img = universe index by SHA1, 0 = unknown bytes)
       pics  : Seq([slide, img, blobOk, cx, cy, args, aspectOk, via, now]) ]   pictures added so far, in order of addition;
                                     now = the image the picture shape shows WHEN OBSERVED (re-read through the live deck after every step)
   Part lifecycle: an image part lives as long as a relationship reaches it.  Removing a slide layout that carries a picture
   (op "removeLayout") can make its image part unreachable: it leaves the package, its name becomes free for the next image, and
   adding the same bytes later must store them again under a name no live part holds.                                          *)
EXTENDS Naturals, Integers, Sequences, FiniteSets, TLC
CONSTANT U

FmtExt(f) == CASE f = "PNG" -> "png" [] f = "JPEG" -> "jpg" [] f = "GIF" -> "gif" [] f = "BMP" -> "bmp" [] f = "TIFF" -> "tiff"
               [] f = "EMF" -> "emf" [] f = "WMF" -> "wmf" [] OTHER -> "?"
FmtCt(f)  == CASE f = "PNG" -> "image/png" [] f = "JPEG" -> "image/jpeg" [] f = "GIF" -> "image/gif" [] f = "BMP" -> "image/bmp"
               [] f = "TIFF" -> "image/tiff" [] f = "EMF" -> "image/x-emf" [] f = "WMF" -> "image/x-wmf" [] OTHER -> "?"
EMU == 914400
Abs(a) == IF a < 0 THEN -a ELSE a
SeqSet(s) == {s[i] : i \in DOMAIN s}
NoDup(s) == \A i, j \in DOMAIN s : i # j => s[i] # s[j]
Imgs(o) == [i \in DOMAIN o.media |-> o.media[i].img]

\* a : [op |-> "addPicture" | "insertPicture" | "addMovie" | "addOle" | "save" | "reopen", slide, img, args \in {"none","w","h","both"}, via]
Names == <<"OnePartPerImage", "DistinctNames", "ExtAndTypeOfActualFormat", "StoredBytesExact", "PictureBlobExact",
           "ImageStored", "NothingElseChanges", "NativeSize", "AspectKept", "RequestedSize", "RemovalKeepsUsed", "PicturesShowTheirImage">>
Holds(n, s, a, t) ==
  LET adds == a.op \in {"addPicture", "insertPicture", "addMovie", "addOle"} /\ a.img > 0
      last == t.pics[Len(t.pics)]
      \* (total: a call that stored no picture - it raised on bytes the library mangled itself - leaves the size clauses false, not
      \* unevaluable)
      added == Len(t.pics) = Len(s.pics) + 1
  IN
  CASE n = "OnePartPerImage"   -> NoDup(Imgs(t)) /\ 0 \notin SeqSet(Imgs(t))
    [] n = "DistinctNames"     -> NoDup([i \in DOMAIN t.media |-> t.media[i].name])
    \* (judged on the parts the step STORED: a part that was already there - loaded from a document another producer wrote, perhaps with
    \* a content type spelled "image/jpg" - keeps the name and type it was loaded with, C02)
    [] n = "ExtAndTypeOfActualFormat" -> \A m \in SeqSet(t.media) \ SeqSet(s.media) : m.img > 0 => (m.ext = FmtExt(U[m.img].fmt) /\ m.ctype = FmtCt(U[m.img].fmt))
    [] n = "StoredBytesExact"  -> 0 \notin SeqSet(Imgs(t))            \* every stored image part is byte-identical to a universe image
    [] n = "PictureBlobExact"  -> \A p \in SeqSet(t.pics) : p.blobOk
    [] n = "ImageStored"       -> adds => SeqSet(Imgs(t)) = SeqSet(Imgs(s)) \cup {a.img}
    [] n = "NothingElseChanges" -> (~adds /\ a.op # "removeLayout") => SeqSet(t.media) = SeqSet(s.media)
    \* a removal stores nothing new, renames nothing, and every image some picture still shows stays stored
    [] n = "RemovalKeepsUsed"  -> (a.op = "removeLayout") => (SeqSet(t.media) \subseteq SeqSet(s.media)
                                                              /\ \A p \in SeqSet(t.pics) : p.img \in SeqSet(Imgs(t)))
    \* every picture added so far still shows the bytes it was added with (in memory, and again after a re-open)
    [] n = "PicturesShowTheirImage" -> \A p \in SeqSet(t.pics) : p.now = p.img
    [] n = "NativeSize"        -> (a.op = "addPicture" /\ a.args = "none") =>
                                     (added /\ last.img = a.img /\ Abs(last.cx * U[a.img].dx - EMU * U[a.img].pw) <= U[a.img].dx
                                                       /\ Abs(last.cy * U[a.img].dy - EMU * U[a.img].ph) <= U[a.img].dy)
    [] n = "AspectKept"        -> (a.op = "addPicture" /\ a.args \in {"w", "h"}) => (added /\ last.aspectOk)
    [] n = "RequestedSize"     -> (a.op = "addPicture" /\ a.args = "both") => (added /\ last.cx = a.cx /\ last.cy = a.cy)
Failing(s, a, t) == {Names[i] : i \in {j \in DOMAIN Names : ~Holds(Names[j], s, a, t)}}
=============================================================================
