------------------------------ MODULE MC_ReadOnly ------------------------------
(* Every order and repetition of the read-only accessor groups, with saves in between, up to DEPTH.  The model state is
   the package, which no action changes (that is the property); the history is what the driver replays.                *)
EXTENDS ReadOnly, Json
CONSTANTS GROUPS, DEPTH
VARIABLES pkg, hist
Init == pkg = "P0" /\ hist = <<>>
Read(g) == Len(hist) < DEPTH /\ hist' = Append(hist, g) /\ UNCHANGED pkg
Save    == Len(hist) < DEPTH /\ hist # <<>> /\ hist[Len(hist)] # "save" /\ hist' = Append(hist, "save") /\ UNCHANGED pkg
Next == (\E g \in GROUPS : Read(g)) \/ Save
Spec == Init /\ [][Next]_<<pkg, hist>>
Unchanged == [][pkg' = pkg]_<<pkg, hist>>
Emit == Len(hist) = DEPTH => PrintT(<<"ORDER", ToJson(hist)>>)
=============================================================================
