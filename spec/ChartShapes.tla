---------------------------- MODULE ChartShapes ----------------------------
(* Generators of chart-data shapes shared by MC_ChartSheet (C08) and MC_ChartData (C07): token classes, labelled
   category forests, series with missing-value patterns, XY / bubble series of given lengths.                 *)
EXTENDS ChartSheet, FiniteSetsExt

StrClasses == <<"plain", "eq", "arr", "url", "spaces", "numlike", "xmlsp", "uni", "nl", "esc", "empty", "plain">>
STok(cls, k) == IF cls = "empty" THEN "s:empty:0" ELSE "s:" \o cls \o ":" \o ToString(k)
Cls(k) == StrClasses[(k % Len(StrClasses)) + 1]
Nums == <<"n:1", "n:2.5", "n:-3", "n:0", "n:0.1", "n:1000000000000000000000", "n:-0.000123", "n:12345678.9", "n:7">>
Num(i, j) == Nums[((i * 3 + j) % Len(Nums)) + 1]

\* ---- unlabelled category forests: a node is the sequence of its children, a leaf is <<>>
RECURSIVE ShapesOfDepth(_)
ShapesOfDepth(d) == IF d = 1 THEN {<<>>} ELSE UNION {[1..b -> ShapesOfDepth(d - 1)] : b \in 1..2}
RECURSIVE ShapeLeaves(_)
SumLeaves(s) == FoldLeft(LAMBDA acc, x : acc + ShapeLeaves(x), 0, s)
ShapeLeaves(h) == IF h = <<>> THEN 1 ELSE SumLeaves(h)
LabFor(salt, lvl, off) == IF salt = 0 THEN STok("plain", lvl * 100 + off) ELSE STok(Cls(salt * 3 + lvl * 5 + off), lvl * 100 + off)
RECURSIVE LabelNodes(_, _, _, _)
LabelNodes(shapes, off, lvl, salt) ==
  IF shapes = <<>> THEN <<>>
  ELSE LET h == Head(shapes) IN
       <<[lab |-> LabFor(salt, lvl, off), subs |-> LabelNodes(h, off, lvl + 1, salt)]>>
          \o LabelNodes(Tail(shapes), off + ShapeLeaves(h), lvl, salt)
Leaf(tok) == [lab |-> tok, subs |-> <<>>]

\* ---- series
Missing(pat, n, i, j) == CASE pat = 0 -> FALSE [] pat = 1 -> i = 1 /\ j = 1 [] pat = 2 -> i = n [] OTHER -> (i + j) % 2 = 1
NameTok(i, salt) == IF salt = 0 THEN STok("plain", i) ELSE STok(Cls(i + salt - 1), i)
CatSeries(n, L, pat, lenMode, salt) ==
  [i \in 1..n |->
     LET len == CASE lenMode = "short" /\ i = n -> (IF L > 0 THEN L - 1 ELSE 0) [] lenMode = "empty" /\ i = 1 -> 0 [] OTHER -> L IN
     [name |-> NameTok(i, salt), xs |-> <<>>, sizes |-> <<>>,
      vals |-> [j \in 1..len |-> IF Missing(pat, n, i, j) THEN MISSING ELSE Num(i, j)]]]
CatShape(cc, n, pat, lenMode, salt) ==
  [kind |-> "cat", catKind |-> cc.catKind, tod |-> FALSE, cats |-> cc.cats, series |-> CatSeries(n, Leaves(cc.cats), pat, lenMode, salt)]
XySeries(lens, pat, salt, bubble) ==
  [i \in 1..Len(lens) |->
     [name |-> NameTok(i, salt),
      xs    |-> [j \in 1..lens[i] |-> IF pat = 1 /\ j = 2 THEN MISSING ELSE Num(i + 1, j)],
      vals  |-> [j \in 1..lens[i] |-> IF Missing(pat, Len(lens), i, j) THEN MISSING ELSE Num(i, j)],
      sizes |-> IF bubble THEN [j \in 1..lens[i] |-> IF pat = 2 /\ j = 1 THEN MISSING ELSE Num(i + 2, j)] ELSE <<>>]]
XyShape(kind, lens, pat, salt) ==
  [kind |-> kind, catKind |-> "none", tod |-> FALSE, cats |-> <<>>, series |-> XySeries(lens, pat, salt, kind = "bubble")]
=============================================================================
