------------------------------ MODULE ChildOrder ------------------------------
(* C10 - a child is inserted where the schema allows it, whatever siblings exist.

   A CASE  c  is one element type: a registered (tag, class) of python-pptx seen through ONE of the XSD complex
   types an element of that name is declared with.  Everything in it is EXTRACTED at every run (nothing is typed in):
     c.slots[i] = [members : Seq(tag), rep, req, excl : BOOLEAN, alts, singles : Seq(Seq(tag)), alt, br : Nat]
                  the content model of the XSD type flattened to a sequence of slots (mbt/extract/xsd_model.py);
                  members of one choice and all leaves of a repeatable particle share a slot (under-constrains only);
                  alt # 0: the slot is one leaf of alternative br of the optional choice alt whose alternatives are
                  sequences (c:dLbls, c:dLbl) - slots of two alternatives of one choice never hold children together;
     c.rank     = record  tag |-> slot index                                      ("Rank")
     c.decls[j] = [child : tag, kind, succ : Seq(tag), group : Seq(tag), ops : Seq(op name), ...]
                  one ZeroOrOne / ZeroOrMore / OneOrMore / Choice declaration of the class, read from the closures of
                  the generated methods (mbt/extract/oxml_decls.py); succ is its `successors` tuple, in tuple order.
   State of a parent element: kids = the sequence of its child tags (strings).

   PROPERTY layer: Holds / Failing - exactly the clauses of the statement.
   IMPL layer: ImplStep - xmlchemy.py transcribed literally.                                                       *)
EXTENDS Naturals, Sequences, FiniteSets

Names == <<"Ordered", "AtMostOne", "GetOrAddIdempotent", "RemoveRemovesAll", "ChangeToLeavesExactlyOne">>
CreatingOps == {"Insert", "Add", "PublicAdd", "GetOrAdd", "ChangeTo", "Hand", "HandGetOrAdd"}
\* "HandGetOrAdd": a hand-written get-or-add KEYED by an index child (CT_SeriesComposite.get_or_add_dPt_for_point(k),
\* CT_DLbls.get_or_add_dLbl_for_point(k)).  A keyed child is a tag of its own in the model ("c:dPt#2" = the c:dPt whose c:idx is 2,
\* member of the slot of c:dPt); the sentence "get or add creates at most one child" is about the child with THAT key.
GetOrAddOps == {"GetOrAdd", "HandGetOrAdd"}

Has(kids, t) == \E i \in DOMAIN kids : kids[i] = t
Count(kids, t) == Cardinality({i \in DOMAIN kids : kids[i] = t})
InSeq(seq, t) == \E j \in DOMAIN seq : seq[j] = t
CountIn(kids, tags) == Cardinality({i \in DOMAIN kids : InSeq(tags, kids[i])})
MinOf(S) == CHOOSE x \in S : \A y \in S : x <= y

(* ------------------------------------------------------------------------------------------------------------ *)
(* IMPL layer: pptx/oxml/xmlchemy.py                                                                              *)

\* BaseOxmlElement.first_child_found_in(*tagnames) as repaired by /repo commit bec7247c:
\*     tags = {qn(t) for t in tagnames};  for child in self: if child.tag in tags: return child
\* i.e. the first matching CHILD in document order.  (The pinned code iterated the tag NAMES in tuple order and returned the
\* first name that had any match; FirstChildFoundInByName keeps that transcription: it is what produced
\* [a:br, a:pPr, a:r] and is counted as drift if the code ever goes back to it.)   0 = None.
FirstChildFoundIn(kids, tagnames) ==
  LET hit == {i \in DOMAIN kids : InSeq(tagnames, kids[i])}
  IN IF hit = {} THEN 0 ELSE MinOf(hit)
FirstChildFoundInByName(kids, tagnames) ==
  LET hit == {j \in DOMAIN tagnames : Has(kids, tagnames[j])}
  IN IF hit = {} THEN 0
     ELSE LET tn == tagnames[MinOf(hit)] IN MinOf({i \in DOMAIN kids : kids[i] = tn})

\* insert_element_before(elm, *tagnames): successor.addprevious(elm) if a successor was found, else self.append(elm)
InsertElementBefore(kids, t, tagnames) ==
  LET p == FirstChildFoundIn(kids, tagnames)
  IN IF p = 0 THEN Append(kids, t) ELSE SubSeq(kids, 1, p - 1) \o <<t>> \o SubSeq(kids, p, Len(kids))

\* remove_all(*tagnames): for each tagname, remove every matching child
RemoveAllOf(kids, tagnames) == SelectSeq(kids, LAMBDA t : ~InSeq(tagnames, t))

ImplInsert(kids, d)   == InsertElementBefore(kids, d.child, d.succ)                    \* _insert_x(child)
ImplAdd(kids, d)      == ImplInsert(kids, d)                                           \* _add_x(): _new_x() then _insert_x
ImplGetOrAdd(kids, d) == IF Has(kids, d.child) THEN kids ELSE ImplAdd(kids, d)          \* get_or_add_x()
ImplRemove(kids, d)   == RemoveAllOf(kids, <<d.child>>)                                \* _remove_x()
ImplChangeTo(kids, d) == IF Has(kids, d.child) THEN kids                               \* get_or_change_to_x(): getter is
                         ELSE ImplAdd(RemoveAllOf(kids, d.group), d)                   \* find(x); else _remove_<group>(); _add_x()
ImplStep(kids, op, d) ==
  CASE op = "Insert"    -> ImplInsert(kids, d)
    [] op = "Add"       -> ImplAdd(kids, d)
    [] op = "PublicAdd" -> ImplAdd(kids, d)                                            \* add_x() of OneOrMore = _add_x()
    [] op \in GetOrAddOps -> ImplGetOrAdd(kids, d)
    [] op = "RemoveAll" -> ImplRemove(kids, d)
    [] op = "ChangeTo"  -> ImplChangeTo(kids, d)
    [] op = "Hand"      -> ImplInsert(kids, d)      \* a hand-written adder (CT_GroupShape.add_*): builds the child, then
                                                    \* self.insert_element_before(child, *succ) - succ read off its behaviour

(* ------------------------------------------------------------------------------------------------------------ *)
(* PROPERTY layer                                                                                                 *)

Known(c, t) == t \in DOMAIN c.rank
Rk(c, t) == c.rank[t]
SlotKids(c, kids, i) == SelectSeq(kids, LAMBDA t : Known(c, t) /\ Rk(c, t) = i)

\* one slot holds what the schema lets it hold
SlotOK(c, kids, i) ==
  LET s == c.slots[i] sk == SlotKids(c, kids, i)
  IN \/ s.rep
     \/ sk = <<>>
     \/ IF s.excl THEN InSeq(s.alts, sk) ELSE \A j \in DOMAIN s.members : Count(sk, s.members[j]) <= 1

\* children of two alternatives of one (refined) choice are never present together
AltBr(c, t) == <<c.slots[Rk(c, t)].alt, c.slots[Rk(c, t)].br>>
OneAlternative(c, kids) ==
  c.nalt = 0 \/ LET ab == {AltBr(c, kids[i]) : i \in DOMAIN kids}
                IN \A p, q \in ab : (p[1] # 0 /\ p[1] = q[1]) => p[2] = q[2]

\* kids is a schema-permitted combination of OTHER children for adding child ch: known tags only, in schema order,
\* every slot within its cardinality, every required slot populated - except the slot ch itself belongs to.
PermittedFor(c, kids, ch) ==
  /\ \A i \in DOMAIN kids : Known(c, kids[i])
  /\ \A i \in 1..(Len(kids) - 1) : Rk(c, kids[i]) <= Rk(c, kids[i + 1])
  /\ OneAlternative(c, kids)
  /\ \A i \in DOMAIN c.slots : /\ SlotOK(c, kids, i)
                               /\ (c.slots[i].req /\ i # Rk(c, ch)) => SlotKids(c, kids, i) # <<>>

\* "never after an element the schema orders later, never before one it orders earlier": every pair of children one
\* of which is a ch element is in rank order (tags the schema type does not know are not judged).
PlacedInOrder(c, kids, ch) ==
  \A i, j \in DOMAIN kids : (i < j /\ (kids[i] = ch \/ kids[j] = ch) /\ Known(c, kids[i]) /\ Known(c, kids[j]))
                               => Rk(c, kids[i]) <= Rk(c, kids[j])

\* does this step have to create a child (and so place it)?
Creates(s, op, d) == op \in {"Insert", "Add", "PublicAdd", "Hand"} \/ (op \in GetOrAddOps \cup {"ChangeTo"} /\ ~Has(s, d.child))

\* the Ordered clause is stated for schema-permitted pre-states only
OrderedJudged(c, d, s, op) == op \in CreatingOps /\ Known(c, d.child) /\ Creates(s, op, d) /\ PermittedFor(c, s, d.child)

\* "'change to' leaves exactly one member of its choice group" is judged on every parent holding at most one member
\* (schema-permitted) AND on a parent holding several members when the call really changes the choice (the requested
\* member is absent): the sentence is unqualified, and a deck from a careless producer is where it matters.  A parent
\* that holds the requested member next to another one is a "get", not a change: not judged.
ChangeJudged(s, d) == CountIn(s, d.group) <= 1 \/ ~Has(s, d.child)

\* jd = OrderedJudged(c, d, s, op), passed in so that it is evaluated once per step
HoldsJ(n, c, d, s, op, t, jd) ==
  CASE n = "Ordered" ->
         jd => (Has(t, d.child) /\ PlacedInOrder(c, t, d.child))
    [] n = "AtMostOne" ->            \* get-or-add creates at most one child; change-to never leaves two of the group
         /\ op \in GetOrAddOps => Count(t, d.child) <= (IF Has(s, d.child) THEN Count(s, d.child) ELSE 1)
         /\ (op = "ChangeTo" /\ ChangeJudged(s, d)) => CountIn(t, d.group) <= 1
    [] n = "GetOrAddIdempotent" ->   \* a second get-or-add changes nothing
         (op \in GetOrAddOps /\ Has(s, d.child)) => t = s
    [] n = "RemoveRemovesAll" ->
         op = "RemoveAll" => ~Has(t, d.child)
    [] n = "ChangeToLeavesExactlyOne" ->
         (op = "ChangeTo" /\ ChangeJudged(s, d)) => CountIn(t, d.group) = 1
Holds(n, c, d, s, op, t) == HoldsJ(n, c, d, s, op, t, OrderedJudged(c, d, s, op))

FailingJ(c, d, s, op, t, jd) == {Names[k] : k \in {j \in DOMAIN Names : ~HoldsJ(Names[j], c, d, s, op, t, jd)}}
Failing(c, d, s, op, t) == FailingJ(c, d, s, op, t, OrderedJudged(c, d, s, op))

\* may the operation be applied to this parent at all (would adding ch respect the cardinality of its own slot)?
OwnSlotFree(c, kids, ch) ==
  LET i == Rk(c, ch) s == c.slots[i]
  IN /\ \/ s.rep
        \/ IF s.excl THEN SlotKids(c, kids, i) = <<>> ELSE ~Has(kids, ch)
     /\ (s.alt # 0 /\ \A x \in DOMAIN kids : Known(c, kids[x])) => OneAlternative(c, Append(kids, ch))
OpEnabled(c, d, kids, op) ==
  CASE op \in {"Insert", "Add", "PublicAdd", "Hand"} -> OwnSlotFree(c, kids, d.child)
    [] op \in GetOrAddOps -> Has(kids, d.child) \/ OwnSlotFree(c, kids, d.child)
    [] OTHER -> TRUE
=============================================================================
