------------------------------- MODULE Sinks -------------------------------
(* Caller-supplied strings are stored as data, never interpreted as markup (property C05).

   A sink is one string-accepting entry point of the public API whose argument ends up in XML (catalogue:
   mbt/catalog/sinks.py).  The property is per call, on a fresh document:

     state  [ field  : the value held at the sink, as the sink's reader returns it:  [set : BOOLEAN, v : Text]
              elems  : structure token of the part that owns the sink (its element tags in document order; text and
                       attribute values are NOT part of it), pkg : the same over every XML member of the package
              out, saved, parses, reopened, field2 : outcome of the call, of saving, of parsing every member of what was
                       saved, of re-opening it, and the reader's value on the re-opened document ]
     action [ op |-> "Store", sink, s : Text, want : Text, stored : BOOLEAN, plain : [elems, pkg] ]
              want   = the value the reader is documented to return (s itself; for file-name sinks the base name)
              stored = FALSE for a path whose name is not kept anywhere (only acceptance and the frame condition apply)
              plain  = the structure tokens observed after storing a plain string of the same kind at the same sink

   Text.  TLC strings are atoms, so text is a sequence of integer tokens  class + 32 * identity  (identity = the code point,
   or the index of a multi-character representative).  The classes are the alphabet TLC enumerates over: *)
EXTENDS Naturals, Sequences, FiniteSets, TLC

AMP == 1  LT == 2  GT == 3  QUOT == 4  APOS == 5  CDEND == 6  ENT == 7  CDOPEN == 8  PLAIN == 9  SP == 10
NBSP == 11  ASTRAL == 12  C1 == 13  TAB == 14  LF == 15  CR == 16  ELEM == 17  PCT == 18  FMT == 19  XESC == 20
\* CDEND = "]]>"   ENT = "&amp;" "&#60;" ... (a well-formed reference)   CDOPEN = "<![CDATA["   C1 = U+0080..U+009F   ELEM = a complete element such as "<b/>"
\* PCT = a percent-escape such as "%20" (hyperlink addresses: must come back as stored after save and re-open)
\* FMT = a str.format / printf field ("{0}", "%s"): a template layer must store it, not interpret it
\* XESC = seven characters that look like an OOXML character escape ("_x0041_"): the caller's data, never decoded
Classes == 1..20
Cls(tok) == tok % 32

Unset == [set |-> FALSE, v |-> <<>>]
Val(x) == [set |-> TRUE, v |-> x]
\* a fresh document, before the call
Fresh == [out |-> "none", field |-> Unset, saved |-> FALSE, parses |-> FALSE, reopened |-> FALSE, elems |-> "none", pkg |-> "none",
          field2 |-> Unset]

\* ------------------------------------------------------------------ PROPERTY layer: named clauses on  s --a--> t
PostNames == <<"Accepted", "ReadBack", "StructureUnchanged", "StillParses", "ReopenReadBack">>
Holds(n, s, a, t) ==
  CASE n = "Accepted" ->            \* accepted for every XML-representable string: the call does not raise
         t.out = "ok"
    [] n = "ReadBack" ->            \* stored so that the corresponding reader returns the same string
         (t.out = "ok" /\ a.stored) => t.field = Val(a.want)
    [] n = "StructureUnchanged" ->  \* markup characters never change the document's element structure: the structure does
                                    \* not depend on the string (the empty string may legitimately make fewer elements: no run, no link)
         (t.out = "ok" /\ t.saved /\ a.s # <<>>) => (t.elems = a.plain.elems /\ t.pkg = a.plain.pkg)
    [] n = "StillParses" ->         \* ... and never cause a parse error: what is saved parses, member by member, and re-opens
         t.out = "ok" => (t.saved /\ t.parses /\ t.reopened)
    [] n = "ReopenReadBack" ->      \* the reader returns the same string after save and re-open
         (t.out = "ok" /\ t.reopened /\ a.stored) => t.field2 = Val(a.want)
Failing(s, a, t) == {PostNames[i] : i \in {j \in DOMAIN PostNames : ~Holds(PostNames[j], s, a, t)}}
Post(s, a, t) == Failing(s, a, t) = {}

\* ------------------------------------------------------------------ IMPL layer (trivial on purpose, see DESIGN C05: the property is
\* per call; whether a sink escapes is a per-call-site fact that only the real code can answer).  What every sink is meant to do:
ImplStore(a) == [out |-> "ok", field |-> IF a.stored THEN Val(a.want) ELSE Unset, saved |-> TRUE, parses |-> TRUE, reopened |-> TRUE,
                 elems |-> a.plain.elems, pkg |-> a.plain.pkg, field2 |-> IF a.stored THEN Val(a.want) ELSE Unset]
=============================================================================
