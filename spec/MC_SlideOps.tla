------------------------------ MODULE MC_SlideOps ------------------------------
(* Every sequence of <= DEPTH catalogue operations applicable (by enabling flags) to each object kind under each preparation.
   Sequences are emitted when complete; the driver creates the object, applies them through the public API and logs the
   monitor's verdict for every touched part after every step.                                                          *)
EXTENDS SlideOps, Json, SlideOpsData
CONSTANTS KINDS, PREPS, DEPTH
VARIABLES st, hist
\* the catalogue is a literal constant (module SlideOpsData, regenerated from mbt/catalog/slideops.py by the check at every run;
\* reading it with JsonDeserialize on every reference exhausted file handles in the triples configuration)
OpsFromFile == OpsData
Init == \E k \in KINDS, p \in PREPS : st = [kind |-> k, prep |-> p, flags |-> {}] /\ hist = <<>>
Do(i) == Len(hist) < DEPTH /\ Enabled(Ops[i], st) /\ st' = Apply(Ops[i], st) /\ hist' = Append(hist, Ops[i].name)
Next == \E i \in DOMAIN Ops : Do(i)
Spec == Init /\ [][Next]_<<st, hist>>
Emit == (Len(hist) = DEPTH \/ (Len(hist) > 0 /\ ~\E i \in DOMAIN Ops : Enabled(Ops[i], st))) =>
           PrintT(<<"SEQ", ToJson([kind |-> st.kind, prep |-> st.prep, ops |-> hist])>>)
\* every operation of the catalogue is enabled for some kind (vacuity of the catalogue itself)
ASSUME CatalogueUsable == \A i \in DOMAIN Ops : Ops[i].kinds # <<>>
=============================================================================
