----------------------------- MODULE Trace_Alloc -----------------------------
(* Validates allocator histories OBSERVED on the real python-pptx objects (mbt/drive/alloc.py).
   IOEnv.TRACE_FILE = [traces : Seq([id, kind, steps : Seq([op, arg, new, exp, raised, used : Seq(token)])])]
     used = the identifier set READ BACK from the object after the call, new = what the call returned (as a token),
     exp = what MC_Alloc's transcription predicted for that step (drift only, never a verdict).
   Verdict per allocation step: the property layer of Alloc.tla (Fresh, InRange, ExistingKept, ExactlyOneNew) plus
     Succeeds        - the allocation did not raise (no allocator documents an exception)
     ReleaseReleases - (release steps) exactly the released identifier is gone
     InitAsGiven     - (init) the object holds exactly the identifiers the history starts from (binding sanity)          *)
EXTENDS Alloc, Json, IOUtils, SequencesExt, FiniteSetsExt
VARIABLE dummy
Rr == JsonDeserialize(IOEnv.TRACE_FILE)
Traces == Rr.traces
SeqSet(s) == {s[i] : i \in DOMAIN s}

StepFailing(tr, i) ==
  LET e == tr.steps[i]
      s == SeqSet(tr.steps[i - 1].used)
      t == SeqSet(e.used)
  IN CASE e.op \in {"alloc", "allocGap", "allocIn", "allocFree", "allocAgain"} ->
            IF e.raised # "" THEN {"Succeeds"} \cup (IF t = s THEN {} ELSE {"ExistingKept"})
            ELSE Failing(tr.kind, s, e.new, t)
       [] e.op = "release" -> IF e.raised = "" /\ t = s \ {e.arg} THEN {} ELSE {"ReleaseReleases"}
       [] OTHER -> IF t = s /\ e.raised = "" THEN {} ELSE {"ExistingKept"}
Bad(tr) == {i \in 2..Len(tr.steps) : StepFailing(tr, i) # {}}
Drift(tr) == {i \in 2..Len(tr.steps) : tr.steps[i].op \in {"alloc", "allocGap", "allocIn", "allocFree", "allocAgain"} /\ tr.steps[i].new # tr.steps[i].exp}
Rejected == {k \in DOMAIN Traces : Bad(Traces[k]) # {}}
ASSUME \A k \in Rejected : LET tr == Traces[k] i == Min(Bad(tr))
                           IN PrintT(<<"VERDICT", ToJson([id |-> tr.id, kind |-> tr.kind, step |-> i, op |-> tr.steps[i].op,
                                                           failing |-> SetToSeq(StepFailing(tr, i)), all |-> SetToSeq(Bad(tr))])>>)
Drifted == {k \in DOMAIN Traces : Drift(Traces[k]) # {}}
ASSUME \A k \in Drifted : PrintT(<<"DRIFT", ToJson([id |-> Traces[k].id, steps |-> SetToSeq(Drift(Traces[k]))])>>)
ASSUME PrintT(<<"SUMMARY", ToJson([traces |-> Len(Traces), rejected |-> Cardinality(Rejected), drift |-> Cardinality(Drifted),
                                   allocs |-> FoldLeft(LAMBDA a, tr : a + Cardinality({i \in DOMAIN tr.steps : tr.steps[i].op \in {"alloc", "allocGap", "allocIn", "allocFree", "allocAgain"}}), 0, Traces)])>>)
Init == dummy = 0
Next == UNCHANGED dummy
=============================================================================
