------------------------------- MODULE MC_Media -------------------------------
(* Histories of image additions across slides, placeholders, movie posters and OLE icons with saves and re-opens
   in between (the SHA1 lookup is rebuilt from the loaded parts after a re-open).  Model state: which images are stored. *)
EXTENDS Media, Json
CONSTANTS DEPTH, NIMG, NSLIDES, OPS
VARIABLES st, hist
DummyU == <<>>
Act(op, slide, img, args, via) == [op |-> op, slide |-> slide, img |-> img, args |-> args, via |-> via, cx |-> 1234567, cy |-> 765432]
Init == st = [stored |-> {}, npics |-> 0, last |-> "open", reopened |-> FALSE] /\ hist = <<>>
Step(a, t) == Len(hist) < DEPTH /\ a.op \in OPS /\ st' = [t EXCEPT !.last = a.op] /\ hist' = Append(hist, a)
AddPicture == \E k \in 1..NSLIDES, i \in 1..NIMG, g \in {"none", "w", "h", "both"}, v \in {"stream", "path"} :
                 (g = "none" \/ v = "stream") /\
                 Step(Act("addPicture", k, i, g, v), [st EXCEPT !.stored = @ \cup {i}, !.npics = @ + 1])
InsertPicture == \E i \in 1..NIMG : Step(Act("insertPicture", 1, i, "none", "stream"), [st EXCEPT !.stored = @ \cup {i}, !.npics = @ + 1])
AddMovie == \E i \in 0..NIMG : Step(Act("addMovie", 1, i, "none", "stream"), [st EXCEPT !.stored = IF i = 0 THEN @ \cup {NIMG + 1} ELSE @ \cup {i}])
AddOle   == \E i \in 0..NIMG : Step(Act("addOle", 2, i, "none", "stream"), [st EXCEPT !.stored = IF i = 0 THEN @ \cup {NIMG + 2} ELSE @ \cup {i}])
Save     == st.last # "save" /\ Step(Act("save", 0, 0, "none", ""), st)
Reopen   == st.last # "reopen" /\ Step(Act("reopen", 0, 0, "none", ""), [st EXCEPT !.reopened = TRUE])
Next == AddPicture \/ InsertPicture \/ AddMovie \/ AddOle \/ Save \/ Reopen
Spec == Init /\ [][Next]_<<st, hist>>
ViewSt == st
EmitState == PrintT(<<"ST", ToJson(hist)>>)
=============================================================================
