------------------------------- MODULE MC_Media -------------------------------
(* Histories of image additions across slides, placeholders, movie posters and OLE icons with saves and re-opens
   in between (the SHA1 lookup is rebuilt from the loaded parts after a re-open).  Model state: which images are stored. *)
EXTENDS Media, Json
CONSTANTS DEPTH, NIMG, NSLIDES, OPS,
          ARGS, VIAS,     \* size-argument patterns and sources explored by AddPicture
          LOGO,           \* 0: the deck is the default template; i > 0: slide layout 11 of the initial deck carries a picture of image i
          CTALIAS,        \* TRUE: the deck as opened declares its JPEG parts with the content type "image/jpg" (an alias other producers write)
          NPRE            \* the deck as opened already shows the images 1..NPRE on its second slide (parts image1 .. image<NPRE>): with NPRE >= 10
                          \* the sequence numbers cross a decimal-digit boundary (image10 sorts before image2 as TEXT)
VARIABLES st, hist
DummyU == <<>>
AllArgs == {"none", "w", "h", "both"}
AllVias == {"stream", "path", "usedstream", "samepath", "ingroup"}     \* usedstream: a stream whose cursor is mid-way (the caller looked into it)
\* Impl layer of the image part names (Package.next_image_partname: the first free sequence number, whatever the extension):
\* st.parts = the reachable image parts as [img, num]; st.used = images referenced from slides; st.logoLay = layout 11 still there
Nums(parts) == {p.num : p \in parts}
NextNum(parts) == CHOOSE n \in 1..(Cardinality(parts) + 1) : n \notin Nums(parts) /\ \A m \in 1..(n - 1) : m \in Nums(parts)
Stored(parts) == {p.img : p \in parts}
Store(parts, i) == IF i \in Stored(parts) THEN parts ELSE parts \cup {[img |-> i, num |-> NextNum(parts)]}
Use(s, i) == [s EXCEPT !.parts = Store(@, i), !.used = @ \cup {i}]
Act(op, slide, img, args, via) == [op |-> op, slide |-> slide, img |-> img, args |-> args, via |-> via, cx |-> 1234567, cy |-> 765432]
Init == st = [parts |-> (IF LOGO > 0 THEN {[img |-> LOGO, num |-> 1]} ELSE {}) \cup {[img |-> i, num |-> i] : i \in 1..NPRE}, used |-> 1..NPRE, logoLay |-> LOGO > 0,
              npics |-> 0, last |-> "open", li |-> 0, reopened |-> FALSE] /\ hist = <<>>
\* (li: the image the last action named - adding an image that is already stored is a step of its own, whichever image it is)
Step(a, t) == Len(hist) < DEPTH /\ a.op \in OPS /\ st' = [t EXCEPT !.last = a.op, !.li = a.img] /\ hist' = Append(hist, a)
AddPicture == \E k \in 1..NSLIDES, i \in 1..NIMG, g \in ARGS, v \in VIAS :
                 (g = "none" \/ v = "stream") /\
                 Step(Act("addPicture", k, i, g, v), [Use(st, i) EXCEPT !.npics = @ + 1])
InsertPicture == \E i \in 1..NIMG : Step(Act("insertPicture", 1, i, "none", "stream"), [Use(st, i) EXCEPT !.npics = @ + 1])
AddMovie == \E i \in 0..NIMG : Step(Act("addMovie", 1, i, "none", "stream"), Use(st, IF i = 0 THEN NIMG + 1 ELSE i))
AddOle   == \E i \in 0..NIMG : Step(Act("addOle", IF NSLIDES > 1 THEN 2 ELSE 1, i, "none", "stream"), Use(st, IF i = 0 THEN NIMG + 2 ELSE i))
\* the layout that carries the logo is removed (no slide uses it): its image part goes unless a slide shows the same image
RemoveLayout == st.logoLay /\
                 Step(Act("removeLayout", 0, 0, "none", ""),
                      [st EXCEPT !.logoLay = FALSE, !.parts = IF LOGO \in st.used THEN @ ELSE {p \in @ : p.img # LOGO}])
Save     == st.last # "save" /\ Step(Act("save", 0, 0, "none", ""), st)
Reopen   == st.last # "reopen" /\ Step(Act("reopen", 0, 0, "none", ""), [st EXCEPT !.reopened = TRUE])
Next == AddPicture \/ InsertPicture \/ AddMovie \/ AddOle \/ Save \/ Reopen \/ RemoveLayout
\* design check of the transcribed allocator: live image parts never share a sequence number, one part per image
NamesFresh == \A p, q \in st.parts : (p.num = q.num \/ p.img = q.img) => p = q
Spec == Init /\ [][Next]_<<st, hist>>
ViewSt == st
EmitState == PrintT(<<"ST", ToJson(hist)>>)
=============================================================================
