------------------------------ MODULE OpcPackage ------------------------------
(* Open / Save of an OPC package (properties C01 and C16), on top of PackUri.

   phys  — the physical package as found in a zip / stream / directory:
     [ kind  : "pkg" | "notzip" | "truncated" | "nopath"
       mem   : Seq([n : Name, pl : STRING])                    members other than [Content_Types].xml and *.rels
       ct    : [present : BOOLEAN,
                defs : Seq([ext : STRING (lower-cased), flip : BOOLEAN, type : STRING]),
                ovrs : Seq([n : Name, flip : BOOLEAN, type : STRING])]
       rels  : Seq([src : Name, items : Seq([id, type, ext : BOOLEAN, ref : [abs, segs], url])]) ]
               one entry per relationship item present; src = <<>> is the package
   pkg   — the loaded package:
     [ ok : BOOLEAN, err : STRING,
       parts : Seq([n, type, pl]), rels : Seq([src, items : Seq([id, type, ext, tgt : Name, url])]) ]

   "flip" records that the declaration is spelled with different letter case than the member;
   OPC part names and extensions are compared case-insensitively, so lookups ignore it.
   Payloads are tokens: the driver maps bytes to a token (canonical-XML class for XML content
   types, exact bytes otherwise), so token equality is the property's payload equality.        *)
EXTENDS PackUri

ROOT == <<>>
CT_XML  == "application/xml"
CT_RELS == "application/vnd.openxmlformats-package.relationships+xml"
CT_PRN_P == "application/vnd.openxmlformats-officedocument.presentationml.printerSettings"
CT_PRN_S == "application/vnd.openxmlformats-officedocument.spreadsheetml.printerSettings"

LowerExt(e) == CASE e = "XML" -> "xml" [] e = "BIN" -> "bin" [] e = "PNG" -> "png" [] e = "JPG" -> "jpg" [] OTHER -> e

\* pairs (lower-case extension, type) for which the writer emits a Default (pptx.opc.spec.default_content_types,
\* restricted to the types the models use; the driver cross-checks this table against the code).
DefaultPairs == { <<"bin", CT_PRN_P>>, <<"bin", CT_PRN_S>>, <<"xml", CT_XML>>, <<"rels", CT_RELS>>,
                  <<"png", "image/png">>, <<"jpg", "image/jpeg">>, <<"jpeg", "image/jpeg">>, <<"gif", "image/gif">>,
                  <<"xlsx", "application/vnd.openxmlformats-officedocument.spreadsheetml.sheet">> }

\* ------------------------------------------------------------------ reading a physical package
MemNames(ph)  == {ph.mem[i].n : i \in DOMAIN ph.mem}
PayloadOf(ph, n) == (CHOOSE m \in Range(ph.mem) : m.n = n).pl
HasRelsItem(ph, src) == \E i \in DOMAIN ph.rels : ph.rels[i].src = src
RelItems(ph, src) == IF HasRelsItem(ph, src) THEN (CHOOSE r \in Range(ph.rels) : r.src = src).items ELSE <<>>
TargetOf(src, it) == Resolve(Dir(src), it.ref)                       \* internal items only
Targets(ph, src)  == {TargetOf(src, it) : it \in {x \in Range(RelItems(ph, src)) : ~x.ext}}

RECURSIVE Closure(_, _)
Closure(ph, S) == LET S2 == S \cup UNION {Targets(ph, s) : s \in S} IN IF S2 = S THEN S ELSE Closure(ph, S2)
Visited(ph)    == Closure(ph, {ROOT})
ReachParts(ph) == (Visited(ph) \ {ROOT}) \cap MemNames(ph)

\* content type of part name n: Override (case-insensitive name) else Default (case-insensitive
\* extension) else none.  Later entries win (the reader builds dicts).
LastWhere(s, P(_)) == LET I == {i \in DOMAIN s : P(s[i])} IN IF I = {} THEN 0 ELSE CHOOSE i \in I : \A j \in I : j <= i
CtOf(ph, n) ==
  LET io == LastWhere(ph.ct.ovrs, LAMBDA o : o.n = n)
      id == LastWhere(ph.ct.defs, LAMBDA d : d.ext = LowerExt(Ext(n)))
  IN IF io # 0 THEN ph.ct.ovrs[io].type ELSE IF id # 0 THEN ph.ct.defs[id].type ELSE "NONE"

\* ------------------------------------------------------------------ Open
SeqOfSet(S) == SetToSeq(S)                                                    \* any order; only used as a set
LoadItems(ph, src, parts) ==                       \* relationships kept: external, or internal with a loaded target
  LET keep(it) == it.ext \/ TargetOf(src, it) \in parts
      raw == RelItems(ph, src)
      idx == {i \in DOMAIN raw : keep(raw[i])}
      F[i \in 0..Len(raw)] == IF i = 0 THEN <<>>
                              ELSE IF i \in idx
                                   THEN Append(F[i-1], [id |-> raw[i].id, type |-> raw[i].type, ext |-> raw[i].ext,
                                                         tgt |-> IF raw[i].ext THEN <<>> ELSE TargetOf(src, raw[i]),
                                                         url |-> raw[i].url])
                                   ELSE F[i-1]
  IN F[Len(raw)]

Refused(e) == [ok |-> FALSE, err |-> e, parts |-> <<>>, rels |-> <<>>]

\* form \in {"path", "stream", "dir", "dirlink"}   (dirlink: a directory-form package whose sub-directories are symbolic links)
OpenOf(ph, form) ==
  IF ph.kind = "nopath" THEN Refused("PackageNotFoundError")
  ELSE IF ph.kind \in {"notzip", "truncated"}
       THEN Refused(IF form = "stream" THEN "BadZipFile" ELSE "PackageNotFoundError")
  ELSE IF ~ph.ct.present THEN Refused("KeyError")
  ELSE LET parts == ReachParts(ph) IN
       IF \E n \in parts : CtOf(ph, n) = "NONE" THEN Refused("KeyError")
       ELSE LET ps == SeqOfSet(parts)
                srcs == SeqOfSet({ROOT} \cup parts)
            IN [ok |-> TRUE, err |-> "",
                parts |-> [i \in DOMAIN ps |-> [n |-> ps[i], type |-> CtOf(ph, ps[i]), pl |-> PayloadOf(ph, ps[i])]],
                rels  |-> [i \in DOMAIN srcs |-> [src |-> srcs[i], items |-> LoadItems(ph, srcs[i], parts)]]]

\* ------------------------------------------------------------------ pptx.Presentation(): Open + main-part checks
OFFICE_DOC == "http://schemas.openxmlformats.org/officeDocument/2006/relationships/officeDocument"
PresTypes  == {"application/vnd.openxmlformats-officedocument.presentationml.presentation.main+xml",
               "application/vnd.ms-powerpoint.presentation.macroEnabled.main+xml"}
ApiOutcome(ph, form) ==
  LET pk == OpenOf(ph, form) IN
  IF ~pk.ok THEN pk
  ELSE LET root  == IF \E r \in Range(pk.rels) : r.src = ROOT THEN (CHOOSE r \in Range(pk.rels) : r.src = ROOT).items ELSE <<>>
           mains == {it \in Range(root) : it.type = OFFICE_DOC /\ ~it.ext}
       IN IF mains = {} THEN Refused("KeyError")
          ELSE IF Cardinality(mains) > 1 THEN Refused("ValueError")
          ELSE LET m == CHOOSE it \in mains : TRUE
                   ty == (CHOOSE p \in Range(pk.parts) : p.n = m.tgt).type
               IN IF ty \in PresTypes THEN pk ELSE Refused("ValueError")

\* ------------------------------------------------------------------ comparing loaded packages (order-free)
PartSet(pk)  == Range(pk.parts)
PartNames(pk) == {p.n : p \in PartSet(pk)}
PkItems(pk, src) == IF \E r \in Range(pk.rels) : r.src = src THEN (CHOOSE r \in Range(pk.rels) : r.src = src).items ELSE <<>>
PkRelSet(pk, src) == Range(PkItems(pk, src))
SamePkg(a, b) == /\ a.ok = b.ok /\ a.err = b.err
                 /\ PartSet(a) = PartSet(b)
                 /\ \A s \in {ROOT} \cup PartNames(a) : PkRelSet(a, s) = PkRelSet(b, s) /\ Len(PkItems(a, s)) = Len(PkItems(b, s))

\* ------------------------------------------------------------------ the property: what a saved package must be
PhRelSet(ph, src) == {[id |-> it.id, type |-> it.type, ext |-> it.ext,
                       tgt |-> IF it.ext THEN <<>> ELSE TargetOf(src, it), url |-> it.url] : it \in Range(RelItems(ph, src))}
SaveClauses == <<"ExactlyReachableParts", "SameContentType", "SamePayload", "SameRelationships", "NoStrayRelItems", "ContentTypesPresent">>
SaveHolds(c, pk, ph) ==
  CASE c = "ExactlyReachableParts" -> MemNames(ph) = PartNames(pk) /\ Len(ph.mem) = Cardinality(PartNames(pk))
    [] c = "SameContentType"       -> \A p \in PartSet(pk) : p.n \in MemNames(ph) => CtOf(ph, p.n) = p.type
    [] c = "SamePayload"           -> \A p \in PartSet(pk) : p.n \in MemNames(ph) => PayloadOf(ph, p.n) = p.pl
    [] c = "SameRelationships"     -> \A s \in {ROOT} \cup PartNames(pk) :
                                         PhRelSet(ph, s) = PkRelSet(pk, s) /\ Len(RelItems(ph, s)) = Len(PkItems(pk, s))
    [] c = "NoStrayRelItems"       -> \A r \in Range(ph.rels) : r.src \in {ROOT} \cup PartNames(pk)
    [] c = "ContentTypesPresent"   -> ph.kind = "pkg" /\ ph.ct.present
SaveOK(pk, ph) == \A i \in DOMAIN SaveClauses : SaveHolds(SaveClauses[i], pk, ph)
SaveFailing(pk, ph) == {SaveClauses[i] : i \in {j \in DOMAIN SaveClauses : ~SaveHolds(SaveClauses[j], pk, ph)}}

\* ------------------------------------------------------------------ the writer as coded (Impl layer)
\* depth-first part order of OpcPackage.iter_parts (relationship order as loaded)
RECURSIVE Dfs(_, _, _)
Dfs(pk, todo, seen) ==            \* todo: Seq of names still to expand (stack), seen: Seq of part names in visit order
  IF todo = <<>> THEN seen
  ELSE LET s == Head(todo)
           kids == LET its == PkItems(pk, s) IN [i \in DOMAIN its |-> its[i]]
           F[i \in 0..Len(kids)] ==
              IF i = 0 THEN seen
              ELSE LET acc == F[i-1] IN
                   IF kids[i].ext \/ kids[i].tgt \in Range(acc) THEN acc
                   ELSE Dfs(pk, <<kids[i].tgt>>, Append(acc, kids[i].tgt))
       IN Dfs(pk, Tail(todo), F[Len(kids)])
IterParts(pk) == Dfs(pk, <<ROOT>>, <<>>)

TypeOfPart(pk, n) == IF \E p \in PartSet(pk) : p.n = n THEN (CHOOSE p \in PartSet(pk) : p.n = n).type ELSE "NONE"
PlOfPart(pk, n)   == IF \E p \in PartSet(pk) : p.n = n THEN (CHOOSE p \in PartSet(pk) : p.n = n).pl ELSE "NONE"

\* _ContentTypesItem._defaults_and_overrides.  ConflictRule = "lastwins" is the pinned code (a Default is
\* overwritten by a later part with the same extension and another defaultable type); "override" is the
\* repaired rule (the later part gets an Override).
ImplCt(pk, rule) ==
  LET order == IterParts(pk)
      F[i \in 0..Len(order)] ==
        IF i = 0 THEN [defs |-> [e \in {"rels", "xml"} |-> IF e = "rels" THEN CT_RELS ELSE CT_XML], ovrs |-> {}]
        ELSE LET acc == F[i-1]
                 n == order[i]
                 e == LowerExt(Ext(n))
                 t == TypeOfPart(pk, n)
             IN IF <<e, t>> \in DefaultPairs /\ (rule = "lastwins" \/ e \notin DOMAIN acc.defs \/ acc.defs[e] = t)
                THEN [acc EXCEPT !.defs = [x \in DOMAIN acc.defs \cup {e} |-> IF x = e THEN t ELSE acc.defs[x]]]
                ELSE [acc EXCEPT !.ovrs = acc.ovrs \cup {[n |-> n, flip |-> FALSE, type |-> t]}]
  IN F[Len(order)]

ImplSave(pk, rule) ==
  LET order == IterParts(pk)
      ctm   == ImplCt(pk, rule)
      dset  == {[ext |-> e, flip |-> FALSE, type |-> ctm.defs[e]] : e \in DOMAIN ctm.defs}
      srcs  == {ROOT} \cup {n \in Range(order) : PkItems(pk, n) # <<>>}
      item(src, it) == [id |-> it.id, type |-> it.type, ext |-> it.ext, url |-> it.url,
                        ref |-> IF it.ext THEN [abs |-> FALSE, segs |-> <<>>] ELSE RelRef(Dir(src), it.tgt)]
  IN [kind |-> "pkg",
      mem  |-> [i \in DOMAIN order |-> [n |-> order[i], pl |-> PlOfPart(pk, order[i])]],
      ct   |-> [present |-> TRUE, defs |-> SeqOfSet(dset), ovrs |-> SeqOfSet(ctm.ovrs)],
      rels |-> LET ss == SeqOfSet(srcs) IN
               [i \in DOMAIN ss |-> [src |-> ss[i],
                                      items |-> LET its == PkItems(pk, ss[i]) IN [k \in DOMAIN its |-> item(ss[i], its[k])]]]]

\* physical packages compared as the property cares (order of declarations is not significant)
SamePhys(a, b) == /\ a.kind = b.kind
                  /\ Range(a.mem) = Range(b.mem) /\ Len(a.mem) = Len(b.mem)
                  /\ a.ct.present = b.ct.present
                  /\ \A n \in MemNames(a) : CtOf(a, n) = CtOf(b, n)
                  /\ {r.src : r \in Range(a.rels)} = {r.src : r \in Range(b.rels)}
                  /\ \A r \in Range(a.rels) : PhRelSet(a, r.src) = PhRelSet(b, r.src)
=============================================================================
