--------------------------- MODULE Trace_CoreProps ---------------------------
(* Validates core-properties traces observed from the real library against the PROPERTY layer of CoreProps (C18).
   R.inits[kind]  = full state projected before the first action of a package of that kind ("absent" | "empty" | "template" | "foreign" | "sparse")
   R.traces[k] = [ id, kind,
                   steps : Seq([a, out, d]) ]   a: action record, out: "ok" | exception class,
                                                d: the state after the call as a delta [present, xsd, str : Seq([p, v]),
                                                   date : Seq([p, v]), rev : Seq(slot)] over the slots that changed
   ImplStep's "modified = now" (drift only) takes the observed value.                                              *)
EXTENDS CoreProps, Json, IOUtils, SequencesExt
VARIABLE dummy
R == JsonDeserialize(IOEnv.TRACE_FILE)
T == R.traces

Pick(seq, p, old) == LET hit == {i \in DOMAIN seq : seq[i].p = p} IN IF hit = {} THEN old ELSE seq[CHOOSE i \in hit : TRUE].v
Apply(s, d) == [present |-> d.present, xsd |-> d.xsd,
                str  |-> [p \in StrProps |-> Pick(d.str, p, s.str[p])],
                date |-> [p \in DateProps |-> Pick(d.date, p, s.date[p])],
                rev  |-> IF d.rev = <<>> THEN s.rev ELSE d.rev[1]]
\* States(tr)[k] = state before step k; States(tr)[k+1] = state after it
States(tr) == FoldLeft(LAMBDA acc, st : Append(acc, Apply(acc[Len(acc)], st.d)), <<R.inits[tr.kind]>>, tr.steps)

StepBad(tr) == LET S == States(tr) IN
  {[at |-> "step", k |-> k, cls |-> ActClass(tr.steps[k].a), failing |-> PostFailing(S[k], tr.steps[k].a, tr.steps[k].out, S[k + 1])] :
     k \in {j \in DOMAIN tr.steps : PostFailing(S[j], tr.steps[j].a, tr.steps[j].out, S[j + 1]) # {}}}
InitBad(tr) == LET f == InitFailing(tr.kind, R.inits[tr.kind]) IN IF f = {} THEN {} ELSE {[at |-> "init", k |-> 0, cls |-> [k |-> "part", c |-> tr.kind, m |-> "x"], failing |-> f]}
Bad(tr) == InitBad(tr) \cup StepBad(tr)

\* drift: the observed successor differs from the Impl layer (first access: "now" is taken from the observation)
NowOf(t) == t.date["modified"].r
DriftOf(tr) == LET S == States(tr) IN
  Cardinality({k \in DOMAIN tr.steps : LET r == ImplStep(S[k], tr.steps[k].a, NowOf(S[k + 1])) IN
                                         r.t # S[k + 1] \/ r.out # tr.steps[k].out})
\* reader exceptions are outside the statement (UTC equivalent not representable); counted, not judged
ReaderRaised(tr) == LET S == States(tr) IN Cardinality({k \in DOMAIN tr.steps : \E p \in DateProps : S[k + 1].date[p].e})

BadTraces == {k \in DOMAIN T : Bad(T[k]) # {}}
ASSUME \A k \in BadTraces : PrintT(<<"VERDICT", ToJson([id |-> T[k].id, k |-> k, bad |-> Bad(T[k])])>>)
DriftTraces == {k \in DOMAIN T : DriftOf(T[k]) > 0}
ASSUME \A k \in DriftTraces : PrintT(<<"DRIFT", ToJson([id |-> T[k].id, n |-> DriftOf(T[k])])>>)
ASSUME PrintT(<<"SUMMARY", ToJson([traces |-> Len(T), rejected |-> Cardinality(BadTraces),
                                   steps |-> FoldLeft(LAMBDA acc, tr : acc + Len(tr.steps), 0, T),
                                   drift |-> FoldLeft(LAMBDA acc, tr : acc + DriftOf(tr), 0, T),
                                   readerRaised |-> FoldLeft(LAMBDA acc, tr : acc + ReaderRaised(tr), 0, T)])>>)
Init == dummy = 0
Next == UNCHANGED dummy
=============================================================================
