---------------------------- MODULE MC_EnumTables ----------------------------
(* C20. (1) TLC evaluates the relation of EnumTables over the extracted tables and prints one BAD line per offending
   member per clause; (2) explores the trivial machine Add -> SaveReopen -> ReadBack over every auto-shape type and every
   writable chart type on every host, emits one path per state, and reports the scenarios on which the Impl layer
   (transcription of the code over the same tables) does not satisfy the property layer (DESIGN lines).               *)
EXTENDS EnumTables, Json, IOUtils
VARIABLES st, hist

TabFromFile == JsonDeserialize(IOEnv.TABLES_FILE)

ASSUME \A b \in Offenders : PrintT(<<"BAD", ToJson(b)>>)
ASSUME PrintT(<<"RELATION", ToJson([offenders |-> Cardinality(Offenders), evaluated |-> Evaluations, notJudged |-> NotJudged,
                                    stdGap |-> StdGap,
                                    perClause |-> [i \in DOMAIN Clauses |-> [clause |-> Clauses[i],
                                                    n |-> Cardinality({b \in Offenders : b.clause = Clauses[i]})]]])>>)
ASSUME \A m \in ShapeMembers : ImplFailing("shape", m.name) = {} \/
          PrintT(<<"DESIGN", ToJson([kind |-> "shape", item |-> m.name, failing |-> ImplFailing("shape", m.name)])>>)
ASSUME \A c \in Writable : ImplFailing("chart", c.member) = {} \/
          PrintT(<<"DESIGN", ToJson([kind |-> "chart", item |-> c.member, failing |-> ImplFailing("chart", c.member)])>>)

Init == st = InitSt /\ hist = <<>>
DoAddAutoShape == \E t \in {m.name : m \in ShapeMembers} : \E h \in Hosts :
                     AddAutoShape(st, t, h) /\ st' = AfterAddShape(t, h) /\ hist' = Append(hist, [op |-> "AddAutoShape", item |-> t, host |-> h])
DoAddChart     == \E c \in {x.member : x \in Writable} : \E h \in Hosts :
                     AddChart(st, c, h) /\ st' = AfterAddChart(c, h) /\ hist' = Append(hist, [op |-> "AddChart", item |-> c, host |-> h])
DoSaveReopen   == SaveReopen(st) /\ st' = [st EXCEPT !.phase = "reopened"] /\ hist' = Append(hist, [op |-> "SaveReopen", item |-> st.item, host |-> st.host])
DoReadBack     == ReadBack(st) /\ st' = [st EXCEPT !.phase = "read"] /\ hist' = Append(hist, [op |-> "ReadBack", item |-> st.item, host |-> st.host])
Next == DoAddAutoShape \/ DoAddChart \/ DoSaveReopen \/ DoReadBack
Spec == Init /\ [][Next]_<<st, hist>>
ViewSt == st
EmitState == st.phase # "read" \/ PrintT(<<"ST", ToJson(hist)>>)
=============================================================================
