------------------------------- MODULE MC_Table -------------------------------
(* Every merge/split(/resize) history up to DEPTH on every table shape up to MAXR x MAXC, with the
   text patterns PATS.  Checks that the Impl layer satisfies the property layer (Refines, Inv) and
   prints one path to every distinct state; the driver replays each path into the real library
   and then applies EVERY action to the state reached (transition-complete replay).             *)
EXTENDS Table, Json, SequencesExt
CONSTANTS MAXR, MAXC, DEPTH, PATS, SIZEACTS, W, H, SIM,
          VARS      \* document variants of the table the history starts from (the state record is the same; the XML is not):
                    \*   0 as add_table writes it;  1 the optional a:tblPr is absent;  2 no cell has an a:tcPr;
                    \*   3 a:extLst children in every a:tr (behind its cells), a:tc (behind a:tcPr) and a:gridCol
VARIABLES st, hist

Tok(i, j, c) == (i - 1) * c + j
PatTxt(p, i, j, c) ==
  CASE p = 1 -> <<Tok(i, j, c)>>
    [] p = 2 -> IF (i + j) % 2 = 0 THEN <<Tok(i, j, c)>> ELSE <<0>>
    [] p = 3 -> <<0>>
    [] p = 4 -> IF (i + j) % 2 = 1 THEN <<0, Tok(i, j, c)>> ELSE IF i = 1 THEN <<Tok(i, j, c), 0, Tok(i, j, c) + 50>> ELSE <<0, 0>>
    \* blank bodies of every length next to each other: one empty paragraph (the only body the code calls "empty"), two and three
    \* empty paragraphs (not "empty" for the code, yet without any text), and a lone text cell
    [] p = 5 -> CASE (i + 2 * j) % 4 = 3 -> <<0>> [] (i + 2 * j) % 4 = 0 -> <<0, 0>> [] (i + 2 * j) % 4 = 1 -> <<0>> [] OTHER -> IF j = c THEN <<0, 0, 0>> ELSE <<Tok(i, j, c)>>
    \* cells as a DOCUMENT may hold them: tokens 200.. stand for a paragraph whose only content is a FIELD (a:fld: a slide number, a date) -
    \* text like any other ("the merge origin holds the text of every merged cell"), beside ordinary text cells and empty ones
    [] p = 6 -> IF (i + j) % 2 = 1 THEN <<200 + Tok(i, j, c)>> ELSE IF i = 2 THEN <<Tok(i, j, c)>> ELSE <<0>>
Create(r, c, p, v) == [op |-> "create", r |-> r, c |-> c, w |-> W, h |-> H, pat |-> p, var |-> v,
                       txt |-> [i \in 1..r |-> [j \in 1..c |-> PatTxt(p, i, j, c)]]]

Init == \E r \in 1..MAXR, c \in 1..MAXC, p \in PATS, v \in VARS :
           /\ hist = <<Create(r, c, p, v)>>
           /\ st = ImplCreate(r, c, W, H, Create(r, c, p, v).txt)

SizeActs(s) == IF SIZEACTS THEN {[op |-> "colw", i |-> i, v |-> v] : i \in 1..C(s), v \in {1, 40}} \cup
                                {[op |-> "rowh", i |-> i, v |-> v] : i \in 1..R(s), v \in {3}} \cup
                                (IF s.fw = SumSeq(s.colw) /\ s.fh = SumSeq(s.rowh) THEN {[op |-> "frame", w |-> s.fw + 7, h |-> s.fh + 5]} ELSE {})
               ELSE {}
Acts(s) == MergeActs(s) \cup SplitActs(s) \cup {[op |-> "mergeOther", a |-> <<1, 1>>]} \cup SizeActs(s)

Step(a) == Len(hist) <= DEPTH /\ st' = ImplStep(st, a) /\ hist' = Append(hist, a)
\* in simulation mode (12x12) one random merge is drawn per step instead of expanding all 20736 successors
DoMerge == IF SIM THEN Step(RandomElement(MergeActs(st))) ELSE \E a \in MergeActs(st) : Step(a)
DoSplit == IF SIM THEN Step(RandomElement({x \in SplitActs(st) : At(st, x.a).o} \cup {[op |-> "split", a |-> <<1, 1>>]}))
           ELSE \E a \in SplitActs(st) : Step(a)
DoOther == Step([op |-> "mergeOther", a |-> <<1, 1>>])
DoSize  == \E a \in SizeActs(st) : Step(a)
Next == DoMerge \/ DoSplit \/ DoOther \/ DoSize
Spec == Init /\ [][Next]_<<st, hist>>

ViewSt == st
Bound == Len(hist) <= DEPTH + 1
InvAll == Inv(st)
InvCreate == Len(hist) = 1 => CreateFailing(hist[1].r, hist[1].c, W, H, st) = {}
Refines == [][LET a == hist'[Len(hist')] IN Post(st, a, ImplOutcome(st, a), st')]_<<st, hist>>
\* the property-level outcome and the coded refusal test agree on every reachable state
OutcomeAgrees == \A a \in Acts(st) : Outcome(st, a) = ImplOutcome(st, a)
EmitState == PrintT(<<"ST", ToJson(hist)>>)

\* creation sweep: every (rows, cols, width, height) in the bounded family, incl. sizes not divisible by the counts
CreateCases == {<<r, c, w, h>> : r \in 1..5, c \in 1..5, w \in {1, 5, 7, 12, 914400, 9144001}, h \in {1, 3, 11, 370840, 6858001}}
ASSUME CreateThm == \A x \in CreateCases : x[3] >= x[2] /\ x[4] >= x[1] =>
                       CreateFailing(x[1], x[2], x[3], x[4], ImplCreate(x[1], x[2], x[3], x[4], [i \in 1..x[1] |-> [j \in 1..x[2] |-> <<0>>]])) = {}
ASSUME PrintT(<<"CREATE", ToJson(SetToSeq(CreateCases))>>)
=============================================================================
