------------------------------ MODULE Trace_Props ------------------------------
(* Validates assignment traces observed from the real library against the PROPERTY layer of Props (C09).
   Cat (IOEnv.CAT_FILE): the catalogue the scenarios were generated from.
   R (IOEnv.TRACE_FILE) = Seq([ id, k (kind index), init : [r, x],
                                steps : Seq([a : [op, p, v], exp, out, m : [within, av, rv, exc], dr, dx]) ])
   dr / dx: the readings / explicit flags that changed in the step, as <<index, new value>> pairs (the state after every
   call is the previous one with these slots replaced).                                                              *)
EXTENDS Props, Json, IOUtils, SequencesExt
VARIABLE dummy
Cat == JsonDeserialize(IOEnv.CAT_FILE)
T == JsonDeserialize(IOEnv.TRACE_FILE)

Patch(vec, d) == [i \in DOMAIN vec |-> LET hit == {j \in DOMAIN d : d[j][1] = i} IN IF hit = {} THEN vec[i] ELSE d[CHOOSE j \in hit : TRUE][2]]
Apply(s, st) == [r |-> Patch(s.r, st.dr), x |-> Patch(s.x, st.dx)]
\* States(tr)[k] = state before step k; States(tr)[k + 1] = state after it
States(tr) == FoldLeft(LAMBDA acc, st : Append(acc, Apply(acc[Len(acc)], st)), <<tr.init>>, tr.steps)
\* TaintsUpTo(tr, S)[k] = properties outside the statement before step k
TaintSeq(tr, S) == FoldLeft(LAMBDA acc, k : Append(acc, acc[Len(acc)] \cup Taints(Cat[tr.k], S[k], tr.steps[k].a, tr.steps[k].out)),
                            <<{}>>, [k \in DOMAIN tr.steps |-> k])
FailAt(tr, S, TS, k) == PostFailing(Cat[tr.k], S[k], tr.steps[k].a, tr.steps[k].out, tr.steps[k].m, S[k + 1], TS[k])
Bad(tr) == LET S == States(tr)  TS == TaintSeq(tr, S) IN
  {[k |-> k, p |-> tr.steps[k].a.p, cls |-> ClassOf(tr.steps[k].a), failing |-> FailAt(tr, S, TS, k)] :
     k \in {j \in DOMAIN tr.steps : FailAt(tr, S, TS, j) # {}}}
\* report-only observations, one record per (kind, property, value class, observation)
Obs(tr) == LET S == States(tr)  K == Cat[tr.k] IN
  UNION {LET st == tr.steps[k] IN
         (IF ~RefusedLeavesReadings(S[k], st.a, st.out, S[k + 1]) THEN {[k |-> tr.k, p |-> st.a.p, cls |-> ClassOf(st.a), w |-> "RefusedChangesReadings", out |-> st.out]} ELSE {})
         \cup (IF AcceptedUndocumented(K, st.a, st.out) THEN {[k |-> tr.k, p |-> st.a.p, cls |-> ClassOf(st.a), w |-> "AcceptedUndocumented", out |-> (IF st.m.within THEN "readsBack" ELSE "readsOther")]} ELSE {})
         \cup (IF RefusedUndocumentedEdge(K, S[k], st.a, st.out) THEN {[k |-> tr.k, p |-> st.a.p, cls |-> ClassOf(st.a), w |-> "RefusedAtSchemaBound", out |-> st.out]} ELSE {})
         \cup (IF st.a.op = "SetOut" /\ st.out # "ok" /\ ~Judged(K.props[st.a.p], st.a.v) THEN {[k |-> tr.k, p |-> st.a.p, cls |-> ClassOf(st.a), w |-> "RefusedUndocumented", out |-> st.out]} ELSE {})
         \cup (IF st.a.op = "Set" /\ ~NeedsObs(K.props[st.a.p], S[k]) THEN {[k |-> tr.k, p |-> st.a.p, cls |-> ClassOf(st.a), w |-> "NeedsUnmet", out |-> st.out]} ELSE {})
         : k \in DOMAIN tr.steps}
\* drift: the abstract machine of the catalogue predicted another outcome ("free" predicts nothing)
Drift(tr) == Cardinality({k \in DOMAIN tr.steps : \/ (tr.steps[k].exp = "ok" /\ tr.steps[k].out # "ok")
                                                   \/ (tr.steps[k].exp = "refused" /\ tr.steps[k].out = "ok")})
Judgements(tr) == LET S == States(tr) IN
  [readback |-> Cardinality({k \in DOMAIN tr.steps : tr.steps[k].a.op = "Set" /\ tr.steps[k].out = "ok"}),
   none     |-> Cardinality({k \in DOMAIN tr.steps : tr.steps[k].a.op = "SetNone"}),
   refusedJ |-> Cardinality({k \in DOMAIN tr.steps : tr.steps[k].a.op = "SetOut" /\ Judged(Cat[tr.k].props[tr.steps[k].a.p], tr.steps[k].a.v)}),
   reopen   |-> Cardinality({k \in DOMAIN tr.steps : tr.steps[k].a.op = "SaveReopen"})]

BadTraces == {i \in DOMAIN T : Bad(T[i]) # {}}
ASSUME \A i \in BadTraces : PrintT(<<"VERDICT", ToJson([id |-> T[i].id, bad |-> Bad(T[i])])>>)
AllObs == UNION {Obs(T[i]) : i \in DOMAIN T}
ASSUME \A o \in AllObs : PrintT(<<"REPORT", ToJson(o)>>)
ASSUME PrintT(<<"SUMMARY", ToJson([traces |-> Len(T), rejected |-> Cardinality(BadTraces),
    steps    |-> FoldLeft(LAMBDA acc, tr : acc + Len(tr.steps), 0, T),
    drift    |-> FoldLeft(LAMBDA acc, tr : acc + Drift(tr), 0, T),
    readback |-> FoldLeft(LAMBDA acc, tr : acc + Judgements(tr).readback, 0, T),
    none     |-> FoldLeft(LAMBDA acc, tr : acc + Judgements(tr).none, 0, T),
    refusedJ |-> FoldLeft(LAMBDA acc, tr : acc + Judgements(tr).refusedJ, 0, T),
    reopen   |-> FoldLeft(LAMBDA acc, tr : acc + Judgements(tr).reopen, 0, T)])>>)
Init == dummy = 0
Next == UNCHANGED dummy
=============================================================================
