------------------------------ MODULE SimpleTypes ------------------------------
(* Property C11: accepted attribute values are exactly those the schema can represent.

   Types is extracted at run time (mbt/extract/simpletypes.py): one entry per (python simple-type class, XSD type) pair
     [id, py, xsd, pyKind : "int" | "float" | "double" | "bool" | "str" | "strenum" | "xmlenum",
      anchors : Seq([name, value (decimal string), near : Seq([j, diff])]),   ascending; integers >= 2^31 never enter TLC:
                a value is the pair <<anchor index, delta>>, two anchors know their exact distance only when it is small
      zeroIdx, members : Seq([kind : "int" | "pct" | "umeasure" | "boolean" | "double" | "hex" | "enum" | "string" | "pattern",
                              loIdx, hiIdx (anchor indices of the effective inclusive bounds, 0 = none), enum : Seq(STRING)]),
      pyMembers : Seq([name, tok, alias]), validates, judgeE]

   A token is the record [c, a, d, h, u, s]:
     c = "anch"    the number (anchor a) + d quanta; for float-valued python types moved by h half quanta to the rounding
                   threshold and then u ulps (the driver computes that float with math.nextafter and names it by this token)
     c = "rand"    the a-th float the driver draws for this type from VERIF_SEED (in range, or next to a rounding threshold)
     c = "special" a wrong python type / non-finite float / string class named s
     c = "member"  python enumeration member a          c = "xsdtok"  value d of the enumeration of XSD member a
     c = "form"    (reading) lexical alternative s of the number <<a, d>>, or a fixed literal named s

   PART 1 generates the domain (what is tried); PART 2 is the property layer: clauses A-E over an observed record.       *)
EXTENDS Integers, Sequences, FiniteSets, TLC
CONSTANTS DELTA, ULP, NRAND

Range(s) == {s[i] : i \in DOMAIN s}
Tok(c, a, d, h, u, s) == [c |-> c, a |-> a, d |-> d, h |-> h, u |-> u, s |-> s]
Sp(s) == Tok("special", 0, 0, 0, 0, s)
Deltas == (0 - DELTA)..DELTA
Ulps   == (0 - ULP)..ULP

\* ---------------------------------------------------------------- PART 1: the domain
IntSpecials    == {"None", "str", "True", "False", "floatWhole", "floatHalf", "Decimal", "nan", "inf", "-inf", "huge", "-huge"}
FloatSpecials  == {"None", "str", "True", "False", "int", "Decimal", "nan", "inf", "-inf", "huge", "-huge", "tiny"}
DoubleSpecials == FloatSpecials \cup {"zero", "negzero", "1.5", "-1.5", "1e16", "1e-7", "third"}
BoolSpecials   == {"True", "False", "None", "int0", "int1", "int2", "str", "float1"}
StrSpecials    == {"exemplar", "None", "int", "bytes", "control", "empty"}
HexSpecials    == {"hexUpper", "hexLower", "hex5", "hex7", "nonhex", "plus5", "0x4", "under", "space5", "None", "int"}
EnumSpecials   == {"bogus", "None", "int", "True"}

WriteTokens(p) ==
  CASE p.pyKind = "int"     -> {Tok("anch", i, d, 0, 0, "") : i \in DOMAIN p.anchors, d \in Deltas} \cup {Sp(s) : s \in IntSpecials}
    [] p.pyKind = "float"   -> {Tok("anch", i, d, h, u, "") : i \in DOMAIN p.anchors, d \in Deltas, h \in {-1, 0, 1}, u \in Ulps}
                               \cup {Sp(s) : s \in FloatSpecials}
                               \cup {Tok("rand", k, 0, 0, 0, "") : k \in 1..NRAND}     \* k-th seeded draw of the driver
    [] p.pyKind = "double"  -> {Sp(s) : s \in DoubleSpecials}
    [] p.pyKind = "bool"    -> {Sp(s) : s \in BoolSpecials}
    [] p.pyKind = "str"     -> {Sp(s) : s \in (IF \E m \in Range(p.members) : m.kind = "hex" THEN HexSpecials ELSE StrSpecials)}
                               \cup UNION {{Tok("xsdtok", k, j, 0, 0, "") : j \in DOMAIN p.members[k].enum} : k \in DOMAIN p.members}
    [] p.pyKind = "strenum" -> {Tok("member", k, 0, 0, 0, "") : k \in DOMAIN p.pyMembers} \cup {Sp(s) : s \in EnumSpecials}
                               \cup UNION {{Tok("xsdtok", k, j, 0, 0, "") : j \in DOMAIN p.members[k].enum} : k \in DOMAIN p.members}
    [] p.pyKind = "xmlenum" -> {Tok("member", k, 0, 0, 0, "") : k \in DOMAIN p.pyMembers} \cup {Sp(s) : s \in EnumSpecials \cup {"tokstr"}}

\* every lexical alternative of the XSD type: per (union) member kind
NumForms(m) == CASE m.kind = "int"      -> {"plain", "plus", "zeros"}
                 [] m.kind = "pct"      -> {"pct", "pctFrac", "pctFrac2", "pctZeros"}
                 [] m.kind = "umeasure" -> {"um_mm", "um_cm", "um_in", "um_pt", "um_pc", "um_pi", "umFrac_mm", "umFrac_cm", "umFrac_in",
                                            "umFrac_pt", "umFrac_pc", "umFrac_pi"}
                 [] OTHER               -> {}
Literals(m) == CASE m.kind = "boolean" -> {"true", "false", "1", "0"}
                 [] m.kind = "double"  -> {"d1.5", "d-1.5", "d1E3", "d1e3", "dINF", "d-INF", "dNaN", "d+1.5", "d.5", "d5.", "d0", "d-0"}
                 [] m.kind = "hex"     -> {"hexUpper", "hexLower", "hexMixed"}
                 [] m.kind = "string"  -> {"exemplar", "other"}
                 [] m.kind = "pattern" -> {"exemplar"}
                 [] OTHER              -> {}
\* numbers tried for a numeric form: the member's own bounds, zero, and every other anchor of the type (the schema decides
\* which of the resulting strings are valid; only those are judged)
ReadTokens(p) ==
  UNION {{Tok("form", i, d, 0, 0, f) : i \in DOMAIN p.anchors, d \in -1..1, f \in NumForms(p.members[k])} : k \in DOMAIN p.members}
  \cup UNION {{Tok("form", 0, 0, 0, 0, f) : f \in Literals(p.members[k])} : k \in DOMAIN p.members}
  \cup UNION {{Tok("xsdtok", k, j, 0, 0, "") : j \in DOMAIN p.members[k].enum} : k \in DOMAIN p.members}

\* ---------------------------------------------------------------- PART 2: the property layer
\* order of anchored integers without their magnitude:  Cmp(p, <<i,d>>, <<j,e>>) in {-1, 0, 1}
Sign(x) == IF x < 0 THEN -1 ELSE IF x > 0 THEN 1 ELSE 0
Near(p, i, j) == {n \in Range(p.anchors[i].near) : n.j = j}
Cmp(p, i, d, j, e) ==
  IF i = j THEN Sign(d - e)
  ELSE IF Near(p, i, j) # {} THEN Sign((CHOOSE n \in Near(p, i, j) : TRUE).diff + d - e)
  ELSE IF i < j THEN -1 ELSE 1                         \* far apart: deltas (a few quanta) cannot change the order
InMember(p, m, i, d) == m.kind = "int" /\ (m.loIdx = 0 \/ Cmp(p, i, d, m.loIdx, 0) >= 0) /\ (m.hiIdx = 0 \/ Cmp(p, i, d, m.hiIdx, 0) <= 0)
\* the integer <<i, d>> is in the value space of the XSD type (some candidate / union member of integer kind holds it)
XsdIntValid(p, i, d) == \E m \in Range(p.members) : InMember(p, m, i, d)
\* no member other than integers and the percent / universal-measure patterns: a plain integer is valid iff XsdIntValid
RangeDecides(p) == \A m \in Range(p.members) : m.kind \in {"int", "pct", "umeasure"}

Errors == {"TypeError", "ValueError"}

(* write record  r = [pair, tok, acc, exc, present, attrValid, changed, readOk, within, isInt, la, ld]
     acc       the assignment through the real element returned (did not raise); exc = exception class otherwise
     present   the attribute is on the element afterwards;  attrValid  lxml's XMLSchema accepts its string for the XSD type
     changed   the attribute string differs from what it was before the assignment
     readOk    the element property could be read afterwards; within  |read - written| < one quantum (monitor, Fractions)
     isInt, la, ld   the attribute string is a plain integer = anchor la + ld                                          *)
WNames == <<"A", "B", "D">>
WHolds(n, p, r) ==
  CASE n = "A" -> (r.acc /\ r.present /\ p.validates) => r.attrValid
    [] n = "B" -> ~r.acc => (r.exc \in Errors /\ ~r.changed)
    [] n = "D" -> (r.acc /\ (r.present => r.attrValid)) => (r.readOk /\ r.within)       \* judged on what A lets through
\* python classes that declare they validate nothing (XsdString, XsdAnyUri, ST_ContentType ...: `validates` = FALSE) accept
\* every str by design; what they let through is evaluated and REPORTED (AUnvalidated), not judged
AUnvalidated(p, r) == ~p.validates /\ r.acc /\ r.present /\ ~r.attrValid
WFailing(p, r) == {WNames[i] : i \in {j \in DOMAIN WNames : ~WHolds(WNames[j], p, r)}}
\* E "XSD-representable => accepted": evaluated for every record it applies to; a verdict only where p.judgeE
EApplies(p, r) == \/ (r.tok.c = "anch" /\ r.tok.h = 0 /\ r.tok.u = 0 /\ XsdIntValid(p, r.tok.a, r.tok.d))
                  \/ (r.tok.c = "xsdtok" /\ p.pyKind \in {"strenum", "str"})
EHolds(p, r)   == EApplies(p, r) => r.acc
\* cross-check of the extraction: where the facets decide, TLC's range verdict on the written integer equals the schema's
RangeAgrees(p, r) == (r.acc /\ r.present /\ r.isInt /\ RangeDecides(p)) => (XsdIntValid(p, r.la, r.ld) = r.attrValid)

(* read record  r = [pair, tok, lexValid, readOk, exc] : C  every schema-valid lexical alternative is readable *)
\* ... and read as the number it denotes: a whole-percent form "N%" reads as the same value as the plain integer of that number (field
\* sameAsPlain of the record; TRUE where the token is no percent form or the plain spelling is not valid for the type)
CHolds(p, r) == r.lexValid => (r.readOk /\ r.sameAsPlain)
=============================================================================
