----------------------------- MODULE Trace_Sinks -----------------------------
(* Validates sink cases observed from the real library against Sinks (C05).
   R.cases[k] = [ id, sink, abs (the classes TLC enumerated; <<>> for hypothesis-drawn strings),
                  a : the Store action with the tokens of the string really given, t : the observation after the call ]
   Every clause of Sinks!PostNames is evaluated on every observed case.
   Drift (no verdict): the observation differs from ImplStore(a) although every clause holds (the empty string making
   fewer elements than a plain one).                                                                              *)
EXTENDS Sinks, Json, IOUtils, SequencesExt
VARIABLE dummy
R == JsonDeserialize(IOEnv.TRACE_FILE)
G == R.cases

CaseFailing(g) == Failing(Fresh, g.a, g.t)
BadCases == {k \in DOMAIN G : CaseFailing(G[k]) # {}}
ASSUME \A k \in BadCases : PrintT(<<"VERDICT", ToJson([id |-> G[k].id, k |-> k, sink |-> G[k].sink,
                                                        bad |-> {[at |-> "store", k |-> 1, failing |-> CaseFailing(G[k])]}])>>)
Sum(f(_)) == FoldLeft(LAMBDA acc, g : acc + f(g), 0, G)
One(b) == IF b THEN 1 ELSE 0
Drift(g) == One(CaseFailing(g) = {} /\ g.t # ImplStore(g.a))
ASSUME PrintT(<<"SUMMARY", ToJson([cases |-> Len(G), rejected |-> Cardinality(BadCases),
                                   accepted |-> Sum(LAMBDA g : One(g.t.out = "ok")),
                                   readbacks |-> Sum(LAMBDA g : One(g.t.out = "ok" /\ g.a.stored)),
                                   structures |-> Sum(LAMBDA g : One(g.t.out = "ok" /\ g.t.saved /\ g.a.s # <<>>)),
                                   reopens |-> Sum(LAMBDA g : One(g.t.reopened)),
                                   nonplain |-> Sum(LAMBDA g : One(\E i \in DOMAIN g.a.s : Cls(g.a.s[i]) \notin {PLAIN, SP})),
                                   drift |-> Sum(Drift)])>>)
Init == dummy = 0
Next == UNCHANGED dummy
=============================================================================
