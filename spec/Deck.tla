--------------------------------- MODULE Deck ---------------------------------
(* Presentation-level history machine (properties C02, C06, C12, C13, C15 share it).

   MODEL STATE (MC_Deck explores histories over it; Impl layer = the allocators as coded):
     [ sl   : Seq([sid, pnum, sh : Seq([id, kind]), turbo : Int (-1 = off, else cached max id), notes : BOOLEAN]),
       acc  : BOOLEAN            prs.slides has been accessed on the live Presentation object (slide parts renamed)
       nlay : Nat                number of layouts;  layUsed is derived from sl
       imgs : Seq(Int)           distinct image tokens stored so far (index = media part number)
       core : BOOLEAN, nm : BOOLEAN ]        core-properties part / notes master present
   OBSERVED STATE (what the driver logs after every real call; Trace_Deck judges it):
     obs = [ slides : Seq([sid : STRING, sidOk : BOOLEAN, pname : STRING, pnum : Int,
                           sh : Seq([id : STRING, pos : BOOLEAN, kind : STRING, name : STRING, lk : STRING, rl : STRING]),
                                 (lk / rl: where the shape's click action / its first run's hyperlink leads, read from the XML and the
                                  relationships: "none", "u0", "u1", "u2" (the three URLs the driver uses), "jump", "other:..")
                           rels : Seq([rid, tgt, ext]), refs : Seq(STRING), refsBy : Seq([sh, rid])]),
             parts : Seq(STRING), acc : BOOLEAN ]
   SAVED PACKAGE: the phys record of OpcPackage.tla plus per-part r:* references, judged with OpcPackage operators. *)
EXTENDS OpcPackage

SeqSet(s) == {s[i] : i \in DOMAIN s}
CountIn(s, x) == Cardinality({i \in DOMAIN s : s[i] = x})
NoDup(s) == \A i, j \in DOMAIN s : i # j => s[i] # s[j]
MaxOf(S, dflt) == IF S = {} THEN dflt ELSE CHOOSE m \in S : \A z \in S : z <= m

\* ============================================================ Impl layer: the allocators as coded
ShapeIds(s) == {s.sh[i].id : i \in DOMAIN s.sh}
MaxPlusOne(s) == MaxOf(ShapeIds(s) \cup {1}, 1) + 1               \* _BaseShapes._next_shape_id (spTree itself has id 1)
FirstGap(s)   == CHOOSE n \in 1..(Cardinality(ShapeIds(s)) + 2) :   \* CT_GroupShape._next_shape_id (groups, freeforms)
                   n \notin (ShapeIds(s) \cup {1}) /\ \A m \in 1..(n - 1) : m \in (ShapeIds(s) \cup {1})
GapKinds == {"group", "freeform"}
ImplNewShapeId(s, kind) == IF kind \in GapKinds THEN FirstGap(s)
                           ELSE IF s.turbo >= 0 THEN s.turbo + 1 ELSE MaxPlusOne(s)
ImplAddShape(s, kind) ==
  LET nid == ImplNewShapeId(s, kind) IN
  [s EXCEPT !.sh = Append(@, [id |-> nid, kind |-> kind, lk |-> "none", rl |-> "none"]),
            !.turbo = IF kind \notin GapKinds /\ s.turbo >= 0 THEN s.turbo + 1 ELSE s.turbo]
MIN_SID == 256
MAX_SID == 2147483647
ImplNextSlideId(sids) ==                                            \* CT_SlideIdList._next_id
  LET simple == MaxOf(sids \cup {MIN_SID - 1}, MIN_SID - 1) IN
  IF simple < MAX_SID THEN simple + 1
  ELSE LET valid == {x \in sids : x >= MIN_SID /\ x <= MAX_SID} IN
       CHOOSE n \in MIN_SID..(MIN_SID + Cardinality(valid)) : n \notin valid /\ \A m \in MIN_SID..(n - 1) : m \in valid

\* ============================================================ property layer on the model (C06 design check)
ModelFresh(s, t) == LET new == t.sh[Len(t.sh)].id IN new > 0 /\ new \notin ShapeIds(s) /\ new # 1
ModelSlideIdFresh(sids, n) == n \notin sids /\ n >= MIN_SID /\ n <= MAX_SID

\* ============================================================ clauses on OBSERVED steps (s, a, t are obs records)
SlideBySid(o, sid) == CHOOSE x \in SeqSet(o.slides) : x.sid = sid
Sids(o) == [i \in DOMAIN o.slides |-> o.slides[i].sid]
IdStrs(sl) == [i \in DOMAIN sl.sh |-> sl.sh[i].id]
Adds == {"addSlide", "addShape", "addPicture", "addMovie", "addChart", "addOle", "notes", "setLink", "setJump", "insertPh"}
\* what a link operation makes the targeted shape lead to; every other shape's links stay what they were
LinkOpsAll == {"setLink", "changeLink", "clearLink", "setJump", "clearJump", "setRunLink", "clearRunLink", "setHover"}
ExpLk(op, old) == CASE op = "setLink" -> "u0" [] op = "changeLink" -> "u1" [] op = "clearLink" -> "none" [] op = "setJump" -> "jump"
                    [] op = "clearJump" -> "none" [] OTHER -> old
ExpRl(op, old) == CASE op = "setRunLink" -> "u0" [] op = "clearRunLink" -> "none" [] op = "setHover" -> "u2" [] OTHER -> old
StepNames == <<"NewShapeIdsFresh", "NewSlideIdFresh", "SlideIdsStable", "RidsUniquePerSource", "RidsNotReassigned",
               "PartNamesUnique", "SlidesNamedInOrderOnceAccessed", "LookupStable", "LinksAsSet">>
StepHolds(n, s, a, t) ==
  CASE n = "LinksAsSet" ->
         \* every shape present before the step leads where it led, except the targeted one, which leads where the operation says
         (a.op \notin {"reopen", "open"}) =>
           \A k \in DOMAIN s.slides : k \in DOMAIN t.slides =>
             \A i \in DOMAIN s.slides[k].sh : i \in DOMAIN t.slides[k].sh /\ t.slides[k].sh[i].id = s.slides[k].sh[i].id =>
               LET o == s.slides[k].sh[i]  n2 == t.slides[k].sh[i]
                   mine == a.op \in LinkOpsAll /\ a.k = k /\ a.tid = o.id
               IN /\ n2.lk = (IF mine THEN ExpLk(a.op, o.lk) ELSE o.lk)
                  /\ n2.rl = (IF mine THEN ExpRl(a.op, o.rl) ELSE o.rl)
    [] n = "NewShapeIdsFresh" ->
         \A k \in DOMAIN t.slides :
           LET tl == t.slides[k]
               old == IF tl.sid \in SeqSet(Sids(s)) THEN IdStrs(SlideBySid(s, tl.sid)) ELSE <<>>
           IN \A i \in DOMAIN tl.sh :
                CountIn(IdStrs(tl), tl.sh[i].id) > CountIn(old, tl.sh[i].id)        \* a newly assigned id ...
                  => (tl.sh[i].pos /\ CountIn(old, tl.sh[i].id) = 0 /\ CountIn(IdStrs(tl), tl.sh[i].id) = 1)
    [] n = "NewSlideIdFresh" ->
         \A k \in DOMAIN t.slides : t.slides[k].sid \notin SeqSet(Sids(s)) =>
            (t.slides[k].sidOk /\ CountIn(Sids(t), t.slides[k].sid) = 1)
    [] n = "SlideIdsStable" -> a.op # "reopenOther" => (Len(t.slides) >= Len(s.slides) /\ SubSeq(Sids(t), 1, Len(s.slides)) = Sids(s))
    [] n = "RidsUniquePerSource" -> \A k \in DOMAIN t.slides : NoDup([i \in DOMAIN t.slides[k].rels |-> t.slides[k].rels[i].rid])
    [] n = "RidsNotReassigned" ->
         \* a relationship id that an element of an UNTOUCHED shape refers to before and after the step still leads to the same
         \* target (the shape an action works on may legitimately release an id and take it again for its new target)
         \A k \in DOMAIN s.slides : k \in DOMAIN t.slides =>
           \A x \in SeqSet(s.slides[k].refsBy) \cap SeqSet(t.slides[k].refsBy) :
              (k = a.k /\ x.sh = a.tid /\ a.tid # "")
              \/ {y \in SeqSet(s.slides[k].rels) : y.rid = x.rid} = {y \in SeqSet(t.slides[k].rels) : y.rid = x.rid}
              \/ (a.op \in {"access", "addSlide", "reopen", "read", "rejected", "setJump", "notes"}   \* slide parts may have been renamed: compare ids and modes only
                  /\ {[rid |-> y.rid, ext |-> y.ext] : y \in {z \in SeqSet(s.slides[k].rels) : z.rid = x.rid}}
                     = {[rid |-> y.rid, ext |-> y.ext] : y \in {z \in SeqSet(t.slides[k].rels) : z.rid = x.rid}})
    [] n = "PartNamesUnique" -> NoDup(t.parts)
    [] n = "SlidesNamedInOrderOnceAccessed" -> t.acc => \A k \in DOMAIN t.slides : t.slides[k].pnum = k
    [] n = "LookupStable" ->
         (a.op \in Adds /\ a.op # "insertPh") =>
           \A k \in DOMAIN s.slides : \A i \in DOMAIN s.slides[k].sh :
              CountIn(IdStrs(s.slides[k]), s.slides[k].sh[i].id) = 1 =>
                 \E j \in DOMAIN t.slides[k].sh : /\ t.slides[k].sh[j].id = s.slides[k].sh[i].id
                                                  /\ t.slides[k].sh[j].kind = s.slides[k].sh[i].kind
                                                  /\ t.slides[k].sh[j].name = s.slides[k].sh[i].name
StepFailing(s, a, t) == {StepNames[i] : i \in {j \in DOMAIN StepNames : ~StepHolds(StepNames[j], s, a, t)}}

\* ============================================================ clauses on a SAVED package (C02)
\* z = [ph : phys record, dup : BOOLEAN, refs : Seq([n : Name, rids : Seq(STRING)]), mem : Seq([n : Name, type : STRING]) (in-memory types),
\*       facetsMem, facetsReopen : [order, shapes, text, pictures, charts : STRING], reopenOk : BOOLEAN ]
SavedNames == <<"UniqueMembers", "OneContentTypePerPart", "ContentTypeAsInMemory", "InternalTargetsPresent", "RefsResolve",
                "OfficeDocIsPresentation", "ReopenSucceeds", "ReopenShowsSameOrder", "ReopenShowsSameShapes", "ReopenShowsSameText",
                "ReopenShowsSamePictures", "ReopenShowsSameCharts">>
SavedHolds(n, z) ==
  CASE n = "UniqueMembers" -> ~z.dup /\ NoDup([i \in DOMAIN z.ph.mem |-> z.ph.mem[i].n])
    [] n = "OneContentTypePerPart" -> \A m \in SeqSet(z.ph.mem) : CtOf(z.ph, m.n) # "NONE"
                                       /\ Cardinality({o \in SeqSet(z.ph.ct.ovrs) : o.n = m.n}) <= 1
    [] n = "ContentTypeAsInMemory" -> \A p \in SeqSet(z.mem) : p.n \in MemNames(z.ph) /\ CtOf(z.ph, p.n) = p.type
    [] n = "InternalTargetsPresent" -> \A r \in SeqSet(z.ph.rels) : \A it \in SeqSet(r.items) : ~it.ext => TargetOf(r.src, it) \in MemNames(z.ph)
    [] n = "RefsResolve" -> \A f \in SeqSet(z.refs) : \A rid \in SeqSet(f.rids) : \E it \in SeqSet(RelItems(z.ph, f.n)) : it.id = rid
    [] n = "OfficeDocIsPresentation" -> LET pk == ApiOutcome(z.ph, "stream") IN pk.ok
    [] n = "ReopenSucceeds" -> z.reopenOk
    [] n = "ReopenShowsSameOrder" -> z.facetsReopen.order = z.facetsMem.order
    [] n = "ReopenShowsSameShapes" -> z.facetsReopen.shapes = z.facetsMem.shapes
    [] n = "ReopenShowsSameText" -> z.facetsReopen.text = z.facetsMem.text
    [] n = "ReopenShowsSamePictures" -> z.facetsReopen.pictures = z.facetsMem.pictures
    [] n = "ReopenShowsSameCharts" -> z.facetsReopen.charts = z.facetsMem.charts
SavedFailing(z) == {SavedNames[i] : i \in {j \in DOMAIN SavedNames : ~SavedHolds(SavedNames[j], z)}}
=============================================================================
