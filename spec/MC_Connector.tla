----------------------------- MODULE MC_Connector -----------------------------
(* All sequences of <= DEPTH endpoint assignments from every created connector, coordinates in LO..HI:
   every branch combination of the twelve-branch setters (crossing the other endpoint in either axis,
   landing exactly on it, zero extent).  Refines: the Impl layer satisfies the property layer.      *)
EXTENDS Geometry, Json
CONSTANTS LO, HI, DEPTH
VARIABLES st, hist
Neg1 == -1
Neg2 == -2
Neg3 == -3
V == LO..HI
\* initial connectors: every connector add_connector can create, and connectors as a DOCUMENT may hold them ("load": a:off / a:ext /
\* flipH / flipV given directly) - among them the frames no sequence of calls produces from a created connector in one step:
\* a zero extent with the flip attribute set
LoadAx == {[p |-> p, d |-> d, f |-> f] : p \in V, d \in {0, 1}, f \in BOOLEAN}
Init == \/ \E bx \in V, by \in V, ex \in V, ey \in V :
          LET a == [op |-> "create", bx |-> bx, by |-> by, ex |-> ex, ey |-> ey, v |-> 0] IN
          hist = <<a>> /\ st = CxnImplStep([x |-> 0], a)
        \/ \E h \in LoadAx, w \in LoadAx : ((h.d = 0 /\ h.f) \/ (w.d = 0 /\ w.f)) /\
          LET a == [op |-> "load", bx |-> 0, by |-> 0, ex |-> 0, ey |-> 0, v |-> 0, x |-> h.p, cx |-> h.d, fh |-> h.f, y |-> w.p, cy |-> w.d, fv |-> w.f] IN
          hist = <<a>> /\ st = CxnImplStep([x |-> 0], a)
        \* ... and connectors a document holds TURNED (rot = 180 degrees: the end-over-end connector PowerPoint writes when a connector is
        \* dragged across itself): begin and end are what offset, extent and flips say, whatever the rotation; it stays as it was
        \/ \E h \in {l \in LoadAx : l.p = 0}, w \in {l \in LoadAx : l.p = 0} :
          LET a == [op |-> "load", bx |-> 0, by |-> 0, ex |-> 0, ey |-> 0, v |-> 0, x |-> h.p, cx |-> h.d, fh |-> h.f, y |-> w.p, cy |-> w.d, fv |-> w.f, rot |-> 10800000] IN
          hist = <<a>> /\ st = CxnImplStep([x |-> 0], a)
Set(op, v) == Len(hist) <= DEPTH /\ LET a == [op |-> op, v |-> v, bx |-> 0, by |-> 0, ex |-> 0, ey |-> 0] IN
                st' = CxnImplStep(st, a) /\ hist' = Append(hist, a)
SetBeginX == \E v \in V : Set("bx", v)
SetBeginY == \E v \in V : Set("by", v)
SetEndX   == \E v \in V : Set("ex", v)
SetEndY   == \E v \in V : Set("ey", v)
Next == SetBeginX \/ SetBeginY \/ SetEndX \/ SetEndY
Spec == Init /\ [][Next]_<<st, hist>>
\* (one history per state - and per rotation the connector was loaded with: a turned connector is another document, whatever its frame)
ViewSt == <<st, IF "rot" \in DOMAIN hist[1] THEN hist[1].rot ELSE 0>>
InvState == CxnFailing(st, hist[1], st) \subseteq {"Created", "MovedCoordinate", "OtherThreeFixed"} /\ (Len(hist) = 1 => CxnFailing(st, hist[1], st) = {})
Refines == [][CxnFailing(st, hist'[Len(hist')], st') = {}]_<<st, hist>>
EmitState == PrintT(<<"ST", ToJson(hist)>>)
=============================================================================
