------------------------------- MODULE SlideOps -------------------------------
(* Property C03: every XML part stays schema-valid after any sequence of public-API operations.

   There is no model of ISO/IEC 29500 in TLA+: validity is judged by a MONITOR (lxml XMLSchema over the transitional XSDs in
   /repo/spec after markup-compatibility preprocessing) whose verdict — the set of error signatures per part — is logged after
   every step.  This module contributes (1) the PROGRAM GENERATOR: an interpreter of the operation catalogue (constant Ops:
   name, object kinds, required flags, flags set / cleared, documented rejection) that TLC uses to enumerate every ordered
   pair / triple of operations per object kind and preparation, with enabling conditions that keep proxies meaningful; and
   (2) the clauses evaluated on the logged monitor output.                                                            *)
EXTENDS Naturals, Sequences, FiniteSets, TLC
CONSTANT Ops          \* Seq([name, kinds : Seq(STRING), pre, set, clr : Seq(STRING), rejects : Seq(STRING)])

SeqSet(s) == {s[i] : i \in DOMAIN s}
\* model state: [kind, prep, flags : SUBSET STRING]
Enabled(o, s) == s.kind \in SeqSet(o.kinds) /\ SeqSet(o.pre) \subseteq s.flags
Apply(o, s)   == IF o.rejects # <<>> THEN s ELSE [s EXCEPT !.flags = (@ \cup SeqSet(o.set)) \ SeqSet(o.clr)]

\* observed after each step:  parts : Seq([role : STRING, err : Seq(STRING)])   (error signatures; <<>> = valid)
ErrOf(obs, role) == IF \E p \in SeqSet(obs) : p.role = role THEN SeqSet((CHOOSE p \in SeqSet(obs) : p.role = role).err) ELSE {}
\* only validity that was present and is lost counts: a signature is new if the part did not have it in the baseline
\* (baseline of a part created later is the empty set)
SigsOf(obs) == UNION {{[role |-> p.role, sig |-> e] : e \in SeqSet(p.err)} : p \in SeqSet(obs)}
NewErrors(base, obs) == SigsOf(obs) \ SigsOf(base)
Names == <<"AllPartsValid", "RejectedKeepsValidity", "RejectedAsDocumented">>
Holds(n, base, prev, o, out, obs) ==
  CASE n = "AllPartsValid"         -> (o.rejects = <<>>) => NewErrors(base, obs) = {}
    [] n = "RejectedKeepsValidity" -> (o.rejects # <<>>) => NewErrors(base, obs) \subseteq NewErrors(base, prev)
    [] n = "RejectedAsDocumented"  -> (o.rejects # <<>>) => out \in SeqSet(o.rejects)
Failing(base, prev, o, out, obs) == {Names[i] : i \in {j \in DOMAIN Names : ~Holds(Names[j], base, prev, o, out, obs)}}
=============================================================================
