----------------------------- MODULE MC_PackUri -----------------------------
(* Domain generator + spec-level theorems for PackUri (C19).  TLC evaluates the theorems on the
   whole bounded domain and writes the case list the driver replays into the real PackURI.     *)
EXTENDS PackUri, Json, IOUtils
CONSTANTS NSEG, NDEPTH, BDEPTH
VARIABLE dummy

N == Names(NSEG, NDEPTH)
B == Bases(NSEG, BDEPTH)

ASSUME T_RoundTrip    == ThmRoundTrip(N, B)
ASSUME T_Variants     == ThmVariants(N, B)
ASSUME T_RelsInj      == ThmRelsInjective(N)
ASSUME T_NoDotsLeft   == ThmNoDotsLeft(N, B)
ASSUME T_Sibling      == ThmSibling(N, B)

\* accessor family: every file name of the table below a directory and at the root (index / extension / file name / rels item only;
\* the reference theorems are about directories and stay on N)
ExtraNames == {<<9, f>> : f \in 13..(Len(Segs) - 1)} \cup {<<f>> : f \in 13..(Len(Segs) - 1)} \cup {<<2, 9, f>> : f \in 13..(Len(Segs) - 1)}
DirSeg == Len(Segs)
DirNames == {<<DirSeg, 2>>, <<9, DirSeg, 2>>, <<DirSeg, DirSeg, 13>>, <<9, DirSeg>>}
NameSeq == SetToSeq(N \cup {<<>>} \cup ExtraNames \cup DirNames)
BaseSeq == SetToSeq(B)
Pairs   == SetToSeq({<<b, q>> : b \in B, q \in N})

Cases == [ segs  |-> DefaultSegs,
           nseg  |-> NSEG,
           names |-> NameSeq,
           pairs |-> Pairs,
           variants |-> [k \in 1..Len(Pairs) |-> Variants(Pairs[k][1], Pairs[k][2], 1)] ]

ASSUME WriteCases == JsonSerialize(IOEnv.CASES_FILE, Cases)
ASSUME PrintT(<<"DOMAIN", ToJson([names |-> Len(NameSeq), bases |-> Len(BaseSeq), pairs |-> Len(Pairs)])>>)

Init == dummy = 0
Next == UNCHANGED dummy
=============================================================================
