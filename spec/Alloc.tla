-------------------------------- MODULE Alloc --------------------------------
(* The identifier allocators of python-pptx, one small state machine each (properties C06, C02).

   Deck.tla explores histories of the PUBLIC API over six hand-picked decks; this module quantifies the other way round:
   EVERY subset of a universe of pre-existing identifiers (gaps, a zero, a differently spelled number, a non-numeric
   identifier, the same number under another extension, the upper bound of the value space) x every short sequence of
   allocate / release / turbo-on, for each allocator:

     kind        code                                                   identifier                      identity
     "rid"       _Relationships._next_rId (opc/package.py)              relationship id of one source   spelling
     "partname"  OpcPackage.next_partname(tmpl)                         /ppt/slides/slide%d.xml         spelling
     "image"     Package.next_image_partname(ext)                       /ppt/media/image%d.<ext>        spelling
     "media"     Package.next_media_partname(ext)                       /ppt/media/media%d.<ext>        spelling
     "slideid"   CT_SlideIdList._next_id (oxml/presentation.py)         p:sldId/@id                     value
     "shape"     _BaseShapes._next_shape_id (max+1, turbo cache)  and   every @id of the slide part     value
                 CT_GroupShape._next_shape_id (first gap)
     "ctn"       CT_TimeNodeList._next_cTn_id (oxml/slide.py)           p:cTn/@id of the slide's timing value

   A TOKEN [c, n] is an identifier already present or newly assigned:
     c = "canon"  the spelling the allocator itself produces for number n ("rId7", "slide7.xml", id="7")
     c = "pad"    the same number spelled otherwise ("rId07", "slide07.xml", id="07"): another STRING, the same VALUE
     c = "alt"    the same number under another extension ("image7.jpg" beside "image7.png"): another string
     c = "alpha"  an identifier of the family that holds no number ("rIdX", "slideX.xml", a GUID in an a16:creationId/@id)
     c = "bad"    (observed only) something the allocator returned that is not a canonical identifier at all

   PROPERTY layer: Clauses / Holds / Failing - what C06 states about a newly assigned identifier.
   IMPL layer: Impl* - the allocators transcribed from the code; -1 = the code raises.                                *)
EXTENDS Integers, Sequences, FiniteSets, TLC

Tok(c, n) == [c |-> c, n |-> n]
Kinds == {"rid", "partname", "image", "media", "slideid", "shape", "ctn"}
ByString == {"rid", "partname", "image", "media"}
Numeric(t) == t.c \in {"canon", "pad", "alt"}
MIN_SID == 256
MAX_SID == 2147483647
RAISES == -1

(* ------------------------------------------------------------------------------------------------------------ *)
(* PROPERTY layer                                                                                                 *)
\* two tokens designate the same identifier
Same(kind, a, b) == \/ a = b
                    \/ kind \notin ByString /\ Numeric(a) /\ Numeric(b) /\ a.n = b.n
Names == <<"Fresh", "InRange", "ExistingKept", "ExactlyOneNew">>
\* s, t = identifier sets before / after the allocation, new = the identifier the call returned (a token)
Holds(name, kind, s, new, t) ==
  CASE name = "Fresh"         -> \A u \in s : ~Same(kind, u, new)           \* different from every identifier already used
    [] name = "InRange"       -> /\ new.c = "canon"                         \* a positive integer (a slide id: 256..2147483647)
                                 /\ new.n >= (IF kind = "slideid" THEN MIN_SID ELSE 1)
                                 /\ kind = "slideid" => new.n <= MAX_SID
    [] name = "ExistingKept"  -> s \subseteq t                              \* existing identifiers never change
    [] name = "ExactlyOneNew" -> t \ s \subseteq {new} /\ new \in t
Failing(kind, s, new, t) == {Names[i] : i \in {j \in DOMAIN Names : ~Holds(Names[j], kind, s, new, t)}}

(* ------------------------------------------------------------------------------------------------------------ *)
(* IMPL layer                                                                                                     *)
CanonNums(used) == {u.n : u \in {x \in used : x.c = "canon"}}
NumsSeq(S) ==      \* the numbers of the tokens in S, ascending, with multiplicity
  LET RECURSIVE ToSeq(_)
      ToSeq(R) == IF R = {} THEN <<>> ELSE LET x == CHOOSE y \in R : TRUE IN <<x.n>> \o ToSeq(R \ {x})
  IN SortSeq(ToSeq(S), LAMBDA a, b : a < b)
MaxOr(S, d) == IF S = {} THEN d ELSE CHOOSE m \in S : \A z \in S : z <= m

\* for n in range(len(xs) + 1, 0, -1): if ("<canonical spelling of n>") not in xs: return it     (membership is by STRING)
CountDown(used) ==
  LET top == Cardinality(used) + 1
      free == {n \in 1..top : n \notin CanonNums(used)}
  IN MaxOr(free, RAISES)                                         \* free # {} by the pigeonhole principle
ImplRid(used) == CountDown(used)                                 \* _Relationships._next_rId
ImplPartname(used) == CountDown(used)                            \* every partname starting with the template's prefix counts

\* idxs = sorted(partname.idx ...);  for i, idx in enumerate(idxs): if i + 1 < idx: return i + 1;   return len(idxs) + 1
\* PackURI.idx reads the digits behind the leading letters ("image07" -> 7) and is None without digits
FirstBelow(a) == LET hit == {i \in DOMAIN a : i < a[i]} IN IF hit = {} THEN Len(a) + 1 ELSE CHOOSE i \in hit : \A j \in hit : i <= j
ImplImage(used) == FirstBelow(NumsSeq({u \in used : Numeric(u)}))          \* `and part.partname.idx is not None`
ImplMedia(used) == FirstBelow(NumsSeq({u \in used : Numeric(u)}))          \* same filter (repo commit "fix: ... media partname")
ImplMediaPinned(used) == IF \E u \in used : ~Numeric(u) THEN RAISES        \* the pinned code sorted None among the ints
                         ELSE FirstBelow(NumsSeq(used))

\* CT_SlideIdList._next_id: max+1, falling back to the first unused id from 256 when max is the upper bound
ImplSlideId(used) ==
  LET ids == {u.n : u \in used}
      simple == MaxOr(ids \cup {MIN_SID - 1}, MIN_SID - 1)
  IN IF simple < MAX_SID THEN simple + 1
     ELSE LET valid == {x \in ids : x >= MIN_SID /\ x <= MAX_SID}
              free == {n \in MIN_SID..(MIN_SID + Cardinality(valid)) : n \notin valid}
          IN CHOOSE n \in free : \A m \in free : n <= m

\* //@id values that are digits (str.isdigit): "07" is 7, a GUID is ignored
Digits(used) == {u.n : u \in {x \in used : Numeric(x)}}
ImplShapeMax(used, turbo) == IF turbo >= 0 THEN turbo + 1 ELSE MaxOr(Digits(used), 0) + 1   \* _BaseShapes._next_shape_id
ImplShapeGap(used) ==                                                                       \* CT_GroupShape._next_shape_id
  LET top == Cardinality({x \in used : Numeric(x)}) + 1
      free == {n \in 1..top : n \notin Digits(used)}
  IN CHOOSE n \in free : \A m \in free : n <= m
ImplCtn(used) == IF Digits(used) = {} THEN RAISES ELSE MaxOr(Digits(used), 0) + 1           \* max(ids) + 1

\* op = "alloc" | "allocGap" (shape only) | "allocIn" (shape only: added inside a group of the slide; same allocator, no turbo cache)
ImplNew(kind, op, used, turbo) ==
  CASE kind = "rid" -> ImplRid(used) [] kind = "partname" -> ImplPartname(used) [] kind = "image" -> ImplImage(used)
    [] kind = "media" -> ImplMedia(used) [] kind = "slideid" -> ImplSlideId(used) [] kind = "ctn" -> ImplCtn(used)
    [] kind = "shape" -> IF op \in {"allocGap", "allocFree", "allocAgain"} THEN ImplShapeGap(used) ELSE ImplShapeMax(used, turbo)
=============================================================================
