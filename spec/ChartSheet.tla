----------------------------- MODULE ChartSheet -----------------------------
(* The embedded worksheet of a chart as a FUNCTION of the chart data (property C08).

   data == [ kind    : "cat" | "xy" | "bubble",
             catKind : "str" | "num" | "date" | "none",      \* label type (multi-level labels are strings)
             tod     : BOOLEAN,  \* date labels are datetime objects carrying a time of day (see CellHoldsData)
             cats    : Seq(node),  node == [lab |-> token, subs |-> Seq(node)]     (<<>> for xy/bubble)
             series  : Seq([name |-> token, vals |-> Seq(token), xs |-> Seq(token), sizes |-> Seq(token)]) ]

   Tokens are strings (TLC strings are atoms): "s:<class>:<k>" a string of a class (concretised by the
   driver, parsed back by table lookup only), "n:<decimal>" a number in canonical decimal text,
   "d:YYYY-MM-DD" a date label (table Dates gives y/m/d), MISSING a missing value, BLANK an empty cell.
   Columns and rows are 1-based; a reference is <<c1, r1, c2, r2>>; an empty range has r2 = r1 - 1.      *)
EXTENDS Naturals, Integers, Sequences, SequencesExt, FiniteSets, TLC

MISSING == "missing"
BLANK   == "blank"
MaxCol  == 16384

\* ------------------------------------------------------------------ column letters (bijective base 26)
\* A column reference is a sequence of digits 1..26 (1 = "A"), most significant first.
RECURSIVE ColLetters(_)
ColLetters(n) == IF n <= 0 THEN <<>>
                 ELSE LET d == ((n - 1) % 26) + 1 IN Append(ColLetters((n - d) \div 26), d)
ColNumber(s)  == FoldLeft(LAMBDA acc, d : 26 * acc + d, 0, s)
\* independent characterisation: the odometer successor
RECURSIVE Inc(_)
Inc(s) == IF s = <<>> THEN <<1>>
          ELSE IF s[Len(s)] < 26 THEN [s EXCEPT ![Len(s)] = @ + 1]
          ELSE Append(Inc(SubSeq(s, 1, Len(s) - 1)), 1)

ThmColLetters ==
  /\ \A n \in 1..MaxCol : LET s == ColLetters(n) IN
        /\ ColNumber(s) = n                                    \* Inverse(ColLetters(n)) = n on the whole domain
        /\ Len(s) \in 1..3 /\ \A i \in 1..Len(s) : s[i] \in 1..26
        /\ n < MaxCol => ColLetters(n + 1) = Inc(s)
  /\ Cardinality({ColLetters(n) : n \in 1..MaxCol}) = MaxCol   \* injective
  /\ ColLetters(1) = <<1>> /\ ColLetters(26) = <<26>> /\ ColLetters(27) = <<1, 1>>
  /\ ColLetters(702) = <<26, 26>> /\ ColLetters(703) = <<1, 1, 1>> /\ ColLetters(MaxCol) = <<24, 6, 4>>   \* XFD

\* ------------------------------------------------------------------ dates (Excel serial numbers)
\* days from civil (proleptic Gregorian), integer arithmetic only
DaysFromCivil(y, m, d) ==
  LET yy  == IF m <= 2 THEN y - 1 ELSE y
      era == yy \div 400
      yoe == yy - era * 400
      mp  == (m + 9) % 12
      doy == (153 * mp + 2) \div 5 + d - 1
      doe == yoe * 365 + yoe \div 4 - yoe \div 100 + doy
  IN era * 146097 + doe
\* 1900 system: 1900-01-01 = 1 and the non-existent 1900-02-29 = 60, so every date after 1900-02-28 is one more
\* than the day count; 1904 system: 1904-01-01 = 0.
Serial(date1904, y, m, d) ==
  IF date1904 THEN DaysFromCivil(y, m, d) - DaysFromCivil(1904, 1, 1)
  ELSE LET n == DaysFromCivil(y, m, d) - DaysFromCivil(1899, 12, 31) IN IF n > 59 THEN n + 1 ELSE n

Dates == << [tok |-> "d:1899-12-31", y |-> 1899, m |-> 12, d |-> 31],
            [tok |-> "d:1900-01-01", y |-> 1900, m |-> 1,  d |-> 1],
            [tok |-> "d:1900-02-28", y |-> 1900, m |-> 2,  d |-> 28],
            [tok |-> "d:1900-03-01", y |-> 1900, m |-> 3,  d |-> 1],
            [tok |-> "d:1900-03-02", y |-> 1900, m |-> 3,  d |-> 2],
            [tok |-> "d:1904-01-01", y |-> 1904, m |-> 1,  d |-> 1],
            [tok |-> "d:2000-02-29", y |-> 2000, m |-> 2,  d |-> 29],
            [tok |-> "d:2024-12-31", y |-> 2024, m |-> 12, d |-> 31] >>
DateRec(tok) == LET i == CHOOSE j \in 1..Len(Dates) : Dates[j].tok = tok IN Dates[i]
NumTok(n)    == "n:" \o ToString(n)
ThmSerial == /\ Serial(FALSE, 1900, 1, 1) = 1 /\ Serial(FALSE, 1900, 2, 28) = 59 /\ Serial(FALSE, 1900, 3, 1) = 61
             /\ Serial(FALSE, 1899, 12, 31) = 0 /\ Serial(FALSE, 2000, 2, 29) = 36585 /\ Serial(FALSE, 2024, 12, 31) = 45657
             /\ Serial(TRUE, 1904, 1, 1) = 0 /\ Serial(TRUE, 2000, 2, 29) = 35123

\* the value a label / value token denotes as a CELL (and as a cached point)
LabTok(catKind, date1904, lab) ==
  IF catKind = "date" THEN LET r == DateRec(lab) IN NumTok(Serial(date1904, r.y, r.m, r.d)) ELSE lab
ValTok(v) == IF v = MISSING THEN BLANK ELSE v

\* ------------------------------------------------------------------ category trees
\* (recursion only over the depth of the tree, <= 4; sequences of siblings are folded: they may be hundreds long)
RECURSIVE Leaves(_)
NodeLeaves(n) == IF n.subs = <<>> THEN 1 ELSE Leaves(n.subs)
Leaves(nodes) == FoldLeft(LAMBDA acc, n : acc + NodeLeaves(n), 0, nodes)
RECURSIVE NodeDepth(_)
NodeDepth(n)  == IF n.subs = <<>> THEN 1 ELSE 1 + NodeDepth(n.subs[1])
Depth(nodes)  == IF nodes = <<>> THEN 0 ELSE NodeDepth(nodes[1])
\* entries [idx, lab] of the nodes k levels below `nodes` (k = 0: these nodes); idx = offset of the first leaf under the node
RECURSIVE Walk(_, _, _)
Walk(nodes, off, k) ==
  FoldLeft(LAMBDA acc, h : [off |-> acc.off + NodeLeaves(h),
                            out |-> acc.out \o (IF k = 0 THEN <<[idx |-> acc.off, lab |-> h.lab]>> ELSE Walk(h.subs, acc.off, k - 1))],
           [off |-> off, out |-> <<>>], nodes).out
\* Level(cats, 1) = the leaves, Level(cats, Depth) = the top level  (the order of c:lvl elements and of data.Categories.levels)
Level(cats, k) == Walk(cats, 0, Depth(cats) - k)
\* the flattened labels of leaf j (0-based), top level first
Parent(lvl, j)  == LET c == {i \in 1..Len(lvl) : lvl[i].idx <= j} IN lvl[CHOOSE i \in c : \A i2 \in c : i2 <= i].lab
Flat(cats, j)   == [k \in 1..Depth(cats) |-> Parent(Level(cats, Depth(cats) - k + 1), j)]

\* ------------------------------------------------------------------ layout: references
NSer(data)   == Len(data.series)
SerLen(data, i) == Len(data.series[i].vals)
D(data)      == Depth(data.cats)
\* category charts: categories in columns 1..D (top level in column 1, leaves in column D) from row 2; series i in column D + i,
\* its name in row 1, its values from row 2
CatRef(data)     == <<1, 2, D(data), Leaves(data.cats) + 1>>
\* XY / bubble: one table per series, stacked; a table is a heading row (name in column B, "Size" in column C), the points, a spacer row
Off(data, i)     == FoldLeft(LAMBDA acc, s : acc + Len(s.vals) + 2, 0, SubSeq(data.series, 1, i - 1))
NameRef(data, i) == IF data.kind = "cat" THEN <<D(data) + i, 1, D(data) + i, 1>>
                    ELSE <<2, Off(data, i) + 1, 2, Off(data, i) + 1>>
ValRef(data, i)  == IF data.kind = "cat" THEN <<D(data) + i, 2, D(data) + i, SerLen(data, i) + 1>>
                    ELSE <<2, Off(data, i) + 2, 2, Off(data, i) + 1 + SerLen(data, i)>>            \* YRef
XRef(data, i)    == <<1, Off(data, i) + 2, 1, Off(data, i) + 1 + SerLen(data, i)>>
YRef(data, i)    == ValRef(data, i)
SizeRef(data, i) == <<3, Off(data, i) + 2, 3, Off(data, i) + 1 + SerLen(data, i)>>

Rows(ref)  == ref[4] - ref[2] + 1
Cols(ref)  == ref[3] - ref[1] + 1
Size(ref)  == IF Rows(ref) <= 0 \/ Cols(ref) <= 0 THEN 0 ELSE Rows(ref) * Cols(ref)
CellsOf(ref) == {<<c, r>> : c \in ref[1]..ref[3], r \in ref[2]..ref[4]}
WellFormed(ref) == ref[1] >= 1 /\ ref[2] >= 1 /\ ref[3] >= ref[1] /\ ref[4] >= ref[2] - 1 /\ ref[3] <= MaxCol

\* ------------------------------------------------------------------ layout: the sheet, Cell(data): (col, row) |-> token
RECURSIVE SerAtRow(_, _, _)
\* the series whose table holds row r (xy/bubble), 0 if none
SerAtRow(data, r, i) == IF i > NSer(data) THEN 0
                        ELSE IF r >= Off(data, i) + 1 /\ r <= Off(data, i) + 1 + SerLen(data, i) THEN i
                        ELSE SerAtRow(data, r, i + 1)
LevelCell(lvl, j, catKind, date1904) ==
  LET c == {i \in 1..Len(lvl) : lvl[i].idx = j} IN
  IF c = {} THEN BLANK ELSE LabTok(catKind, date1904, lvl[CHOOSE i \in c : TRUE].lab)
Cell(data, date1904, c, r) ==
  IF data.kind = "cat" THEN
    IF c <= D(data) THEN (IF r >= 2 THEN LevelCell(Level(data.cats, D(data) - c + 1), r - 2, data.catKind, date1904) ELSE BLANK)
    ELSE LET i == c - D(data) IN
         IF i > NSer(data) THEN BLANK
         ELSE IF r = 1 THEN data.series[i].name
         ELSE IF r - 1 <= SerLen(data, i) THEN ValTok(data.series[i].vals[r - 1]) ELSE BLANK
  ELSE LET i == SerAtRow(data, r, 1) IN
       IF i = 0 \/ c > 3 THEN BLANK
       ELSE LET k == r - Off(data, i) - 1 IN          \* 0 = heading row, 1.. = points
            IF k = 0 THEN (IF c = 2 THEN data.series[i].name ELSE IF c = 3 /\ data.kind = "bubble" THEN "s:Size" ELSE BLANK)
            ELSE IF c = 1 THEN ValTok(data.series[i].xs[k])
            ELSE IF c = 2 THEN ValTok(data.series[i].vals[k])
            ELSE IF data.kind = "bubble" THEN ValTok(data.series[i].sizes[k]) ELSE BLANK

\* ------------------------------------------------------------------ theorems about the layout (checked by TLC per enumerated shape)
AllRefs(data) ==
  LET per(i) == IF data.kind = "cat" THEN {NameRef(data, i), ValRef(data, i)}
                ELSE {NameRef(data, i), XRef(data, i), YRef(data, i)} \cup (IF data.kind = "bubble" THEN {SizeRef(data, i)} ELSE {})
  IN [i \in 1..NSer(data) |-> per(i)]
ThmDisjoint(data) ==                      \* ranges of different series never overlap; nor do ranges within a series, nor the categories
  LET R == AllRefs(data) IN
  /\ \A i, j \in 1..NSer(data) : i # j => \A a \in R[i], b \in R[j] : CellsOf(a) \cap CellsOf(b) = {}
  /\ \A i \in 1..NSer(data) : \A a, b \in R[i] : a # b => CellsOf(a) \cap CellsOf(b) = {}
  /\ data.kind = "cat" => \A i \in 1..NSer(data) : \A a \in R[i] : CellsOf(a) \cap CellsOf(CatRef(data)) = {}
ThmSizes(data) ==                         \* Size(ref) = ptCount
  /\ \A i \in 1..NSer(data) : /\ Size(NameRef(data, i)) = 1
                              /\ Size(ValRef(data, i)) = SerLen(data, i)
                              /\ data.kind # "cat" => Size(XRef(data, i)) = SerLen(data, i) /\ Size(SizeRef(data, i)) = SerLen(data, i)
                              /\ \A a \in AllRefs(data)[i] : WellFormed(a)
  /\ data.kind = "cat" /\ data.cats # <<>> => Rows(CatRef(data)) = Leaves(data.cats) /\ Cols(CatRef(data)) = D(data)
ThmOffsets(data) ==                       \* row offsets accumulate over the preceding series, whatever their lengths
  data.kind # "cat" =>
    \A i \in 1..NSer(data) :
       /\ Off(data, 1) = 0
       /\ i > 1 => Off(data, i) = Off(data, i - 1) + SerLen(data, i - 1) + 2
       /\ i < NSer(data) => XRef(data, i)[4] + 1 < NameRef(data, i + 1)[2]          \* a spacer row in between
ThmCellAtRef(data, date1904) ==           \* reading the sheet through the references gives the data back
  /\ \A i \in 1..NSer(data) :
       /\ Cell(data, date1904, NameRef(data, i)[1], NameRef(data, i)[2]) = data.series[i].name
       /\ \A k \in 1..SerLen(data, i) :
            /\ Cell(data, date1904, ValRef(data, i)[1], ValRef(data, i)[2] + k - 1) = ValTok(data.series[i].vals[k])
            /\ data.kind # "cat" => Cell(data, date1904, 1, XRef(data, i)[2] + k - 1) = ValTok(data.series[i].xs[k])
            /\ data.kind = "bubble" => Cell(data, date1904, 3, SizeRef(data, i)[2] + k - 1) = ValTok(data.series[i].sizes[k])
  /\ data.kind = "cat" =>
       \A k \in 1..D(data) : \A e \in Range(Level(data.cats, k)) :
          Cell(data, date1904, CatRef(data)[3] - (k - 1), CatRef(data)[2] + e.idx) = LabTok(data.catKind, date1904, e.lab)
ThmShape(data) == ThmDisjoint(data) /\ ThmSizes(data) /\ ThmOffsets(data) /\ ThmCellAtRef(data, FALSE)

\* ------------------------------------------------------------------ conformance clauses on an OBSERVED chart + workbook
(* obs == [ date1904, grid : Seq(row) of Seq(token)  (grid[r][c], "blank" outside),
            sers : Seq([tx, cat, val, x, y, sz]) in plot order then c:order; each part is
                   [present, parsed, sheetOk, ref, ptCount, lvls : Seq(Seq([idx, v]))]  (lvls[1] = the only / leaf level) ]   *)
CellAt(g, c, r) == IF r \in 1..Len(g) THEN (IF c \in 1..Len(g[r]) THEN g[r][c] ELSE BLANK) ELSE BLANK
Parts == <<"tx", "cat", "val", "x", "y", "sz">>
PartOf(s, p) == CASE p = "tx" -> s.tx [] p = "cat" -> s.cat [] p = "val" -> s.val [] p = "x" -> s.x [] p = "y" -> s.y [] p = "sz" -> s.sz

\* the referenced range has the size announced by the point count: ptCount rows, one column per level
PartSizeOK(P) == /\ P.parsed /\ P.sheetOk /\ WellFormed(P.ref)
                 /\ Rows(P.ref) = P.ptCount
                 /\ Cols(P.ref) = Len(P.lvls)
\* a cached point equals the cell it is indexed to: level k is column c2 - (k - 1), point idx is row r1 + idx
\* (an empty cached string and an empty cell are the same thing)
SameTok(a, b) == a = b \/ ({a, b} \subseteq {BLANK, "s:empty:0"})
PointBad(g, P) ==
  UNION {{[lvl |-> k, idx |-> P.lvls[k][j].idx, pt |-> P.lvls[k][j].v,
           cell |-> CellAt(g, P.ref[3] - (k - 1), P.ref[2] + P.lvls[k][j].idx)] :
            j \in {jj \in 1..Len(P.lvls[k]) :
                     \/ P.lvls[k][jj].idx \notin 0..(P.ptCount - 1)
                     \/ ~SameTok(P.lvls[k][jj].v, CellAt(g, P.ref[3] - (k - 1), P.ref[2] + P.lvls[k][jj].idx))}} :
         k \in 1..Len(P.lvls)}

\* the range holds the data supplied: what the workbook must hold at the position the chart references
ExpectLvls(data, date1904, i, p) ==
  CASE p = "tx"  -> << <<[idx |-> 0, v |-> data.series[i].name]>> >>
    [] p = "cat" -> IF data.tod THEN <<>>      \* a datetime label with a time of day: whether the cell holds the date or the
                                               \* date-time is not fixed by the statement; only PointEqualsCell is judged
                    ELSE [k \in 1..D(data) |-> [j \in 1..Len(Level(data.cats, k)) |->
                        [idx |-> Level(data.cats, k)[j].idx, v |-> LabTok(data.catKind, date1904, Level(data.cats, k)[j].lab)]]]
    [] p = "x"   -> << [j \in 1..SerLen(data, i) |-> [idx |-> j - 1, v |-> ValTok(data.series[i].xs[j])]] >>
    [] p = "sz"  -> << [j \in 1..SerLen(data, i) |-> [idx |-> j - 1, v |-> ValTok(data.series[i].sizes[j])]] >>
    [] OTHER     -> << [j \in 1..SerLen(data, i) |-> [idx |-> j - 1, v |-> ValTok(data.series[i].vals[j])]] >>
DataBad(g, P, exp) ==
  UNION {{[lvl |-> k, idx |-> exp[k][j].idx, want |-> exp[k][j].v, cell |-> CellAt(g, P.ref[3] - (k - 1), P.ref[2] + exp[k][j].idx)] :
            j \in {jj \in 1..Len(exp[k]) : ~SameTok(exp[k][jj].v, CellAt(g, P.ref[3] - (k - 1), P.ref[2] + exp[k][jj].idx))}} :
         k \in 1..Len(exp)}
SpecRef(data, i, p) ==
  CASE p = "tx" -> NameRef(data, i) [] p = "cat" -> CatRef(data) [] p = "x" -> XRef(data, i) [] p = "sz" -> SizeRef(data, i)
    [] OTHER -> ValRef(data, i)

SheetClauses == <<"RefSizeIsPtCount", "PointEqualsCell", "CellHoldsData">>
\* witnesses of the failing clauses of one observed chart: records [clause, ser, part, ...]
Witnesses(data, obs) ==
  LET n == IF Len(obs.sers) < NSer(data) THEN Len(obs.sers) ELSE NSer(data) IN
  UNION {UNION {
     LET P == PartOf(obs.sers[i], Parts[q]) IN
     IF ~P.present THEN {}
     ELSE (IF PartSizeOK(P) THEN {} ELSE {[clause |-> "RefSizeIsPtCount", ser |-> i, part |-> Parts[q], ref |-> P.ref, ptCount |-> P.ptCount,
                                              nlvl |-> Len(P.lvls)]})
          \cup (IF P.parsed /\ P.sheetOk
                THEN {[clause |-> "PointEqualsCell", ser |-> i, part |-> Parts[q], at |-> w] : w \in PointBad(obs.grid, P)}
                     \cup {[clause |-> "CellHoldsData", ser |-> i, part |-> Parts[q], at |-> w] :
                             w \in DataBad(obs.grid, P, ExpectLvls(data, obs.date1904, i, Parts[q]))}
                ELSE {})
     : q \in 1..Len(Parts)} : i \in 1..n}
\* drift only: the references are the ones the layout function gives, and the whole sheet is Cell(data)
RefDrift(data, obs) ==
  LET n == IF Len(obs.sers) < NSer(data) THEN Len(obs.sers) ELSE NSer(data) IN
  Cardinality({<<i, q>> \in (1..n) \X (1..Len(Parts)) :
                  LET P == PartOf(obs.sers[i], Parts[q]) IN P.present /\ P.ref # SpecRef(data, i, Parts[q])})
SheetDrift(data, obs) ==
  Cardinality({<<c, r>> \in (1..(IF obs.grid = <<>> THEN 0 ELSE Len(obs.grid[1]))) \X (1..Len(obs.grid)) :
                  ~SameTok(CellAt(obs.grid, c, r), Cell(data, obs.date1904, c, r))})
=============================================================================
