------------------------------- MODULE MC_Layout -------------------------------
(* Generated layouts: TLC enumerates placeholder populations (every placeholder type, duplicate types, duplicate and missing
   idx, vertical orientation, each sz, with and without own geometry) and short histories of slide additions / overrides /
   saves.  Each population is materialised by the driver by rewriting a layout part of the default template.             *)
EXTENDS Layout, Json
CONSTANTS NPH, DEPTH, MODE
VARIABLES pop, hist
Types == <<"title", "body", "ctrTitle", "subTitle", "dt", "sldNum", "ftr", "hdr", "obj", "chart", "tbl", "clipArt", "dgm", "media", "sldImg", "pic">>
Szs == <<"full", "half", "quarter">>
\* car: the element that CARRIES the p:ph in the layout - "sp" (an empty placeholder), "pic" / "gf" (a placeholder that was filled in
\* Slide Master view: a p:pic or a p:graphicFrame with a p:ph; a graphic frame always has its own p:xfrm).  The slide's clone is a p:sp.
\* nm: how the layout names the placeholder - "u" a name of its own, "same" the name every "same" placeholder of the layout shares (shape
\* names need not be unique in a document; the names on the NEW slide must be), "amp" a name with markup characters,
\* "idx0" a name of its own and the index zero WRITTEN OUT (idx="0": the default, schema-valid, what some producers write)
PhN(t, i, o, z, g, car, nm) == [type |-> Types[t], idx |-> i, orient |-> o, sz |-> Szs[z], own |-> g, car |-> car, nm |-> nm]
PhC(t, i, o, z, g, car) == PhN(t, i, o, z, g, car, "u")
\* part: the placeholder's a:xfrm holds only a position ("off") or only a size ("ext"); the other pair comes from the master
PhP(t, i, part) == [type |-> Types[t], idx |-> i, orient |-> "horz", sz |-> "full", own |-> TRUE, car |-> "sp", nm |-> "u", part |-> part]
Partial == {PhP(t, i, part) : t \in {1, 2, 3, 9, 16}, i \in {0, 1, 13}, part \in {"off", "ext"}}
Ph(t, i, o, z, g) == PhC(t, i, o, z, g, "sp")
Filled == {PhC(t, i, "horz", 1, g, "pic") : t \in {9, 12, 16}, i \in {1, 13}, g \in BOOLEAN}
          \cup {PhC(t, i, "horz", 1, TRUE, "gf") : t \in {9, 10, 11, 13}, i \in {1, 13}}
\* MODE "single": every single placeholder variant; "pairs": pairs/triples over a reduced variant set
Variants == IF MODE = "single"
            THEN {Ph(t, i, o, z, g) : t \in DOMAIN Types, i \in {0, 1, 13}, o \in {"horz", "vert"}, z \in DOMAIN Szs, g \in BOOLEAN} \cup Filled
                 \cup {PhN(t, 0, "horz", 1, g, "sp", "idx0") : t \in {1, 2, 3, 9}, g \in BOOLEAN} \cup Partial
            ELSE {Ph(t, i, "horz", 1, g) : t \in {1, 2, 5, 9, 16}, i \in {0, 1}, g \in BOOLEAN} \cup {Ph(2, 1, "vert", 2, FALSE)}
                 \cup {PhC(16, 1, "horz", 1, TRUE, "pic"), PhC(11, 13, "horz", 1, TRUE, "gf")}
                 \cup {PhN(1, 0, "horz", 1, TRUE, "sp", "same"), PhN(2, 1, "horz", 1, TRUE, "sp", "same"), PhN(2, 13, "horz", 1, FALSE, "sp", "same"),
                       PhN(9, 1, "horz", 1, TRUE, "sp", "amp"), PhN(1, 0, "horz", 1, TRUE, "sp", "idx0"), PhN(3, 0, "horz", 1, FALSE, "sp", "idx0")}
                 \cup {PhP(2, 1, "off"), PhP(1, 0, "ext")}
Init == pop = <<>> /\ hist = <<>>
AddPh == Len(pop) < NPH /\ hist = <<>> /\ \E v \in Variants : pop' = Append(pop, v) /\ UNCHANGED hist
Act(op, k, j) == [op |-> op, k |-> k, j |-> j]
NSl == Cardinality({i \in DOMAIN hist : hist[i].op = "addSlide"})
Do(a) == pop # <<>> /\ Len(hist) < DEPTH /\ hist' = Append(hist, a) /\ UNCHANGED pop
AddSlide == Do(Act("addSlide", 0, 0))
SetGeom  == \E k \in 1..NSl : \E j \in 1..Len(NonLatent(pop)) : Do(Act("setGeom", k, j))
AddShape == \E k \in 1..NSl : Do(Act("addShape", k, 0))
SaveReopen == hist # <<>> /\ hist[Len(hist)].op # "reopen" /\ Do(Act("reopen", 0, 0))
Notes == \E k \in 1..NSl : Do(Act("notes", k, 0))
\* the layout is edited between two slide additions (the recipe "delete / reorder a layout's placeholder through its element"): the j-th
\* placeholder element of the layout is removed (dropPh) or moved behind the others (movePh); a slide added afterwards mirrors the layout
\* AS IT IS THEN (the trace carries the layout's placeholders as read at each addition), the slides added before are untouched
EditLayout == /\ MODE = "pairs" /\ NSl >= 1 /\ Len(pop) >= 2 /\ \A i \in DOMAIN hist : hist[i].op \notin {"dropPh", "movePh"}
              /\ \E op \in {"dropPh", "movePh"} : \E j \in 1..Len(pop) : (op = "movePh" => j < Len(pop)) /\ Do(Act(op, 0, j))
Next == AddPh \/ AddSlide \/ SetGeom \/ AddShape \/ SaveReopen \/ Notes \/ EditLayout
Spec == Init /\ [][Next]_<<pop, hist>>
\* design check: the mirror of a population keeps order and drops exactly the latent types
MirrorOK == Len(ImplMirror(pop)) = Cardinality({i \in DOMAIN pop : pop[i].type \notin Latent})
Emit == (hist # <<>> /\ hist[Len(hist)].op = "addSlide" /\ NSl = 1) => PrintT(<<"POP", ToJson(pop)>>)
EmitH == (Len(hist) = DEPTH \/ (hist # <<>> /\ MODE = "single")) => PrintT(<<"SC", ToJson([pop |-> pop, h |-> hist])>>)
=============================================================================
