----------------------------- MODULE PropRefusal -----------------------------
(* Property C11, setter level: "every other value is rejected with TypeError or ValueError before anything is written".

   SimpleTypes.tla judges that sentence at the attribute descriptors (clause B: a refused value leaves the attribute string as it was).
   The setters users call are the PROPERTIES of the object model, and many of them prepare the tree before they hand the value to
   the descriptor (remove the old element, add a new one, then assign).  This module judges the same sentence there, on the traces of
   the property machine of C09 (Props.tla / MC_Props.tla: every catalogued property x every out-of-domain / wrong-type value class,
   on a fresh object and after an accepted assignment that left an explicit setting behind):

     R.recs[k] = [id, out : "ok" | exception class, lost : Seq(STRING)]
        lost = the attribute values and text nodes ("tag@attribute") that the object's part held BEFORE the refused call and does
               not hold after it (multiset difference over the whole part, read from the lxml tree)

   RefusedKeepsValues: a call refused with TypeError / ValueError loses nothing that was written before.  What a refused call may
   leave behind in ADDITION (an empty container, an element carrying schema defaults) is not judged here: C03 judges its validity,
   C09 reports the readings.                                                                                                *)
EXTENDS Sequences, FiniteSets, TLC, Json, IOUtils
VARIABLE dummy
R == JsonDeserialize(IOEnv.TRACE_FILE)
Errors == {"TypeError", "ValueError"}
\* Reader level of "every schema-valid lexical form met in a document can be read": a record with out = "respelled" comes from ONE saved
\* file opened twice - as the library spelled it, and RESPELLED as another producer may spell it, value for value the same by the
\* schema (hexBinary colours in lower case, xsd:boolean "1" / "0" as "true" / "false"); lost = the catalogued properties of the object
\* whose readers do not return the same from both ("open" when the respelled file does not open).
Names == <<"RefusedKeepsValues", "RespelledFormsReadable">>
Holds(n, r) == CASE n = "RefusedKeepsValues" -> (r.out \in Errors) => r.lost = <<>>
                 [] n = "RespelledFormsReadable" -> (r.out = "respelled") => r.lost = <<>>
Failing(r) == {Names[i] : i \in {j \in DOMAIN Names : ~Holds(Names[j], r)}}
Bad == {k \in DOMAIN R.recs : Failing(R.recs[k]) # {}}
ASSUME \A k \in Bad : PrintT(<<"VERDICT", ToJson([id |-> R.recs[k].id, k |-> k, failing |-> Failing(R.recs[k])])>>)
ASSUME PrintT(<<"SUMMARY", ToJson([recs |-> Len(R.recs), rejected |-> Cardinality(Bad),
                                   refused |-> Cardinality({k \in DOMAIN R.recs : R.recs[k].out \in Errors}),
                                   respelled |-> Cardinality({k \in DOMAIN R.recs : R.recs[k].out = "respelled"})])>>)
Init == dummy = 0
Next == UNCHANGED dummy
=============================================================================
