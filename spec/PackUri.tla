------------------------------- MODULE PackUri -------------------------------
(* Part-name arithmetic of the Open Packaging Conventions, as python-pptx's PackURI is
   documented to implement it (property C19; the base of OpcPackage.tla for C01/C16).

   A part name is a sequence of SEGMENTS.  TLC strings are atoms, so a segment is an index into
   the constant table Segs of records [stem, num, exts]; the driver renders a segment as
   stem \o num \o ("." \o e for e in exts) and parses results back by table lookup only.
   A reference is [abs |-> BOOLEAN, segs |-> Seq(segment index \cup {DOT, DOTDOT})].          *)
EXTENDS Naturals, Integers, Sequences, SequencesExt, FiniteSets, FiniteSetsExt, TLC

DOT    == 0
DOTDOT == -1

\* The segment table is a constant so that trace modules can bind it to the table the driver
\* derived from a real package (corpus decks); MC modules bind it to DefaultSegs below.
CONSTANT Segs

\* The seven kinds of the quantifier: plain, digit-suffixed, dotted, multi-extension,
\* extension-less, upper-case, bracketed; "slide" is a string prefix of "slide21", so
\* sibling-prefix directories (/slide vs /slide21) are in the domain.  Entries 10.. serve OpcPackage.
DefaultSegs == <<
  [stem |-> "slide",           num |-> -1, exts |-> <<>>],
  [stem |-> "slide",           num |-> 21, exts |-> <<"xml">>],
  [stem |-> "a",               num |-> -1, exts |-> <<"b">>],
  [stem |-> "x",               num |-> -1, exts |-> <<"tar", "gz">>],
  [stem |-> "thumbnail",       num |-> -1, exts |-> <<>>],
  [stem |-> "P",               num |-> 3,  exts |-> <<"XML">>],
  [stem |-> "[Content_Types]", num |-> -1, exts |-> <<"xml">>],
  [stem |-> "slide",           num |-> 21, exts |-> <<>>],
  [stem |-> "ppt",             num |-> -1, exts |-> <<>>],
  [stem |-> "p",               num |-> -1, exts |-> <<"bin">>],
  [stem |-> "q%20r",           num |-> -1, exts |-> <<"bin">>],      \* a percent-escape that is PART OF THE NAME (the member is called q%20r.bin)
  [stem |-> "r",               num |-> -1, exts |-> <<"BIN">>],
  \* 13..: file names for the ACCESSOR family only (MC_PackUri.ExtraNames): index zero, zero-padded digits (field pad = number of
  \* leading zeros in the spelling; num is the VALUE), the decimal digit boundaries, a long stem, the largest 32-bit index
  [stem |-> "image",           num |-> 0,   exts |-> <<"png">>],
  [stem |-> "slide",           num |-> 1,   exts |-> <<"xml">>,  pad |-> 2],
  [stem |-> "image",           num |-> 7,   exts |-> <<"jpeg">>, pad |-> 1],
  [stem |-> "slide",           num |-> 9,   exts |-> <<"xml">>],
  [stem |-> "slide",           num |-> 10,  exts |-> <<"xml">>],
  [stem |-> "slide",           num |-> 100, exts |-> <<"xml">>],
  [stem |-> "slideLayout",     num |-> 11,  exts |-> <<"xml">>],
  [stem |-> "media",           num |-> 0,   exts |-> <<"mp4">>,  pad |-> 1],
  [stem |-> "chart",           num |-> 2147483647, exts |-> <<"xml">>],
  [stem |-> "notesSlide",      num |-> 12,  exts |-> <<"xml">>],
  [stem |-> "image",           num |-> 1,   exts |-> <<"", "png">>],      \* "image1..png": two consecutive periods INSIDE a segment (no dot segment)
  [stem |-> "..a",             num |-> -1,  exts |-> <<"xml">>],           \* "..a.xml": a segment that merely begins with two periods
  \* names outside ASCII (TLC strings are ASCII: {U+XXXX} is decoded by the driver's renderer, the observed names are matched as rendered):
  \* the same word spelled with a combining accent and precomposed - two DIFFERENT names, each kept as spelled
  [stem |-> "cafe{U+0301}",    num |-> -1,  exts |-> <<"png">>],
  [stem |-> "caf{U+00E9}",     num |-> -1,  exts |-> <<"png">>],     \* (no number: the index is defined for <ASCII letters><digits> stems)
  \* the LAST segment is used as a DIRECTORY by MC_PackUri.DirNames: a percent sign inside a directory name ("/ppt/my%20dir/slide1.xml")
  [stem |-> "my%20dir",        num |-> -1,  exts |-> <<>>]
>>

SegIds(n) == 1..n

\* ---------------------------------------------------------------- accessors (OPC part 2, §9/§10)
Dir(P)      == IF P = <<>> THEN <<>> ELSE SubSeq(P, 1, Len(P) - 1)
FileSeg(P)  == IF P = <<>> THEN 0 ELSE P[Len(P)]             \* 0: the pseudo-name "/" has no file name
ExtOf(sid)  == IF sid = 0 \/ Segs[sid].exts = <<>> THEN "" ELSE Segs[sid].exts[Len(Segs[sid].exts)]
Ext(P)      == ExtOf(FileSeg(P))
\* numeric index: defined by the docstring for <letters><digits>[.ext] and <letters>[.ext] only
IdxJudged(sid) == sid # 0 /\ Len(Segs[sid].exts) <= 1 /\ Segs[sid].stem \notin {"[Content_Types]"}
Idx(P)      == IF FileSeg(P) = 0 THEN -1 ELSE Segs[FileSeg(P)].num      \* -1 stands for None
Member(P)   == P                                               \* zip member name: same segments, no leading "/"
\* relationship item of P:  Dir(P)/_rels/<filename>.rels   (for "/":  /_rels/.rels)
RelsUri(P)  == [dir |-> Dir(P), of |-> FileSeg(P)]

\* ---------------------------------------------------------------- RFC 3986 §5.2 on path segments
RECURSIVE RemoveDots(_, _)
RemoveDots(stack, rest) ==
  IF rest = <<>> THEN stack
  ELSE LET h == Head(rest) IN
       IF h = DOT THEN RemoveDots(stack, Tail(rest))
       ELSE IF h = DOTDOT
            THEN RemoveDots(IF stack = <<>> THEN <<>> ELSE SubSeq(stack, 1, Len(stack) - 1), Tail(rest))
            ELSE RemoveDots(Append(stack, h), Tail(rest))

\* base is a directory (sequence of segments); an absolute reference replaces the base;
\* ".." at the root stays at the root.
Resolve(base, ref) == RemoveDots(<<>>, IF ref.abs THEN ref.segs ELSE base \o ref.segs)

RECURSIVE CommonLen(_, _)
CommonLen(a, b) == IF a = <<>> \/ b = <<>> \/ Head(a) # Head(b) THEN 0 ELSE 1 + CommonLen(Tail(a), Tail(b))

\* canonical relative reference from directory `base` to part name Q
RelRef(base, Q) ==
  LET k    == CommonLen(base, Q)
      segs == [i \in 1..(Len(base) - k) |-> DOTDOT] \o SubSeq(Q, k + 1, Len(Q))
  IN [abs |-> FALSE, segs |-> IF segs = <<>> THEN <<DOT>> ELSE segs]

\* syntactic variants of a reference from `base` to Q that RFC 3986 resolves to Q
Variants(base, Q, d) ==
  LET n == RelRef(base, Q) IN
  << n,
     [abs |-> FALSE, segs |-> <<DOT>> \o n.segs],                                   \* ./x
     [abs |-> FALSE, segs |-> <<d, DOTDOT>> \o n.segs],                             \* d/../x
     [abs |-> TRUE,  segs |-> Q],                                                   \* /abs
     [abs |-> FALSE, segs |-> [i \in 1..Len(base) |-> DOTDOT] \o Q],                \* up to the root, then down
     [abs |-> FALSE, segs |-> [i \in 1..(Len(base) + 1) |-> DOTDOT] \o Q],          \* one ".." too many: stays at root
     [abs |-> TRUE,  segs |-> <<DOTDOT, DOT>> \o Q \o <<DOT>>] >>                   \* /.././Q/.

\* ---------------------------------------------------------------- bounded domains
RECURSIVE SeqsUpTo(_, _)
SeqsUpTo(S, n) == IF n = 0 THEN {<<>>}
                  ELSE LET prev == SeqsUpTo(S, n - 1) IN prev \cup {Append(p, s) : p \in {q \in prev : Len(q) = n - 1}, s \in S}
Names(nseg, depth) == SeqsUpTo(SegIds(nseg), depth) \ {<<>>}
Bases(nseg, depth) == SeqsUpTo(SegIds(nseg), depth)          \* includes the root <<>>

\* ---------------------------------------------------------------- theorems TLC checks on the spec
ThmRoundTrip(N, B)  == \A b \in B : \A Q \in N : Resolve(b, RelRef(b, Q)) = Q
ThmVariants(N, B)   == \A b \in B : \A Q \in N : \A i \in 1..7 : Resolve(b, Variants(b, Q, 1)[i]) = Q
ThmRelsInjective(N) == \A P \in N \cup {<<>>} : \A Q \in N \cup {<<>>} : RelsUri(P) = RelsUri(Q) => P = Q
ThmNoDotsLeft(N, B) == \A b \in B : \A Q \in N : \A i \in 1..7 :
                          \A j \in 1..Len(Resolve(b, Variants(b, Q, 1)[i])) : Resolve(b, Variants(b, Q, 1)[i])[j] > 0
\* a directory that is a proper sibling (different last segment) is never reached without ".."
ThmSibling(N, B)    == \A b \in B : \A Q \in N :
                          (b # <<>> /\ CommonLen(b, Q) < Len(b)) => RelRef(b, Q).segs[1] = DOTDOT
=============================================================================
