--------------------------- MODULE Trace_ChartData ---------------------------
(* Validates chart histories observed from the real library against ChartData (C07).
   R.shapes : the shape table (actions refer to data by index; the driver appends its widened shapes)
   R.traces : [id, fam, gen, init : observed chart (corpus) or the empty chart, steps : Seq([a, t])]
              a = [op, d | i], t = the chart record observed after the call (tokens from the serialised part, read API).
   Every clause of ChartData!Failing is evaluated on every observed step; the difference between the observed
   successor and ImplStep(observed predecessor) is counted as drift.                                              *)
EXTENDS ChartData, Json, IOUtils
VARIABLE dummy
R  == JsonDeserialize(IOEnv.TRACE_FILE)
T  == R.traces

Act(tr, k) == LET a == tr.steps[k].a IN
              CASE a.op = "add"     -> [op |-> "add", fam |-> tr.fam, data |-> R.shapes[a.d]]
                [] a.op = "replace" -> [op |-> "replace", data |-> R.shapes[a.d]]
                [] a.op = "format"  -> [op |-> "format", i |-> a.i]
                [] OTHER            -> [op |-> a.op]
Pre(tr, k)  == IF k = 1 THEN tr.init ELSE tr.steps[k - 1].t
Bad(tr)     == {[k |-> k, op |-> tr.steps[k].a.op, failing |-> Failing(Pre(tr, k), Act(tr, k), tr.steps[k].t)] :
                  k \in {j \in 1..Len(tr.steps) : Failing(Pre(tr, j), Act(tr, j), tr.steps[j].t) # {}}}
\* drift: add -> plot kinds and idx / order values; replace -> also tokens (clones carry their source's token)
NoTok(c)    == [raised |-> c.raised, plots |-> [k \in 1..Len(c.plots) |->
                  [kind |-> c.plots[k].kind, sers |-> [j \in 1..Len(c.plots[k].sers) |-> <<c.plots[k].sers[j].idx, c.plots[k].sers[j].order>>]]]]
DriftAt(tr, k) == LET a == Act(tr, k)
                      t == tr.steps[k].t
                      i == ImplStep(Pre(tr, k), a)
                  IN IF t.raised # "" \/ i.raised # "" THEN t.raised # i.raised      \* a failed call: only the exception class is compared
                     ELSE CASE a.op = "add"     -> NoTok(t) # NoTok(i)
                            [] a.op = "replace" -> Skeleton(t) # Skeleton(i)
                            [] OTHER            -> FALSE
Drift(tr)   == Cardinality({k \in 1..Len(tr.steps) : DriftAt(tr, k)})
BadTraces   == {n \in 1..Len(T) : Bad(T[n]) # {}}
ASSUME \A n \in BadTraces : PrintT(<<"VERDICT", ToJson([id |-> T[n].id, bad |-> Bad(T[n])])>>)
DriftTraces == {n \in 1..Len(T) : Drift(T[n]) > 0}
ASSUME \A n \in DriftTraces : PrintT(<<"DRIFT", ToJson([id |-> T[n].id, at |-> {k \in 1..Len(T[n].steps) : DriftAt(T[n], k)}])>>)
ASSUME PrintT(<<"SUMMARY", ToJson([traces |-> Len(T), rejected |-> Cardinality(BadTraces),
                                   steps |-> FoldLeft(LAMBDA acc, tr : acc + Len(tr.steps), 0, T),
                                   drift |-> FoldLeft(LAMBDA acc, tr : acc + Drift(tr), 0, T)])>>)
Init == dummy = 0
Next == UNCHANGED dummy
=============================================================================
