-------------------------------- MODULE Table --------------------------------
(* DrawingML tables: creation, merge, split, row/column resizing (property C14).

   State (JSON-native so the same record is what the driver logs):
     [ rows : Seq(Seq(Cell)),         R = Len(rows); every row must have C = Len(colw) cells
       colw : Seq(Nat), rowh : Seq(Nat),   a:gridCol/@w, a:tr/@h
       fw, fh : Nat ]                      graphic-frame extent
     Cell = [ gs, rs : Nat, hm, vm : BOOLEAN,      the four attributes as serialised
              o, sp : BOOLEAN, sh, sw : Nat,        the public readers is_merge_origin, is_spanned, span_height, span_width
              txt : Seq(Nat) ]                      one token per paragraph, 0 = empty paragraph

   Two layers.  The PROPERTY layer (Post, Inv) talks about regions read off the public readers
   and about text tokens; the IMPL layer (ImplStep) is the attribute encoding as _Cell.merge /
   _Cell.split write it.  MC_Table checks that the Impl layer satisfies the property layer for
   every bounded history; Trace_Table checks the property layer on states observed from the
   real library (and counts drift from the Impl layer).                                        *)
EXTENDS Naturals, Integers, Sequences, FiniteSets, TLC

Min(a, b) == IF a < b THEN a ELSE b
Max(a, b) == IF a > b THEN a ELSE b
RECURSIVE SumSeq(_)
SumSeq(s) == IF s = <<>> THEN 0 ELSE Head(s) + SumSeq(Tail(s))

R(s) == Len(s.rows)
C(s) == Len(s.colw)
Cells(s) == {<<r, c>> : r \in 1..R(s), c \in 1..C(s)}
At(s, rc) == s.rows[rc[1]][rc[2]]

Rect(a, b) == [t |-> Min(a[1], b[1]), l |-> Min(a[2], b[2]), b |-> Max(a[1], b[1]), r |-> Max(a[2], b[2])]
In(rc, q)  == rc[1] >= q.t /\ rc[1] <= q.b /\ rc[2] >= q.l /\ rc[2] <= q.r
RCells(q)  == {<<r, c>> : r \in q.t..q.b, c \in q.l..q.r}
Single(q)  == q.t = q.b /\ q.l = q.r
Origin(q)  == <<q.t, q.l>>

\* ------------------------------------------------------------ property layer: regions from the readers
Regions(s) == {[t |-> rc[1], l |-> rc[2], b |-> rc[1] + At(s, rc).sh - 1, r |-> rc[2] + At(s, rc).sw - 1] :
                 rc \in {x \in Cells(s) : At(s, x).o}}
Covered(s)  == UNION {RCells(q) : q \in Regions(s)}
NonEmpty(t) == SelectSeq(t, LAMBDA x : x # 0)
\* reading order concatenation of the non-empty paragraphs of the cells of q
RECURSIVE CatRows(_, _, _, _)
CatRows(s, q, r, c) == IF r > q.b THEN <<>>
                       ELSE IF c > q.r THEN CatRows(s, q, r + 1, q.l)
                       ELSE NonEmpty(At(s, <<r, c>>).txt) \o CatRows(s, q, r, c + 1)
TextOf(s, q) == CatRows(s, q, q.t, q.l)

\* state invariants (every state, model and observed)
\* (the frame size is NOT a state invariant: the caller may resize the graphic frame itself - action "frame" - and a document may store any
\* extent.  "Keeps the frame size equal to the sum" is the post-condition SizeSet of a row-height / column-width change, whatever the frame
\* was before; CreateHolds states it for a new table.)
InvNames == <<"Rectangular", "RegionsInside", "RegionsDisjoint", "SpannedIffCovered", "FlagsMatchReaders", "EveryCellHasParagraph">>
InvHolds(n, s) ==
  CASE n = "Rectangular"      -> Len(s.rowh) = R(s) /\ \A r \in 1..R(s) : Len(s.rows[r]) = C(s)
    [] n = "RegionsInside"    -> \A q \in Regions(s) : q.b <= R(s) /\ q.r <= C(s) /\ ~Single(q)
    [] n = "RegionsDisjoint"  -> \A p, q \in Regions(s) : p # q => RCells(p) \cap RCells(q) = {}
    [] n = "SpannedIffCovered" -> \A rc \in Cells(s) : At(s, rc).sp <=> (\E q \in Regions(s) : In(rc, q) /\ rc # Origin(q))
    [] n = "FlagsMatchReaders" -> \A rc \in Cells(s) : LET c == At(s, rc) IN
                                   /\ c.o => (c.rs = c.sh /\ c.gs = c.sw)
                                   /\ (~c.o /\ ~c.sp) => (c.gs = 1 /\ c.rs = 1 /\ ~c.hm /\ ~c.vm)
    [] n = "EveryCellHasParagraph" -> \A rc \in Cells(s) : Len(At(s, rc).txt) >= 1
\* The verdict is TOTAL: a state that is not rectangular, or whose readers report a region reaching outside the table, is named by
\* that clause alone - the other clauses index cells through the regions and are not evaluated on it.
WellFormed(s) == InvHolds("Rectangular", s) /\ InvHolds("RegionsInside", s)
InvFailing(s) == IF ~InvHolds("Rectangular", s) THEN {"Rectangular"}
                 ELSE IF ~InvHolds("RegionsInside", s) THEN {"RegionsInside"}
                 ELSE {InvNames[i] : i \in {j \in DOMAIN InvNames : ~InvHolds(InvNames[j], s)}}
Inv(s) == InvFailing(s) = {}

\* actions are records:
\*   [op |-> "merge", a |-> <<r,c>>, b |-> <<r,c>>]   self = cell a, other_cell = cell b
\*   [op |-> "mergeOther", a |-> <<r,c>>]              other_cell belongs to a different table
\*   [op |-> "split", a |-> <<r,c>>]
\*   [op |-> "colw", i |-> c, v |-> w]    [op |-> "rowh", i |-> r, v |-> h]
\*   [op |-> "frame", w |-> cx, h |-> cy]              the graphic frame itself is resized (shape.width / shape.height)
\* outcome of an action is "ok" or "ValueError"
MergeRefused(s, q) == RCells(q) \cap Covered(s) # {}
Outcome(s, a) ==
  CASE a.op = "merge"      -> IF MergeRefused(s, Rect(a.a, a.b)) THEN "ValueError" ELSE "ok"
    [] a.op = "mergeOther" -> "ValueError"
    [] a.op = "split"      -> IF At(s, a.a).o THEN "ok" ELSE "ValueError"
    [] OTHER               -> "ok"

SameExceptCells(s, t, Q) == /\ R(t) = R(s) /\ C(t) = C(s) /\ t.colw = s.colw /\ t.rowh = s.rowh /\ t.fw = s.fw /\ t.fh = s.fh
                            /\ \A r \in 1..R(s) : Len(t.rows[r]) = C(s)
                            /\ \A rc \in Cells(s) \ Q : At(t, rc) = At(s, rc)

PostNames == <<"Outcome", "RefusedUnchanged", "Frame", "RegionsUpdated", "OriginReportsSpan", "OthersSpanned",
               "TextToOrigin", "OthersEmptied", "SplitIndependent", "SplitKeepsText", "SizeSet">>
PostHolds(n, s, a, out, t) ==
  LET q == IF a.op = "merge" THEN Rect(a.a, a.b)
           ELSE IF a.op = "split" /\ At(s, a.a).o
                THEN [t |-> a.a[1], l |-> a.a[2], b |-> a.a[1] + At(s, a.a).sh - 1, r |-> a.a[2] + At(s, a.a).sw - 1]
                ELSE [t |-> 1, l |-> 1, b |-> 0, r |-> 0]
      ok == Outcome(s, a) = "ok"
  IN
  CASE n = "Outcome"           -> out = Outcome(s, a)
    [] n = "RefusedUnchanged"  -> ~ok => t = s
    [] n = "Frame"             -> (ok /\ a.op \in {"merge", "split"}) => SameExceptCells(s, t, RCells(q))
    [] n = "RegionsUpdated"    -> ok => CASE a.op = "merge" -> Regions(t) = (IF Single(q) THEN Regions(s) ELSE Regions(s) \cup {q})
                                          [] a.op = "split" -> Regions(t) = Regions(s) \ {q}
                                          [] OTHER          -> Regions(t) = Regions(s)
    [] n = "OriginReportsSpan" -> (ok /\ a.op = "merge" /\ ~Single(q)) =>
                                     LET c == At(t, Origin(q)) IN c.o /\ ~c.sp /\ c.sh = q.b - q.t + 1 /\ c.sw = q.r - q.l + 1
    [] n = "OthersSpanned"     -> (ok /\ a.op = "merge") => \A rc \in RCells(q) \ {Origin(q)} : At(t, rc).sp /\ ~At(t, rc).o
    [] n = "TextToOrigin"      -> (ok /\ a.op = "merge") => NonEmpty(At(t, Origin(q)).txt) = TextOf(s, q)
    [] n = "OthersEmptied"     -> (ok /\ a.op = "merge") => \A rc \in RCells(q) \ {Origin(q)} : NonEmpty(At(t, rc).txt) = <<>>
    [] n = "SplitIndependent"  -> (ok /\ a.op = "split") => \A rc \in RCells(q) : LET c == At(t, rc) IN
                                     ~c.o /\ ~c.sp /\ c.gs = 1 /\ c.rs = 1 /\ ~c.hm /\ ~c.vm
    [] n = "SplitKeepsText"    -> (ok /\ a.op = "split") => \A rc \in RCells(q) : At(t, rc).txt = At(s, rc).txt
    [] n = "SizeSet"           -> CASE a.op = "colw" -> t.colw = [s.colw EXCEPT ![a.i] = a.v] /\ t.fw = SumSeq(t.colw)
                                                        /\ t.rows = s.rows /\ t.rowh = s.rowh /\ t.fh = s.fh
                                    [] a.op = "rowh" -> t.rowh = [s.rowh EXCEPT ![a.i] = a.v] /\ t.fh = SumSeq(t.rowh)
                                                        /\ t.rows = s.rows /\ t.colw = s.colw /\ t.fw = s.fw
                                    [] a.op = "frame" -> t.fw = a.w /\ t.fh = a.h /\ t.rows = s.rows /\ t.colw = s.colw /\ t.rowh = s.rowh
                                    [] OTHER -> TRUE
\* (a malformed state BEFORE the step was already rejected where it arose; a malformed state AFTER it is rejected by InvFailing)
PostFailing(s, a, out, t) == IF ~WellFormed(s) \/ ~WellFormed(t) THEN {}
                             ELSE {PostNames[i] : i \in {j \in DOMAIN PostNames : ~PostHolds(PostNames[j], s, a, out, t)}}
Post(s, a, out, t) == PostFailing(s, a, out, t) = {}

\* creation: add_table(r, c, w, h)
CreateNames == <<"RowsCols", "WidthsSum", "HeightsSum", "AllPlain">>
CreateHolds(n, r, c, w, h, t) ==
  CASE n = "RowsCols"   -> R(t) = r /\ C(t) = c /\ Len(t.rowh) = r /\ \A i \in 1..R(t) : Len(t.rows[i]) = c
    [] n = "WidthsSum"  -> SumSeq(t.colw) = w /\ t.fw = w
    [] n = "HeightsSum" -> SumSeq(t.rowh) = h /\ t.fh = h
    [] n = "AllPlain"   -> \A rc \in Cells(t) : LET x == At(t, rc) IN ~x.o /\ ~x.sp /\ x.gs = 1 /\ x.rs = 1 /\ ~x.hm /\ ~x.vm
CreateFailing(r, c, w, h, t) == {CreateNames[i] : i \in {j \in DOMAIN CreateNames : ~CreateHolds(CreateNames[j], r, c, w, h, t)}}

\* ------------------------------------------------------------ Impl layer: what the code writes
Plain(txt) == [gs |-> 1, rs |-> 1, hm |-> FALSE, vm |-> FALSE, o |-> FALSE, sp |-> FALSE, sh |-> 1, sw |-> 1, txt |-> txt]
ImplOrigin(c)  == (c.gs > 1 /\ ~c.vm) \/ (c.rs > 1 /\ ~c.hm)            \* CT_TableCell.is_merge_origin
ImplSpanned(c) == c.hm \/ c.vm                                           \* CT_TableCell.is_spanned
ImplMerged(c)  == c.gs > 1 \/ c.rs > 1 \/ c.hm \/ c.vm                   \* TcRange.contains_merged_cell
WithReaders(c) == [c EXCEPT !.o = ImplOrigin(c), !.sp = ImplSpanned(c), !.sh = c.rs, !.sw = c.gs]

\* CT_TableCell.append_ps_from, folded over the range in reading order (origin first)
IsEmptyBody(t) == t = <<0>>
AppendPs(target, source) == IF IsEmptyBody(source) THEN target
                            ELSE IF IsEmptyBody(target) THEN source ELSE target \o source
RECURSIVE ImplCat(_, _, _, _, _)
ImplCat(s, q, r, c, acc) == IF r > q.b THEN acc
                            ELSE IF c > q.r THEN ImplCat(s, q, r + 1, q.l, acc)
                            ELSE IF <<r, c>> = Origin(q) THEN ImplCat(s, q, r, c + 1, acc)
                            ELSE ImplCat(s, q, r, c + 1, AppendPs(acc, At(s, <<r, c>>).txt))

ImplMerge(s, a, b) ==
  LET q == Rect(a, b)
      h == q.b - q.t + 1
      w == q.r - q.l + 1
  IN IF \E rc \in RCells(q) : ImplMerged(At(s, rc)) THEN s
     ELSE [s EXCEPT !.rows = [r \in 1..R(s) |-> [c \in 1..C(s) |->
            IF ~In(<<r, c>>, q) THEN s.rows[r][c]
            ELSE WithReaders([gs |-> IF c = q.l THEN w ELSE s.rows[r][c].gs,      \* gridSpan on the left column
                              rs |-> IF r = q.t THEN h ELSE s.rows[r][c].rs,      \* rowSpan on the top row
                              hm |-> c # q.l, vm |-> r # q.t,
                              o |-> FALSE, sp |-> FALSE, sh |-> 1, sw |-> 1,
                              txt |-> IF <<r, c>> = Origin(q) THEN ImplCat(s, q, q.t, q.l, s.rows[r][c].txt)
                                      ELSE IF IsEmptyBody(s.rows[r][c].txt) THEN s.rows[r][c].txt ELSE <<0>>])]]]
ImplSplit(s, a) ==
  LET c0 == At(s, a) IN
  IF ~ImplOrigin(c0) THEN s
  ELSE LET q == [t |-> a[1], l |-> a[2], b |-> a[1] + c0.rs - 1, r |-> a[2] + c0.gs - 1] IN
       [s EXCEPT !.rows = [r \in 1..R(s) |-> [c \in 1..C(s) |->
            IF In(<<r, c>>, q) THEN Plain(s.rows[r][c].txt) ELSE s.rows[r][c]]]]
ImplStep(s, a) ==
  CASE a.op = "merge"      -> ImplMerge(s, a.a, a.b)
    [] a.op = "mergeOther" -> s
    [] a.op = "split"      -> ImplSplit(s, a.a)
    [] a.op = "colw"       -> LET cw == [s.colw EXCEPT ![a.i] = a.v] IN [s EXCEPT !.colw = cw, !.fw = SumSeq(cw)]
    [] a.op = "rowh"       -> LET rh == [s.rowh EXCEPT ![a.i] = a.v] IN [s EXCEPT !.rowh = rh, !.fh = SumSeq(rh)]
    [] a.op = "frame"      -> [s EXCEPT !.fw = a.w, !.fh = a.h]
ImplOutcome(s, a) ==
  CASE a.op = "merge"      -> IF \E rc \in RCells(Rect(a.a, a.b)) : ImplMerged(At(s, rc)) THEN "ValueError" ELSE "ok"
    [] a.op = "mergeOther" -> "ValueError"
    [] a.op = "split"      -> IF ImplOrigin(At(s, a.a)) THEN "ok" ELSE "ValueError"
    [] OTHER               -> "ok"

\* CT_Table.new_tbl: integer division, the last row/column absorbs the remainder
ImplCreate(r, c, w, h, txt) ==
  [rows |-> [i \in 1..r |-> [j \in 1..c |-> Plain(txt[i][j])]],
   colw |-> [j \in 1..c |-> IF j = c THEN w - (c - 1) * (w \div c) ELSE w \div c],
   rowh |-> [i \in 1..r |-> IF i = r THEN h - (r - 1) * (h \div r) ELSE h \div r],
   fw |-> w, fh |-> h]

MergeActs(s) == {[op |-> "merge", a |-> a, b |-> b] : a \in Cells(s), b \in Cells(s)}
SplitActs(s) == {[op |-> "split", a |-> a] : a \in Cells(s)}
=============================================================================
