--------------------------- MODULE Trace_EnumTables ---------------------------
(* Validates the traces observed from the real library against the property layer of EnumTables (C20).
   R.traces : Seq([id, kind, item, host, steps : Seq([a, o])])    o = state observed after the step (see EnumTables)      *)
EXTENDS EnumTables, Json, IOUtils, SequencesExt
VARIABLE dummy
TabFromFile == JsonDeserialize(IOEnv.TABLES_FILE)
R == JsonDeserialize(IOEnv.TRACE_FILE)
G == R.traces

Known(g) == IF g.kind = "shape" THEN g.item \in {m.name : m \in ShapeMembers} ELSE g.item \in {c.member : c \in Writable}
Bad(g) == IF ~Known(g) THEN {[k |-> 0, op |-> "?", failing |-> {"UnknownItem"}]}
          ELSE {[k |-> k, op |-> g.steps[k].a.op, failing |-> ObsFailing(g.kind, g.item, g.steps[k].o)] :
                  k \in {j \in DOMAIN g.steps : ObsFailing(g.kind, g.item, g.steps[j].o) # {}}}
\* the scenario shape the machine generates: Add, SaveReopen, ReadBack
ShapeOk(g) == Len(g.steps) = 3 /\ g.steps[1].a.op \in {"AddAutoShape", "AddChart"} /\ g.steps[2].a.op = "SaveReopen" /\ g.steps[3].a.op = "ReadBack"
DriftOf(g) == IF ~Known(g) THEN 0 ELSE Cardinality({k \in DOMAIN g.steps : Project(g.steps[k].o) # ImplObs(g.kind, g.item)})
BadTraces == {k \in DOMAIN G : Bad(G[k]) # {} \/ ~ShapeOk(G[k])}
ASSUME \A k \in BadTraces : PrintT(<<"VERDICT", ToJson([id |-> G[k].id, kind |-> G[k].kind, item |-> G[k].item, host |-> G[k].host,
                                                         wellFormed |-> ShapeOk(G[k]), bad |-> Bad(G[k])])>>)
X == R.cross
BadCross == {k \in DOMAIN X : CrossFailing(X[k]) # {}}
ASSUME \A k \in BadCross : PrintT(<<"XVERDICT", ToJson([k |-> k, failing |-> CrossFailing(X[k]), rec |-> X[k]])>>)
ASSUME PrintT(<<"SUMMARY", ToJson([traces |-> Len(G), rejected |-> Cardinality(BadTraces), cross |-> Len(X), crossRejected |-> Cardinality(BadCross),
                                   steps |-> FoldLeft(LAMBDA acc, g : acc + Len(g.steps), 0, G),
                                   drift |-> FoldLeft(LAMBDA acc, g : acc + DriftOf(g), 0, G)])>>)
Init == dummy = 0
Next == UNCHANGED dummy
=============================================================================
