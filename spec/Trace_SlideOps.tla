----------------------------- MODULE Trace_SlideOps -----------------------------
(* R = [ops : the catalogue, traces : Seq([id, base : parts, steps : Seq([op : name, out, parts]), final : parts])]      *)
EXTENDS SlideOps, Json, IOUtils, SequencesExt
VARIABLE dummy
R == JsonDeserialize(IOEnv.TRACE_FILE)
TraceOps == R.ops
T == R.traces
OpNamed(n) == CHOOSE o \in SeqSet(Ops) : o.name = n
Plain == [name |-> "save", kinds |-> <<>>, pre |-> <<>>, set |-> <<>>, clr |-> <<>>, rejects |-> <<>>]
StepBad(tr, k) == Failing(tr.base, IF k = 1 THEN tr.base ELSE tr.steps[k-1].parts, OpNamed(tr.steps[k].op), tr.steps[k].out, tr.steps[k].parts)
Bad(tr) == {[at |-> "step", k |-> k, failing |-> StepBad(tr, k), new |-> NewErrors(tr.base, tr.steps[k].parts)] : k \in {j \in DOMAIN tr.steps : StepBad(tr, j) # {}}}
      \cup (IF NewErrors(tr.base, tr.final) = {} THEN {} ELSE {[at |-> "saved", k |-> Len(tr.steps) + 1, failing |-> {"AllPartsValid"}, new |-> NewErrors(tr.base, tr.final)]})
BadT == {k \in DOMAIN T : Bad(T[k]) # {}}
ASSUME \A k \in BadT : PrintT(<<"VERDICT", ToJson([id |-> T[k].id, bad |-> Bad(T[k])])>>)
ASSUME PrintT(<<"SUMMARY", ToJson([traces |-> Len(T), rejected |-> Cardinality(BadT),
                                   steps |-> FoldLeft(LAMBDA acc, tr : acc + Len(tr.steps), 0, T)])>>)
Init == dummy = 0
Next == UNCHANGED dummy
=============================================================================
