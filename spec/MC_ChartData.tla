---------------------------- MODULE MC_ChartData ----------------------------
(* Every bounded history  AddChart(family, d0) | Load(corpus chart) ; Format(1..k) ; (ReplaceData(d) ; )^<=L [SaveReopen]
   over the enumerated data shapes.  The history is part of the state, so TLC visits every history once:
     * the Impl layer is run along it and the PROPERTY layer judges every step (design-level counterexamples are
       printed as DESIGN records: they are confirmed or refuted by the real traces of the same history),
     * EmitState prints the history; the driver replays it into the real library (every member type of the family).
   Corpus charts enter as initial states: their observed structure (plots, idx / order values, tokens) is read from
   IOEnv.CORPUS_FILE, so replace_data is explored from what PowerPoint really wrote (multi-plot charts included).   *)
EXTENDS ChartData, ChartShapes, Json, IOUtils
CONSTANTS FAMS,       \* writer families explored ("corpus" = the loaded charts)
          NSERS,      \* series counts of the category shapes
          CATSEL,     \* category choices used (indices into CatChoiceSeq)
          XYSEL,      \* XY / bubble length sequences used (indices into LenSeqSeq)
          L,          \* max number of ReplaceData per history
          FMT,        \* "none" | "all" (every series formatted) | "ends" (none or all) | "prefix" (any prefix 1..k)
          REOPEN,     \* "none" | "end" (SaveReopen only as the last action) | "any"
          RMOD,       \* SaveReopen only when the last shape index is divisible by RMOD
          CORPUSSEL,  \* 0: all corpus charts, n: every n-th (multi-plot charts always)
          HOWS        \* how the chart-data object handed to ReplaceData came to be: "fresh" (built in one go) and/or "staged" (ONE object,
                      \* rendered into a throw-away chart when half built - the left spine of its category tree and its first series -
                      \* then completed: sub-categories under nodes that already exist, further categories, points, series).  The abstract
                      \* step is the same: a chart reports the data the object holds when it is handed over, however it got there.
VARIABLES chart, hist, nfmt, done

Node(lab, subs) == [lab |-> lab, subs |-> subs]
\* ---- category choices (explicit: the empty label only in choice 8)
CatChoiceSeq == <<
  [catKind |-> "str",  cats |-> <<Leaf("s:plain:1")>>],
  [catKind |-> "str",  cats |-> <<Leaf("s:eq:1"), Leaf("s:xmlsp:2"), Leaf("s:uni:3")>>],
  [catKind |-> "str",  cats |-> <<Node("s:plain:10", <<Leaf("s:plain:11"), Leaf("s:spaces:12")>>), Node("s:url:20", <<Leaf("s:numlike:21")>>)>>],
  [catKind |-> "str",  cats |-> <<Node("s:plain:10", <<Node("s:plain:11", <<Leaf("s:plain:12")>>), Node("s:arr:13", <<Leaf("s:plain:14"), Leaf("s:esc:15")>>)>>),
                                  Node("s:plain:20", <<Node("s:nl:21", <<Leaf("s:plain:22")>>)>>)>>],
  [catKind |-> "str",  cats |-> <<Node("s:plain:10", <<Node("s:plain:11", <<Node("s:plain:12", <<Leaf("s:plain:13"), Leaf("s:plain:14")>>)>>)>>),
                                  Node("s:plain:20", <<Node("s:plain:21", <<Node("s:plain:22", <<Leaf("s:plain:23")>>)>>),
                                                       Node("s:plain:24", <<Node("s:plain:25", <<Leaf("s:plain:26")>>)>>)>>)>>],
  [catKind |-> "num",  cats |-> <<Leaf("n:1"), Leaf("n:2.5"), Leaf("n:0"), Leaf("n:-3")>>],
  [catKind |-> "date", cats |-> <<Leaf("d:1899-12-31"), Leaf("d:1900-01-01"), Leaf("d:1900-02-28"), Leaf("d:1900-03-01"), Leaf("d:2024-12-31")>>],
  [catKind |-> "str",  cats |-> <<Leaf("s:plain:1"), Leaf("s:empty:0")>>],
  [catKind |-> "str",  cats |-> <<Node("s:plain:10", <<Leaf("s:empty:0"), Leaf("s:plain:12")>>)>>],
  [catKind |-> "num",  cats |-> <<Leaf("n:0"), Leaf("n:1"), Leaf("n:2.5")>>] >>      \* the FIRST label is a zero (the kind of the axis is read off the first label)
LenSeqSeq == << <<>>, <<0>>, <<2>>, <<1, 3>>, <<3, 0, 2>>, <<2, 2, 2>>, <<1>>, <<0, 0>>, <<1, 1, 1, 1, 1, 1, 1, 1, 1, 1, 1, 2>> >>     \* the last: twelve series

\* ---- the shape table: every history refers to shapes by index
CatShapeSeq == SetToSeq({CatShape(CatChoiceSeq[c], n, (c + n) % 4, IF (c + n) % 5 = 0 THEN "short" ELSE IF (c + n) % 7 = 0 THEN "empty" ELSE "full",
                                  (c + 2 * n) % 4) : c \in CATSEL, n \in NSERS})
XyShapeSeq(kind) == SetToSeq({XyShape(kind, LenSeqSeq[k], (k + p) % 4, (k + p) % 3) : k \in XYSEL, p \in {0, 1}})
ShapeTab == CatShapeSeq \o XyShapeSeq("xy") \o XyShapeSeq("bubble")
IdsOfKind(kind) == {i \in 1..Len(ShapeTab) : ShapeTab[i].kind = kind}
\* a pie chart "only ever has a single series" (its writer takes series[0]): data kind matching chart kind
IdsFor(kind, pie) == {i \in IdsOfKind(kind) : pie => NSer(ShapeTab[i]) = 1}
ASSUME WriteShapes == JsonSerialize(IOEnv.SHAPES_FILE, [shapes |-> ShapeTab])

\* ---- corpus charts: [id, kind (data kind), pie, multi, chart (observed record)]
Corpus == IF "corpus" \in FAMS THEN JsonDeserialize(IOEnv.CORPUS_FILE).charts ELSE <<>>
CorpusIds == {c \in 1..Len(Corpus) : Corpus[c].multi \/ CORPUSSEL = 0 \/ c % CORPUSSEL = 0}

IsPie == /\ chart.plots # <<>> /\ chart.plots[1].kind \in {"pieChart", "pie3DChart", "ofPieChart"}
DataKind == IF chart.plots = <<>> THEN hist[1].kind
            ELSE IF chart.plots[1].kind = "bubbleChart" THEN "bubble" ELSE IF chart.plots[1].kind = "scatterChart" THEN "xy" ELSE "cat"
NRep == Cardinality({k \in 1..Len(hist) : hist[k].op = "replace"})

Judge(a, t, h) == LET F == Failing(chart, a, t) IN F # {} => PrintT(<<"DESIGN", ToJson([h |-> h, failing |-> F])>>)

Init ==
  /\ nfmt = 0 /\ done = FALSE
  /\ \/ \E fam \in FAMS \ {"corpus"} : \E d \in IdsFor(KindOfFam(fam), fam = "pie") :
          LET a == [op |-> "add", fam |-> fam, data |-> ShapeTab[d]]
              t == ImplStep(Empty, a)
              h == <<[op |-> "add", fam |-> fam, kind |-> KindOfFam(fam), d |-> d]>>
          IN /\ chart = t /\ hist = h
             /\ LET F == Failing(Empty, a, t) IN F # {} => PrintT(<<"DESIGN", ToJson([h |-> h, failing |-> F])>>)
     \/ \E c \in CorpusIds : /\ chart = Corpus[c].chart
                             /\ hist = <<[op |-> "load", c |-> c, kind |-> Corpus[c].kind]>>

Live == chart.raised = "" /\ ~done
DoFormat == /\ Live /\ FMT # "none" /\ NRep = 0 /\ hist[Len(hist)].op \in {"add", "format"}
            /\ nfmt < Len(AllSers(chart))
            /\ LET a == [op |-> "format", i |-> nfmt + 1] IN
               /\ chart' = ImplStep(chart, a) /\ hist' = Append(hist, a) /\ nfmt' = nfmt + 1 /\ UNCHANGED done
               /\ Judge(a, chart', hist')
DoReplace == /\ Live /\ NRep < L
             /\ FMT = "ends" /\ hist[1].op = "add" /\ NRep = 0 => nfmt \in {0, Len(AllSers(chart))}
             /\ FMT = "all" /\ hist[1].op = "add" /\ NRep = 0 => nfmt = Len(AllSers(chart))
             /\ \E d \in IdsFor(DataKind, IsPie) : \E how \in HOWS :
                  LET a == [op |-> "replace", data |-> ShapeTab[d]] IN
                  /\ chart' = ImplStep(chart, a) /\ hist' = Append(hist, [op |-> "replace", d |-> d, how |-> how]) /\ UNCHANGED <<nfmt, done>>
                  /\ Judge(a, chart', hist')
DoReopen == /\ Live /\ REOPEN # "none" /\ NRep >= 1 /\ hist[Len(hist)].op = "replace" /\ hist[Len(hist)].d % RMOD = 0
            /\ LET a == [op |-> "reopen"] IN
               /\ chart' = ImplStep(chart, a) /\ hist' = Append(hist, a) /\ done' = (REOPEN = "end") /\ UNCHANGED nfmt
               /\ Judge(a, chart', hist')
Next == DoFormat \/ DoReplace \/ DoReopen
Spec == Init /\ [][Next]_<<chart, hist, nfmt, done>>

EmitState == PrintT(<<"ST", ToJson(hist)>>)
\* the abstract chart always holds as many series as the data last given (when the call did not fail), each plot non-empty after a shrink
Sane == chart.raised = "" /\ hist[Len(hist)].op = "replace" =>
           Len(AllSers(chart)) = NSer(ShapeTab[hist[Len(hist)].d])
=============================================================================
