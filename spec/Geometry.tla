------------------------------- MODULE Geometry -------------------------------
(* Property C17: connector endpoints, group extents, freeform bounds.  Three small machines.

   CONNECTOR   observed state  [x, y, cx, cy, fh, fv,   -- a:off, a:ext, flipH, flipV as serialised
                                bx, by, ex, ey]          -- the public readers begin_x .. end_y
   GROUP       observed state  Seq(Node),  Node = [id, parent, grp : BOOLEAN, x, y, cx, cy, chx, chy, chcx, chcy]
                               parent = 0 for shapes directly on the slide
   FREEFORM    case            [sx, sy, xn, xd, yn, yd, ops : Seq([k, x, y]), ox, oy]  (scale = xn/xd, yn/yd)
               observed shape  [x, y, cx, cy, w, h, pts : Seq([k, x, y])]                                     *)
EXTENDS Naturals, Integers, Sequences, FiniteSets, TLC

Abs(a)    == IF a < 0 THEN -a ELSE a
Min2(a, b) == IF a < b THEN a ELSE b
Max2(a, b) == IF a > b THEN a ELSE b
SetMin(S) == CHOOSE m \in S : \A z \in S : m <= z
SetMax(S) == CHOOSE m \in S : \A z \in S : m >= z

\* ============================================================ CONNECTOR
\* Impl layer: the setters of pptx.shapes.connector.Connector, literally, on one axis [p, d, f] (offset, extent, flip)
AxBegin(a) == IF a.f THEN a.p + a.d ELSE a.p
AxEnd(a)   == IF a.f THEN a.p ELSE a.p + a.d
AxSetBegin(a, n) ==
  IF a.f THEN LET old == a.p + a.d  dx == Abs(n - old) IN
       IF n >= old      THEN [a EXCEPT !.d = a.d + dx]
       ELSE IF dx <= a.d THEN [a EXCEPT !.d = a.d - dx]
       ELSE                  [p |-> n, d |-> dx - a.d, f |-> FALSE]
  ELSE LET dx == Abs(n - a.p) IN
       IF n <= a.p      THEN [a EXCEPT !.p = n, !.d = a.d + dx]
       ELSE IF dx <= a.d THEN [a EXCEPT !.p = n, !.d = a.d - dx]
       ELSE                  [p |-> a.p + a.d, d |-> dx - a.d, f |-> TRUE]
AxSetEnd(a, n) ==
  IF a.f THEN LET dx == Abs(n - a.p) IN
       IF n <= a.p      THEN [a EXCEPT !.p = n, !.d = a.d + dx]
       ELSE IF dx <= a.d THEN [a EXCEPT !.p = n, !.d = a.d - dx]
       ELSE                  [p |-> a.p + a.d, d |-> dx - a.d, f |-> FALSE]
  ELSE LET old == a.p + a.d  dx == Abs(n - old) IN
       IF n >= old      THEN [a EXCEPT !.d = a.d + dx]
       ELSE IF dx <= a.d THEN [a EXCEPT !.d = a.d - dx]
       ELSE                  [p |-> n, d |-> dx - a.d, f |-> TRUE]
AxCreate(b, e) == [p |-> Min2(b, e), d |-> Abs(e - b), f |-> b > e]        \* _add_cxnSp

Hax(s) == [p |-> s.x, d |-> s.cx, f |-> s.fh]
Vax(s) == [p |-> s.y, d |-> s.cy, f |-> s.fv]
OfAxes(h, v) == [x |-> h.p, cx |-> h.d, fh |-> h.f, y |-> v.p, cy |-> v.d, fv |-> v.f,
                 bx |-> AxBegin(h), ex |-> AxEnd(h), by |-> AxBegin(v), ey |-> AxEnd(v)]
CxnImplStep(s, a) ==
  CASE a.op = "create" -> OfAxes(AxCreate(a.bx, a.ex), AxCreate(a.by, a.ey))
    [] a.op = "load"   -> OfAxes([p |-> a.x, d |-> a.cx, f |-> a.fh], [p |-> a.y, d |-> a.cy, f |-> a.fv])   \* a frame as a document holds it
    [] a.op = "bx" -> OfAxes(AxSetBegin(Hax(s), a.v), Vax(s))
    [] a.op = "ex" -> OfAxes(AxSetEnd(Hax(s), a.v), Vax(s))
    [] a.op = "by" -> OfAxes(Hax(s), AxSetBegin(Vax(s), a.v))
    [] a.op = "ey" -> OfAxes(Hax(s), AxSetEnd(Vax(s), a.v))

\* Property layer
CxnNames == <<"ReadersMatchXml", "NonNegativeExtent", "Created", "MovedCoordinate", "OtherThreeFixed">>
CxnHolds(n, s, a, t) ==
  CASE n = "ReadersMatchXml"   -> t.bx = AxBegin(Hax(t)) /\ t.ex = AxEnd(Hax(t)) /\ t.by = AxBegin(Vax(t)) /\ t.ey = AxEnd(Vax(t))
    [] n = "NonNegativeExtent" -> t.cx >= 0 /\ t.cy >= 0
    [] n = "Created"           -> a.op = "create" => (t.bx = a.bx /\ t.by = a.by /\ t.ex = a.ex /\ t.ey = a.ey)
    [] n = "MovedCoordinate"   -> CASE a.op = "bx" -> t.bx = a.v [] a.op = "by" -> t.by = a.v
                                    [] a.op = "ex" -> t.ex = a.v [] a.op = "ey" -> t.ey = a.v [] OTHER -> TRUE
    [] n = "OtherThreeFixed"   -> CASE a.op = "bx" -> t.by = s.by /\ t.ex = s.ex /\ t.ey = s.ey
                                    [] a.op = "by" -> t.bx = s.bx /\ t.ex = s.ex /\ t.ey = s.ey
                                    [] a.op = "ex" -> t.bx = s.bx /\ t.by = s.by /\ t.ey = s.ey
                                    [] a.op = "ey" -> t.bx = s.bx /\ t.by = s.by /\ t.ex = s.ex
                                    [] OTHER -> TRUE
CxnFailing(s, a, t) == {CxnNames[i] : i \in {j \in DOMAIN CxnNames : ~CxnHolds(CxnNames[j], s, a, t)}}

\* ============================================================ GROUP EXTENTS
Kids(N, g)  == {n \in {N[i] : i \in DOMAIN N} : n.parent = g}
NodeSet(N)  == {N[i] : i \in DOMAIN N}
RECURSIVE HasLeaf(_, _)
HasLeaf(N, n) == IF ~n.grp THEN TRUE ELSE \E k \in Kids(N, n.id) : HasLeaf(N, k)
BBox(S) == LET x0 == SetMin({n.x : n \in S})  y0 == SetMin({n.y : n \in S})
               x1 == SetMax({n.x + n.cx : n \in S})  y1 == SetMax({n.y + n.cy : n \in S})
           IN [x |-> x0, y |-> y0, cx |-> x1 - x0, cy |-> y1 - y0]
BoxOf(n) == [x |-> n.x, y |-> n.y, cx |-> n.cx, cy |-> n.cy]
ChBoxOf(n) == [x |-> n.chx, y |-> n.chy, cx |-> n.chcx, cy |-> n.chcy]
Zero == [x |-> 0, y |-> 0, cx |-> 0, cy |-> 0]
\* a group equals the bounding box of its members; an empty sub-group has no extent of its own, so a box
\* computed with or without the (0,0,0,0) frame of empty sub-groups is accepted (the property does not say).
GroupOK(N, g) == LET ks == Kids(N, g.id)
                     solid == {k \in ks : HasLeaf(N, k)}
                 IN IF ks = {} THEN TRUE
                    ELSE IF solid = {} THEN BoxOf(g) \in {Zero, BBox(ks)}
                    ELSE BoxOf(g) \in {BBox(ks), BBox(solid)}
GrpNames == <<"GroupBoxIsBBox", "ChildFrameEqualsFrame", "LeafAsRequested", "OthersUnchanged", "MovedAsRequested">>
\* a : [op |-> "leaf", parent, x, y, cx, cy]  |  [op |-> "group", parent]  |  [op |-> "groupOf", ids]
\*   | [op |-> "move", id, x, y, cx, cy]   a member's own frame is set through its left / top / width / height setters.  The statement
\*     speaks of ADDITIONS: a setter does not touch the groups around the member, which may be out of date until the next addition
\*     below them - and then every group on the way up to the slide is the bounding box of its members again.
RECURSIVE Chain(_, _)
Chain(N, gid) == IF gid = 0 THEN {} ELSE {gid} \cup Chain(N, (CHOOSE n \in NodeSet(N) : n.id = gid).parent)
\* the groups an addition obliges: the group that received the member and every group around it; the group made from existing shapes
Touched(T, a) == CASE a.op = "leaf"    -> Chain(T, a.parent)
                   [] a.op = "groupOf" -> IF a.ids = {} THEN {} ELSE {T[Len(T)].id}
                   [] OTHER            -> {}          \* an EMPTY group changes no bounding box (its frame may or may not count); a move obliges nobody
GrpHolds(n, S, a, T) ==
  CASE n = "GroupBoxIsBBox"        -> \A g \in NodeSet(T) : (g.grp /\ g.id \in Touched(T, a)) => GroupOK(T, g)
    [] n = "ChildFrameEqualsFrame" -> \A g \in NodeSet(T) : (g.grp /\ g.id \in Touched(T, a)) => ChBoxOf(g) = BoxOf(g)
    [] n = "LeafAsRequested"       -> a.op = "leaf" => (Len(T) = Len(S) + 1 /\ LET l == T[Len(T)] IN
                                          ~l.grp /\ l.parent = a.parent /\ l.x = a.x /\ l.y = a.y /\ l.cx = a.cx /\ l.cy = a.cy)
    [] n = "MovedAsRequested"      -> a.op = "move" => (Len(T) = Len(S) /\ a.id \in DOMAIN T /\ BoxOf(T[a.id]) = [x |-> a.x, y |-> a.y, cx |-> a.cx, cy |-> a.cy])
    [] n = "OthersUnchanged"       -> \A i \in DOMAIN S : i \in DOMAIN T /\ T[i].id = S[i].id /\ T[i].grp = S[i].grp
                                          /\ (~S[i].grp => ((a.op = "move" /\ a.id = i) \/ BoxOf(T[i]) = BoxOf(S[i]))
                                                            /\ (a.op # "groupOf" => T[i].parent = S[i].parent))
                                          \* a group no addition obliges keeps its frame and child window, whatever they were
                                          /\ ((S[i].grp /\ S[i].id \notin Touched(T, a)) => (BoxOf(T[i]) = BoxOf(S[i]) /\ ChBoxOf(T[i]) = ChBoxOf(S[i])))
GrpFailing(S, a, T) == {GrpNames[i] : i \in {j \in DOMAIN GrpNames : ~GrpHolds(GrpNames[j], S, a, T)}}

\* Impl layer: recalculate_extents upward from the group that received a member (CT_GroupShape.recalculate_extents)
RECURSIVE Recalc(_, _)
Recalc(N, gid) ==
  IF gid = 0 THEN N
  ELSE LET g  == CHOOSE n \in NodeSet(N) : n.id = gid
           ks == Kids(N, gid)
           b  == IF ks = {} THEN Zero ELSE BBox(ks)
           N2 == [i \in DOMAIN N |-> IF N[i].id = gid
                                     THEN [N[i] EXCEPT !.x = b.x, !.y = b.y, !.cx = b.cx, !.cy = b.cy,
                                                       !.chx = b.x, !.chy = b.y, !.chcx = b.cx, !.chcy = b.cy]
                                     ELSE N[i]]
       IN Recalc(N2, g.parent)
NewId(N) == Len(N) + 1
GrpImplStep(N, a) ==
  CASE a.op = "leaf"  -> Recalc(Append(N, [id |-> NewId(N), parent |-> a.parent, grp |-> FALSE, x |-> a.x, y |-> a.y,
                                            cx |-> a.cx, cy |-> a.cy, chx |-> 0, chy |-> 0, chcx |-> 0, chcy |-> 0]), a.parent)
    [] a.op = "group" -> Append(N, [id |-> NewId(N), parent |-> a.parent, grp |-> TRUE, x |-> 0, y |-> 0, cx |-> 0, cy |-> 0,
                                     chx |-> 0, chy |-> 0, chcx |-> 0, chcy |-> 0])        \* empty group: no recalculation
    [] a.op = "groupOf" ->
         LET gid == NewId(N)
             N1 == Append(N, [id |-> gid, parent |-> 0, grp |-> TRUE, x |-> 0, y |-> 0, cx |-> 0, cy |-> 0,
                              chx |-> 0, chy |-> 0, chcx |-> 0, chcy |-> 0])
             N2 == [i \in DOMAIN N1 |-> IF N1[i].id \in a.ids THEN [N1[i] EXCEPT !.parent = gid] ELSE N1[i]]
         IN IF a.ids = {} THEN N1 ELSE Recalc(N2, gid)
    [] a.op = "move" -> [N EXCEPT ![a.id].x = a.x, ![a.id].y = a.y, ![a.id].cx = a.cx, ![a.id].cy = a.cy]     \* the setters write the member's own a:xfrm only

\* ============================================================ FREEFORM
\* ops: k \in {"move", "line", "close"};  pen points are the builder start plus every move/line vertex
PenXs(c) == {c.sx} \cup {c.ops[i].x : i \in {j \in DOMAIN c.ops : c.ops[j].k # "close"}}
PenYs(c) == {c.sy} \cup {c.ops[i].y : i \in {j \in DOMAIN c.ops : c.ops[j].k # "close"}}
\* |obs - exact| <= 1/2 where exact = v * num / den   (the rounding rule itself is not part of the property)
RoundsTo(obs, v, num, den) == 2 * Abs(obs * den - v * num) <= den
FfNames == <<"OffsetIsScaledMinPlusOrigin", "ExtentIsScaledBBox", "PathExtentIsBBox", "PathPointsAreVerticesMinusMin", "PointsInsidePath">>
FfHolds(n, c, t) ==
  LET minx == SetMin(PenXs(c))  maxx == SetMax(PenXs(c))  miny == SetMin(PenYs(c))  maxy == SetMax(PenYs(c)) IN
  CASE n = "OffsetIsScaledMinPlusOrigin" -> RoundsTo(t.x - c.ox, minx, c.xn, c.xd) /\ RoundsTo(t.y - c.oy, miny, c.yn, c.yd)
    [] n = "ExtentIsScaledBBox"          -> RoundsTo(t.cx, maxx - minx, c.xn, c.xd) /\ RoundsTo(t.cy, maxy - miny, c.yn, c.yd)
    [] n = "PathExtentIsBBox"            -> t.w = maxx - minx /\ t.h = maxy - miny
    [] n = "PathPointsAreVerticesMinusMin" ->
          /\ Len(t.pts) = Len(c.ops) + 1
          /\ t.pts[1] = [k |-> "move", x |-> c.sx - minx, y |-> c.sy - miny]
          /\ \A i \in DOMAIN c.ops : IF c.ops[i].k = "close" THEN t.pts[i + 1].k = "close"
                                     ELSE t.pts[i + 1] = [k |-> c.ops[i].k, x |-> c.ops[i].x - minx, y |-> c.ops[i].y - miny]
    [] n = "PointsInsidePath"            -> \A i \in DOMAIN t.pts : t.pts[i].k # "close" =>
                                               (t.pts[i].x >= 0 /\ t.pts[i].x <= t.w /\ t.pts[i].y >= 0 /\ t.pts[i].y <= t.h)
FfFailing(c, t) == {FfNames[i] : i \in {j \in DOMAIN FfNames : ~FfHolds(FfNames[j], c, t)}}

\* Impl layer with exact rational rounding half-to-even on integers (int(round(v * scale)) for exactly representable scales)
RoundHalfEven(num, den) ==     \* den > 0
  LET q == num \div den  r == num % den IN
  IF 2 * r < den THEN q ELSE IF 2 * r > den THEN q + 1 ELSE IF q % 2 = 0 THEN q ELSE q + 1
FfImpl(c) ==
  LET minx == SetMin(PenXs(c))  maxx == SetMax(PenXs(c))  miny == SetMin(PenYs(c))  maxy == SetMax(PenYs(c)) IN
  [x |-> c.ox + RoundHalfEven(minx * c.xn, c.xd), y |-> c.oy + RoundHalfEven(miny * c.yn, c.yd),
   cx |-> RoundHalfEven((maxx - minx) * c.xn, c.xd), cy |-> RoundHalfEven((maxy - miny) * c.yn, c.yd),
   w |-> maxx - minx, h |-> maxy - miny,
   pts |-> <<[k |-> "move", x |-> c.sx - minx, y |-> c.sy - miny]>> \o
           [i \in DOMAIN c.ops |-> IF c.ops[i].k = "close" THEN [k |-> "close", x |-> 0, y |-> 0]
                                   ELSE [k |-> c.ops[i].k, x |-> c.ops[i].x - minx, y |-> c.ops[i].y - miny]]]
=============================================================================
