---------------------------- MODULE MC_SimpleTypes ----------------------------
(* C11 domain generator: for every (python type, XSD type) pair of the extracted table TLC enumerates the write tokens and
   the read tokens (SimpleTypes, PART 1) and writes them for the driver; also the spec-level sanity theorems on the order
   of anchored integers.                                                                                             *)
EXTENDS SimpleTypes, Json, IOUtils, SequencesExt
VARIABLE dummy
Types == JsonDeserialize(IOEnv.TYPES_FILE)

\* anchors ascend strictly, the order is antisymmetric and agrees with the recorded distances
ASSUME T_Order == \A k \in DOMAIN Types : LET p == Types[k] IN
         \A i \in DOMAIN p.anchors : \A j \in DOMAIN p.anchors :
            /\ Cmp(p, i, 0, j, 0) = Sign(i - j)
            /\ Cmp(p, i, 0, j, 0) = 0 - Cmp(p, j, 0, i, 0)
            /\ \A d \in Deltas : Cmp(p, i, d, i, 0) = Sign(d)
\* the bounds themselves are in range, one quantum outside is not
ASSUME T_Bounds == \A k \in DOMAIN Types : LET p == Types[k] IN \A m \in Range(p.members) : m.kind = "int" =>
            /\ m.loIdx # 0 => (InMember(p, m, m.loIdx, 0) /\ ~InMember(p, m, m.loIdx, -1))
            /\ m.hiIdx # 0 => (InMember(p, m, m.hiIdx, 0) /\ ~InMember(p, m, m.hiIdx, 1))

Cases == [k \in DOMAIN Types |-> [pair |-> Types[k].id, write |-> SetToSeq(WriteTokens(Types[k])), read |-> SetToSeq(ReadTokens(Types[k]))]]
ASSUME WriteCases == JsonSerialize(IOEnv.CASES_FILE, Cases)
ASSUME PrintT(<<"DOMAIN", ToJson([pairs |-> Len(Types),
                                  write |-> FoldLeft(LAMBDA acc, c : acc + Len(c.write), 0, Cases),
                                  read  |-> FoldLeft(LAMBDA acc, c : acc + Len(c.read), 0, Cases)])>>)
Init == dummy = 0
Next == UNCHANGED dummy
=============================================================================
