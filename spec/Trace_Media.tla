------------------------------ MODULE Trace_Media ------------------------------
(* R = [universe : Seq(image record), traces : Seq([id, init : t (the deck as opened), steps : Seq([a, out, t]), saved : Seq([at, t, mem])])]
   saved[..].t is the media projection of a saved zip (media members only, pics = the last in-memory pics).      *)
EXTENDS Media, Json, IOUtils, SequencesExt
VARIABLE dummy
R == JsonDeserialize(IOEnv.TRACE_FILE)
TraceU == R.universe
T == R.traces
Empty == [media |-> <<>>, pics |-> <<>>]
StepBad(tr, k) == LET s == IF k = 1 THEN tr.init ELSE tr.steps[k-1].t IN
                  Failing(s, tr.steps[k].a, tr.steps[k].t) \cup (IF tr.steps[k].out = "ok" THEN {} ELSE {"OperationSucceeds"})
SavedNames == {"OnePartPerImage", "DistinctNames", "ExtAndTypeOfActualFormat", "StoredBytesExact", "PicturesShowTheirImage"}
SavedBad(tr, i) == {n \in SavedNames : ~Holds(n, tr.init, [op |-> "save", img |-> 0, args |-> "none"], tr.saved[i].t)}
                   \cup (IF tr.saved[i].t.dup THEN {"DistinctNames"} ELSE {})   \* two zip members of one name
                   \cup (IF {m.img : m \in SeqSet(tr.saved[i].t.media)} = {m.img : m \in SeqSet(tr.saved[i].mem.media)} THEN {} ELSE {"SavedMediaAsInMemory"})
Bad(tr) == {[at |-> "step", k |-> k, failing |-> StepBad(tr, k)] : k \in {j \in DOMAIN tr.steps : StepBad(tr, j) # {}}}
      \cup {[at |-> "saved", k |-> tr.saved[i].at, failing |-> SavedBad(tr, i)] : i \in {j \in DOMAIN tr.saved : SavedBad(tr, j) # {}}}
BadT == {k \in DOMAIN T : Bad(T[k]) # {}}
ASSUME \A k \in BadT : PrintT(<<"VERDICT", ToJson([id |-> T[k].id, bad |-> Bad(T[k])])>>)
ASSUME PrintT(<<"SUMMARY", ToJson([traces |-> Len(T), rejected |-> Cardinality(BadT),
                                   steps |-> FoldLeft(LAMBDA acc, tr : acc + Len(tr.steps), 0, T),
                                   saves |-> FoldLeft(LAMBDA acc, tr : acc + Len(tr.saved), 0, T)])>>)
Init == dummy = 0
Next == UNCHANGED dummy
=============================================================================
