"""C05 defects reproduced by hand: public API only, one short block per substitution site. Run:
   PYTHONPATH=/repo/src /venv/bin/python /verif/tools/c05_hand_repro.py > /verif/tools/c05_hand_repro.out"""
import io, os, tempfile, traceback
import pptx
from pptx.chart.data import BubbleChartData, CategoryChartData, XyChartData
from pptx.enum.chart import XL_CHART_TYPE as T

PNG = (b"\x89PNG\r\n\x1a\n\x00\x00\x00\rIHDR\x00\x00\x00\x01\x00\x00\x00\x01\x08\x06\x00\x00\x00\x1f\x15\xc4\x89"
       b"\x00\x00\x00\rIDATx\x9cc\xf8\xcf\xc0\xf0\x1f\x00\x05\x00\x01\xff\x89\x99=\x1d\x00\x00\x00\x00IEND\xaeB`\x82")
tmp = tempfile.mkdtemp(dir=os.path.dirname(os.path.abspath(__file__)))


def slide(layout=6):
    prs = pptx.Presentation()
    return prs, prs.slides.add_slide(prs.slide_layouts[layout])


def f(name, blob=PNG):
    p = os.path.join(tmp, name)
    open(p, "wb").write(blob)
    return p


def show(title, fn):
    try:
        print("%-62s -> %r" % (title, fn()))
    except Exception as e:
        print("%-62s -> %s: %s" % (title, type(e).__name__, str(e)[:90]))


def descr(sl):
    return sl.shapes._spTree.xpath("//p:pic/p:nvPicPr/p:cNvPr/@descr")[0]


print("A  oxml/shapes/picture.py:71 new_pic: escape(desc) leaves the double quote (and TAB/LF/CR) in an attribute value")
prs, sl = slide(); show('add_picture("a\\"b.png")', lambda: (sl.shapes.add_picture(f('a"b.png'), 0, 0), descr(sl))[1])
prs, sl = slide(); show('add_picture("a&b<c>.png")   (control: escaped)', lambda: (sl.shapes.add_picture(f('a&b<c>.png'), 0, 0), descr(sl))[1])
prs, sl = slide(); show('add_picture("a\\tb.png")  descr', lambda: (sl.shapes.add_picture(f('a\tb.png'), 0, 0), descr(sl))[1])
print("B  oxml/shapes/picture.py:66 new_ph_pic: name and desc substituted unescaped")
prs, sl = slide(8); show('placeholders[1].insert_picture("a&b.png")', lambda: (sl.placeholders[1].insert_picture(f('a&b.png')), descr(sl))[1])
prs, sl = slide(8); show('placeholders[1].insert_picture("a&amp;b.png") descr', lambda: (sl.placeholders[1].insert_picture(f('a&amp;b.png')), descr(sl))[1])
print("C  oxml/shapes/picture.py:90 new_video_pic: shape_name (= base name of the movie file) substituted unescaped")
prs, sl = slide(); show('add_movie("a&b.mp4")', lambda: sl.shapes.add_movie(f('a&b.mp4', b"x"), 0, 0, 9, 9, mime_type="video/mp4").name)
prs, sl = slide(); show('add_movie("a\\">b.mp4").name', lambda: sl.shapes.add_movie(f('a">b.mp4', b"x"), 0, 0, 9, 9, mime_type="video/mp4").name)
print("D  oxml/shapes/graphfrm.py:250 new_ole_object_graphicFrame: progId substituted unescaped into an f-string")
prs, sl = slide(); show('add_ole_object(prog_id="A&B")', lambda: sl.shapes.add_ole_object(io.BytesIO(b"x"), "A&B", 0, 0, 9, 9).ole_format.prog_id)
prs, sl = slide(); show('add_ole_object(prog_id="A&lt;B").prog_id', lambda: sl.shapes.add_ole_object(io.BytesIO(b"x"), "A&lt;B", 0, 0, 9, 9).ole_format.prog_id)


def cat(nf=None, ser_nf=None, cat_nf=None, cats=("a", "b"), name="S", typ=T.BAR_CLUSTERED):
    d = CategoryChartData(**({} if nf is None else {"number_format": nf}))
    d.categories = list(cats)
    if cat_nf is not None:
        d.categories.number_format = cat_nf
    d.add_series(name, (1, 2), number_format=ser_nf)
    prs, sl = slide()
    return sl.shapes.add_chart(typ, 0, 0, 99, 99, d).chart


def xy(cls, nf, typ, pt):
    d = cls(number_format=nf)
    d.add_series("S").add_data_point(*pt)
    prs, sl = slide()
    return sl.shapes.add_chart(typ, 0, 0, 99, 99, d).chart


def fc(ch, path="c:val"):
    v = ch._chartSpace.xpath("//c:ser/%s//c:formatCode" % path)[0]
    return (v.text, [c.tag.split("}")[-1] for c in v])


print("E  chart/xmlwriter.py:118-132 numRef_xml: {number_format} into <c:formatCode> unescaped (XY and bubble charts, add_chart and replace_data)")
show('XyChartData(number_format="0 \\"<&\\"")', lambda: fc(xy(XyChartData, '0 "<&"', T.XY_SCATTER, (1, 2)), "c:yVal"))
show('BubbleChartData(number_format="#&#")', lambda: fc(xy(BubbleChartData, '#&#', T.BUBBLE, (1, 2, 3)), "c:bubbleSize"))
show('XyChartData(number_format="0<b/>0")  formatCode text, children', lambda: fc(xy(XyChartData, '0<b/>0', T.XY_SCATTER, (1, 2)), "c:yVal"))
print("F  chart/xmlwriter.py:1456/1474 val, val_xml (_val_tmpl:1625): {number_format} unescaped (category charts)")
show('CategoryChartData(number_format="0 \\"R&D\\"")', lambda: fc(cat(nf='0 "R&D"')))
show('add_series(number_format="0<0")', lambda: fc(cat(ser_nf='0<0')))
show('CategoryChartData(number_format="0&amp;0")  formatCode', lambda: fc(cat(nf='0&amp;0')))
show('CategoryChartData(number_format="0<b/>0")  formatCode text, children', lambda: fc(cat(nf='0<b/>0')))
print("G  chart/xmlwriter.py:1379/1422 cat, cat_xml (_numRef_cat_tmpl:1589): categories.number_format unescaped")
show('numeric categories, categories.number_format="0&0"', lambda: fc(cat(cat_nf='0&0', cats=(1.5, 2.5)), "c:cat"))
print("H  chart/xmlwriter.py:372-390, 537-555, 804-822 _cat_ax_xml: formatCode=\"{nf}\" attribute unescaped (date axis of area, bar, line)")
import datetime as dt
show('date categories, categories.number_format="d \\"of\\" m"', lambda: cat(cat_nf='d "of" m', cats=(dt.date(2020, 1, 1), dt.date(2020, 1, 2))).category_axis.tick_labels.number_format)
print("I  chart/xmlwriter.py:116 name (escape): a carriage return in element text is normalised to a line feed by the parser")
show('add_series("a\\rb").name', lambda: cat(name="a\rb").plots[0].series[0].name)
show('category label "a\\rb"', lambda: cat(cats=("a\rb", "c")).plots[0].categories[0].label)
print("J  chart/category.py:149 Category.__new__: an empty <c:v/> has text None, str.__new__(cls, None) == 'None'  (first run of this check; "
      "repaired meanwhile by /repo 359ec5c6 'fix: an empty category label reads back as '' rather than 'None'')")
show('categories = ["", "b"]; plots[0].categories[0]', lambda: cat(cats=("", "b")).plots[0].categories[0].label)
print("K  shapes/placeholder.py:310,338,407 -> new_graphicFrame (oxml/shapes/graphfrm.py:203) / new_ph_pic (picture.py:66): the placeholder's "
      "name is substituted unescaped into the template of the shape that replaces it")
prs, sl = slide(8); ph = sl.placeholders[1]; ph.name = 'R&D "logo"'
show('ph.name = \'R&D "logo"\'; ph.insert_picture("p.png")', lambda: ph.insert_picture(f("p.png")).name)
prs = pptx.Presentation(); lay = prs.slide_layouts[1]
[e for e in lay._element.iter("{http://schemas.openxmlformats.org/presentationml/2006/main}ph") if e.get("idx") == "1"][0].set("type", "tbl")
sl = prs.slides.add_slide(lay); ph = sl.placeholders[1]; ph.name = "Q&A table"
show('table placeholder, ph.name = "Q&A table"; ph.insert_table(2, 2)', lambda: ph.insert_table(2, 2).name)
print("controls (set through lxml, hold): shape.name, core title, hyperlink")
prs, sl = slide(); sh = sl.shapes.add_textbox(0, 0, 9, 9); sh.name = 'a&b<c>"d\'e]]>&amp;\r'; show("shape.name", lambda: sh.name)
import shutil; shutil.rmtree(tmp)
