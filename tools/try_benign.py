#!/venv/bin/python
"""Run checks against a behaviour-preserving refactoring (a false-alarm probe).
usage: tools/try_benign.py <seed-dir> <name> <CHECK-ID> [more CHECK-IDs] [--tier quick|thorough]
 makes a scratch worktree of /repo HEAD under /tmp, applies <seed-dir>/patch.diff there, runs the pinned tests (must stay 566 passed)
 and bin/check for each id with VERIF_REPO / VERIF_WORK / VERIF_EVID pointing at the scratch area - every check must exit 0 without a
 VIOLATION line -, removes the worktree, stores /verif/seeded/<name>/{patch.diff, equiv.py, meta.json}.  /repo is never touched."""
import json, os, shutil, subprocess, sys, tempfile, time

def sh(cmd, **kw):
    return subprocess.run(cmd, shell=True, stdout=subprocess.PIPE, stderr=subprocess.STDOUT, text=True, **kw)

def main():
    args = [a for a in sys.argv[1:] if not a.startswith("--")]
    tier = sys.argv[sys.argv.index("--tier") + 1] if "--tier" in sys.argv else "quick"
    if "--tier" in sys.argv:
        args = [a for a in args if a != tier]
    seed, name, checks = args[0], args[1], args[2:]
    patch = os.path.join(seed, "patch.diff")
    meta = json.load(open(os.path.join(seed, "meta.json"))) if os.path.exists(os.path.join(seed, "meta.json")) else {}
    area = tempfile.mkdtemp(prefix="benign_", dir="/tmp")
    wt = os.path.join(area, "repo")
    runs = {}
    try:
        assert sh("git -C /repo worktree add -q --detach %s HEAD" % wt).returncode == 0
        ap = sh("git -C %s apply %s" % (wt, patch))
        assert ap.returncode == 0, ap.stdout
        tests = sh("cd %s && PYTHONPATH=%s/src /venv/bin/python -m pytest -q -p no:cacheprovider --timeout=900 --continue-on-collection-errors 2>&1 | tail -1" % (wt, wt), timeout=1800)
        assert "566 passed" in tests.stdout and "failed" not in tests.stdout, tests.stdout
        env = "VERIF_REPO=%s VERIF_WORK=%s/work VERIF_EVID=%s/evidence VERIF_TIER=%s" % (wt, area, area, tier)
        for c in checks:
            t0 = time.time()
            r = sh("cd %s && %s bin/check %s" % (os.environ.get("VERIF_HOME", "/verif"), env, c), timeout=7200)
            vio = [l[:500] for l in r.stdout.splitlines() if l.startswith("VIOLATION")]
            runs[c] = {"exit": r.returncode, "violations": len(vio), "first": vio[:3], "wall_s": round(time.time() - t0, 1),
                       "tail": r.stdout.strip().splitlines()[-6:] if r.returncode != 0 else []}
            print(name, c, "exit", r.returncode, "violations", len(vio), (vio[0][:300] if vio else ""), ("\n".join(runs[c]["tail"]) if r.returncode not in (0, 1) else ""), flush=True)
    finally:
        sh("git -C /repo worktree remove --force %s" % wt)
        sh("git -C /repo worktree prune")
        shutil.rmtree(area, ignore_errors=True)
    out = os.path.join("/verif/seeded", name)
    os.makedirs(out, exist_ok=True)
    shutil.copy(patch, os.path.join(out, "patch.diff"))
    if os.path.exists(os.path.join(seed, "equiv.py")):
        shutil.copy(os.path.join(seed, "equiv.py"), os.path.join(out, "equiv.py"))
    meta.update({"benign": True, "checks_run": runs, "tier": tier, "alarms": [c for c, v in runs.items() if v["exit"] != 0 or v["violations"]],
                 "ran": "tools/try_benign.py %s" % " ".join(sys.argv[1:])})
    json.dump(meta, open(os.path.join(out, "meta.json"), "w"), indent=1)
    print(name, "alarms:", meta["alarms"], flush=True)
    return 0

sys.exit(main())
