#!/venv/bin/python
"""Confirm a seeded change and run checks against it.
usage: tools/try_seed.py <seed-dir> <name> <CHECK-ID> [more CHECK-IDs] [--tier quick|thorough]
 1. scratch worktree of /repo HEAD under /tmp: baseline demo must exit 0; apply patch; pytest must show 566 passed; demo must exit 1
 2. run bin/check for each id against that worktree (VERIF_REPO / VERIF_WORK / VERIF_EVID point into /tmp), record VIOLATION lines; /repo is never touched
 3. on success store /verif/seeded/<name>/{patch.diff, demo.py, meta.json}"""
import json, os, shutil, subprocess, sys, tempfile, time

def sh(cmd, **kw):
    return subprocess.run(cmd, shell=True, stdout=subprocess.PIPE, stderr=subprocess.STDOUT, text=True, **kw)

def main():
    args = [a for a in sys.argv[1:] if not a.startswith("--")]
    tier = sys.argv[sys.argv.index("--tier") + 1] if "--tier" in sys.argv else "quick"
    if "--tier" in sys.argv:
        args = [a for a in args if a != tier]
    seed, name, checks = args[0], args[1], args[2:]
    patch, demo = os.path.join(seed, "patch.diff"), os.path.join(seed, "demo.py")
    meta = json.load(open(os.path.join(seed, "meta.json"))) if os.path.exists(os.path.join(seed, "meta.json")) else {}
    wt = tempfile.mkdtemp(prefix="seedwt_", dir="/tmp")
    os.rmdir(wt)
    res = {"confirmed": False}
    try:
        assert sh("git -C /repo worktree add -q %s HEAD" % wt).returncode == 0
        env = "cd %s && PYTHONPATH=%s/src PYTHONDONTWRITEBYTECODE=1" % (wt, wt)
        base = sh("%s /venv/bin/python %s" % (env, demo), timeout=600)
        ap = sh("git -C %s apply %s" % (wt, patch))
        tests = sh("%s /venv/bin/python -m pytest -q -p no:cacheprovider --continue-on-collection-errors 2>&1 | tail -1" % env, timeout=1800)
        mut = sh("%s /venv/bin/python %s" % (env, demo), timeout=600)
        res.update({"baseline_demo_exit": base.returncode, "apply": ap.returncode, "tests": tests.stdout.strip(), "mutant_demo_exit": mut.returncode,
                    "mutant_demo_tail": mut.stdout.strip().splitlines()[-3:]})
        res["confirmed"] = base.returncode == 0 and ap.returncode == 0 and "566 passed" in tests.stdout and "failed" not in tests.stdout and mut.returncode != 0
        runs = {}
        if res["confirmed"]:
            # the checks run against the scratch worktree (patch applied there): /repo, /verif/evidence and /verif/.work are never touched
            area = wt + "_area"
            envs = "VERIF_REPO=%s VERIF_WORK=%s/work VERIF_EVID=%s/evidence VERIF_TIER=%s" % (wt, area, area, tier)
            for c in checks:
                t0 = time.time()
                r = sh("cd %s && %s bin/check %s" % (os.environ.get("VERIF_HOME", "/verif"), envs, c), timeout=7200)
                vio = [l[:400] for l in r.stdout.splitlines() if l.startswith("VIOLATION")]
                runs[c] = {"exit": r.returncode, "violations": len(vio), "first": vio[:3], "wall_s": round(time.time() - t0, 1),
                           "tail": r.stdout.strip().splitlines()[-2:] if r.returncode not in (0, 1) else []}
                print(c, "exit", r.returncode, "violations", len(vio), (vio[0][:250] if vio else ""), flush=True)
            shutil.rmtree(area, ignore_errors=True)
    finally:
        sh("git -C /repo worktree remove --force %s" % wt)
        sh("git -C /repo worktree prune")
        shutil.rmtree(wt, ignore_errors=True)
    print(json.dumps(res, indent=1))
    if not res["confirmed"]:
        print("SEED NOT CONFIRMED")
        return 2
    out = os.path.join("/verif/seeded", name)
    os.makedirs(out, exist_ok=True)
    shutil.copy(patch, os.path.join(out, "patch.diff"))
    shutil.copy(demo, os.path.join(out, "demo.py"))
    meta.update({"confirmation": res, "checks_run": runs, "tier": tier, "caught_by": [c for c, v in runs.items() if v["exit"] == 1],
                 "ran": "tools/try_seed.py %s" % " ".join(sys.argv[1:])})
    json.dump(meta, open(os.path.join(out, "meta.json"), "w"), indent=1)
    print("caught_by:", meta["caught_by"])
    return 0

sys.exit(main())
