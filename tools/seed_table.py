#!/venv/bin/python
"""Markdown rows of the seeded-change tables of DESIGN.md from /verif/seeded/<name>/meta.json (+ tools/seed_history.json: what happened at
the first run and what was strengthened).   usage: tools/seed_table.py d e ..."""
import glob, json, os, sys
hist = json.load(open(os.path.join(os.path.dirname(__file__), "seed_history.json")))
for suf in sys.argv[1:]:
    print("| seed | change | needs | caught by (quick) | history |\n|---|---|---|---|---|")
    for d in sorted(glob.glob("/verif/seeded/C??%s" % suf)):
        n = os.path.basename(d)
        m = json.load(open(d + "/meta.json"))
        h = hist.get(n, {})
        caught = h.get("caught_by") or ", ".join(m.get("caught_by", []))
        cell = lambda s: " ".join(str(s).split()).replace("|", "\\|")
        print("| %s | %s | %s | %s | %s |" % (n, cell(m.get("summary", ""))[:330], cell(m.get("needs", ""))[:260], caught, cell(h.get("history", "caught at first run"))))
    print()
