#!/venv/bin/python
"""Regenerates MANIFEST.json from the table below (keeps it schema-valid at all times)."""
import json, os, subprocess, sys
HERE = os.path.dirname(os.path.dirname(os.path.abspath(__file__)))
ALL = ["C%02d" % i for i in range(1, 21)]

CHECKS = {
 "C01": dict(
    category="model_checking", design_ref="DESIGN.md §4 C01",
    text="OpcPackage.tla models the physical package, the loader (reachability walk, case-insensitive content-type lookup, dropped dangling "
         "relationships) and the writer (Impl layer) with SaveOK as the property. MC_OpcPackage builds every package within bounds "
         "(builder state machine, all relationship orders and reference spellings, Default/Override/case choices) and checks the design "
         "invariants; every sealed package is materialised as zip path, stream and directory, run through open/save/open/save of the "
         "real library, and the projected trace is validated clause by clause by TLC. Corpus decks are validated the same way.",
    note="Trusted: TLC, zipfile, lxml, the projection (zip read with zipfile+lxml only; loaded package via iter_parts/rels). "
         "XML equivalence = prefix-independent canonical form modulo whitespace-only text between elements. Bounded by config constants.",
    technique="TLA+ state machine explored by TLC; TLC-generated packages replayed into the real library; observed traces validated by TLC"),
 "C20": dict(
    category="other", design_ref="DESIGN.md §4 C20",
    text="EnumTables.tla: TLC evaluates nine named clauses (TokenInjective, TokenInSchemaEnum, RoundTrip, PresetExists, HasTableEntry, "
         "AdjNamesAndOrderEqual, AdjDefaultsEqual, ChartTypeInverse, ChartTokenInSchemaEnum) over tables extracted at run time (every "
         "BaseXmlEnum class and alias, the XSD enumerations of the attribute types they are declared on, pptx.spec.autoshape_types, "
         "presetShapeDefinitions.xml, chart writers/inspectors over all 73 chart types), naming each offending member; then explores "
         "AddAutoShape/AddChart -> SaveReopen -> ReadBack over all 182 shape types and 29 writable chart types on slide and group; every "
         "path is replayed through the public API and validated step by step by TLC. Exhaustive over the finite tables.",
    note="Trusted: TLC, lxml, the XSD and preset files in /repo/spec. UP_ARROW preset clauses not judged (the standard's file lacks upArrow).",
    technique="TLC-evaluated relation over extracted tables + exhaustive replay with TLC trace validation"),
 "C02": dict(
    category="model_checking", design_ref="DESIGN.md §4 C02",
    text="Deck.tla/MC_Deck.tla: history machine over the public API (open, slides access, add slide, add shape of every kind incl. picture/"
         "movie/chart/OLE, replace data, notes, hyperlinks and slide jumps set/change/clear, layout removal incl. refused, core props, "
         "read groups, save, reopen) from decks with non-contiguous / out-of-order slide part names. TLC enumerates every history up to the "
         "depth bound per alphabet and emits one per distinct (state, last action); each is replayed on a real Presentation; every saved "
         "zip (at save/reopen actions and at the end) is projected with zipfile+lxml and TLC evaluates the closure/consistency clauses "
         "with the OpcPackage operators, plus re-open facets (order, shapes, text, pictures, charts).",
    note="Trusted: TLC, zipfile/lxml projection, the facet reader (public read API on both sides). Bounded depth 3 (quick) / 4 (thorough) exhaustive per alphabet, simulation to depth 9-10.",
    technique="TLA+ history machine explored by TLC; histories replayed into the real library; saved packages validated by TLC"),
 "C03": dict(
    category="exploration", design_ref="DESIGN.md §4 C03",
    text="SlideOps.tla is the program generator: an interpreter of the operation catalogue (about 120 public mutators over 18 object kinds "
         "with enabling flags and documented rejections) from which TLC enumerates every ordered pair (triples in the thorough tier) of "
         "operations per object kind x preparation (plain; PowerPoint-like siblings: extLst in spTree/cSld/bodyPr, leading a:br, "
         "endParaRPr). The driver creates the object, applies the operations through the public API and after EVERY step logs the verdict "
         "of the XSD monitor (lxml XMLSchema over the transitional schemas after markup-compatibility preprocessing) for every slide, chart "
         "and notes part, and for all parts after save/re-open; TLC evaluates AllPartsValid / RejectedKeepsValidity / RejectedAsDocumented "
         "on the logged error signatures with baseline subtraction. Two more hosts feed the same verdict module: Deck.tla histories over the "
         "full public-API alphabet (saved package judged), and every assignment of C09's property catalogue (MC_Props: every in-domain, None, "
         "out-of-domain and wrong-type value class of ~330 properties, alone and after an accepted assignment) with the object's part "
         "validated before and after - accepted assignments must keep it valid, refused ones must leave it as valid as it was.",
    note="Validity is judged by the monitor, not by TLC (no TLA+ model of ISO/IEC 29500). Catalogue is hand-written; unused operations fail the run as vacuous; unexpected exceptions are listed in the evidence. Ordering/cardinality is additionally decided exhaustively by C10.",
    technique="TLA+ catalogue interpreter as program generator (TLC) + XSD monitor on every step + TLC clause evaluation on logged verdicts"),
 "C04": dict(
    category="model_checking", design_ref="DESIGN.md §4 C04",
    text="TextBody.tla: text as sequences of character tokens (15 classes x variants: NL, VT, TAB, CR, other C0, blanks, markup, astral, "
         "C1, DEL, escape look-alikes); the documented translation as operators (FrameSplit, ParaSplit, Esc per level, readers); clauses "
         "ReadBack, WhitespaceKept, ParaPerSegment, BreakPerBreak, KeepsProps, OthersKept, ReopenSameText, ReopenWhitespace. TLC enumerates "
         "every string up to the length bound at the four levels (frame/cell/shape, paragraph, run) onto prior bodies (several paragraphs, "
         "properties, fields, leading break) with re-open patterns, checks the Impl layer, emits scenarios; each is replayed on a real text "
         "frame / table cell / shape, projected from the lxml tree plus the .text readers, and validated step by step by TLC.",
    note="Trusted: TLC, the lxml projection and the character classifier (69 concrete representatives). TAB accepted kept or escaped (statement vs docstring). Bounded string length 3 (quick) / 3-5 (thorough), <= 3 re-open cycles.",
    technique="TLA+ two-layer spec, TLC string/history enumeration, replay on the real library, TLC trace validation"),
 "C05": dict(
    category="exploration", design_ref="DESIGN.md §4 C05",
    text="Sinks.tla: Store(sink, s) with clauses Accepted, ReadBack, StructureUnchanged (element structure of every part equals that after "
         "a plain string), StillParses, ReopenReadBack. TLC enumerates, per catalogued entry point (93: names, file names, hyperlinks, "
         "font names, OLE prog-id, core properties, MIME type, chart series names / category labels / number formats incl. replace_data, "
         "second-order placeholder-name sites), every string of length <= 2 (quick) / <= 3 (thorough) over markup, quote, ']]>', "
         "reference, CDATA, element, blank, astral, C1 and TAB/LF/CR classes; thorough adds hypothesis strings over the XML Char "
         "production. Each case is replayed on a fresh presentation and validated by TLC. Catalogue completeness is measured by an AST "
         "scan of all XML-template substitution sites plus call tracing (0 uncovered).",
    note="Per-call property: the Impl layer is trivial; the spec contributes the exhaustive string family and the frame condition. Strings bounded. The embedded xlsx is not examined (C08).",
    technique="TLC-enumerated string family (+hypothesis) replayed into the real library, TLC trace validation with named clauses, measured sink coverage"),
 "C06": dict(
    category="model_checking", design_ref="DESIGN.md §4 C06",
    text="Same machine; the Impl layer transcribes the id allocators (max+1 / turbo cache, first-gap for groups and freeforms, slide-id "
         "max+1 with bottom-up fallback) and TLC checks freshness at design level over decks with id gaps, ids near 2^31, slide ids at "
         "2147483647 and permuted part names (counterexamples are replayed, not trusted). After every real step the ids read from the "
         "serialised parts are validated by TLC: new shape ids fresh and positive, slide ids fresh/in range/stable, relationship ids unique "
         "and not reassigned while referenced, part names unique, slides named slide1..n once accessed, earlier lookups stable. "
         "Allocator stage (Alloc.tla / MC_Alloc / Trace_Alloc): one state machine per allocator (_next_rId, next_partname, next_image_partname, "
         "next_media_partname, CT_SlideIdList._next_id, both shape-id allocators with the turbo cache, _next_cTn_id); TLC enumerates EVERY subset "
         "of a universe of pre-existing identifiers (gaps, zero, padded spelling, non-numeric, same number under another extension, value-space "
         "bounds) x every short allocate/allocate-by-gap/release/turbo sequence, checks the transcription at design level and emits each history; "
         "each is replayed on the real object and the identifier set read back after every call is validated by TLC (Fresh, InRange, ExistingKept, "
         "ExactlyOneNew, Succeeds).",
    note="Trusted: TLC, the lxml-based observation (never via prs.slides). Known finding: turbo mode + group/freeform allocator collision (experimental feature). Shape ids above 2^31 are not explored (TLC integers).",
    technique="TLA+ allocator transcription checked by TLC + history replay + TLC trace validation on observed ids"),
 "C07": dict(
    category="model_checking", design_ref="DESIGN.md §4 C07",
    text="ChartData.tla: property layer (XsdValid/XsdKept, OnePlotFamily, Names/Vals/CatsAsGiven, LevelsReadable, Idx/OrderUnique, "
         "FmtSurvives, PlotsSurvive, OutsideUnchanged, ReopenSame) and an Impl layer transcribing the writers, _adjust_ser_count / "
         "_add_cloned_sers / _trim_ser_count_by and next_idx/next_order. MC_ChartData visits every history AddChart(8 families) / "
         "Load(corpus chart), Format prefix, <= L ReplaceData over all data shapes, SaveReopen; judges Impl with the property layer and "
         "emits every history. The driver replays them (all 29 writable types, corpus decks, widened 26/50-series copies) and TLC "
         "validates every observed step.",
    note="Trusted: TLC, lxml XMLSchema on dml-chart.xsd after MCE preprocessing, masked canonical-XML equality tokens. Pie = one series. Emptied charts not judged further.",
    technique="TLA+ two-layer state machine, TLC history enumeration with design-level refinement check, replay, TLC trace validation"),
 "C08": dict(
    category="model_checking", design_ref="DESIGN.md §4 C08",
    text="ChartSheet.tla gives the worksheet as a function of the data shape (Cell, CatRef/NameRef/ValRef/XRef/YRef/SizeRef, bijective "
         "base-26 ColLetters with inverse, Excel serial dates). TLC proves the column bijection on 1..16384 and, per enumerated shape, "
         "disjoint ranges, Size = ptCount and accumulated XY/bubble offsets, then writes the shapes. Each shape is built by add_chart and "
         "by replace_data (also on corpus charts); the driver's own xlsx reader and c:f parser record references, point counts, cached "
         "points and cells; TLC validates RefSizeIsPtCount, PointEqualsCell, CellHoldsData, ColumnLetters (RefsAsSpec drift only).",
    note="Trusted: TLC, the zipfile+lxml xlsx reader. Numbers compared as canonical decimal text. 1900 date system only.",
    technique="TLA+ function spec, whole-domain TLC theorems, spec->code->spec conformance validated by TLC"),
 "C09": dict(
    category="exploration", design_ref="DESIGN.md §4 C09",
    text="Props.tla: catalogue-driven value-class generator, abstract machine and named clauses (InDomainAccepted, ReadBackWithinQuantum, "
         "NoneRestoresInheritance, OutOfDomainRefused, RefusalClass, OthersUnchanged, ReopenSame). MC_Props enumerates per object kind "
         "(44/47 kinds, 184/202 properties; 0 of 141 introspected settable sites uncatalogued) every sequence of 1, 2 and 3 assignments "
         "over boundary, interior, rounding-threshold, None and out-of-domain classes, then save/re-open. Each is replayed on fresh "
         "objects, single assignments also on corpus objects; TLC evaluates every clause on every observed step.",
    note="TLC does not compute with values: |read - assigned| <= quantum is a Fraction monitor logged as a boolean that TLC requires. Domains, coupling and None-support are the catalogue's reading of the docstrings; undocumented bounds and frame-on-refusal are reported, not judged.",
    technique="TLC-enumerated assignment sequences over anchored value tokens, replayed through the public API, TLC trace validation"),
 "C10": dict(
    category="model_checking", design_ref="DESIGN.md §4 C10",
    text="ChildOrder.tla: Impl layer transcribes xmlchemy (first_child_found_in, insert_element_before, remove_all, get-or-add, change-to); "
         "property layer = Ordered (schema slot ranks around the new child, judged on schema-permitted parents), AtMostOne, "
         "GetOrAddIdempotent, RemoveRemovesAll, ChangeToLeavesExactlyOne. All constants re-extracted at every run: 196 tags / 156 classes / "
         "282 declarations from the registry and generated-method closures (with a behavioural second source - generated method names, "
         "_new_x() tags, measured successor sets - for classes where closure introspection fails, so that a refactoring of xmlchemy's "
         "internals does not break the check); XSD content models flattened to slots with conservative rules. "
         "MC_ChildOrder's Init is the quantifier (class x XSD type x child x sibling-context families, two-kind orderings, two steps deep; "
         "duplicates of a ZeroOrOne child and every ordered pair of members of a choice group for the remove / change-to clauses; "
         "thorough: every permitted subset for <= 12 slots). TLC prints every counterexample and transition; each transition is executed "
         "on a real element with the real generated method and TLC validates the observed sequence.",
    note="Trusted: TLC, the XSDs in /repo/spec, lxml iteration. The slot model only under-constrains. Declarations nothing in src/pptx names are reported as latent NOTEs. Hand-written append/addprevious sites are listed, not judged here (C03).",
    technique="extracted-constant TLA+ model, TLC exhaustive Impl-vs-property check over schema-derived contexts, transition-complete replay, TLC trace validation"),
 "C11": dict(
    category="exploration", design_ref="DESIGN.md §4 C11",
    text="SimpleTypes.tla: for each of 65 (python simple type, XSD type) pairs extracted at run time from the 159 attribute declarations and "
         "the XSD facets, TLC enumerates anchored value tokens <<anchor, delta, half-quantum, ulp>>, seeded float draws, wrong Python types, "
         "NaN/+-inf, every enumeration member and XSD token, and every lexical alternative for reading. The driver assigns and reads each "
         "through a real element at every site; lxml XMLSchema on a probe attribute of exactly that XSD type judges the written strings. "
         "TLC evaluates A (accepted => schema-valid), B (refused => TypeError/ValueError, nothing written), C (valid alternative readable), "
         "D (read(write) within quantum), E for plain ranges and enumerations.",
    note="Trusted: TLC, lxml XMLSchema, a hand table of unit scales for 7 converting types. E reported (not judged) for other types.",
    technique="TLC-generated boundary/threshold domain from extracted facets, schema-judged replay through real elements, TLC clause evaluation"),
 "C12": dict(
    category="model_checking", design_ref="DESIGN.md §4 C12",
    text="ReadOnly.tla states the property on package observations (roles, canonical XML modulo empty attribute-less elements; slide parts "
         "by presentation position): same parts, unchanged meaning, successive saves identical. MC_ReadOnly enumerates every order and "
         "repetition of the accessor groups with saves in between; a seeded sample plus an all-groups order is replayed on every corpus "
         "deck and on two generated decks (one slide per layout; every shape kind plus a notes page): every public property/len/iteration/"
         "index of every object reachable by introspection is read - predicates always; a creating accessor only when its own predicate "
         "says the content exists (notes_slide if has_notes_slide) - except accessors whose own docstring says that reading creates or is "
         "destructive; TLC compares every save with the package saved straight after opening. "
         "A rejected traversal is bisected per accessor so the signature names the getter responsible.",
    note="Trusted: TLC, zipfile/lxml comparison, the docstring pattern deciding 'documented as creating' (list in the evidence). Known finding: chart getters creating c:dLbls / c:dPt on read.",
    technique="TLA+ spec of the invariant + TLC-enumerated accessor orders replayed by an introspective reader; TLC validates package observations"),
 "C13": dict(
    category="model_checking", design_ref="DESIGN.md §4 C13",
    text="Layout.tla: PhMirror (type, idx, orientation, size of the non-latent layout placeholders, document order), unique names, "
         "inheritance (layout counterpart by idx, else the master placeholder of the mapped type, else nothing), last in order, related to "
         "the layout, other slides untouched, override reported, notes slide mirrors the notes master. MC_Layout enumerates placeholder "
         "populations (every type x idx class x orientation x size x own-geometry; pairs/triples incl. duplicates and latent types) and "
         "short histories; the driver rewrites a layout part accordingly and replays; every layout of every corpus deck gets a slide in an "
         "accumulating history; TLC validates every observed step.",
    note="Trusted: TLC; placeholders read from the lxml tree, geometry through the public readers. Duplicate idx: any counterpart accepted.",
    technique="TLA+ spec + TLC-enumerated populations/histories materialised as real layouts + corpus layouts; TLC trace validation"),
 "C14": dict(
    category="model_checking", design_ref="DESIGN.md §4 C14",
    text="Table.tla has a property layer (regions read off the public readers, text tokens, frame = sum) and an Impl layer (the four "
         "span attributes as _Cell.merge/split write them). MC_Table checks Impl refines the property layer over every history up to the "
         "depth bound on every table shape and text pattern, and emits one path per distinct state; the driver replays each path on a real "
         "table and applies every merge (all ordered corner pairs), split and cross-table merge to a copy of the state reached, so every "
         "history one step deeper is executed; TLC validates Inv and Post on every observed step. Creation sweep over (r,c,w,h); "
         "12x12 simulation to depth 10.",
    note="Trusted: TLC; projection reads the lxml tree directly plus public readers. Quick: <=3x3 depth 3 histories, 4x4 depth 2; thorough: <=4x4 depth 3.",
    technique="TLA+ two-layer state machine, TLC exhaustive refinement check, transition-complete replay, TLC trace validation"),
 "C15": dict(
    category="model_checking", design_ref="DESIGN.md §4 C15",
    text="Media.tla: image universe (generated PNG/JPEG/GIF/BMP/TIFF of several pixel sizes and every DPI class incl. absent, zero, huge, "
         "fractional, non-square; misleading file names; path and stream; plus the library's default poster frame and EMF icon). "
         "MC_Media enumerates every history of picture / placeholder-picture / movie-poster / OLE-icon additions across slides with saves "
         "and re-opens in between; each is replayed and TLC validates after every step and on every saved zip: one part per distinct bytes, "
         "distinct names, extension and content type of the actual format (magic bytes), stored bytes and picture.image.blob exact, native "
         "size from pixels and normalised DPI (TLC arithmetic), aspect ratio kept (Fractions monitor), requested size honoured.",
    note="Trusted: TLC; Pillow to generate images and read px/DPI for the expectation; format by magic bytes. DPI normalisation as documented (nearest integer; 72 outside 1..2048).",
    technique="TLA+ history machine + image universe constant; TLC-enumerated histories replayed; TLC validates media projections"),
 "C16": dict(
    category="fault_enumeration", design_ref="DESIGN.md §4 C16",
    text="Same spec as C01 plus fault actions (dangling targets, missing content types/stream/package rels, non-zip, truncated, missing "
         "path) on TLC-built skeletons, and byte-level injection of every irregularity at every applicable location of corpus decks "
         "(singles everywhere, sampled pairs), in path/stream/directory form. The expected outcome (loaded package or exception class) "
         "is computed by TLC from the projected faulted package (OpenOf/ApiOutcome); slide order and save/touch/save sequences included.",
    note="Trusted: as C01; fault injectors (zipfile+lxml). Slide traversal judged only when every sldId leads to a present slide part.",
    technique="TLA+ spec as outcome oracle + exhaustive single-fault enumeration per location, pairs sampled; traces validated by TLC"),
 "C17": dict(
    category="model_checking", design_ref="DESIGN.md §4 C17",
    text="Geometry.tla: connector (Impl = the twelve-branch setters on offset/extent/flip, property = moved coordinate takes the value, "
         "other three fixed, extents non-negative), group extents (recursive bounding box, upward recalculation) and freeform "
         "(scaled bounding box with |obs-exact|<=1/2, path points = vertices - min, inside path extents). TLC checks Impl refines the "
         "property over all bounded histories, emits one path per distinct state; the driver replays every path at several EMU scales and "
         "fans out every assignment (connector) / replays every history (groups, all leaf kinds) / every pen case (freeform); TLC validates "
         "every observed step. The connector refinement step is additionally discharged for unbounded integers with Apalache.",
    note="Trusted: TLC, Apalache (inductive step on the transcription; bound to the code by zero drift in conformance). "
         "Frames read from a:xfrm plus public readers. Empty sub-groups may or may not contribute their (0,0,0,0) frame (unspecified).",
    technique="TLA+ two-layer state machines + TLC exhaustive refinement + transition-complete replay + TLC trace validation; Apalache inductive step"),
 "C18": dict(
    category="model_checking", design_ref="DESIGN.md §4 C18",
    text="CoreProps.tla: state of the 15 core properties, W3CDTF specified in TLA+ (ToUtc with days-from-civil calendar arithmetic, every "
         "granularity, fractions, Z and numeric offsets to +-14:00), ten named clauses (Outcome, RejectedUnchanged, ReadStr, ReadDate, "
         "ReadRev, OthersKept, DefaultPart, ReopenIdentity, XsdValid, LexUtc) and the Impl layer. TLC enumerates every history of <= 2 "
         "(quick) / <= 3 (thorough) assignments over all properties x length classes {0,1,254,255,256} x character mixes, boundary "
         "datetimes, refused values, lexical forms at day/month/leap/year boundaries, with 0-2 re-opens from an absent, empty and template "
         "part; each history is replayed on a real package and TLC validates every observed step (XSD bit from lxml XMLSchema).",
    note="Trusted: TLC; lxml XMLSchema with local Dublin Core / xml.xsd stub schemas (/verif/schemas); ToUtc cross-checked against Python's calendar on every run.",
    technique="TLA+/TLC history enumeration + function specification (W3CDTF), replay, TLC trace validation with named clauses"),
 "C19": dict(
    category="model_checking", design_ref="DESIGN.md §4 C19",
    text="PackUri.tla defines part-name arithmetic (Dir/Filename/Ext/Idx/Member/RelsUri, RFC 3986 Resolve, RelRef); TLC proves the "
         "round-trip/variant/injectivity theorems on the whole bounded domain, writes the domain, the driver calls the real PackURI on "
         "every case and TLC validates every observed record against the operators. Exhaustive within the segment alphabet and depth.",
    note="Trusted: TLC 1.8, CommunityModules Json; segment strings parsed back by table lookup. Bounded: 7-segment alphabet, depth 3 (quick) / 4 (thorough).",
    technique="TLA+ spec of the function + TLC domain enumeration + whole-domain trace validation of real results by TLC"),
}
PENDING_REASON = "check not built yet in this round (see DESIGN.md §9 for the construction order); no claim is made"

# what the second build session added to each machine (DESIGN.md §10.10)
EXTRA = {
 "C09": "The last gradient stop as well as the first, interior stop positions; generated decks among the corpus objects."
        " Every other re-open reads the saved file respelled (lower-case hex colours, true / false booleans); a stacked bar plot."
        " A point's marker on a series whose c:dPt elements are out of index order.",
 "C05": "Derived flows: a string already stored on a layout / notes-master placeholder when add_slide / notes_slide clones it.",
 "C10": "The hand-written adders of CT_GroupShape (add_autoshape ... add_textbox) are declarations read off their behaviour (op Hand) and judged like the generated inserters; every call is repeated on siblings that hold descendants named like the children."
        " Hand-written get-or-add methods keyed by an index child (dPt / dLbl for a point) with keyed tags (op HandGetOrAdd)."
        " Every call also on the same parent written with other namespace prefixes.",
 "C01": "Parts of the builder may be image-typed (the content type selects the part class python-pptx builds; several parts may hold the same bytes)."
        " External targets in several spellings (escaped reserved characters, lower-case escapes, back-slashes)."
        " Type pool includes an unknown +xml type with an opaque payload and a macro-enabled embedded workbook type.",
 "C02": "Part lifecycle: decks whose unused layout carries a picture (genlogo) or whose image parts hold identical bytes (gendupimg), picture tokens "
        "chosen by the model, layout removal in every order relative to picture additions (an image part lives while a relationship reaches it)."
        " Also a deck in which generic parts (custom XML item, theme) alone reach further parts (gengeneric), a deck with relationship ids that are not rId<N>, ten pictures of one format."
        " A deck whose part numbering has a gap (gengap)."
        " Every save of a history goes to one stream the caller keeps."
        " A two-master deck (a layout of the other master is refused); notes numbering that does not follow slide position.",
 "C03": "Further hosts (mbt/checks/c03_hosts.py): the histories of the Table, TextBody, Geometry (connector / group / freeform) and Layout machines are "
        "replayed by their own drivers with the XSD monitor switched on and judged by the same clauses (a call that returned: AllPartsValid; a call that "
        "raised: RejectedKeepsValidity)."
        " Every single catalogued assignment also on the objects of a generated deck with 3-D bar / line / pie charts.",
 "C04": "Also: assigning at frame / paragraph level exactly the string that level reads at the moment (reassign actions), on prior bodies whose runs "
        "hold newline / tab characters."
        " A text-frame object obtained before the calls is kept and read after every step (KeptObjectAgrees)."
        " A ten-paragraph string at every site.",
 "C06": "The allocator machines (Alloc.tla) lay the pre-existing identifiers down in ascending and in descending DOCUMENT order: the allocators are functions of the set."
        " Shape ids carried by members of a group / an AlternateContent fallback; allocation inside a group."
        " One freeform builder converted again."
        " Notes numbering that does not follow slide position.",
 "C07": "The chart-data object handed to replace_data is also STAGED (one object, rendered into a throw-away chart when half built - left spine of "
        "the category tree, first series / point - then completed): nothing an earlier rendering computed may be remembered."
        " The multi-plot corpus charts are replaced with every series count from one to more than they hold."
        " A zero as the first numeric category.",
 "C08": "Sites: add_chart, replace_data, one object reused after growing (ReuseData), one object rendered when half built and then completed (StagedData); "
        "every series count from 1 to n+1 on every multi-plot corpus chart."
        " Decks in which chart and workbook numbers are not aligned (an OLE workbook added first)."
        " The charts of a chunk are all created first and replaced afterwards.",
 "C11": "Setter level (PropRefusal.tla): on the traces of C09's property machine (every catalogued property x every out-of-domain / wrong-type value, "
        "alone and after an accepted assignment) a call refused with TypeError / ValueError loses no attribute value or text the part held."
        " Reader stage: one saved file read as written and respelled; the catalogued readers must agree (RespelledFormsReadable).",
 "C12": "Generated decks join every tier: one slide per layout, every shape kind + notes, a canvas-window group, and a deck whose slide part names are "
        "out of order with a gap (slide3, slide1, slide4) with notes pages."
        " A slide with content of other producers (mc:AlternateContent on the slide and in a group, a p:nvPr extension list)."
        " A slide-number field whose text is not the slide's position."
        " Chart and axis titles linked to a worksheet cell."
        " Membership queries with a non-member.",
 "C13": "Layout placeholders carried by p:pic / p:graphicFrame (filled in Slide Master view); a deck with out-of-order slide part names; after a re-open "
        "every slide is still there in order with its content (ReopenKeepsSlides)."
        " The layout's placeholder elements are removed / reordered between two slide additions (dropPh / movePh): a slide mirrors the layout as it is then."
        " Geometry inherited pair by pair (a position without a size and the reverse).",
 "C14": "Actions also resize the graphic frame itself (frame size = sum is the post-condition of a row/column change, whatever the frame was); text "
        "patterns with bodies of 1/2/3 empty paragraphs; document variants of the table (no a:tblPr, no a:tcPr, a:extLst children)."
        " A Table object obtained before the call is read after it (KeptObjectAgrees); cells whose only content is a field.",
 "C15": "Part lifecycle: a layout carrying a picture is removed (its image part leaves the package, its name is free again; MC_Media transcribes "
        "next_image_partname and keeps the live names in the state); every picture added is re-read after every step and from the re-opened file; "
        "one file path overwritten with images of identical byte length."
        " Images with an EXIF orientation."
        " A stream whose cursor is mid-way."
        " Pictures added into a resized group.",
 "C16": "Corpus faults include two relationships to one absent part and an absent part that several relationships target."
        " An unreferenced member whose name differs only in letter case from a reachable part, stored after / before it.",
 "C17": "Connectors also start from frames as a document holds them (zero extent with the flip attribute set); a freeform pen may be converted while "
        "half drawn before the conversion that is judged."
        " Connectors loaded turned by 180 degrees.",
 "C18": "W3CDTF fractions of 7, 9 and 12 digits; a text class that looks like an OOXML character escape."
        " Initial package written by another producer (mixed-content cp:keywords, xml:lang, other child order)."
        " Revisions beyond 2^31."
        " A core.xml whose root declares only the namespaces it uses.",
 "C19": "Accessor family: index 0, zero-padded digits, 9 / 10 / 100, long stems, 2^31-1."
        " Names with two consecutive periods."
        " Names outside ASCII (combining accent, precomposed)."
        " A percent sign in a directory segment.",
 "C20": "Hosts: slide, group, and a slide that already holds a customised shape (chart) of the same type."
        " Host partial: the definition's guides written out in reverse order.",
}
for _k, _v in EXTRA.items():
    CHECKS[_k]["text"] += " " + _v

def main():
    checks = []
    for pid in ALL:
        if pid not in CHECKS: continue
        c = CHECKS[pid]
        checks.append({
            "property_id": pid,
            "quick_cmd": "VERIF_TIER=quick bin/check %s" % pid,
            "thorough_cmd": "VERIF_TIER=thorough bin/check %s" % pid,
            "evidence_file": "/verif/evidence/%s.json" % pid,
            "replay_cmd_template": "bin/check %s --replay {path}" % pid,
            "engine": "tla-mbt",
            "level_claimed": {"category": c["category"], "text": c["text"], "design_ref": c["design_ref"]},
            "level_note": c["note"],
            "technique": c["technique"],
        })
    m = {
      "version": 1,
      "setup_cmd": "bin/setup",
      "hooks": {"guard": "PPTX_VERIF", "enable": "no hooks: every projection uses public accessors and serialized bytes; checks import /repo/src (editable install + PYTHONPATH)",
                "baseline_off_cmd": "cd /repo && /venv/bin/python -m pytest -q -p no:cacheprovider --timeout=900 --continue-on-collection-errors",
                "source_commits": [], "add_only": True},
      "engines": [{"name": "tla-mbt", "path": "/verif/mbt", "serves_properties": sorted(CHECKS),
                   "kind_free_text": "explicit TLA+ specs (spec/*.tla) explored by TLC; TLC-generated scenarios replayed into python-pptx; observed traces validated by TLC (Trace_*.tla)"}],
      "checks": checks,
      "notes": "See DESIGN.md. Exit 0 held / 1 VIOLATION / 2 machinery failure. known_findings.json lists genuine defects by signature.",
      "not_applicable": [{"property_id": p, "reason": PENDING_REASON} for p in ALL if p not in CHECKS],
    }
    with open(os.path.join(HERE, "MANIFEST.json"), "w") as f:
        json.dump(m, f, indent=1)
    print("MANIFEST.json: %d checks, %d not claimed" % (len(checks), len(m["not_applicable"])))

main()
