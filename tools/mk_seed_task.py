#!/venv/bin/python
"""Prepare a seeding task for a fresh sub-agent: scratch worktree + TASK.md holding ONLY the property text and what earlier
seeds for the property did (nothing from /verif's checks).   usage: tools/mk_seed_task.py <PID> <suffix>   e.g. C04 d"""
import glob, json, os, subprocess, sys

pid, suf = sys.argv[1], sys.argv[2]
name = pid + suf
prop = next(json.loads(l) for l in open("/verif/properties.jsonl") if json.loads(l)["id"] == pid)
wt = "/tmp/sw/%s" % name
out = "/tmp/seeds/%s" % name
os.makedirs("/tmp/sw", exist_ok=True)
os.makedirs(out, exist_ok=True)
if not os.path.exists(wt):
    subprocess.check_call("git -C /repo worktree add -q %s HEAD" % wt, shell=True)
earlier = []
seen_names = set()
for d in sorted(glob.glob("/verif/seeded/%s*" % pid)) + sorted(glob.glob("/tmp/seeds/%s*" % pid)):
    b = os.path.basename(d)
    if b in seen_names or b == name:
        continue
    seen_names.add(b)
    if b[len(pid):] in ("r", "s") or not os.path.exists(d + "/meta.json"):
        continue
    m = json.load(open(d + "/meta.json"))
    earlier.append("- %s\n  needed: %s" % (m.get("summary", "")[:700], m.get("needs", "")[:500]))
anch = prop.get("anchors", {})
task = f"""# Task: seed a realistic property-breaking change into python-pptx

You work in a scratch git worktree of the python-pptx library: `{wt}` (a checkout of the current pinned tree).
Python: `/venv/bin/python`; always run with `PYTHONPATH={wt}/src` (the venv's editable install points elsewhere).
The pinned test suite: `cd {wt} && PYTHONPATH={wt}/src /venv/bin/python -m pytest -q -p no:cacheprovider --continue-on-collection-errors 2>&1 | tail -1`
must print `566 passed, 46 errors` before and after your change (the 46 collection errors are pre-existing and expected).
Do NOT read or touch `/repo` or `/verif`. Work only in `{wt}` and `{out}`. No network is available.

## The property (a promise python-pptx users rely on)

**{prop['title']}**

{prop['statement']}

Code it is anchored in: {', '.join(anch.get('files', []))}

## What to produce

A change to the library source (under `src/pptx/`) that **breaks this property** while the code still imports and the pinned
test suite still passes (566 passed). Make it the kind of change a maintainer could plausibly commit: a refactoring, an
optimisation, a tidy-up, a "simplification", a caching layer, a reordering — with a subtle flaw. It must need **something specific
to manifest**: a multi-step sequence of operations, an unusual (but legitimate) input, a particular existing document structure,
two cooperating sites that each look fine alone, a boundary value. NOT something ordinary use would expose at once, and not a
blatant sabotage. Keep the diff small to medium (5-80 lines). The failing behaviour must be a genuine violation of the property text
above as a reasonable user reads it.

Earlier seeded changes for this property are listed below; yours must differ from all of them in mechanism, code site AND trigger:

{chr(10).join(earlier) if earlier else '(none)'}

## Deliverables, in `{out}/`

1. `patch.diff` — `git -C {wt} diff` of your change (must apply with `git apply` to a clean checkout of the same commit).
2. `demo.py` — a standalone program using only the public API + stdlib/lxml/zipfile/Pillow that exits 0 (printing OK) on the
   UNCHANGED tree and exits 1 (printing what went wrong) with your change applied. It is run as
   `cd <tree> && PYTHONPATH=<tree>/src /venv/bin/python demo.py-path`. It must not depend on files outside the tree and itself
   (files inside the tree such as `<tree>/features/steps/test_files/*.pptx` or `<tree>/tests/test_files/*` are fine; locate them
   relative to `pptx.__file__`). Scratch output only under a `tempfile` directory that it removes.
3. `meta.json` — {{"property": "{name}", "summary": "<what the change does, 2-4 sentences>", "needs": "<what exactly is needed for
   the violation to manifest>", "files": ["src/pptx/..."], "tests": "<last line of the pytest run with the change>"}}

Verify yourself before finishing (NEVER use `git stash`: the stash is shared by all worktrees of the repository and other people work in sibling worktrees): (a) `git -C {wt} diff > {out}/patch.diff; git -C {wt} apply -R {out}/patch.diff` → demo exits 0; (b) `git -C {wt} apply {out}/patch.diff` → pytest line shows
566 passed and no failures → demo exits 1. Then reply with a three-line summary. Do not write anything else anywhere.
"""
open(out + "/TASK.md", "w").write(task)
print(out + "/TASK.md")
