"""The repository's corpus of decks."""
import glob
import os
from mbt.engine import REPO


def decks() -> list[str]:
    pats = ["features/steps/test_files/*.pptx", "features/steps/test_files/*.pptm", "tests/test_files/*.pptx",
            "src/pptx/templates/default.pptx"]
    out = []
    for p in pats:
        out += sorted(glob.glob(os.path.join(REPO, p)))
    return out


KEY = ("prs-slide-masters.pptx", "sld-notes.pptx", "cht-plot-props.pptx", "shp-groupshape.pptx", "tbl-cell.pptx", "ph-inherit-props.pptx",
       "act-props.pptm", "shp-picture.pptx", "no-core-props.pptx", "ph-unpopulated-placeholders.pptx", "ph-populated-placeholders.pptx")


# decks whose PACKAGE structure is special: a part typed without "+xml" that has relationships of its own (legacy VML drawing -> image)
OPC_KEY = ("shp-access-ole-object.pptx",)


def opc_key_decks() -> list[str]:
    return [p for p in decks() if os.path.basename(p) in OPC_KEY]


def key_decks() -> list[str]:
    """Structurally special decks (several masters, notes, multi-plot charts, groups, tables, macros, no core props)."""
    return [p for p in decks() if os.path.basename(p) in KEY]


def subset(n: int, seed: int = 0) -> list[str]:
    d = decks()
    if n >= len(d):
        return d
    # deterministic spread; the default template always included
    step = len(d) / float(n - 1)
    pick = [d[int(((i * step) + seed) % (len(d) - 1))] for i in range(n - 1)]
    return sorted(set(pick)) + [d[-1]]
