"""Content models from the XSD files shipped in /repo/spec, flattened to SLOTS for the ChildOrder specification (C10).

For an element tag (e.g. "c:ser") -> every XSD complex type an element of that name is declared with (global or
local declarations; `c:ser` has eight).  For a complex type -> its particle, resolved through complexContent/extension,
group refs and element refs, flattened to a sequence of slots

    [members: [tag,...], rep: bool, req: bool, excl: bool, branches: [[{tag, req}], ...]]

with CONSERVATIVE rules, so that the model only ever UNDER-constrains order (an order it flags is invalid for the
real schema):
  * an element particle in a (non-repeatable) sequence is a slot of its own;
  * all leaves of one `choice` (nested sequences inside it too) share ONE slot; `excl` = the choice is not repeatable;
  * all leaves of a repeatable particle (maxOccurs > 1 on a sequence/choice/group, or an enclosing one) share ONE slot;
  * `xsd:all` -> one slot, not repeatable, not exclusive;
  * `req` = minOccurs >= 1 and no enclosing optional particle (for a choice: every branch must also be non-emptiable);
  * a tag that occurs in two slots of the same type makes all slots between the occurrences collapse into one;
  * wildcards (`xsd:any`) are not slots (nothing is generated for them).
`branches` keeps, for a choice slot, which leaves belong to the same alternative and which of them that alternative
requires, and for an optional nested sequence which members come together (`cogroup`): contexts are built from it so that
they are schema-PERMITTED (an exclusive slot contributes one alternative with its required leaves).
"""
from __future__ import annotations

import glob
import os

from lxml import etree

XS = "http://www.w3.org/2001/XMLSchema"
XSD_DIRS = ("spec/ISO-IEC-29500-4/xsd", "spec/ISO-IEC-29500-2/opc-xsd")


def _ln(node):
    return etree.QName(node).localname if isinstance(node.tag, str) else None


def _occ(node):
    mn = int(node.get("minOccurs", "1"))
    mx = node.get("maxOccurs", "1")
    mx = 10**9 if mx == "unbounded" else int(mx)
    return mn, mx


class XsdModel:
    def __init__(self, repo: str = "/repo", refine: bool = True):
        from pptx.oxml.ns import _nsmap

        self.refine = refine
        self._altid = 0

        self.uri2pfx = {}
        for p, u in _nsmap.items():
            self.uri2pfx.setdefault(u, p)
        self.types: dict = {}      # (uri, name) -> complexType node
        self.groups: dict = {}     # (uri, name) -> group node
        self.gelems: dict = {}     # (uri, name) -> global element node
        self.tns: dict = {}        # id(root) -> target namespace
        self.elem_types: dict = {}  # (uri, local) -> set of type keys
        self.files = []
        self._anon = 0
        self._slots_cache: dict = {}
        for d in XSD_DIRS:
            for f in sorted(glob.glob(os.path.join(repo, d, "*.xsd"))):
                self._load(f)
        self._index_elements()

    # ------------------------------------------------------------------ loading
    def _load(self, path):
        root = etree.parse(path).getroot()
        tns = root.get("targetNamespace")
        self.files.append(os.path.basename(path))
        for n in root:
            ln = _ln(n)
            if ln is None:
                continue
            n.set("__tns", tns or "")
            if ln == "complexType":
                self.types[(tns, n.get("name"))] = n
            elif ln == "group":
                self.groups[(tns, n.get("name"))] = n
            elif ln == "element":
                self.gelems[(tns, n.get("name"))] = n
        self.tns[id(root)] = tns

    def _tns_of(self, node):
        n = node
        while n.getparent() is not None and n.getparent().getparent() is not None:
            n = n.getparent()
        # n is a top-level component
        return n.get("__tns") or node.getroottree().getroot().get("targetNamespace")

    def _q(self, node, qname):
        """Resolve 'pfx:name' / 'name' in the scope of node -> (uri, name)."""
        if ":" in qname:
            p, nm = qname.split(":", 1)
            return node.nsmap.get(p), nm
        return node.nsmap.get(None, self._tns_of(node)), qname

    def _type_key_of_element(self, n):
        """Type key of an element declaration node (named type, or a synthetic key for an inline complexType)."""
        if n.get("type"):
            return self._q(n, n.get("type"))
        ct = n.find("{%s}complexType" % XS)
        if ct is not None:
            key = ct.get("__anon")
            if key is None:
                self._anon += 1
                key = "@anon%d_%s" % (self._anon, n.get("name"))
                ct.set("__anon", key)
                self.types[(self._tns_of(n), key)] = ct
            return (self._tns_of(n), key)
        return None

    def _index_elements(self):
        roots = {id(n.getroottree().getroot()): n.getroottree().getroot() for n in list(self.types.values()) + list(self.gelems.values())}
        for root in roots.values():
            for n in root.iter("{%s}element" % XS):
                if n.get("name"):
                    tk = self._type_key_of_element(n)
                    if tk is not None:
                        self.elem_types.setdefault((self._tns_of(n), n.get("name")), set()).add(tk)

    # ------------------------------------------------------------------ naming
    def tag(self, uri, local) -> str:
        p = self.uri2pfx.get(uri)
        if p is None:
            p = "ns%d" % (abs(hash(uri)) % 1000)
            # stable synthetic prefix for namespaces python-pptx does not know
            p = {"http://schemas.openxmlformats.org/drawingml/2006/diagram": "dgm",
                 "http://schemas.openxmlformats.org/drawingml/2006/chartDrawing": "cdr",
                 "http://schemas.openxmlformats.org/drawingml/2006/lockedCanvas": "lc",
                 "http://schemas.openxmlformats.org/officeDocument/2006/sharedTypes": "s"}.get(uri, p)
            self.uri2pfx[uri] = p
        return "%s:%s" % (p, local)

    def clark(self, tag: str) -> str:
        p, local = tag.split(":", 1)
        for u, pp in self.uri2pfx.items():
            if pp == p:
                return "{%s}%s" % (u, local)
        raise KeyError(tag)

    def split(self, tag: str):
        from pptx.oxml.ns import _nsmap
        p, local = tag.split(":", 1)
        return _nsmap[p], local

    # ------------------------------------------------------------------ particles
    def _particle_of_type(self, ct):
        """List of particles (base first) of a complexType node."""
        out = []
        cc = ct.find("{%s}complexContent" % XS)
        body = ct
        if cc is not None:
            ext = cc.find("{%s}extension" % XS)
            rst = cc.find("{%s}restriction" % XS)
            if ext is not None:
                base = self.types.get(self._q(ext, ext.get("base")))
                if base is not None:
                    out += self._particle_of_type(base)
                body = ext
            elif rst is not None:
                body = rst
        for ch in body:
            if _ln(ch) in ("sequence", "choice", "group", "all"):
                out.append(ch)
        return out

    def _leaf_tag(self, n):
        if n.get("ref"):
            u, nm = self._q(n, n.get("ref"))
            return self.tag(u, nm)
        return self.tag(self._tns_of(n), n.get("name"))

    def _leaves(self, n, opt=False):
        """[(tag, required-within-this-particle)] of every element leaf under particle n."""
        ln = _ln(n)
        if ln == "element":
            mn, _ = _occ(n)
            return [(self._leaf_tag(n), mn >= 1 and not opt)]
        if ln == "any" or ln is None:
            return []
        if ln == "group":
            g = self.groups.get(self._q(n, n.get("ref")))
            mn, _ = _occ(n)
            res = []
            for ch in (g if g is not None else []):
                res += self._leaves(ch, opt or mn == 0)
            return res
        if ln in ("sequence", "choice", "all"):
            mn, _ = _occ(n)
            res = []
            for ch in n:
                res += self._leaves(ch, opt or mn == 0 or ln == "choice")
            return res
        return []

    def _emptiable(self, n) -> bool:
        ln = _ln(n)
        mn, _ = _occ(n) if ln in ("element", "group", "sequence", "choice", "all", "any") else (1, 1)
        if mn == 0:
            return True
        if ln == "element":
            return False
        if ln == "any":
            return False
        if ln == "group":
            g = self.groups.get(self._q(n, n.get("ref")))
            return all(self._emptiable(ch) for ch in g if _ln(ch) in ("sequence", "choice", "all"))
        if ln in ("sequence", "all"):
            return all(self._emptiable(ch) for ch in n if _ln(ch))
        if ln == "choice":
            kids = [ch for ch in n if _ln(ch)]
            return any(self._emptiable(ch) for ch in kids) if kids else True
        return True

    def _branches(self, n):
        """Alternatives of a choice particle: each a list of {tag, req}."""
        out = []
        for ch in n:
            ln = _ln(ch)
            if ln is None or ln == "any":
                continue
            if ln == "choice" or (ln == "group" and self._group_is_choice(ch)):
                inner = ch if ln == "choice" else self._group_particle(ch)
                out += self._branches(inner)
            else:
                lv = self._leaves(ch)
                if lv:
                    out.append([{"tag": t, "req": r} for t, r in lv])
        return out

    def _group_particle(self, n):
        g = self.groups.get(self._q(n, n.get("ref")))
        for ch in (g if g is not None else []):
            if _ln(ch) in ("sequence", "choice", "all"):
                return ch
        return None

    def _group_is_choice(self, n):
        p = self._group_particle(n)
        return p is not None and _ln(p) == "choice"

    def _flat(self, n, opt, rep, feats):
        ln = _ln(n)
        if ln is None:
            return []
        if ln == "any":
            feats.add("any")
            return []
        mn, mx = _occ(n)
        if ln == "element":
            t = self._leaf_tag(n)
            return [{"members": [t], "rep": rep or mx > 1, "req": mn >= 1 and not opt, "excl": False,
                     "branches": [[{"tag": t, "req": True}]], "co": 0}]
        if ln == "group":
            inner = self._group_particle(n)
            if inner is None:
                return []
            # occurrence of the reference multiplies into the group's particle
            imn, imx = _occ(inner)
            return self._flat_particle(inner, min(mn, imn) if mn == 0 else imn, max(mx, imx), opt, rep, feats)
        return self._flat_particle(n, mn, mx, opt, rep, feats)

    def _flat_particle(self, n, mn, mx, opt, rep, feats):
        ln = _ln(n)
        rep2 = rep or mx > 1
        if ln == "sequence" and not rep2:
            opt2 = opt or mn == 0
            res = []
            for ch in n:
                res += self._flat(ch, opt2, False, feats)
            return res
        if ln == "sequence":
            lv = self._leaves(n)
            feats.add("repseq")
            if not lv:
                return []
            return [{"members": _uniq([t for t, _ in lv]), "rep": True, "req": mn >= 1 and not opt and not self._emptiable(n), "excl": False,
                     "branches": [[{"tag": t, "req": r} for t, r in lv]], "co": 0, "repseq": True}]
        if ln == "choice":
            br = self._branches(n)
            if not br:
                return []
            if any(len(b) > 1 for b in br):
                feats.add("seq-in-choice")
                refined = self._refine_choice(n, mn, opt, rep2, br, feats)
                if refined is not None:
                    return refined
            return [{"members": _uniq([x["tag"] for b in br for x in b]), "rep": rep2, "req": mn >= 1 and not opt and not self._emptiable(n),
                     "excl": not rep2, "branches": br, "co": 0}]
        if ln == "all":
            lv = self._leaves(n)
            feats.add("all")
            return [{"members": _uniq([t for t, _ in lv]), "rep": False, "req": False, "excl": False,
                     "branches": [[{"tag": t, "req": False}] for t, _ in lv], "co": 0}]
        return []

    def _refine_choice(self, n, mn, opt, rep2, br, feats):
        """REFINEMENT (self.refine): an optional, non-repeatable choice one alternative of which is a SEQUENCE of optional
        leaves (c:dLbls, c:dLbl: `c:delete` | Group_DLbls) is flattened alternative by alternative: the leaves of a
        sequence alternative get slots of their own, in sequence order, and every slot carries alt = id of the choice and
        br = index of its alternative; a schema-permitted context populates slots of ONE alternative only. This is still
        what the schema says (inside the chosen alternative the sequence order is mandatory), it only judges more."""
        if not self.refine or rep2:
            return None
        if any(x["req"] for b in br if len(b) > 1 for x in b):
            return None        # an alternative with required leaves: keep the conservative single slot
        if mn >= 1 and not opt and not self._emptiable(n):
            return None        # a required choice: keep the conservative single slot
        alts = []
        for ch in n:
            ln = _ln(ch)
            if ln is None or ln == "any":
                continue
            if ln == "choice" or (ln == "group" and self._group_is_choice(ch)):
                return None    # nested choice directly inside: keep conservative
            sub = self._flat(ch, True, False, set())
            if sub:
                alts.append(sub)
        self._altid += 1
        out = []
        for bi, sub in enumerate(alts, 1):
            for sl in sub:
                if sl.get("alt"):
                    return None
                sl["alt"], sl["br"], sl["req"] = self._altid, bi, False
                out.append(sl)
        feats.add("refined-choice")
        return out

    # ------------------------------------------------------------------ public
    def slots_of_type(self, tkey) -> dict | None:
        if tkey in self._slots_cache:
            return self._slots_cache[tkey]
        ct = self.types.get(tkey)
        if ct is None:
            self._slots_cache[tkey] = None
            return None
        feats: set = set()
        slots = []
        for p in self._particle_of_type(ct):
            slots += self._flat(p, False, False, feats)
        # optional nested sequences: mark co-groups (members of one optional, non-repeatable nested sequence)
        self._mark_cogroups(ct, slots, feats)
        # collapse duplicates
        changed = True
        while changed:
            changed = False
            pos: dict = {}
            for i, s in enumerate(slots):
                for t in s["members"]:
                    if t in pos and pos[t] != i:
                        lo, hi = pos[t], i
                        if any(s2.get("alt") for s2 in slots[lo:hi + 1]):
                            raise ValueError("duplicate tag %s across a refined choice in %s" % (t, tkey[1]))
                        merged = {"members": _uniq([m for s2 in slots[lo:hi + 1] for m in s2["members"]]), "rep": True, "req": False,
                                  "excl": False, "branches": [[{"tag": m, "req": False}] for s2 in slots[lo:hi + 1] for m in s2["members"]], "co": 0}
                        slots = slots[:lo] + [merged] + slots[hi + 1:]
                        feats.add("dup-collapsed")
                        changed = True
                        break
                    pos[t] = i
                if changed:
                    break
        for s in slots:
            s.setdefault("alt", 0)
            s.setdefault("br", 0)
        res = {"type": tkey[1], "ns": tkey[0], "slots": slots, "features": sorted(feats)}
        self._slots_cache[tkey] = res
        return res

    def _mark_cogroups(self, ct, slots, feats):
        """Members of an optional non-repeatable nested sequence (minOccurs=0, >1 element leaves, at least one required)
        must come together: give their slots a common co-group id and remember which are required within it."""
        by_tag = {}
        for s in slots:
            if len(s["members"]) == 1 and not s["rep"]:
                by_tag[s["members"][0]] = s
        gid = [0]

        def walk(n, in_choice_or_rep):
            ln = _ln(n)
            if ln is None:
                return
            if ln == "group":
                inner = self._group_particle(n)
                mn, mx = _occ(n)
                if inner is not None:
                    imn, imx = _occ(inner)
                    visit(inner, 0 if mn == 0 else imn, max(mx, imx), in_choice_or_rep)
                return
            if ln in ("sequence", "choice", "all"):
                mn, mx = _occ(n)
                visit(n, mn, mx, in_choice_or_rep)

        def visit(n, mn, mx, blocked):
            ln = _ln(n)
            if ln == "choice" or ln == "all" or mx > 1:
                return  # leaves share one slot already
            if ln == "sequence":
                if mn == 0 and not blocked:
                    direct = [ch for ch in n if _ln(ch) == "element"]
                    reqd = [ch for ch in direct if _occ(ch)[0] >= 1]
                    if len(direct) > 1 and reqd:
                        gid[0] += 1
                        feats.add("cogroup")
                        for ch in direct:
                            s = by_tag.get(self._leaf_tag(ch))
                            if s is not None:
                                s["co"] = gid[0]
                                s["coreq"] = _occ(ch)[0] >= 1
                for ch in n:
                    walk(ch, blocked)

        for p in self._particle_of_type(ct):
            walk(p, False)
        for s in slots:
            s.setdefault("coreq", False)

    def types_of_tag(self, tag: str) -> list:
        """Type keys an element named `tag` is declared with anywhere in the schemas."""
        from pptx.oxml.ns import _nsmap
        p, local = tag.split(":", 1)
        uri = _nsmap.get(p)
        return sorted(self.elem_types.get((uri, local), ()), key=lambda k: (k[0] or "", k[1]))

    def content_models(self, tag: str) -> list[dict]:
        out = []
        for tk in self.types_of_tag(tag):
            m = self.slots_of_type(tk)
            if m is not None:
                out.append(m)
        return out


def _uniq(xs):
    seen, out = set(), []
    for x in xs:
        if x not in seen:
            seen.add(x)
            out.append(x)
    return out


if __name__ == "__main__":
    import json
    import sys

    m = XsdModel()
    for t in sys.argv[1:]:
        for cm in m.content_models(t):
            print(t, cm["type"], cm["features"])
            for i, s in enumerate(cm["slots"], 1):
                print("  %2d %s rep=%s req=%s excl=%s co=%s alt=%s/%s%s" % (i, s["members"], s["rep"], s["req"], s["excl"], s["co"], s["alt"], s["br"],
                                                              "" if all(len(b) == 1 for b in s["branches"]) else " branches=" + json.dumps(s["branches"])))
