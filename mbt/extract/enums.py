"""Extraction for C20: enumerations, their schema simple types, autoshape_types, presetShapeDefinitions.xml, chart types.

Everything is read at run time from the live classes and the files shipped in /repo/spec; the output of `tables()` is
JSON-native (no nulls, no floats, ints < 2^31) and is what spec/EnumTables.tla evaluates.
"""
from __future__ import annotations

import importlib
import os
import pkgutil
import re

from lxml import etree

from mbt.extract import simpletypes as S

REPO = S.REPO
PRESETS = os.path.join(REPO, "spec", "ISO-IEC-29500-1", "schemas", "dml-geometries", "OfficeOpenXML-DrawingMLGeometries",
                       "presetShapeDefinitions.xml")
A_NS = "http://schemas.openxmlformats.org/drawingml/2006/main"
C_NS = "http://schemas.openxmlformats.org/drawingml/2006/chart"

# Enumerations written to an attribute without an xmlchemy declaration. One entry, read off the code:
# oxml/shapes/groupshape.py CT_Connector.new_cxnSp writes MSO_CONNECTOR_TYPE.to_xml(..) into a:prstGeom/@prst.
UNDECLARED_USES = {"MSO_CONNECTOR_TYPE": [("a", A_NS, "prstGeom", "prst", "CT_PresetGeometry2D")]}


def xml_enums() -> list[dict]:
    """Every BaseXmlEnum subclass bound in a pptx.enum.* module, under every name it is bound to (aliases)."""
    import pptx.enum
    from pptx.enum.base import BaseXmlEnum
    found: dict = {}
    for mi in pkgutil.iter_modules(pptx.enum.__path__):
        mod = importlib.import_module("pptx.enum." + mi.name)
        for nm, obj in sorted(vars(mod).items()):
            if isinstance(obj, type) and issubclass(obj, BaseXmlEnum) and obj is not BaseXmlEnum:
                e = found.setdefault(obj, {"cls": obj, "name": obj.__name__, "module": obj.__module__, "bound_as": []})
                b = "%s.%s" % (mod.__name__, nm)
                if b not in e["bound_as"]:
                    e["bound_as"].append(b)
    return sorted(found.values(), key=lambda e: e["name"])


def exc_name(fn, *a):
    try:
        return True, fn(*a)
    except Exception as ex:  # recorded, judged by TLC
        return False, type(ex).__name__


def enum_table(xsd: S.Xsd) -> tuple[list[dict], list]:
    """Per enumeration: members (every name in __members__, python-level aliases flagged), recorded to_xml/from_xml
    round trip from the REAL class, and its uses (tag@attr -> XSD type -> enumeration | none)."""
    rows, _ = S.joined(xsd)
    uses: dict = {}
    for r in rows:
        if S.is_xml_enum(r["st"]):
            uses.setdefault(r["st"].__name__, [])
            for t in r["xsd_types"]:
                u = (r["pfx"], r["tag"], r["attr"], t)
                if u not in uses[r["st"].__name__]:
                    uses[r["st"].__name__].append(u)
    for en, lst in UNDECLARED_USES.items():
        for pfx, uri, tag, attr, cls in lst:
            types, _ = xsd.attr_type(uri, tag, attr, cls)
            for t in types:
                uses.setdefault(en, []).append((pfx, tag, attr, t))
    probe_types = [t for lst in uses.values() for (_, _, _, t) in lst]
    probe = S.Probe(xsd, probe_types) if probe_types else None
    out = []
    for e in xml_enums():
        cls = e["cls"]
        members = []
        for nm, m in cls.__members__.items():
            tok = m.xml_value
            has = isinstance(tok, str) and tok != ""
            rec = {"name": nm, "canonical": m.name, "pyAlias": nm != m.name, "value": int(m.value),
                   "tok": tok if isinstance(tok, str) else "", "hasTok": has}
            ok, x = exc_name(cls.to_xml, m)
            rec["toXml"] = x if ok and isinstance(x, str) else "!" + str(x)
            if has:
                ok2, back = exc_name(cls.from_xml, tok)
                rec["fromXml"] = back.name if ok2 and isinstance(back, cls) else "!" + str(back)
                ok3, rt = (exc_name(cls.from_xml, x) if ok else (False, "to_xml:" + str(x)))
                rec["roundTrip"] = rt.name if ok3 and isinstance(rt, cls) else "!" + str(rt)
            else:
                rec["fromXml"], rec["roundTrip"] = "", ""
            members.append(rec)
        us = []
        for pfx, tag, attr, t in uses.get(e["name"], []):
            fc = xsd.facets(t)
            us.append({"site": "%s:%s@%s" % (pfx, tag, attr), "xsdType": S.Xsd.type_name(t), "hasEnum": fc["enum"] is not None,
                       "xsdEnum": fc["enum"] or [],
                       # for simple types without an enumeration (ST_Lang = xsd:string) the schema itself judges the token
                       "lexValid": [m["name"] for m in members if m["hasTok"] and probe.valid(t, m["tok"])]})
        out.append({"name": e["name"], "module": e["module"], "boundAs": e["bound_as"], "members": members, "uses": us})
    return out, rows


def shape_table() -> list[dict]:
    """pptx.spec.autoshape_types keyed by member name."""
    from pptx.enum.shapes import MSO_AUTO_SHAPE_TYPE
    from pptx.spec import autoshape_types
    res = []
    for k, v in autoshape_types.items():
        m = MSO_AUTO_SHAPE_TYPE(k)
        res.append({"member": m.name, "value": int(m.value), "basename": v["basename"],
                    "av": [{"n": n, "v": int(d)} for n, d in v["avLst"]]})
    return res


_VAL = re.compile(r"^val (-?\d+)$")


def preset_table() -> list[dict]:
    """presetShapeDefinitions.xml: per preset NAME the avLst guides in document order; default = N of fmla='val N'.
    The file shipped with the standard defines one name twice (upDownArrow) and has no definition for another
    ST_ShapeType token (upArrow): every definition under a name is kept (`alts`, distinct ones only) and a table entry
    agrees with the standard when it equals ANY of them."""
    root = etree.parse(PRESETS).getroot()
    res: dict = {}
    for p in root:
        if not isinstance(p.tag, str):
            continue
        av = []
        for gd in p.findall("{%s}avLst/{%s}gd" % (A_NS, A_NS)):
            m = _VAL.match(gd.get("fmla", "").strip())
            av.append({"n": gd.get("name"), "isVal": bool(m), "v": int(m.group(1)) if m else 0, "fmla": gd.get("fmla", "")})
        e = res.setdefault(etree.QName(p).localname, {"name": etree.QName(p).localname, "count": 0, "alts": []})
        e["count"] += 1
        if av not in e["alts"]:
            e["alts"].append(av)
    return list(res.values())


def chart_data_for(ct):
    """Smallest chart data the writer of this chart type accepts."""
    from pptx.chart.data import BubbleChartData, CategoryChartData, XyChartData
    n = ct.name
    if n.startswith("XY_SCATTER"):
        cd = XyChartData()
        s = cd.add_series("S1")
        s.add_data_point(1, 2)
        s.add_data_point(3, 4)
        return cd
    if n.startswith("BUBBLE"):
        cd = BubbleChartData()
        s = cd.add_series("S1")
        s.add_data_point(1, 2, 3)
        s.add_data_point(3, 4, 5)
        return cd
    cd = CategoryChartData()
    cd.categories = ["a", "b"]
    cd.add_series("S1", (1, 2))
    cd.add_series("S2", (3, 4))
    return cd


def chart_table(xsd: S.Xsd) -> list[dict]:
    """Per XL_CHART_TYPE member: whether the library can write it (ChartXmlWriter yields XML), the plot elements of the
    XML it writes, every enumerated c:*/@val token of that XML with its schema enumeration, and what PlotTypeInspector
    reads back from the (re-parsed) XML."""
    from pptx.chart.plot import PlotFactory, PlotTypeInspector
    from pptx.chart.xmlwriter import ChartXmlWriter
    from pptx.enum.chart import XL_CHART_TYPE
    from pptx.oxml import parse_xml
    res = []
    for ct in XL_CHART_TYPE:
        rec = {"member": ct.name, "value": int(ct.value), "writable": False, "why": "", "plots": [], "read": "", "tokens": []}
        try:
            xml = ChartXmlWriter(ct, chart_data_for(ct)).xml
        except NotImplementedError:
            rec["why"] = "NotImplementedError"
            res.append(rec)
            continue
        except Exception as ex:
            rec["why"] = "!" + type(ex).__name__
            res.append(rec)
            continue
        rec["writable"] = True
        cs = parse_xml(xml.encode("utf-8") if isinstance(xml, str) else xml)
        plain = etree.fromstring(etree.tostring(cs))
        plot_area = plain.find(".//{%s}plotArea" % C_NS)
        rec["plots"] = [etree.QName(ch).localname for ch in plot_area if isinstance(ch.tag, str) and etree.QName(ch).localname.endswith("Chart")]
        for el in plain.iter():
            if not isinstance(el.tag, str) or etree.QName(el).namespace != C_NS or el.get("val") is None:
                continue
            types, _ = xsd.attr_type(C_NS, etree.QName(el).localname, "val")
            fcs = [xsd.facets(t) for t in types]
            fcs = [fc for fc in fcs if fc["enum"] is not None]
            if fcs:
                # several element declarations may share the name (c:grouping: ST_Grouping | ST_BarGrouping by parent):
                # the token must be in the enumeration of at least one of them
                tk = {"site": "c:%s@val" % etree.QName(el).localname, "tok": el.get("val"),
                      "xsdType": "|".join(fc["name"] for fc in fcs), "inEnum": any(el.get("val") in fc["enum"] for fc in fcs)}
                if tk not in rec["tokens"]:
                    rec["tokens"].append(tk)
        try:
            plots = cs.xpath(".//c:plotArea/*[substring(name(), string-length(name()) - 4) = 'Chart']")
            plot = PlotFactory(plots[0], None)
            rec["read"] = PlotTypeInspector.chart_type(plot).name
        except Exception as ex:
            rec["read"] = "!" + type(ex).__name__
        res.append(rec)
    return res


def tables() -> dict:
    xsd = S.Xsd()
    enums, _ = enum_table(xsd)
    return {"enums": enums, "shapes": shape_table(), "presets": preset_table(), "charts": chart_table(xsd)}


if __name__ == "__main__":
    t = tables()
    for e in t["enums"]:
        print(e["name"], e["boundAs"], len(e["members"]), "tok:", sum(m["hasTok"] for m in e["members"]),
              "pyAlias:", [m["name"] for m in e["members"] if m["pyAlias"]],
              [(u["site"], u["xsdType"], u["hasEnum"], len(u["xsdEnum"])) for u in e["uses"]])
    print("shapes", len(t["shapes"]), "presets", len(t["presets"]), "nonval", [(p["name"], a) for p in t["presets"] for av in p["alts"] for a in av if not a["isVal"]][:5],
          "dups", [(p["name"], p["count"], len(p["alts"])) for p in t["presets"] if p["count"] > 1])
    print("charts", len(t["charts"]), "writable", sum(c["writable"] for c in t["charts"]))
    for c in t["charts"]:
        if c["writable"]:
            print("  ", c["member"], c["plots"], c["read"], [(k["site"], k["tok"], k["inEnum"]) for k in c["tokens"]][:6])
        else:
            print("  -", c["member"], c["why"])
