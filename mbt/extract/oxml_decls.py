"""Extract, from the LIVE python-pptx classes (working tree), every child-element declaration of every registered
element class: kind, child tag, successors tuple, choice-group membership, and which generated methods exist.

No hook is needed: the metaclass turns each `x = ZeroOrOne("a:x", successors=(...))` into methods `_insert_x`,
`_add_x`, `get_or_add_x`, ... whose closures hold the declaration object (`_BaseChildElement`: `_nsptagname`,
`_successors`).  A method of that name that is NOT such a closure is hand-written (xmlchemy never overwrites an
existing attribute, `_add_to_class`) and is reported as `custom`.

Also: the reachability scan (every identifier / attribute name / short string literal that occurs anywhere under
src/pptx), used to tell a declaration some API can reach from one nothing ever names.
"""
from __future__ import annotations

import ast
import os
import re

PREFIXES = ("_insert_", "_add_", "add_", "get_or_add_", "get_or_change_to_", "_remove_", "_new_")


def registry() -> list[tuple[str, type]]:
    """[(nsptag, class)] for every registered element class, sorted by tag."""
    import pptx  # noqa: F401
    import pptx.opc.oxml  # noqa: F401  (registers ct:/pr: classes)
    from pptx.oxml import element_class_lookup
    from pptx.oxml.ns import _nsmap

    out = []
    for pfx, uri in _nsmap.items():
        ns = element_class_lookup.get_namespace(uri)
        for local, cls in ns.items():
            if local is None:
                continue
            local = local.decode() if isinstance(local, bytes) else local
            out.append(("%s:%s" % (pfx, local), cls))
    return sorted(out, key=lambda x: x[0])


def _decl_of(func):
    """The _BaseChildElement held in the closure of a generated method, or None."""
    from pptx.oxml import xmlchemy as X

    func = getattr(func, "__func__", func)
    if isinstance(func, property):
        func = func.fget
    cl = getattr(func, "__closure__", None)
    if not cl:
        return None
    for cell in cl:
        try:
            v = cell.cell_contents
        except ValueError:
            continue
        if isinstance(v, X._BaseChildElement):
            return v
    return None


def _method_info(cls, name, decl):
    """{'name', 'generated'} for cls.<name>, or None if the class has no such attribute. `generated` is True when the
    attribute is the xmlchemy closure of this very declaration."""
    if not hasattr(cls, name):
        return None
    f = getattr(cls, name)
    d = _decl_of(f)
    owner = next((k.__name__ for k in cls.__mro__ if name in k.__dict__), "?")
    return {"name": name, "generated": d is decl, "foreign_decl": (d is not None and d is not decl), "defined_in": owner}


def class_decls(cls) -> list[dict]:
    """All child declarations reachable through the generated methods of `cls` (inherited ones included)."""
    from pptx.oxml import xmlchemy as X

    found: dict[int, object] = {}
    for name in dir(cls):
        if not name.startswith(PREFIXES):
            continue
        try:
            f = getattr(cls, name)
        except Exception:
            continue
        d = _decl_of(f)
        if d is not None and not isinstance(d, X.ZeroOrOneChoice):
            found.setdefault(id(d), d)
    # choice groups: the group remover closes over the ZeroOrOneChoice; members are Choice objects found above
    groups: dict[int, object] = {}
    for name in dir(cls):
        if not name.startswith("_remove_"):
            continue
        d = _decl_of(getattr(cls, name))
        if isinstance(d, X.ZeroOrOneChoice):
            groups[id(d)] = d
    member_group = {}
    for g in groups.values():
        for ch in g._choices:
            member_group[id(ch)] = g
    out = []
    for d in found.values():
        kind = type(d).__name__
        if kind == "OneAndOnlyOne":
            continue
        prop = d._prop_name
        g = member_group.get(id(d))
        rec = {
            "prop": prop,
            "kind": kind,
            "child": d._nsptagname,
            "successors": [str(s) for s in (d._successors or ())],
            "group": g._prop_name if g is not None else None,
            "group_members": [c.nsptagname for c in g._choices] if g is not None else [],
            "methods": {},
        }
        names = {"insert": "_insert_" + prop, "add": "_add_" + prop, "new": "_new_" + prop}
        if kind == "ZeroOrOne":
            names["get_or_add"] = "get_or_add_" + prop
            names["remove"] = "_remove_" + prop
        if kind == "OneOrMore":
            names["public_add"] = "add_" + prop
        if kind == "Choice":
            names["change_to"] = "get_or_change_to_" + prop
            if g is not None:
                names["remove_group"] = "_remove_" + g._prop_name
        for role, nm in names.items():
            mi = _method_info(cls, nm, g if role == "remove_group" else d)
            if mi is not None:
                rec["methods"][role] = mi
        out.append(rec)
    out.sort(key=lambda r: (r["child"], r["prop"]))
    return out


# ---------------------------------------------------------------------------------------------------------------
# behavioural extraction: the same facts read from what the generated methods DO, not from how xmlchemy stores them.
# Used whenever closure introspection does not account for every generated-method family of a class (a refactoring of
# xmlchemy's internals - renamed private attributes, closures turned into partials or helper classes - must not break
# the check: the method NAMES `_insert_x`, `_add_x`, `get_or_add_x`, ... are the interface the rest of the library calls).

def _nsptag(el) -> str:
    from lxml import etree
    from pptx.oxml.ns import _nsmap
    q = etree.QName(el)
    for pfx, uri in _nsmap.items():
        if uri == q.namespace:
            return "%s:%s" % (pfx, q.localname)
    return "?:%s" % q.localname


def _fresh(tag: str):
    from pptx.oxml.xmlchemy import OxmlElement
    return OxmlElement(tag)


def props_by_name(cls) -> list[str]:
    """Every x for which the class has an `_insert_x` method (each child declaration but OneAndOnlyOne generates one)."""
    return sorted(n[len("_insert_"):] for n in dir(cls) if n.startswith("_insert_") and callable(getattr(cls, n, None)))


def behavioural_child(tag: str, prop: str):
    """The tag of the child that `_new_<prop>()` / `_add_<prop>()` creates on a fresh parent, or None."""
    parent = _fresh(tag)
    for nm in ("_new_" + prop, "_add_" + prop):
        f = getattr(parent, nm, None)
        if f is None:
            continue
        try:
            el = f()
        except Exception:
            continue
        if el is not None and hasattr(el, "tag"):
            return _nsptag(el)
    return None


def behavioural_successors(tag: str, prop: str, candidates: list[str]) -> list[str]:
    """The candidate sibling tags that `_insert_<prop>` places the new child BEFORE (one sibling at a time)."""
    out = []
    for s in candidates:
        parent = _fresh(tag)
        try:
            sib = _fresh(s)
            parent.append(sib)
            child = getattr(parent, "_new_" + prop)()
            getattr(parent, "_insert_" + prop)(child)
        except Exception:
            continue
        kids = list(parent)
        if child in kids and sib in kids and kids.index(child) < kids.index(sib):
            out.append(s)
    return out


def class_decls_behavioural(cls, tag: str) -> list[dict]:
    out = []
    props = props_by_name(cls)
    child_of = {p: behavioural_child(tag, p) for p in props}
    choices = [p for p in props if hasattr(cls, "get_or_change_to_" + p) and child_of[p]]
    group_of: dict[str, list[str]] = {}
    for x in choices:                       # y is in x's group iff changing to x removes a y that was there
        grp = [x]
        for y in choices:
            if y == x:
                continue
            parent = _fresh(tag)
            try:
                getattr(parent, "get_or_change_to_" + y)()
                getattr(parent, "get_or_change_to_" + x)()
            except Exception:
                continue
            if not any(_nsptag(k) == child_of[y] for k in parent):
                grp.append(y)
        group_of[x] = [child_of[g] for g in sorted(grp, key=choices.index)]
    for prop in props:
        child = child_of[prop]
        if child is None:
            continue
        if prop in choices:
            kind = "Choice"
        elif hasattr(cls, "get_or_add_" + prop):
            kind = "ZeroOrOne"
        elif hasattr(cls, "add_" + prop):
            kind = "OneOrMore"
        else:
            kind = "ZeroOrMore"
        names = {"insert": "_insert_" + prop, "add": "_add_" + prop, "new": "_new_" + prop}
        if kind == "ZeroOrOne":
            names["get_or_add"] = "get_or_add_" + prop
            names["remove"] = "_remove_" + prop
        if kind == "OneOrMore":
            names["public_add"] = "add_" + prop
        if kind == "Choice":
            names["change_to"] = "get_or_change_to_" + prop
        methods = {}
        for role, nm in names.items():
            if hasattr(cls, nm):
                owner = next((k.__name__ for k in cls.__mro__ if nm in k.__dict__), "?")
                methods[role] = {"name": nm, "generated": True, "foreign_decl": False, "defined_in": owner}
        out.append({"prop": prop, "kind": kind, "child": child, "successors": None,      # None: filled per XSD type by the caller
                    "group": None, "group_members": group_of.get(prop, []), "methods": methods, "behavioural": True})
    out.sort(key=lambda r: (r["child"], r["prop"]))
    return out


def decls_for(cls, tag: str) -> tuple[list[dict], str]:
    """(declarations, how): closure introspection when it accounts for every `_insert_x` family of the class, else behaviour."""
    try:
        d = class_decls(cls)
        have = {x["prop"] for x in d}
        if all(p in have for p in props_by_name(cls) if behavioural_child(tag, p) is not None or p in have):
            return d, "closures"
        missing = [p for p in props_by_name(cls) if p not in have and behavioural_child(tag, p) is not None]
        if not missing:
            return d, "closures"
    except Exception:
        pass
    return class_decls_behavioural(cls, tag), "behaviour"


def extract() -> dict:
    reg = registry()
    elements = []
    how = {}
    for tag, cls in reg:
        decls, h = decls_for(cls, tag)
        how[h] = how.get(h, 0) + 1
        elements.append({"tag": tag, "cls": cls.__name__, "module": cls.__module__, "decls": decls, "how": h})
    return {
        "elements": elements,
        "n_tags": len(reg),
        "n_classes": len({c for _, c in reg}),
        "n_decls": sum(len(e["decls"]) for e in elements),
        "n_class_decls": len({(e["cls"], d["prop"]) for e in elements for d in e["decls"]}),
        "extraction": how,
    }


# ---------------------------------------------------------------------------------------------------------------
# reachability: which names does the library itself ever mention?


def named_identifiers(src_root: str) -> dict[str, list[str]]:
    """name -> ["relpath:line", ...] for every attribute access, bare name and short string literal under src_root.
    Method DEFINITIONS are not mentions.  Over-approximate (name-based, class-agnostic) on purpose."""
    seen: dict[str, list[str]] = {}
    for dp, _, fns in os.walk(src_root):
        for fn in sorted(fns):
            if not fn.endswith(".py"):
                continue
            p = os.path.join(dp, fn)
            try:
                tree = ast.parse(open(p, encoding="utf-8").read())
            except SyntaxError:
                continue
            rel = os.path.relpath(p, src_root)
            for node in ast.walk(tree):
                nm = None
                if isinstance(node, ast.Attribute):
                    nm = node.attr
                elif isinstance(node, ast.Name):
                    nm = node.id
                elif isinstance(node, ast.Constant) and isinstance(node.value, str) and len(node.value) < 64 and node.value.isidentifier():
                    nm = node.value
                if nm:
                    seen.setdefault(nm, []).append("%s:%d" % (rel, getattr(node, "lineno", 0)))
    return seen


def handwritten_sites(src_root: str) -> list[str]:
    """Call sites outside xmlchemy.py that place an element by hand (lxml append/insert/addprevious/addnext, or
    insert_element_before with literal successors). Name-based, over-approximate (list.append/insert are caught too when
    the receiver is not an obvious list literal); listed in the evidence, judged by C03's XSD monitor, not here."""
    out = []
    for dp, _, fns in os.walk(src_root):
        for fn in sorted(fns):
            p = os.path.join(dp, fn)
            if not fn.endswith(".py") or p.endswith(os.path.join("oxml", "xmlchemy.py")):
                continue
            try:
                tree = ast.parse(open(p, encoding="utf-8").read())
            except SyntaxError:
                continue
            rel = os.path.relpath(p, src_root)
            for node in ast.walk(tree):
                if isinstance(node, ast.Call) and isinstance(node.func, ast.Attribute):
                    a = node.func.attr
                    if a in ("addprevious", "addnext", "insert_element_before"):
                        out.append("%s:%d %s" % (rel, node.lineno, a))
                    elif a in ("append", "insert"):
                        recv = ast.unparse(node.func.value)
                        if rel.split(os.sep)[0] == "oxml" or re.search(r"spTree|_element|_elm|grpSp|txBody|[a-z]Lst\b|xChart|plotArea", recv):
                            out.append("%s:%d %s.%s" % (rel, node.lineno, recv[:40], a))
    return sorted(out)


def entry_points(decl: dict) -> list[str]:
    """Names through which the library could reach the inserter of this declaration."""
    return [m["name"] for role, m in decl["methods"].items() if role in ("insert", "add", "public_add", "get_or_add", "change_to")]


def reachability(decl: dict, names: dict[str, list[str]]) -> dict:
    callers = {}
    for nm in entry_points(decl):
        if nm in names:
            callers[nm] = names[nm][:4]
    rm = {}
    for role in ("remove", "remove_group"):
        m = decl["methods"].get(role)
        if m and m["name"] in names:
            rm[m["name"]] = names[m["name"]][:4]
    return {"insert_reachable": bool(callers), "callers": callers, "remove_callers": rm}


if __name__ == "__main__":
    import json
    import sys

    x = extract()
    print(json.dumps({k: v for k, v in x.items() if k != "elements"}))
    if len(sys.argv) > 1:
        for e in x["elements"]:
            if e["tag"] == sys.argv[1]:
                print(json.dumps(e, indent=1))
