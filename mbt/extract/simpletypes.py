"""Extraction for C11 (and the attribute -> XSD-type join that C20 reuses). Everything is read at run time:

* `attribute_decls()`  — every RequiredAttribute/OptionalAttribute declaration on a registered oxml element class
  (property fget closure holding an xmlchemy.BaseAttribute: `_attr_name`, `_simple_type`), one row per (tag, attribute).
* `Xsd`                — a small reader of the ISO/IEC 29500 XSD files shipped in /repo/spec: element name -> complex
  types, attributes of a complex type (attribute groups, extensions, `ref=`), simple type -> facets
  [base, minIncl, maxIncl, minExcl, maxExcl, enum, pattern, length, union members].
* `Probe`              — the schema itself as the judge of lexical validity: a wrapper schema that imports the real XSD
  and declares one probe element per simple type with a single attribute `v` of exactly that type (lxml XMLSchema).

No python-pptx class is trusted for anything but its own declarations.
"""
from __future__ import annotations

import glob
import os
import re

from lxml import etree

REPO = (os.environ.get("VERIF_REPO") or "/repo")
XSD_DIRS = [os.path.join(REPO, "spec", "ISO-IEC-29500-4", "xsd"), os.path.join(REPO, "spec", "ISO-IEC-29500-2", "opc-xsd")]
XS = "http://www.w3.org/2001/XMLSchema"
XSQ = "{%s}" % XS
# files that need the network (dc/dcterms by URL) or are irrelevant here
SKIP_FILES = {"opc-coreProperties.xsd", "opc-digSig.xsd"}

# bounds of the XSD built-in integer types (the "base type's bounds" of the anchored tokens)
BUILTIN_INT = {
    "byte": (-128, 127), "unsignedByte": (0, 255), "short": (-32768, 32767), "unsignedShort": (0, 65535),
    "int": (-2**31, 2**31 - 1), "unsignedInt": (0, 2**32 - 1), "long": (-2**63, 2**63 - 1),
    "unsignedLong": (0, 2**64 - 1), "integer": (None, None), "nonNegativeInteger": (0, None), "positiveInteger": (1, None),
}
BUILTIN_KIND = {"double": "float", "float": "float", "decimal": "decimal", "boolean": "boolean", "string": "string",
                "token": "string", "normalizedString": "string", "NCName": "string", "ID": "string", "anyURI": "string",
                "hexBinary": "hex", "dateTime": "string", "base64Binary": "string", "NMTOKEN": "string"}


# --------------------------------------------------------------------------------------------
# the library's declarations


def registry() -> dict:
    """{element class: [nsptag, ...]} for every registered tag (no hook: lxml's class-lookup namespaces)."""
    import pptx  # noqa: F401
    import pptx.opc.oxml  # noqa: F401  registers ct:/pr: classes
    from pptx.oxml import element_class_lookup
    from pptx.oxml.ns import _nsmap
    extra = {"ct": "http://schemas.openxmlformats.org/package/2006/content-types",
             "pr": "http://schemas.openxmlformats.org/package/2006/relationships"}
    uris = dict(_nsmap)
    uris.update(extra)
    res: dict = {}
    for pfx, uri in sorted(uris.items()):
        for tag, cls in element_class_lookup.get_namespace(uri).items():
            if tag is None:
                continue
            t = tag.decode() if isinstance(tag, bytes) else tag
            lst = res.setdefault(cls, [])
            if (pfx, uri, t) not in lst:
                lst.append((pfx, uri, t))
    return res


def _is_simple_type(v) -> bool:
    import enum
    if not isinstance(v, type):
        return False
    if issubclass(v, enum.Enum):
        return True
    return any(k.__name__ == "BaseSimpleType" for k in v.__mro__)


def _decl_fields(cc, pname: str):
    """(attribute name, simple-type class, has_default, default) of an attribute declaration object, read by what its fields HOLD
    rather than by their private names (a renamed `_simple_type` must not break the check); None if cc is no declaration."""
    try:
        fields = dict(vars(cc))
    except TypeError:
        return None
    if isinstance(fields.get("_attr_name"), str) and _is_simple_type(fields.get("_simple_type")):        # the names of the pinned tree
        return fields["_attr_name"], fields["_simple_type"], "_default" in fields, fields.get("_default")
    sts = [v for v in fields.values() if _is_simple_type(v)]
    if len(sts) != 1:
        return None
    strs = [v for k, v in fields.items() if isinstance(v, str) and not v.startswith("{") and "default" not in k.lower()]
    if not strs:
        return None
    other = [v for v in strs if v != pname]
    attr = other[0] if other else pname
    dkeys = [k for k in fields if "default" in k.lower()]
    return attr, sts[0], bool(dkeys), (fields[dkeys[0]] if dkeys else None)


def attribute_decls() -> list[dict]:
    """One row per (registered tag, declared attribute): element class, property name, attribute name, simple-type
    class (the live class object under key 'st'), declaration kind, default."""
    rows = []
    for cls, tags in sorted(registry().items(), key=lambda kv: kv[0].__name__):
        seen = set()
        for klass in cls.__mro__:
            for pname, val in vars(klass).items():
                if pname in seen or not isinstance(val, property) or val.fget is None or not val.fget.__closure__:
                    continue
                for cell in val.fget.__closure__:
                    try:
                        cc = cell.cell_contents
                    except ValueError:
                        continue
                    if type(cc).__module__ != "pptx.oxml.xmlchemy" or isinstance(cc, type):
                        continue
                    got = _decl_fields(cc, pname)
                    if got is not None:
                        attr, st, has_default, default = got
                        seen.add(pname)
                        for pfx, uri, t in sorted(tags):
                            rows.append({"cls": cls, "clsname": cls.__name__, "prop": pname, "attr": attr,
                                         "st": st, "stname": st.__name__,
                                         "kind": type(cc).__name__, "default": default,
                                         "has_default": has_default,
                                         "pfx": pfx, "uri": uri, "tag": t})
                        break
    return rows


# --------------------------------------------------------------------------------------------
# the standard's schemas


class Xsd:
    def __init__(self):
        self.files = {}          # path -> (tns, root)
        self.simple = {}         # (tns, name) -> node
        self.complex = {}        # (tns, name) -> node
        self.attrgroups = {}     # (tns, name) -> node
        self.attrs = {}          # (tns, name) -> node   top-level attributes (r:id ...)
        self.elements = {}       # (tns, local name) -> [type qname (tns, name) | inline complexType node]
        self.file_of_ns = {}
        for d in XSD_DIRS:
            for p in sorted(glob.glob(os.path.join(d, "*.xsd"))):
                if os.path.basename(p) in SKIP_FILES:
                    continue
                root = etree.parse(p).getroot()
                tns = root.get("targetNamespace")
                self.files[p] = (tns, root)
                self.file_of_ns.setdefault(tns, p)
                for n in root:
                    if not isinstance(n.tag, str):
                        continue
                    k = (tns, n.get("name"))
                    if n.tag == XSQ + "simpleType":
                        self.simple[k] = n
                    elif n.tag == XSQ + "complexType":
                        self.complex[k] = n
                    elif n.tag == XSQ + "attributeGroup":
                        self.attrgroups[k] = n
                    elif n.tag == XSQ + "attribute":
                        self.attrs[k] = n
                for e in root.iter(XSQ + "element"):
                    nm = e.get("name")
                    if nm is None:
                        continue
                    if e.get("type") is not None:
                        self.elements.setdefault((tns, nm), []).append(self.qname(e, e.get("type")))
                    else:
                        ct = e.find(XSQ + "complexType")
                        if ct is not None:
                            self.elements.setdefault((tns, nm), []).append(ct)

    @staticmethod
    def qname(node, q: str) -> tuple:
        if ":" in q:
            pfx, local = q.split(":", 1)
            return (node.nsmap.get(pfx), local)
        return (node.nsmap.get(None) or node.getroottree().getroot().get("targetNamespace"), q)

    def tns_of(self, node) -> str:
        return node.getroottree().getroot().get("targetNamespace")

    # ---- attributes of a complex type ------------------------------------------------------
    def attributes_of(self, ct, _depth=0) -> dict:
        """{(ns or None, attr name): type qname | inline simpleType node} for a complexType node or qname."""
        if isinstance(ct, tuple):
            ct = self.complex.get(ct)
        res: dict = {}
        if ct is None or _depth > 12:
            return res

        def walk(n):
            for ch in n:
                if not isinstance(ch.tag, str):
                    continue
                if ch.tag == XSQ + "attribute":
                    if ch.get("ref"):
                        q = self.qname(ch, ch.get("ref"))
                        top = self.attrs.get(q)
                        if top is not None:
                            res[(q[0], q[1])] = self._attr_type(top)
                    else:
                        res[(None, ch.get("name"))] = self._attr_type(ch)
                elif ch.tag == XSQ + "attributeGroup" and ch.get("ref"):
                    g = self.attrgroups.get(self.qname(ch, ch.get("ref")))
                    if g is not None:
                        walk(g)
                elif ch.tag in (XSQ + "complexContent", XSQ + "simpleContent"):
                    walk(ch)
                elif ch.tag in (XSQ + "extension", XSQ + "restriction"):
                    if ch.get("base"):
                        base = self.qname(ch, ch.get("base"))
                        for k, v in self.attributes_of(base, _depth + 1).items():
                            res.setdefault(k, v)
                    walk(ch)
        walk(ct)
        return res

    def _attr_type(self, a):
        if a.get("type"):
            return self.qname(a, a.get("type"))
        st = a.find(XSQ + "simpleType")
        return st if st is not None else (XS, "anySimpleType")

    def attr_type(self, uri: str, tag: str, attr: str, clsname: str | None = None):
        """XSD type(s) of attribute `attr` ('r:id' style prefix allowed) on element {uri}tag. Returns
        (list of distinct type keys, list of complex type names). Candidates are all element declarations of that
        name in that namespace whose complex type declares the attribute. Several may remain (c:grouping is ST_Grouping
        under c:areaChart/c:lineChart and ST_BarGrouping under c:barChart; one python class serves both): ALL are returned
        and a lexical form counts as valid when ANY of them accepts it (the conservative reading)."""
        from pptx.oxml.ns import _nsmap
        if ":" in attr:
            pfx, local = attr.split(":", 1)
            key = (_nsmap[pfx], local)
        else:
            key = (None, attr)
        cands = []
        for ct in self.elements.get((uri, tag), []):
            at = self.attributes_of(ct)
            if key in at:
                nm = ct[1] if isinstance(ct, tuple) else "(inline)"
                if (nm, at[key]) not in cands:
                    cands.append((nm, at[key]))
        types = []
        for _, t in cands:
            if self.type_key(t) not in [self.type_key(x) for x in types]:
                types.append(t)
        return types, [c[0] for c in cands]

    @staticmethod
    def type_key(t) -> str:
        if isinstance(t, tuple):
            return "%s|%s" % t
        return "inline@%s:%d" % (t.getroottree().docinfo.URL, t.sourceline)

    @staticmethod
    def type_name(t) -> str:
        if isinstance(t, tuple):
            return ("xsd:" + t[1]) if t[0] == XS else t[1]
        return "(inline:%d)" % t.sourceline

    # ---- simple type -> facets -------------------------------------------------------------------
    def facets(self, t, _depth=0) -> dict:
        """Reduce a simple type (qname or inline node) to
        {name, builtin (root built-in type or 'union'/'list'), kind, minIncl, maxIncl, minExcl, maxExcl (python ints/str or
        None), enum [..] | None, patterns [..], length | None, union [facets ...], chain [type names]}.
        Bounds are the TIGHTEST along the derivation chain, the built-in's own bounds included."""
        res = {"name": self.type_name(t), "builtin": None, "kind": None, "minIncl": None, "maxIncl": None, "minExcl": None,
               "maxExcl": None, "enum": None, "patterns": [], "length": None, "union": [], "chain": [self.type_name(t)]}
        if _depth > 12:
            return res
        if isinstance(t, tuple) and t[0] == XS:
            res["builtin"] = t[1]
            res["kind"] = "int" if t[1] in BUILTIN_INT else BUILTIN_KIND.get(t[1], "string")
            if t[1] in BUILTIN_INT:
                res["minIncl"], res["maxIncl"] = BUILTIN_INT[t[1]]
            return res
        node = self.simple.get(t) if isinstance(t, tuple) else t
        if node is None:
            res["builtin"], res["kind"] = "unknown", "unknown"
            return res
        r = node.find(XSQ + "restriction")
        u = node.find(XSQ + "union")
        ls = node.find(XSQ + "list")
        if u is not None:
            res["builtin"], res["kind"] = "union", "union"
            for q in (u.get("memberTypes") or "").split():
                res["union"].append(self.facets(self.qname(u, q), _depth + 1))
            for st in u.findall(XSQ + "simpleType"):
                res["union"].append(self.facets(st, _depth + 1))
            return res
        if ls is not None:
            res["builtin"], res["kind"] = "list", "list"
            return res
        if r is None:
            res["builtin"], res["kind"] = "unknown", "unknown"
            return res
        if r.get("base"):
            base = self.facets(self.qname(r, r.get("base")), _depth + 1)
        else:
            base = self.facets(r.find(XSQ + "simpleType"), _depth + 1)
        for k in ("builtin", "kind", "minIncl", "maxIncl", "minExcl", "maxExcl", "enum", "length", "union"):
            res[k] = base[k]
        res["patterns"] = list(base["patterns"])
        res["chain"] += base["chain"]
        num = (lambda s: int(s)) if res["kind"] == "int" else (lambda s: s)
        enum, pats = [], []
        for f in r:
            if not isinstance(f.tag, str):
                continue
            nm, v = f.tag[len(XSQ):], f.get("value")
            if nm == "enumeration":
                enum.append(v)
            elif nm == "pattern":
                pats.append(v)
            elif nm == "length":
                res["length"] = int(v)
            elif nm in ("minInclusive", "maxInclusive", "minExclusive", "maxExclusive"):
                key = {"minInclusive": "minIncl", "maxInclusive": "maxIncl", "minExclusive": "minExcl", "maxExclusive": "maxExcl"}[nm]
                res[key] = num(v)   # a restriction can only narrow, so the derived facet is the tighter one
        if enum:
            res["enum"] = enum
        if pats:
            res["patterns"].append("|".join(pats))    # patterns of one step are alternatives, steps are conjunctive
        return res

    def int_range(self, fc: dict):
        """Effective inclusive integer range [lo, hi] of an int-kind facet record (None = unbounded)."""
        lo, hi = fc["minIncl"], fc["maxIncl"]
        if fc["minExcl"] is not None:
            lo = fc["minExcl"] + 1 if lo is None else max(lo, fc["minExcl"] + 1)
        if fc["maxExcl"] is not None:
            hi = fc["maxExcl"] - 1 if hi is None else min(hi, fc["maxExcl"] - 1)
        return lo, hi


# --------------------------------------------------------------------------------------------
# lexical validity judged by the schema


class Probe:
    """For XSD type keys (qname tuples) builds, per target namespace, a wrapper schema importing the real XSD file and
    declaring <probe_N v="..."/> whose single attribute has exactly that type. `valid(t, s)` validates a one-attribute
    probe document with lxml's XMLSchema."""

    NS = "urn:verif:probe"

    def __init__(self, xsd: Xsd, types: list):
        self.xsd = xsd
        self.idx = {}
        self.inline = {}
        for t in types:
            k = Xsd.type_key(t)
            if k not in self.idx:
                self.idx[k] = (len(self.idx), t)
        nss = sorted({t[0] for _, t in self.idx.values() if isinstance(t, tuple) and t[0] != XS})
        pf = {ns: "n%d" % i for i, ns in enumerate(nss)}
        decl = ['<xsd:schema xmlns:xsd="%s" targetNamespace="%s" elementFormDefault="qualified" %s>' % (
            XS, self.NS, " ".join('xmlns:%s="%s"' % (p, ns) for ns, p in pf.items()))]
        for ns in nss:
            decl.append('<xsd:import namespace="%s" schemaLocation="%s"/>' % (ns, "file://" + xsd.file_of_ns[ns]))
        for k, (i, t) in sorted(self.idx.items(), key=lambda kv: kv[1][0]):
            if isinstance(t, tuple):
                tn = ("xsd:" + t[1]) if t[0] == XS else "%s:%s" % (pf[t[0]], t[1])
                decl.append('<xsd:element name="probe_%d"><xsd:complexType><xsd:attribute name="v" type="%s"/>'
                            '</xsd:complexType></xsd:element>' % (i, tn))
            else:
                raise ValueError("inline simple types are not probed: %s" % k)
        decl.append("</xsd:schema>")
        self.source = "\n".join(decl)
        self.schema = etree.XMLSchema(etree.fromstring(self.source.encode()))

    def valid(self, t, lex: str) -> bool:
        i, _ = self.idx[Xsd.type_key(t)]
        el = etree.Element("{%s}probe_%d" % (self.NS, i))
        try:
            el.set("v", lex)
        except (ValueError, TypeError):
            return False    # not even an XML attribute value (control characters ...)
        # validate what a parser would see after serialisation (attribute value normalisation included)
        doc = etree.fromstring(etree.tostring(el))
        return bool(self.schema.validate(doc))


# --------------------------------------------------------------------------------------------
# the join: declaration -> XSD type -> facets


def joined(xsd: Xsd | None = None) -> tuple[list[dict], Xsd]:
    """attribute_decls() rows extended with 'xsd_types' (list of XSD type keys/qnames), 'xsd_ct' (complex type names),
    'facets' (list, same order). Rows whose attribute cannot be resolved have an empty list (reported, never judged)."""
    xsd = xsd or Xsd()
    rows = attribute_decls()
    for r in rows:
        types, cts = xsd.attr_type(r["uri"], r["tag"], r["attr"], r["clsname"])
        r["xsd_types"], r["xsd_ct"] = types, cts
        r["facets"] = [xsd.facets(t) for t in types]
    return rows, xsd


def is_xml_enum(st) -> bool:
    from pptx.enum.base import BaseXmlEnum
    return isinstance(st, type) and issubclass(st, BaseXmlEnum)


if __name__ == "__main__":
    rows, x = joined()
    un = [r for r in rows if not r["xsd_types"]]
    amb = [r for r in rows if len(r["xsd_types"]) > 1]
    print("decls", len(rows), "unresolved", len(un), "ambiguous", len(amb))
    for r in un + amb:
        print("  ", r["pfx"], r["tag"], r["attr"], r["stname"], [Xsd.type_name(t) for t in r["xsd_types"]], r["xsd_ct"])
    pairs = sorted({(r["stname"], Xsd.type_name(t)) for r in rows for t in r["xsd_types"]})
    for p in pairs:
        print(p)


# --------------------------------------------------------------------------------------------
# the C11 type table: one entry per (python simple-type class, XSD type(s)) pair

CAP = 100000   # anchors closer than this know their exact distance; farther ones are only ordered

# Meaning of the python value of the conversions that are not 1:1 (XSD units per python unit = num/den; `circular` = the
# modulus, in XSD units, under which the type itself identifies values). Read off oxml/simpletypes.py; a wrong entry makes
# clause D fail on every value of the type, so it cannot go unnoticed.
SCALE = {
    "ST_Angle": (60000, 1, 21600000), "ST_PositiveFixedAngle": (60000, 1, 21600000),
    "ST_Percentage": (100000, 1, 0), "ST_PositiveFixedPercentage": (100000, 1, 0),
    "ST_TextFontScalePercentOrPercentString": (1000, 1, 0), "ST_TextSpacingPercentOrPercentString": (100000, 1, 0),
    "ST_TextSpacingPoint": (1, 127, 0),
}
EXEMPLARS = {   # one valid lexical form per string-like XSD type that has no enumeration (checked by the schema at run time)
    "ST_ContentType": "application/xml", "ST_Extension": "xml", "xsd:ID": "rId1", "xsd:anyURI": "/ppt/slides/slide1.xml",
    "ST_GeomGuideFormula": "val 50000", "ST_GeomGuideName": "adj1", "ST_Lang": "en-US",
}


def _leaves(fc: dict) -> list[dict]:
    if fc["kind"] == "union":
        return [x for u in fc["union"] for x in _leaves(u)]
    return [fc]


def _member(xsd: Xsd, fc: dict) -> dict:
    pats = " ".join(fc["patterns"])
    if fc["kind"] == "int":
        kind = "int"
    elif fc["kind"] == "boolean":
        kind = "boolean"
    elif fc["kind"] == "float":
        kind = "double"
    elif fc["kind"] == "hex":
        kind = "hex"
    elif fc["enum"] is not None:
        kind = "enum"
    elif fc["patterns"] and all(p.rstrip(")").endswith("%") for p in fc["patterns"]):
        kind = "pct"
    elif "mm|cm|in|pt|pc|pi" in pats:
        kind = "umeasure"
    elif pats:
        kind = "pattern"
    else:
        kind = "string"
    lo, hi = xsd.int_range(fc) if kind == "int" else (None, None)
    return {"kind": kind, "name": fc["name"], "lo": lo, "hi": hi, "enum": fc["enum"] or [],
            "facets": {k: (str(fc[k]) if fc[k] is not None else "") for k in ("minIncl", "maxIncl", "minExcl", "maxExcl")},
            "builtin": fc["builtin"], "patterns": fc["patterns"], "length": fc["length"] or 0}


def py_kind(st) -> str:
    from pptx.oxml import simpletypes as ST
    if is_xml_enum(st):
        return "xmlenum"
    if issubclass(st, ST.BaseStringEnumerationType):
        return "strenum"
    if issubclass(st, ST.XsdBoolean):
        return "bool"
    if issubclass(st, ST.BaseStringType):
        return "str"
    if st.__name__ in SCALE and st.__name__ != "ST_TextSpacingPoint":
        return "float"
    if issubclass(st, ST.BaseFloatType):
        return "double"
    return "int"


def pairs(rows: list[dict] | None = None, xsd: Xsd | None = None) -> tuple[list[dict], Xsd, list[dict]]:
    """[{id, py, xsd, pyKind, scaleNum, scaleDen, circular, anchors, members, pyMembers, validates, sites, xsd_types}], xsd, rows.
    `anchors`: the distinct integer anchor values (the int members' effective inclusive bounds, their raw facets, the
    built-in base type's bounds, 0), ascending, each {name, value (decimal string), near: [{j, diff}]}."""
    from pptx.oxml import simpletypes as ST
    if rows is None:
        rows, xsd = joined(xsd)
    groups: dict = {}
    for r in rows:
        k = (r["stname"], tuple(Xsd.type_key(t) for t in r["xsd_types"]))
        groups.setdefault(k, []).append(r)
    out = []
    for (stname, _), rs in sorted(groups.items(), key=lambda kv: (kv[0][0], [Xsd.type_name(t) for t in kv[1][0]["xsd_types"]])):
        st = rs[0]["st"]
        members = [_member(xsd, lf) for fc in rs[0]["facets"] for lf in _leaves(fc)]
        named: dict = {}

        def add(v, nm):
            if v is not None:
                named.setdefault(int(v), [])
                if nm not in named[int(v)]:
                    named[int(v)].append(nm)
        add(0, "zero")
        for m in members:
            if m["kind"] == "int":
                add(m["lo"], "xsdMin")
                add(m["hi"], "xsdMax")
                b = BUILTIN_INT.get(m["builtin"], (None, None))
                add(b[0], "baseMin")
                add(b[1], "baseMax")
        vals = sorted(named)
        anchors = [{"name": "=".join(named[v]), "value": str(v),
                    "near": [{"j": j + 1, "diff": v - w} for j, w in enumerate(vals) if w != v and abs(v - w) <= CAP]} for v in vals]
        idx = {v: i + 1 for i, v in enumerate(vals)}
        for m in members:
            m["loIdx"] = idx[m["lo"]] if m["lo"] is not None else 0
            m["hiIdx"] = idx[m["hi"]] if m["hi"] is not None else 0
        kind = py_kind(st)
        num, den, circ = SCALE.get(stname, (1, 1, 0))
        py_members = []
        if kind == "xmlenum":
            py_members = [{"name": nm, "tok": (m.xml_value or "") if isinstance(m.xml_value, str) else "", "alias": nm != m.name}
                          for nm, m in st.__members__.items()]
        elif kind == "strenum":
            py_members = [{"name": str(v), "tok": str(v), "alias": False} for v in getattr(st, "_members", ())]
        # a string class "validates" when it (or a non-base ancestor) overrides validate(); XsdString, XsdAnyUri, XsdId,
        # ST_ContentType, ST_Extension ... inherit BaseStringType.validate (isinstance str only) and say so in their docstrings
        validates = kind != "str" or any("validate" in vars(k) for k in st.__mro__
                                         if k not in (ST.BaseStringType, ST.BaseSimpleType, object))
        xsd_name = "|".join(Xsd.type_name(t) for t in rs[0]["xsd_types"])
        out.append({
            "id": len(out) + 1, "py": stname, "xsd": xsd_name, "pyKind": kind, "scaleNum": num, "scaleDen": den, "circular": circ,
            "anchors": anchors, "zeroIdx": idx[0], "members": members, "pyMembers": py_members, "validates": bool(validates),
            "exemplar": next((EXEMPLARS[m["name"]] for m in members if m["name"] in EXEMPLARS), "abc"),
            "sites": [{"pfx": r["pfx"], "uri": r["uri"], "tag": r["tag"], "attr": r["attr"], "prop": r["prop"], "decl": r["kind"],
                       "cls": r["clsname"], "hasDefault": r["has_default"]} for r in rs],
            "xsd_types": rs[0]["xsd_types"], "st": st,
        })
    return out, xsd, rows
