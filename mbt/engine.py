"""Shared engine: TLC runner, PrintT/JSON parsing, trace validation, evidence, findings filter.

Every check is   spec (TLC explores / emits)  ->  driver (real python-pptx, projects state)
                 ->  Trace_<M>.tla (TLC validates observed states, names failing clauses)
                 ->  verdict (known-findings filter, VIOLATION / KNOWN-FINDING lines, evidence).

Exit codes: 0 held, 1 VIOLATION, 2 machinery failure.
"""
from __future__ import annotations

import hashlib
import json
import os
import re
import shutil
import subprocess
import sys
import time

ROOT = os.path.dirname(os.path.dirname(os.path.abspath(__file__)))
SPEC = os.path.join(ROOT, "spec")
EVID = os.environ.get("VERIF_EVID") or os.path.join(ROOT, "evidence")     # probes against scratch worktrees write elsewhere
REPLAYS = os.path.join(EVID, "replays")
WORKROOT = os.environ.get("VERIF_WORK") or os.path.join(ROOT, ".work")
FINDINGS = os.path.join(ROOT, "known_findings.json")
TLA_CP = "/opt/veriftools/tla/tla2tools.jar:/opt/veriftools/tla/CommunityModules-deps.jar"
REPO = (os.environ.get("VERIF_REPO") or "/repo")


class MachineryError(Exception):
    pass


class TraceOutsideSpec(Exception):
    """TLC could not EVALUATE a trace module on the observed data (an index outside a sequence, a missing field, a value outside an
    operator's domain): the observed trace is not a behaviour the specification can even type, let alone accept.  On the unchanged tree
    every trace module evaluates (vp check); after a change of the code under test this is a rejection, reported as such (exit 1), never
    swallowed as a machinery failure."""

    def __init__(self, module, trace_path, message):
        super().__init__("%s: %s" % (module, message))
        self.module, self.trace_path, self.message = module, trace_path, message

    def __reduce__(self):           # raised inside pool workers too
        return (TraceOutsideSpec, (self.module, self.trace_path, self.message))


_EVAL_ERRORS = ("which is out of bounds", "was not in the domain", "nonexistent field", "Attempted to apply", "Attempted to select",
                "Attempted to access", "Attempted to compare", "Attempted to check", "CHOOSE x \\in S: P, but no element of S satisfied P",
                "Attempted to compute")


def tier() -> str:
    t = os.environ.get("VERIF_TIER", "quick")
    return t if t in ("quick", "thorough") else "quick"


def seed() -> int:
    try:
        return int(os.environ.get("VERIF_SEED", "0"))
    except ValueError:
        return 0


def workdir(pid: str, fresh: bool = True) -> str:
    d = os.path.join(WORKROOT, pid)
    if fresh and os.path.isdir(d):
        shutil.rmtree(d, ignore_errors=True)
    os.makedirs(d, exist_ok=True)
    return d


# --------------------------------------------------------------------------------------------
# TLC


_RE_STATES = re.compile(r"(\d+) states generated, (\d+) distinct states found")
_RE_PRINT = re.compile(r'^<<"([A-Za-z_]+)", "(.*)">>$')


class TlcResult:
    def __init__(self, out: str, rc: int, wall: float):
        self.out = out
        self.rc = rc
        self.wall = wall
        m = _RE_STATES.findall(out)
        self.generated = int(m[-1][0]) if m else 0
        self.distinct = int(m[-1][1]) if m else 0
        self.ok = "Model checking completed. No error has been found." in out or (
            "Finished in" in out and "Error:" not in out and rc == 0
        )
        self.invariant_violated = re.findall(r"Invariant (\S+) is violated", out)
        self.action_prop_violated = re.findall(r"Action property (\S+) is violated", out)

    def printed(self, tag: str) -> list:
        """All <<"tag", "json">> values emitted by PrintT(<<tag, ToJson(v)>>); long values are pretty-printed by
        TLC over two lines (<< "tag",\n   "json" >>)."""
        res = []
        lines = self.out.splitlines()
        i = 0
        head = '<< "%s",' % tag
        while i < len(lines):
            line = lines[i].strip()
            m = _RE_PRINT.match(line)
            if m and m.group(1) == tag:
                res.append(json.loads(json.loads('"' + m.group(2) + '"')))
            elif line == head and i + 1 < len(lines):
                nxt = lines[i + 1].strip()
                if nxt.startswith('"') and nxt.endswith('" >>'):
                    res.append(json.loads(json.loads(nxt[: -3].rstrip())))
                    i += 1
            i += 1
        return res

    def coverage_counts(self) -> dict:
        """Per-action counts from `-coverage 1` output: <Action line ..>: distinct:total."""
        res = {}
        for m in re.finditer(r"^<(\w+) line \d+, col \d+ to line \d+, col \d+ of module (\w+)>: (\d+):(\d+)", self.out, re.M):
            nm = m.group(1)[2:] if m.group(1).startswith("Do") and m.group(1)[2:3].isupper() else m.group(1)
            res[nm] = res.get(nm, 0) + int(m.group(4))
        return res


def run_tlc(module: str, cfg: str | None = None, *, work: str, env: dict | None = None,
            workers: int | str = 1, timeout: int = 1800, extra: list[str] | None = None,
            heap: str = "8g", check: bool = True, specdir: str = SPEC, libs: list[str] | None = None) -> TlcResult:
    """Run TLC on spec/<module>.tla with spec/<cfg>. `work` holds the metadir. Raises MachineryError
    on timeout or (when check) on any TLC error that is not an invariant/property violation."""
    import uuid
    meta = os.path.join(work, "meta_%s_%s" % (module, uuid.uuid4().hex[:12]))
    cmd = ["java", "-XX:+UseParallelGC", "-Xmx" + heap, "-Xss256m"] + (["-DTLA-Library=" + os.pathsep.join(libs)] if libs else []) + ["-cp", TLA_CP, "tlc2.TLC",
           "-workers", str(workers), "-metadir", meta, "-noGenerateSpecTE"]
    if cfg:
        cmd += ["-config", cfg]
    cmd += (extra or [])
    cmd += [module + ".tla"]
    e = dict(os.environ)
    e.update({k: str(v) for k, v in (env or {}).items()})
    e.pop("JAVA_TOOL_OPTIONS", None)
    t0 = time.time()
    try:
        p = subprocess.run(cmd, cwd=specdir, env=e, stdout=subprocess.PIPE, stderr=subprocess.STDOUT,
                           timeout=timeout, text=True, errors="replace")
    except subprocess.TimeoutExpired:
        subprocess.run(["pkill", "-f", meta], check=False)
        raise MachineryError("TLC timeout after %ds on %s" % (timeout, module))
    finally:
        shutil.rmtree(meta, ignore_errors=True)
    r = TlcResult(p.stdout, p.returncode, time.time() - t0)
    with open(os.path.join(work, "tlc_%s_%s.log" % (module, os.path.basename(cfg or "").replace(".cfg", ""))), "w") as f:
        f.write(p.stdout)
    if check and not r.ok and not r.invariant_violated and not r.action_prop_violated:
        tail = "\n".join(p.stdout.splitlines()[-25:])
        tf = (env or {}).get("TRACE_FILE")
        hit = next((m for m in _EVAL_ERRORS if m in p.stdout), None)
        if tf and hit and "Parsing or semantic analysis failed" not in p.stdout:
            # a TRACE module (it reads observed data) that TLC cannot evaluate: the observation is outside the specification's domain
            raise TraceOutsideSpec(module, str(tf), "TLC cannot evaluate the trace module on the observed data (%s)\n%s" % (hit, tail[-1200:]))
        raise MachineryError("TLC failed on %s (rc=%d):\n%s" % (module, p.returncode, tail))
    return r


def validate(module: str, trace_obj, *, work: str, name: str = "traces", env: dict | None = None,
             timeout: int = 1800, cfg: str | None = None, heap: str = "8g") -> tuple[list, dict, TlcResult]:
    """Write trace_obj as JSON, run Trace module over it. Returns (rejected verdicts, summary, tlc)."""
    path = os.path.join(work, name + ".json")
    with open(path, "w") as f:
        json.dump(trace_obj, f, separators=(",", ":"))
    ev = {"TRACE_FILE": path}
    ev.update(env or {})
    r = run_tlc(module, cfg or (module + ".cfg"), work=work, env=ev, workers=1, timeout=timeout, heap=heap)
    summ = r.printed("SUMMARY")
    if not summ:
        tail = "\n".join(r.out.splitlines()[-25:])
        hit = next((m for m in _EVAL_ERRORS if m in r.out), None)
        if hit:
            raise TraceOutsideSpec(module, path, "TLC cannot evaluate the trace module on the observed data (%s)\n%s" % (hit, tail[-1200:]))
        raise MachineryError("no SUMMARY from %s:\n%s" % (module, tail))
    return r.printed("VERDICT"), summ[-1], r


# --------------------------------------------------------------------------------------------
# python driver fan-out


def py_env() -> dict:
    e = dict(os.environ)
    e["PYTHONPATH"] = os.path.join(REPO, "src") + os.pathsep + ROOT
    e["PYTHONDONTWRITEBYTECODE"] = "1"
    e["PYTHONHASHSEED"] = "0"
    return e


def chunks(lst: list, n: int) -> list[list]:
    n = max(1, n)
    k = (len(lst) + n - 1) // n if lst else 1
    return [lst[i:i + k] for i in range(0, len(lst), k)] or [[]]


def pmap(func, items: list, procs: int = 16, chunk: int | None = None) -> list:
    """Order-preserving multiprocessing map (fork). func must be a top-level function."""
    import multiprocessing as mp
    if procs <= 1 or len(items) < 2:
        return [func(x) for x in items]
    ctx = mp.get_context("fork")
    with ctx.Pool(min(procs, len(items))) as pool:
        return pool.map(func, items, chunksize=chunk or max(1, len(items) // (procs * 8)))


# --------------------------------------------------------------------------------------------
# findings, verdicts, evidence


def load_findings() -> list[dict]:
    if not os.path.exists(FINDINGS):
        return []
    with open(FINDINGS) as f:
        data = json.load(f)
    return [x for x in data.get("findings", []) if x.get("status") == "finding"]


def finding_for(pid: str, sig: str) -> dict | None:
    """A rejected case with signature `sig` is a known finding iff an entry of this property lists
    exactly that signature (signatures are `clause@site[witness-class]`; never property-wide)."""
    for f in load_findings():
        if f["property"] == pid and sig in f.get("signatures", []):
            return f
    return None


def write_replay(pid: str, obj: dict) -> str:
    d = os.path.join(REPLAYS, pid)
    os.makedirs(d, exist_ok=True)
    blob = json.dumps(obj, sort_keys=True, indent=1, default=str)
    h = hashlib.sha1(blob.encode()).hexdigest()[:12]
    p = os.path.join(d, h + ".json")
    with open(p, "w") as f:
        f.write(blob)
    return p


class Report:
    """Collects rejected cases, applies the findings filter, prints the interface lines."""
    current = None

    def __init__(self, pid: str):
        Report.current = self
        self.pid = pid
        self.t0 = time.time()
        self.violations: list[tuple[str, str]] = []   # (sig, replay path)
        self.known: dict[str, int] = {}
        self.notes: list[str] = []
        self._seen_sig: set[str] = set()

    def reject(self, sig: str, replay: dict, what: str = ""):
        f = finding_for(self.pid, sig)
        if f is not None:
            self.known[sig] = self.known.get(sig, 0) + 1
            if self.known[sig] == 1:
                print("KNOWN-FINDING: property=%s %s [%s]" % (self.pid, f.get("what", what), sig), flush=True)
            return
        if sig in self._seen_sig and len(self.violations) >= 20:
            return
        self._seen_sig.add(sig)
        replay = dict(replay)
        replay.setdefault("property", self.pid)
        replay.setdefault("signature", sig)
        replay.setdefault("what", what)
        replay.setdefault("tier", tier())
        replay.setdefault("seed", seed())
        path = write_replay(self.pid, replay)
        self.violations.append((sig, path))
        print("VIOLATION property=%s replay=%s  # %s %s" % (self.pid, path, sig, what), flush=True)

    def note(self, msg: str):
        self.notes.append(msg)
        print("NOTE: " + msg, flush=True)

    def finish(self, level: str, coverage: dict, assumptions: list[str]) -> int:
        os.makedirs(EVID, exist_ok=True)
        cov = dict(coverage)
        cov["known_findings_observed"] = self.known
        cov["notes"] = self.notes[:50]
        ev = {
            "property_id": self.pid,
            "tier": tier(),
            "seed": seed(),
            "level": level,
            "coverage": cov,
            "assumptions": assumptions,
            "wall_s": round(time.time() - self.t0, 2),
            "violations": len(self.violations),
        }
        with open(os.path.join(EVID, self.pid + ".json"), "w") as f:
            json.dump(ev, f, indent=1, default=str)
        print("%s: %s tier=%s wall=%.1fs violations=%d known=%d" % (
            self.pid, "FAIL" if self.violations else "ok", tier(), ev["wall_s"], len(self.violations),
            sum(self.known.values())), flush=True)
        return 1 if self.violations else 0


class DriverCrash(Exception):
    """A driver crashed while replaying a scenario; `text` holds the worker's traceback. main_wrap decides by where it was raised."""

    def __init__(self, what, text):
        super().__init__(what)
        self.text = text

    def __reduce__(self):
        return (DriverCrash, (self.args[0], self.text))


def main_wrap(fn):
    """Run a check's main(); machinery failures exit 2 and never print VIOLATION."""
    try:
        rc = fn()
    except MachineryError as e:
        print("MACHINERY-FAILURE: %s" % e, file=sys.stderr, flush=True)
        sys.exit(2)
    except TraceOutsideSpec as e:
        rep = Report.current
        if rep is None:
            print("MACHINERY-FAILURE: %s" % e, file=sys.stderr, flush=True)
            sys.exit(2)
        keep = os.path.join(REPLAYS, rep.pid)
        os.makedirs(keep, exist_ok=True)
        dst = os.path.join(keep, "outside_spec_" + os.path.basename(e.trace_path))
        try:
            import shutil
            shutil.copy(e.trace_path, dst)
        except OSError:
            dst = e.trace_path
        print("VIOLATION property=%s replay=%s  # TraceOutsideSpecification@%s the observed traces in this file are not behaviours the "
              "specification can evaluate: %s" % (rep.pid, dst, e.module, " ".join(e.message.split())[:600]), flush=True)
        print("%s: FAIL tier=%s (trace outside the specification's domain)" % (rep.pid, tier()), flush=True)
        sys.exit(1)
    except SystemExit:
        raise
    except BaseException as e:      # a crash of the machinery itself is never reported as a verdict (exit 1 is reserved for violations)
        import traceback
        text = "".join(traceback.format_exception(type(e), e, e.__traceback__))
        if isinstance(e, DriverCrash):
            text += "\n" + e.text
        cause = getattr(e, "__cause__", None)
        if cause is not None:
            text += str(cause)                      # multiprocessing's RemoteTraceback: the worker's frames
        sys.stderr.write(text)
        # WHERE it was raised decides: the last frame inside the library under test = a public call made by a driver along a
        # model-generated scenario raised where every run on the unchanged tree returns (the drivers catch the outcomes the models expect);
        # the last frame in the machinery = a machinery failure
        import re as _re
        files = _re.findall(r'File "([^"]+)", line \d+', text)
        lib = os.path.join(REPO, "src") + os.sep
        rep = Report.current
        if files and files[-1].startswith(lib) and rep is not None and not isinstance(e, (KeyboardInterrupt, MemoryError)):
            path = write_replay(rep.pid, {"property": rep.pid, "signature": "LibraryRaisedInDriver", "traceback": text[-4000:], "tier": tier(), "seed": seed()})
            print("VIOLATION property=%s replay=%s  # LibraryRaisedInDriver %s: %s raised inside %s on a scenario every unchanged-tree run completes"
                  % (rep.pid, path, type(e).__name__, " ".join(str(e).split())[:200], files[-1][len(lib):]), flush=True)
            print("%s: FAIL tier=%s (the library raised inside a driver)" % (rep.pid, tier()), flush=True)
            sys.exit(1)
        print("MACHINERY-FAILURE: %s: %s" % (type(e).__name__, e), file=sys.stderr, flush=True)
        sys.exit(2)
    sys.exit(rc)
