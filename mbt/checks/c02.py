"""C02 — every saved file is a closed, self-consistent package, after any history. spec/Deck.tla (+OpcPackage.tla)."""
from __future__ import annotations

import json
import sys

from mbt import engine as E
from mbt.checks import deck_common as C

PID = "C02"
MINE = {"UniqueMembers", "OneContentTypePerPart", "ContentTypeAsInMemory", "InternalTargetsPresent", "RefsResolve",
        "OfficeDocIsPresentation", "ReopenSucceeds", "ReopenShowsSameOrder", "ReopenShowsSameShapes", "ReopenShowsSameText",
        "ReopenShowsSamePictures", "ReopenShowsSameCharts", "SaveSucceeds", "OperationSucceeds"}
PACK = ["access", "addSlide", "save", "reopen", "removeLayout", "rejected", "notes", "coreProps", "addShape", "textbox"]
MEDIA = ["addShape", "picture", "movie", "ole", "chart", "replaceData", "save", "reopen", "addSlide"]
LINKS = ["setLink", "changeLink", "clearLink", "setJump", "clearJump", "setRunLink", "clearRunLink", "setHover", "addSlide", "addShape",
         "autoshape", "save", "access"]
# part lifecycle: pictures (three image tokens in rotation, one of them the logo of an unused layout), removal of layouts, re-open
GC = ["addShape", "picture", "removeLayout", "reopen"]
FULL = sorted(set(PACK + MEDIA + LINKS + ["group", "freeform", "table", "connector", "setTurbo", "read"]))


def configs(thorough):
    if thorough:
        return [("pack", PACK, 4, [1, 2, 3], None), ("media", MEDIA, 4, [1, 5], None), ("gc", GC, 6, [7], None), ("dup", ["addShape", "picture", "reopen", "save", "access", "addSlide"], 4, [8], None),
                ("many", ["addShape", "picture", "movie", "reopen", "save"], 3, [9], None),
                ("oddrids", ["addShape", "picture", "textbox", "save", "reopen", "addSlide", "notes", "access"], 3, [10], None), ("links", LINKS, 4, [5], None), ("links2", LINKS, 3, [2], None),
                ("generic", ["addShape", "picture", "movie", "save", "reopen", "addSlide", "notes", "access", "removeLayout"], 3, [11], None),
                ("gap", ["addShape", "chart", "ole", "replaceData", "save", "reopen", "notes"], 3, [12], None),
                ("masters", ["rejected", "save", "reopen", "access", "coreProps"], 3, [14], None),
                ("notesgap", ["notes", "access", "save", "reopen", "addSlide"], 3, [13], None),
                ("sim", FULL, 10, [1, 2, 3, 4, 5], "num=600")]
    return [("pack", PACK, 3, [1, 2], None), ("media", MEDIA, 3, [5], None), ("links", LINKS, 3, [5], None), ("gc", GC, 4, [7], None),
            ("dup", ["addShape", "picture", "reopen", "save", "access"], 2, [8], None),
            ("many", ["addShape", "picture", "movie", "reopen"], 2, [9], None),
            ("oddrids", ["addShape", "picture", "textbox", "save", "reopen", "addSlide", "notes"], 2, [10], None),
            ("generic", ["addShape", "picture", "save", "reopen", "addSlide"], 2, [11], None),
            ("gap", ["addShape", "chart", "reopen"], 3, [12], None),
            ("masters", ["rejected", "save", "reopen"], 2, [14], None),
            ("notesgap", ["notes", "access", "reopen"], 2, [13], None),
            ("sim", FULL, 9, [1, 2, 3, 4, 5, 7, 8], "num=60")]


def run(pid, mine, cfgs, rule, level="model_checking", facets_on=True, extra=None):
    rep = E.Report(pid)
    work = E.workdir(pid)
    selftest = "--selftest" in sys.argv
    replay = sys.argv[sys.argv.index("--replay") + 1] if "--replay" in sys.argv else None
    states = trans = 0
    per, actions, jobs, ces = {}, {}, [], []
    rp = json.load(open(replay)) if replay else None
    extra_cov = {}
    if extra is not None and (rp is None or rp.get("module") == "Alloc"):
        extra_cov = extra(rep, work, selftest, rp)
    if rp is not None and rp.get("module") == "Alloc":
        return rep.finish(level, dict(extra_cov, states=1, transitions=1, traces_validated_against_impl=1, samples=[rp["h"]], rule=rule), ["TLC 1.8"])
    if replay:
        jobs = [(rp["id"], rp["h"], facets_on)]
    else:
        for name, alpha, depth, inits, sim in cfgs:
            paths, ce, r = C.explore(work, name, alpha, depth, inits, sim=sim)
            states += r.distinct
            trans += r.generated
            for a, n in r.coverage_counts().items():
                actions[a] = actions.get(a, 0) + n
            per[name] = {"paths": len(paths), "design_counterexamples": len(ce), "tlc_distinct": r.distinct, "tlc_generated": r.generated,
                         "depth": depth, "alphabet": alpha, "inits": inits, "simulate": sim, "tlc_wall_s": round(r.wall, 1)}
            # the configurations with pictures / media also run the COMPANION (a second presentation in the same process, drive/deck.py)
            jobs += [("%s:%d" % (name, i), p, facets_on, name in ("media", "gc", "dup", "many", "sim")) for i, p in enumerate(paths)]
            ces += ce
    # replay and validate in chunks so that thorough runs (10^5 histories) never hold more than one chunk of traces in memory
    tot, ntraces, smp = {}, 0, None
    CH = 2500
    for c0 in range(0, max(len(jobs), 1), CH):
        traces = C.replay(jobs[c0:c0 + CH])
        if selftest and c0 == 0:
            t = json.loads(json.dumps(next(x for x in traces if len(x["steps"]) > 2 and x["saves"] and x["saves"][-1]["z"] and x["saves"][-1]["z"]["refs"])))
            z = t["saves"][-1]["z"]
            z["refs"].append({"n": z["refs"][0]["n"], "rids": ["rIdNoSuchRelationship"]})
            t["saves"] = [t["saves"][-1]]
            bad, _ = C.validate([t], work, tag="selftest")
            ok = len(bad) == 1 and any("RefsResolve" in b["failing"] for b in bad[0]["bad"])
            print("SELFTEST %s: added a dangling r:id reference to %s -> %s" % ("ok" if ok else "FAILED", t["id"], str(bad)[:300]))
            if not ok:
                raise E.MachineryError("selftest failed")
        bad, tt = C.validate(traces, work, tag="obs%d_" % (c0 // CH))
        for k, v in tt.items():
            tot[k] = tot.get(k, 0) + v
        ntraces += len(traces)
        if smp is None and traces:
            smp = {"history": traces[len(traces) // 2]["h"][1:], "initial": traces[len(traces) // 2]["h"][0]["init"]}
        byid = {t["id"]: t for t in traces}
        for v in bad:
            t = byid[v["id"]]
            for b in v["bad"]:
                fl = sorted(set(b["failing"]) & mine)
                if not fl:
                    continue
                if b["at"] == "step":
                    site = t["steps"][b["k"] - 1]["a"]
                    sname = site["op"] + ("[%s]" % site["kind"] if site.get("kind") else "")
                    if "NewShapeIdsFresh" in fl and site["op"] == "addShape":
                        # class of the history: turbo mode switched on for this slide, then an id from the group/freeform allocator
                        prev = t["h"][1:b["k"] - 1]
                        ton = [i for i, x in enumerate(prev) if x["op"] == "setTurbo" and x["k"] == site["k"]]
                        if ton and any(x["op"] == "addShape" and x["k"] == site["k"] and x["kind"] in ("group", "freeform") for x in prev[ton[0]:]) \
                                and site["kind"] not in ("group", "freeform"):
                            sname += "|turbo-then-group-or-freeform"
                else:
                    last = t["h"][min(b["k"], len(t["h"])) - 1] if b["k"] - 1 < len(t["h"]) else t["h"][-1]
                    sname = "save-after-" + (last["op"] if "op" in last else "?")
                    if b["k"] == len(t["h"]) + 2:
                        sname = "companion-save"        # the second presentation living in the same process (drive/deck.py)
                    errs = [s.get("err") or (s["z"] or {}).get("reopenErr") for s in t["saves"] if s["at"] == b["k"]]
                rep.reject("%s@%s" % ("+".join(fl), sname),
                           {"module": "Deck", "id": t["id"], "h": t["h"], "failing": b,
                            "detail": errs if b["at"] == "saved" else t["steps"][b["k"] - 1]},
                           "history %s" % json.dumps([{k: v for k, v in a.items() if v not in (0, "", None)} if a["op"] != "open" else {"op": "open", "deck": a["init"]["deck"], "pnums": a["init"]["pnums"]} for a in t["h"]])[:700])
        del traces, byid
    if ces:
        rep.note("design level: %d histories where the transcribed allocators assign a non-fresh id (e.g. %s); their real traces are in the replay set"
                 % (len(ces), json.dumps([a["op"] + ":" + str(a.get("kind", "")) for a in ces[0][1:]])))
    ops = {}
    for j in jobs:
        for a in j[1][1:]:
            ops[a["op"]] = ops.get(a["op"], 0) + 1
    if not replay:
        for a in ("addShape", "addSlide", "reopen"):
            if not ops.get(a):
                raise E.MachineryError("vacuous: operation %s in no history (%s)" % (a, ops))
    cov = {"states": max(states, 1), "transitions": max(trans, 1), "traces_validated_against_impl": ntraces,
           "real_steps_validated": tot.get("steps", 0), "saved_packages_validated": tot.get("saves", 0),
           "configs": per, "operation_counts_in_histories": ops,
           "samples": [smp],
           "rule": rule}
    cov.update(extra_cov)
    return rep.finish(level, cov, ["TLC 1.8", "observation reads the slide list from presentation.xml + relationships (never prs.slides)",
                                    "saved packages are read with zipfile+lxml only; re-open facets through the public read API",
                                    "exhaustive per alphabet within DEPTH; one shortest history per distinct (model state, last action)"])


def main() -> int:
    return run(PID, MINE, configs(E.tier() == "thorough"),
               "TLC explores every history <= DEPTH per action alphabet (packaging / media / links) from initial decks with non-contiguous and "
               "out-of-order slide part names, prints one shortest history per distinct (state, last action); each is replayed on a real "
               "Presentation, saved at every save/reopen action and at its end; TLC evaluates the C02 clauses on every saved zip "
               "(OpcPackage operators: content types, closure, r:* references) and the re-open facets")


if __name__ == "__main__":
    E.main_wrap(main)
