"""Shared by C01 and C16: MC_OpcPackage exploration, replay into the real library, TLC validation."""
from __future__ import annotations

import io
import json
import os
import concurrent.futures as cf

from mbt import engine as E
from mbt.drive import opc as D

CFG_TMPL = """SPECIFICATION Spec
CONSTANTS
 Segs <- DefaultSegs
 CANDS = {%(cands)s}
 MAXPARTS = %(maxparts)d
 MAXRELS = %(maxrels)d
 FREETYPES = %(freetypes)s
 AUTOROOT = %(autoroot)s
 FORMS = {%(forms)s}
 DANGLING = %(dangling)s
 FAULTS = %(faults)s
 RULE = "override"
INVARIANT InvSaveOK
INVARIANT InvReopenSame
INVARIANT InvSecondSave
INVARIANT InvOpenReachable
INVARIANT InvOutcomeClass
CHECK_DEADLOCK FALSE
"""


def explore(work: str, name: str, simulate: str | None = None, **kw) -> tuple[list[dict], list[dict], E.TlcResult]:
    """Run MC_OpcPackage with the given constants; returns (sealed packages, segment table, tlc result)."""
    d = dict(cands="1,2,3,4", maxparts=2, maxrels=2, freetypes="FALSE", autoroot="FALSE", forms="1,4",
             dangling="FALSE", faults="FALSE")
    d.update(kw)
    cfg = os.path.join(work, "MC_OpcPackage_%s.cfg" % name)
    with open(cfg, "w") as f:
        f.write(CFG_TMPL % d)
    extra = ["-coverage", "1"] if not simulate else []
    if simulate:
        extra = ["-simulate", simulate, "-depth", "14", "-seed", str(E.seed() + 1)]
    r = E.run_tlc("MC_OpcPackage", cfg, work=work, workers=1, timeout=2400, extra=extra, heap="12g")
    if r.invariant_violated:
        raise E.MachineryError("design-level invariant %s violated in MC_OpcPackage[%s] (RULE=override): the model itself is wrong"
                               % (r.invariant_violated, name))
    pk = r.printed("PKG")
    # distinct sealed packages only (simulation may repeat)
    seen, out = set(), []
    for p in pk:
        k = json.dumps(p, sort_keys=True)
        if k not in seen:
            seen.add(k)
            out.append(p)
    segs = r.printed("SEGS")[-1]
    return out, segs, r


_G = {}


def _one(args):
    """Replay one abstract package in the three forms; returns trace records."""
    k, ph, forms, work = args
    from pptx.package import Package
    segs = _G["segs"]
    out = []
    for form in forms:
        st = D.SegTable(segs)
        kind = ph["kind"]
        if form == "dir" and kind in ("notzip", "truncated"):
            continue
        if form == "stream" and kind == "nopath":
            continue
        members = D.render_members(ph, st, salt=k)
        buf = io.BytesIO()
        D.write_zip(members, buf)
        raw = buf.getvalue()
        if kind == "notzip":
            raw = b"PK this is not a zip archive at all" * 3
        elif kind == "truncated":
            raw = raw[: max(10, len(raw) // 2)]
        scratch = os.path.join(work, "fs_%d" % os.getpid())
        os.makedirs(scratch, exist_ok=True)
        if form == "path":
            p = os.path.join(scratch, "pkg.zip")
            if kind == "nopath":
                p = os.path.join(scratch, "does-not-exist.zip")
            else:
                with open(p, "wb") as f:
                    f.write(raw)
            src = lambda p=p: p  # noqa: E731
        elif form == "stream":
            src = lambda raw=raw: io.BytesIO(raw)  # noqa: E731
        else:
            p = os.path.join(scratch, "pkgdir")
            if kind == "nopath":
                p = os.path.join(scratch, "no-such-dir")
            else:
                D.write_dir(members, p)
            src = lambda p=p: p  # noqa: E731
        ph0 = D.project_members(members, st)
        ph0["kind"] = kind
        tr = D.run_trace(Package.open, src, st)
        tr.update({"id": "%d/%s" % (k, form), "form": form, "ph0": ph0, "model": ph, "api": False,
                   "slidesExp": [], "slidesSeen": [], "slidesReopen": [], "slidesSTS": []})
        tr["segs_len"] = len(st.table())
        tr["_segs"] = st.table()
        out.append(tr)
    return out


def replay(pkgs: list[dict], segs: list[dict], work: str, forms=("path", "stream", "dir"), procs: int = 16) -> list[dict]:
    _G["segs"] = segs
    res = E.pmap(_one, [(k, ph, forms, work) for k, ph in enumerate(pkgs)], procs=procs)
    return [t for ts in res for t in ts]


def validate_all(traces: list[dict], segs: list[dict], work: str, chunk: int = 4000) -> tuple[list[dict], dict]:
    """TLC validation in parallel chunks. Each trace's names use DefaultSegs ids plus (rarely) dynamic ones,
    so every chunk gets the longest segment table seen in it."""
    parts = [traces[i:i + chunk] for i in range(0, len(traces), chunk)] or [[]]

    def run(ix_part):
        ix, part = ix_part
        table = max((t["_segs"] for t in part), key=len, default=segs)
        clean = [{k: v for k, v in t.items() if k not in ("_segs", "segs_len", "errmsg", "model")} for t in part]
        return E.validate("Trace_OpcPackage", {"segs": table, "traces": clean}, work=work, name="obs%d" % ix, heap="6g", timeout=2400)
    bad, tot = [], {}
    with cf.ThreadPoolExecutor(8) as ex:
        for b, s, _ in ex.map(run, list(enumerate(parts))):
            bad += b
            for k, v in s.items():
                tot[k] = tot.get(k, 0) + v
    return bad, tot
