"""C15 — images are stored once, byte-exact, with the type and size of the actual image. spec/Media.tla."""
from __future__ import annotations

import json
import os
import sys
import concurrent.futures as cf

from mbt import engine as E
from mbt.drive import media as M

PID = "C15"
CFG = """SPECIFICATION Spec
CONSTANTS DEPTH = %d
 NIMG = %d
 NSLIDES = 2
 OPS = {%s}
 ARGS = {%s}
 VIAS = {%s}
 LOGO = %d
 NPRE = %d
 CTALIAS = %s
 U <- DummyU
VIEW ViewSt
INVARIANT NamesFresh
INVARIANT EmitState
CHECK_DEADLOCK FALSE
"""
_G = {}


def sub_universe(full, sel):
    """The images a configuration works with (sel: 1-based indices into the full universe) followed by the two library-supplied ones."""
    return [full[i - 1] for i in sel] + full[-2:]


def _job(args):
    hid, h, sel, logo, work = args[:5]
    npre = args[5] if len(args) > 5 else 0
    alias = bool(args[6]) if len(args) > 6 else False
    if "U" not in _G:
        _G["U"] = M.universe()
    return M.run_history(hid, h, sub_universe(_G["U"], sel), os.path.join(work, "img"), len(sel), logo, npre, alias)


def explore(work, name, depth, nimg, ops, sim=None, nslides=2, args=("none", "w", "h", "both"), vias=("stream", "path", "usedstream", "ingroup"), logo=0, npre=0, alias=False):
    cfg = os.path.join(work, "MC_Media_%s.cfg" % name)
    q = lambda xs: ",".join('"%s"' % o for o in xs)  # noqa: E731
    body = (CFG % (depth, nimg, q(ops), q(args), q(vias), logo, npre, "TRUE" if alias else "FALSE")).replace("NSLIDES = 2", "NSLIDES = %d" % nslides)
    if sim:
        body = body.replace("VIEW ViewSt\n", "")
    with open(cfg, "w") as f:
        f.write(body)
    extra = ["-simulate", sim, "-depth", str(depth), "-seed", str(E.seed() + 21)] if sim else []
    r = E.run_tlc("MC_Media", cfg, work=work, workers=1 if sim else 16, timeout=1800, extra=extra, heap="8g")
    if r.invariant_violated or "is violated" in r.out:
        raise E.MachineryError("design-level check failed in MC_Media[%s]: %s" % (name, r.invariant_violated))
    paths = [p for p in r.printed("ST") if p]
    if sim:
        seen, out = set(), []
        for p in paths:
            k = json.dumps(p, sort_keys=True)
            if len(p) == depth and k not in seen:
                seen.add(k)
                out.append(p)
        paths = out
    return paths, r


def main() -> int:
    rep = E.Report(PID)
    work = E.workdir(PID)
    thorough = E.tier() == "thorough"
    selftest = "--selftest" in sys.argv
    replay = sys.argv[sys.argv.index("--replay") + 1] if "--replay" in sys.argv else None
    ALL = ["addPicture", "insertPicture", "addMovie", "addOle", "save", "reopen"]
    from mbt.drive import media as _M
    NGEN = len(_M._SPECS)          # every generated image of the universe (the two library-supplied ones follow them)
    ALLI = lambda n: list(range(1, n + 1))  # noqa: E731
    # part lifecycle ("gc"): a deck whose unused layout carries a logo; pictures of the same format, the logo itself, removal of the
    # layout, re-open - every order (the image part of the removed layout leaves the package and frees its name)
    PNGS = [i + 1 for i, sp in enumerate(_M._SPECS) if sp[0] == "PNG"][:3]
    GC = dict(nslides=1, args=("none",), vias=("stream",), logo=1)
    # one file path overwritten with one image after the other (two of them BMPs of identical byte length), then added from that path
    SAME = [i + 1 for i, sp in enumerate(_M._SPECS) if sp[0] == "BMP" and sp[2] == (6, 2)] + [1]
    SP = dict(nslides=2, args=("none",), vias=("samepath",))
    # a deck that already holds ten pictures (image1 .. image10): the next images' sequence numbers are found among two-digit names
    MANY = dict(nslides=1, args=("none",), vias=("stream",), npre=10)
    ALLPNG = [i + 1 for i, sp in enumerate(_M._SPECS) if sp[0] == "PNG"]
    # a deck another producer wrote: its two pictures (a PNG, a JPEG) are there already and the JPEG part is declared "image/jpg"
    JPGS = [i + 1 for i, sp in enumerate(_M._SPECS) if sp[0] == "JPEG"]
    AL = dict(nslides=1, args=("none",), vias=("stream",), npre=2, alias=True)
    if thorough:
        cfgs = [("a", 3, ALLI(4), ALL, None, {}), ("b", 2, ALLI(NGEN), ["addPicture", "reopen"], None, {}),
                ("gc", 5, PNGS + [2], ["addPicture", "removeLayout", "reopen", "save"], None, GC),
                ("samepath", 4, SAME, ["addPicture", "reopen"], None, SP),
                ("many", 3, ALLPNG[:13], ["addPicture", "reopen", "save"], None, MANY),
                ("alias", 3, [1] + JPGS, ["addPicture", "reopen", "save"], None, AL),
                ("sim", 8, ALLI(NGEN), ALL + ["removeLayout"], "num=1500", dict(logo=1))]
    else:
        cfgs = [("a", 2, ALLI(3), ALL, None, {}), ("b", 1, ALLI(NGEN), ["addPicture", "insertPicture"], None, {}),
                ("c", 3, ALLI(2), ["addPicture", "reopen", "addOle", "addMovie"], None, {}),
                ("gc", 4, PNGS, ["addPicture", "removeLayout", "reopen"], None, GC),
                ("samepath", 3, SAME, ["addPicture", "reopen"], None, SP),
                ("many", 2, ALLPNG[:12], ["addPicture", "reopen"], None, MANY),
                ("alias", 2, [1] + JPGS, ["addPicture", "reopen"], None, AL),
                ("sim", 7, ALLI(NGEN), ALL + ["removeLayout"], "num=150", dict(logo=1))]
    jobs, per = [], {}
    states = trans = 0
    if replay:
        rp = json.load(open(replay))
        jobs = [(rp["id"], rp["h"], tuple(rp["sel"]), rp.get("logo", 0), work, rp.get("npre", 0), rp.get("alias", False))]
    else:
        for name, depth, sel, ops, sim, kw in cfgs:
            paths, r = explore(work, name, depth, len(sel), ops, sim, **kw)
            states += r.distinct
            trans += r.generated
            per[name] = {"paths": len(paths), "depth": depth, "images": len(sel), "ops": ops, "tlc_distinct": r.distinct, "simulate": sim,
                         "logo_on_layout": kw.get("logo", 0)}
            jobs += [("%s:%d" % (name, i), p, tuple(sel), kw.get("logo", 0), work, kw.get("npre", 0), kw.get("alias", False)) for i, p in enumerate(paths)]
    traces = E.pmap(_job, jobs, procs=16, chunk=4)
    fullU = M.universe()

    def payload(group, sel):
        U = sub_universe(fullU, sel)
        clean = [{"id": t["id"], "init": t["init"], "steps": [{k: s[k] for k in ("a", "out", "t")} for s in t["steps"]], "saved": t["saved"]} for t in group]
        return {"universe": M.table(U), "traces": clean}
    groups = {}
    for j, t in zip(jobs, traces):
        groups.setdefault(j[2], []).append(t)
    if selftest:
        nimg0 = jobs[0][2]
        t = json.loads(json.dumps(next(x for x in groups[nimg0] if x["steps"] and x["steps"][-1]["t"]["media"])))
        t["steps"][-1]["t"]["media"][0]["ctype"] = "image/x-wrong"
        bad, _, _ = E.validate("Trace_Media", payload([t], nimg0), work=work, name="selftest")
        ok = len(bad) == 1 and any("ExtAndTypeOfActualFormat" in b["failing"] for b in bad[0]["bad"])
        print("SELFTEST %s: changed one stored content type -> %s" % ("ok" if ok else "FAILED", str(bad)[:300]))
        if not ok:
            raise E.MachineryError("selftest failed")
    bad, tot = [], {}
    work_items = []
    for nimg, g in groups.items():
        for i in range(0, len(g), 400):
            work_items.append((nimg, g[i:i + 400]))

    def run(ix_w):
        ix, (nimg, g) = ix_w
        return E.validate("Trace_Media", payload(g, nimg), work=work, name="obs%d" % ix, heap="4g")
    with cf.ThreadPoolExecutor(10) as ex:
        for b, s, _ in ex.map(run, list(enumerate(work_items))):
            bad += b
            for k, v in s.items():
                tot[k] = tot.get(k, 0) + v
    byid = {t["id"]: (t, j[2], j[3]) for j, t in zip(jobs, traces)}
    byjob = {j[0]: ((j[5] if len(j) > 5 else 0), (j[6] if len(j) > 6 else False)) for j in jobs}
    for v in bad:
        t, nimg, logo = byid[v["id"]]
        U = sub_universe(fullU, nimg)
        for b in v["bad"][:3]:
            clause = "+".join(sorted(b["failing"]))
            a = t["steps"][min(b["k"], len(t["steps"])) - 1]["a"]
            cls = ""
            if a.get("img"):
                u = U[a["img"] - 1]
                cls = "[%s:%s]" % (a["op"], u["fmt"]) if b["at"] == "step" else ""
            # which stored image is wrong decides the class of a storage clause
            t_obs = t["steps"][b["k"] - 1]["t"] if b["at"] == "step" else next(s for s in t["saved"] if s["at"] == b["k"])["t"]
            wrong = sorted({U[m["img"] - 1]["fmt"] for m in t_obs["media"] if m["img"] and
                            (m["ext"], m["ctype"]) != ({"PNG": "png", "JPEG": "jpg", "GIF": "gif", "BMP": "bmp", "TIFF": "tiff", "EMF": "emf", "WMF": "wmf"}.get(U[m["img"] - 1]["fmt"]),
                                                       {"PNG": "image/png", "JPEG": "image/jpeg", "GIF": "image/gif", "BMP": "image/bmp", "TIFF": "image/tiff", "EMF": "image/x-emf", "WMF": "image/x-wmf"}.get(U[m["img"] - 1]["fmt"]))})
            site = ("stored:" + ",".join(wrong)) if "ExtAndTypeOfActualFormat" in b["failing"] and wrong else (a["op"] + cls)
            rep.reject("%s@%s" % (clause, site), {"module": "Media", "id": t["id"], "h": t["h"], "sel": list(nimg), "logo": logo, "npre": byjob[t["id"]][0], "alias": byjob[t["id"]][1], "failing": b,
                                                  "observed": t_obs, "errs": [s.get("err") for s in t["steps"]]},
                       "history %s" % json.dumps([{k: x[k] for k in ("op", "slide", "img", "args", "via")} for x in t["h"]])[:500])
    ops = {}
    for j in jobs:
        for a in j[1]:
            ops[a["op"]] = ops.get(a["op"], 0) + 1
    if not replay and any(not ops.get(o) for o in ALL + ["removeLayout"]):
        raise E.MachineryError("vacuous: %s" % ops)
    cov = {"states": max(states, 1), "transitions": max(trans, 1), "traces_validated_against_impl": len(traces),
           "real_steps_validated": tot.get("steps", 0), "saved_packages_validated": tot.get("saves", 0), "configs": per,
           "operation_counts_in_histories": ops, "image_universe": [{k: u[k] for k in ("file", "fmt", "pw", "ph", "dx", "dy")} for u in fullU],
           "samples": [{"history": jobs[len(jobs) // 2][1]}],
           "rule": "TLC enumerates every history <= DEPTH of picture / placeholder-picture / movie-poster / OLE-icon additions over the image "
                   "universe (generated PNG/JPEG/GIF/BMP/TIFF with misleading file names and every DPI class, from path and stream) with saves "
                   "and re-opens in between, and - from a deck whose unused slide layout carries a picture - with the removal of that layout (its image part "
                   "leaves the package and frees its name; MC_Media transcribes next_image_partname and keeps the live part names in the state so that "
                   "every ORDER of additions and removal is a distinct history); each is replayed; every picture added is re-read after every step; TLC validates the media projection (in memory after every step, and of every saved zip)"}
    return rep.finish("model_checking", cov, ["TLC 1.8", "Pillow generates the images and reads pixel size / DPI for the expectation; format by magic bytes",
                                             "aspect-ratio clause evaluated with Fractions in the driver (products exceed 32 bits), logged as a boolean",
                                             "DPI normalisation as documented: nearest integer, 72 when absent or outside 1..2048"])


if __name__ == "__main__":
    E.main_wrap(main)
