"""C05 — caller-supplied strings are stored as data, never interpreted as markup. spec/Sinks.tla, catalogue mbt/catalog/sinks.py."""
from __future__ import annotations

import json
import os
import sys
import time
import concurrent.futures as cf

from mbt import engine as E
from mbt.catalog import sinks as C
from mbt.drive import sinks as D

PID = "C05"
CFG = """SPECIFICATION Spec
CONSTANTS SINKS = {%(sinks)s}
 NOEMPTY = {%(noempty)s}
 ALPHA = {%(alpha)s}
 MAXLEN = %(maxlen)d
VIEW ViewSt
PROPERTY Refines
CHECK_DEADLOCK FALSE
"""
CLAUSES = ("Accepted", "ReadBack", "StructureUnchanged", "StillParses", "ReopenReadBack")


# ------------------------------------------------------------------------------------------------ TLC: the string family

def explore(work, name, sinks, alpha, maxlen):
    cfg = os.path.join(work, "MC_Sinks_%s.cfg" % name)
    with open(cfg, "w") as f:
        f.write(CFG % {"sinks": ", ".join('"%s"' % s.id for s in sinks), "noempty": ", ".join('"%s"' % s.id for s in sinks if s.no_empty),
                       "alpha": ", ".join(str(c) for c in alpha), "maxlen": maxlen})
    r = E.run_tlc("MC_Sinks", cfg, work=work, workers=8, timeout=900, extra=["-coverage", "1"], heap="4g")
    if r.invariant_violated or r.action_prop_violated or "is violated" in r.out:
        raise E.MachineryError("design-level check failed in MC_Sinks[%s]: the Impl layer no longer satisfies the property layer" % name)
    cases = r.printed("CASE")
    cc = r.coverage_counts()
    if not cases or cc.get("Store", 0) != len(cases):
        raise E.MachineryError("MC_Sinks[%s]: %s Store transitions taken, %d cases parsed" % (name, cc.get("Store"), len(cases)))
    per = sum(len(alpha) ** k for k in range(maxlen + 1))
    want = sum(per - (1 if s.no_empty else 0) for s in sinks)
    if len(cases) != want:
        raise E.MachineryError("MC_Sinks[%s]: %d cases emitted, %d expected (%d sinks x %d strings)" % (name, len(cases), want, len(sinks), per))
    return cases, r, {"sinks": len(sinks), "alphabet": [D.CLASS_NAMES[c] for c in alpha], "maxlen": maxlen, "strings_per_sink": per,
                      "cases": len(cases), "tlc_distinct": r.distinct, "tlc_generated": r.generated, "tlc_wall_s": round(r.wall, 1)}


# ------------------------------------------------------------------------------------------------ hypothesis: strings around the TLC strings

def hypothesis_pool(bases: list[list[int]], per_base: int, seed: int) -> dict:
    """For every TLC string (abstract classes) `per_base` strings over the whole XML Char production built around it:
    every class position takes any character of that class, with drawn fragments before, between and after."""
    from hypothesis import HealthCheck, Phase, given, settings, strategies as st
    from hypothesis import seed as hseed
    anychar = st.one_of(
        st.characters(min_codepoint=0x20, max_codepoint=0x10FFFF, exclude_categories=("Cs",), exclude_characters="\ufffe\uffff"),
        st.characters(min_codepoint=0x20, max_codepoint=0x2FF),
        st.sampled_from(list("&<>\"'];#x=%{}/ ")), st.sampled_from(["\t", "\n", "\r"]))
    frag = st.one_of(anychar, anychar, st.sampled_from(
        ["]]>", "&amp;", "&#60;", "&#x3c;", "<![CDATA[", "<!--", "-->", "<?x ", "?>", "&#0;", "&nosuch;", "&", "%s", "%(x)s", "{0}", "{x}",
         "</a:t>", "<a/>", "\"/>", "' x='", "\" y=\"", "&lt", ";", "\r\n", "]]", "<![", "&#", "\u0085", "\u00a0", "\ufffd", "\U0010ffff"]))
    glue = st.lists(frag, max_size=2).map("".join)
    plain = st.characters(min_codepoint=0x21, max_codepoint=0x10FFFF, exclude_categories=("Cs", "Zs", "Zl", "Zp", "Cc"),
                          exclude_characters="\ufffe\uffff&<>\"'\ufeff")
    wide = {D.PLAIN: plain, D.NBSP: st.sampled_from(sorted(D._WS - {"\u0085"})), D.ASTRAL: st.characters(min_codepoint=0x10000, max_codepoint=0x10FFFF),
            D.C1: st.characters(min_codepoint=0x80, max_codepoint=0x9F)}

    def around(b):
        parts = [glue]
        for c in b:
            parts.append(wide.get(c) or st.sampled_from(D.REPS[c]))
            parts.append(glue)
        return st.tuples(*parts).map("".join)
    pool = {i: [] for i in range(len(bases))}
    group = 8
    for g0 in range(0, len(bases), group):
        idx = list(range(g0, min(g0 + group, len(bases))))

        @hseed(seed * 1000003 + g0)
        @settings(max_examples=per_base + 2, database=None, deadline=None, phases=[Phase.generate], suppress_health_check=list(HealthCheck))
        @given(st.data())
        def draw(data):
            for i in idx:
                pool[i].append(data.draw(around(bases[i])))
        draw()
    out = {}
    for i, lst in pool.items():
        seen, keep = set(), []
        for s in lst[::-1]:                      # hypothesis tends to begin with the simplest example: prefer the later ones
            s = s[:40]
            if s not in seen:
                seen.add(s)
                keep.append(s)
        out[i] = keep[:per_base]
    return out


# ------------------------------------------------------------------------------------------------ verdict helpers

def py_failing(rec) -> set:
    """Python mirror of Sinks!Failing, used ONLY to minimise a witness; every verdict comes from TLC."""
    a, t = rec["a"], rec["t"]
    f = set()
    if t["out"] != "ok":
        return {"Accepted"}
    want = {"set": True, "v": a["want"]}
    if a["stored"] and t["field"] != want:
        f.add("ReadBack")
    if t["saved"] and a["s"] and (t["elems"], t["pkg"]) != (a["plain"]["elems"], a["plain"]["pkg"]):
        f.add("StructureUnchanged")
    if not (t["saved"] and t["parses"] and t["reopened"]):
        f.add("StillParses")
    if t["reopened"] and a["stored"] and t["field2"] != want:
        f.add("ReopenReadBack")
    return f


def contains(seq, sub) -> bool:
    """sub is a (scattered) subsequence of seq: the trigger's classes occur in the case in that order."""
    if not sub:
        return not seq                               # the empty string explains only itself
    it = iter(seq)
    return all(any(x == y for y in it) for x in sub)


def shrink(rec, failing: set, work) -> dict:
    """Drop tokens of the witness one at a time while the same clauses fail at the same sink (real code, ddmin by one)."""
    sink = C.BY_ID[rec["sink"]]
    toks = D.classify(rec["info"]["text"])
    best = rec

    def text_of(tk):
        return "".join(chr(t // 32) if t // 32 < 0x110000 else D._MULTI_BY_TOK[t] for t in tk)
    changed = True
    while changed and len(toks) > 1:
        changed = False
        for i in range(len(toks)):
            cand = toks[:i] + toks[i + 1:]
            if not cand and sink.no_empty:
                continue
            r = D.run_case(({"id": rec["id"] + "~", "sink": sink.id, "text": text_of(cand), "abs": []}, work))
            if "machinery" not in r and py_failing(r) == failing:
                toks, best, changed = cand, r, True
                break
    return best


def validate_chunks(recs, work, name):
    """TLC validates the observed cases, a few thousand per JVM start, several JVMs side by side."""
    slim = [{"id": r["id"], "sink": r["sink"], "abs": r["abs"], "a": r["a"], "t": r["t"]} for r in recs]
    parts = [slim[i:i + 5000] for i in range(0, len(slim), 5000)] or [[]]
    bad, tot = [], {}

    def run(ix_p):
        sub = os.path.join(work, "obs", "%s%03d" % (name, ix_p[0]))
        os.makedirs(sub, exist_ok=True)
        return E.validate("Trace_Sinks", {"cases": ix_p[1]}, work=sub, name="cases", heap="3g", timeout=1500)
    with cf.ThreadPoolExecutor(8) as ex:
        for b, s, _ in ex.map(run, list(enumerate(parts))):
            bad += b
            for k, v in s.items():
                tot[k] = tot.get(k, 0) + v
    if tot.get("cases") != len(slim):
        raise E.MachineryError("%d cases driven, %s validated" % (len(slim), tot.get("cases")))
    return bad, tot


def selftest(recs, work):
    """Corrupt one recorded field per clause; TLC must reject exactly the corrupted copies, each with exactly that clause."""
    def pick(pred):
        for r in recs:
            if r["t"]["out"] == "ok" and not py_failing(r) and pred(r):
                return json.loads(json.dumps({k: r[k] for k in ("id", "sink", "abs", "a", "t")}))
        raise E.MachineryError("selftest: no recorded case to corrupt")
    objs, want = [], {}

    def add(tag, r, clauses):
        r["id"] = "selftest:" + tag
        want[r["id"]] = set(clauses)
        objs.append(r)
    r = pick(lambda r: r["a"]["stored"] and any(t % 32 == D.AMP for t in r["a"]["s"]))
    clean = json.loads(json.dumps(r))
    clean["id"] = "selftest:clean"
    objs.append(clean)
    i = next(i for i, t in enumerate(r["t"]["field"]["v"]) if t % 32 == D.AMP)
    r["t"]["field"]["v"][i] = D.PLAIN + 32 * ord("a")                    # the reader lost the ampersand
    add("char", r, ["ReadBack"])
    r = pick(lambda r: len(r["a"]["s"]) >= 2)
    r["t"]["elems"] = "0123456789abcdef"                                 # the owner part has another element structure
    add("structure", r, ["StructureUnchanged"])
    r = pick(lambda r: True)
    r["t"]["parses"] = False                                             # a saved member does not parse
    add("parses", r, ["StillParses"])
    r = pick(lambda r: any(t % 32 == D.LT for t in r["a"]["s"]))
    r["t"] = {"out": "XMLSyntaxError", "field": {"set": False, "v": []}, "saved": False, "parses": False, "reopened": False,
              "elems": "none", "pkg": "none", "field2": {"set": False, "v": []}}   # the call raised
    add("raised", r, ["Accepted"])
    r = pick(lambda r: r["a"]["stored"] and len(r["a"]["s"]) >= 1)
    r["t"]["field2"] = {"set": True, "v": r["t"]["field2"]["v"][:-1]}    # the last character is gone after re-open
    add("reopen", r, ["ReopenReadBack"])
    r = pick(lambda r: r["a"]["s"] == [] and r["a"]["stored"])
    r["t"]["elems"] = "fedcba9876543210"                                 # the empty string may make another structure: NOT a failure
    r["id"] = "selftest:empty-structure"
    objs.append(r)
    bad, _, _ = E.validate("Trace_Sinks", {"cases": objs}, work=work, name="selftest")
    got = {v["id"]: set(next(iter(v["bad"]))["failing"]) if len(v["bad"]) == 1 else None for v in bad}
    ok = got == want
    print("SELFTEST %s: lost '&' in the reader / other element structure / unparsable member / raising call / lost character after "
          "re-open rejected, clean copy and empty-string structure accepted -> %s" % ("ok" if ok else "FAILED", {k: sorted(v or []) for k, v in got.items()}), flush=True)
    if not ok:
        raise E.MachineryError("selftest failed: wanted %s got %s" % (want, got))


# ------------------------------------------------------------------------------------------------ completeness of the catalogue

def _trace_job(sid):
    work = os.path.join(E.WORKROOT, PID)
    sites = C.scan_sites()
    d = D._scratch(work)
    try:
        r, t = C.trace_sites(C.BY_ID[sid], sites, d)
    finally:
        import shutil
        shutil.rmtree(d, ignore_errors=True)
    return sid, sorted(r), sorted(t)


def completeness():
    sites = C.scan_sites()
    reached, tainted = {}, {}
    for sid, r, t in E.pmap(_trace_job, [s.id for s in C.CATALOGUE], procs=16, chunk=2):
        for i in r:
            reached.setdefault(i, []).append(sid)
        for i in t:
            tainted.setdefault(i, []).append(sid)

    def row(i, s):
        return {"site": "%s:%d" % (s["file"], s["line"]), "function": s["func"], "kind": s["kind"], "substitutes": s["substitutes"][:8]}
    uncovered = [row(i, s) for i, s in enumerate(sites) if s["string_capable"] and i not in reached]
    untainted = [dict(row(i, s), reached_by=len(reached[i])) for i, s in enumerate(sites) if s["string_capable"] and i in reached and i not in tainted]
    covered = [dict(row(i, s), caller_string_from=tainted[i][:4], entries=len(tainted[i]), all_entries=tainted[i]) for i, s in enumerate(sites) if i in tainted]
    const_only = sum(1 for s in sites if not s["string_capable"])
    return {"substitution_sites": len(sites), "sites_with_only_constants_or_nsdecls": const_only, "sites_receiving_a_caller_string": len(covered),
            "sites_reached_without_caller_string": untainted, "uncovered_sinks": uncovered, "covered_sites": covered}


# ------------------------------------------------------------------------------------------------ main

def main() -> int:
    rep = E.Report(PID)
    work = E.workdir(PID)
    thorough = E.tier() == "thorough"
    do_selftest = "--selftest" in sys.argv
    replay = sys.argv[sys.argv.index("--replay") + 1] if "--replay" in sys.argv else None
    seed = E.seed()
    sinks = list(C.CATALOGUE)
    nontext = [s for s in sinks if not s.textual]
    t0 = time.time()
    cases, cfginfo, states, trans, actions, comp = [], {}, 0, 0, {}, {}
    if replay:
        rp = json.load(open(replay))
        cases = [rp["case"]]
        seed = rp.get("seed", seed)
    else:
        heavy = [s for s in sinks if not s.light]
        if thorough:
            cfgs = [("core3", heavy, D.CORE_ALPHA, 3), ("base2", sinks, D.BASE_ALPHA, 2), ("wide2", sinks, D.WIDE_ALPHA + [D.AMP, D.QUOT, D.PLAIN], 2),
                    ("ctl2", nontext, D.CTL_ALPHA + [D.PLAIN, D.AMP, D.QUOT], 2)]
        else:
            cfgs = [("base2", sinks, D.BASE_ALPHA, 2), ("wide1", sinks, D.WIDE_ALPHA, 1), ("ctl1", nontext, D.CTL_ALPHA, 1)]
        with cf.ThreadPoolExecutor(len(cfgs) + 1) as ex:
            fcomp = ex.submit(completeness)
            explored = list(ex.map(lambda c: explore(work, *c), cfgs))
            comp = fcomp.result()
        seen = set()
        for (name, _, _, _), (cs, r, info) in zip(cfgs, explored):
            states += r.distinct
            trans += r.generated
            for a, n in r.coverage_counts().items():
                actions[a] = actions.get(a, 0) + n
            cfginfo[name] = info
            for c in sorted(cs, key=lambda c: (c["sink"], len(c["s"]), c["s"])):
                key = (c["sink"], tuple(c["s"]))
                if key in seen:
                    continue
                seen.add(key)
                cid = "%s|%s" % (c["sink"], ".".join(D.CLASS_NAMES[x] for x in c["s"]) or "empty")
                cases.append({"id": cid, "sink": c["sink"], "abs": c["s"], "text": D.concretise(c["s"], D.case_rng(seed, cid))})
        if thorough:
            bases = sorted({tuple(c["abs"]) for c in cases if len(c["abs"]) <= 2 and all(x in D.BASE_ALPHA for x in c["abs"])})
            per = 6
            pool = hypothesis_pool([list(b) for b in bases], per, seed)
            nh = 0
            for k, s in enumerate(sinks):
                for i, b in enumerate(bases):
                    if pool[i]:
                        text = pool[i][(k + i) % len(pool[i])]
                        cid = "%s|hyp:%s:%d" % (s.id, ".".join(D.CLASS_NAMES[x] for x in b) or "empty", (k + i) % len(pool[i]))
                        cases.append({"id": cid, "sink": s.id, "abs": [], "text": text, "around": list(b)})
                        nh += 1
            cfginfo["hypothesis"] = {"base_strings": len(bases), "drawn_per_base": per, "pool": sum(len(v) for v in pool.values()), "cases": nh,
                                     "alphabet": "XML 1.0 Char production (TAB LF CR, U+0020..U+D7FF, U+E000..U+FFFD, U+10000..U+10FFFF)"}
    t_tlc = time.time() - t0
    # what each entry really receives (file names cannot hold '/', text sinks do not get TAB/LF/CR); de-duplicate after that
    seen, uniq = set(), []
    for c in cases:
        text = D.admissible(C.BY_ID[c["sink"]], c["text"])
        if (c["sink"], text) in seen or (text == "" and C.BY_ID[c["sink"]].no_empty):
            continue
        seen.add((c["sink"], text))
        uniq.append(dict(c, text=text))
    cases = uniq
    t0 = time.time()
    cases.sort(key=lambda c: c["sink"])
    jobs = [(cases[i:i + 40], work) for i in range(0, len(cases), 40)]
    recs = [r for chunk in E.pmap(D.run_chunk, jobs, procs=16, chunk=1) for r in chunk]
    t_run = time.time() - t0
    mach = [r["machinery"] for r in recs if "machinery" in r]
    if mach:
        raise E.MachineryError("catalogue entry does not work with a plain string: %s" % mach[0][:600])
    t0 = time.time()
    bad, tot = validate_chunks(recs, work, "c")
    t_val = time.time() - t0
    if do_selftest:
        selftest(recs, work)
    byid = {r["id"]: r for r in recs}
    cbyid = {c["id"]: c for c in cases}
    # ---- signatures: clause@sink[minimal triggering class sequence]
    rej = []
    for v in bad:
        r = byid[v["id"]]
        failing = set(next(iter(v["bad"]))["failing"])
        rej.append((len(r["a"]["s"]), 1 if "|hyp:" in r["id"] else 0, D.classes_of(r["a"]["s"]), r, failing))
    rej.sort(key=lambda x: (x[1], x[0], x[2], x[3]["id"]))          # enumerated cases first, shortest first
    triggers: dict = {}            # (sink, clause) -> [ [classes], record, failing, count, more witnesses ]
    known_bad: dict = {}           # sink -> class sets of the triggers found among the TLC-enumerated cases (level 1)
    for _, drawn, cls, r, failing in rej:
        key = (r["sink"], "+".join(sorted(failing)))
        lst = triggers.setdefault(key, [])
        hit = next((t for t in lst if contains(cls, t[0])), None)
        if hit is None and drawn:
            # level 2, drawn strings: explained by any enumerated trigger of the same entry whose classes all occur in it (the same
            # unescaped substitution shows as a refused call, a decoded reference or injected markup depending on what surrounds it)
            hit = next((t for (sid, _), l2 in triggers.items() if sid == r["sink"] for t in l2 if t[5] and set(t[0]) <= set(cls)), None)
            if hit is None and len(cls) > 1:            # otherwise minimise on the real code and report the classes it needs
                r = shrink(r, failing, work)
                cls = sorted(set(D.classes_of(r["a"]["s"])))
                hit = next((t for t in lst if not t[5] and t[0] == cls), None)
        if hit is not None:
            hit[3] += 1
            if len(hit[4]) < 5:
                hit[4].append(ascii(r["info"]["text"]))
            continue
        lst.append([cls, r, failing, 1, [], not drawn])
    confirm = [t[1] for lst in triggers.values() for t in lst if t[1]["id"].endswith("~")]
    if confirm:                                          # minimised witnesses get their verdict from TLC like every other case
        cbad, _ = validate_chunks(confirm, work, "m")
        got = {v["id"]: set(next(iter(v["bad"]))["failing"]) for v in cbad}
        for lst in triggers.values():
            for t in lst:
                if t[1]["id"].endswith("~") and got.get(t[1]["id"]) != t[2]:
                    raise E.MachineryError("minimised witness %s: TLC says %s, expected %s" % (t[1]["id"], got.get(t[1]["id"]), t[2]))
    sites_of = {}
    for row in comp.get("covered_sites", []):
        for sid in row["all_entries"]:
            sites_of.setdefault(sid, []).append("%s %s" % (row["site"], row["function"]))
    for (sid, clause), lst in sorted(triggers.items()):
        for cls, r, failing, n, more, enumerated in lst:
            sig = "%s@%s[%s%s]" % (clause, sid, "" if enumerated else "drawn:", "+".join(D.CLASS_NAMES[c] for c in cls) or "empty")
            text = r["info"]["text"]
            what = "%s(%s) %s; %d cases" % (sid, ascii(text), {k: v for k, v in r["info"].items() if k != "text"} or
                                            {"field": _show(r["t"]["field"]), "reopened_field": _show(r["t"]["field2"]), "want": ascii(C.BY_ID[sid].derive(text))}, n)
            rep.reject(sig, {"module": "Sinks", "case": {"id": r["id"], "sink": sid, "abs": r["abs"], "text": text}, "seed": seed,
                             "failing": sorted(failing), "action": r["a"], "observed": r["t"], "info": r["info"], "cases_with_this_signature": n,
                             "substitution_sites": sites_of.get(sid, []),
                             "more_witnesses": more, "entry": C.BY_ID[sid].describe()}, what[:420])
    if tot.get("drift"):
        rep.note("drift: %d observations differ from ImplStore with every clause true (empty string: fewer elements than a plain one)" % tot["drift"])
    per_sink = {}
    for r in recs:
        d = per_sink.setdefault(r["sink"], {"cases": 0, "ok": 0})
        d["cases"] += 1
        d["ok"] += r["t"]["out"] == "ok"
    used_classes = sorted({D.CLASS_NAMES[t % 32] for r in recs for t in r["a"]["s"]})
    nontrivial = len({(r["sink"], r["info"]["text"]) for r in recs if any(t % 32 not in (D.PLAIN, D.SP) for t in r["a"]["s"])})
    if not replay:
        for a in ("Type", "Store"):
            if not actions.get(a):
                raise E.MachineryError("vacuous: action %s never taken in the model" % a)
        idle = [s.id for s in sinks if per_sink.get(s.id, {}).get("cases", 0) < 100 or not per_sink[s.id]["ok"]]
        if idle:
            raise E.MachineryError("vacuous: catalogue entries with (almost) no accepted case: %s" % idle[:5])
        for k in ("accepted", "readbacks", "structures", "reopens", "nonplain"):
            if not tot.get(k):
                raise E.MachineryError("vacuous: clause never evaluated on a real observation: %s" % tot)
        missing = [D.CLASS_NAMES[c] for c in D.BASE_ALPHA + D.WIDE_ALPHA + D.CTL_ALPHA if D.CLASS_NAMES[c] not in used_classes]
        if missing:
            raise E.MachineryError("vacuous: classes never given to the library: %s" % missing)
        if tot["nonplain"] != nontrivial:
            raise E.MachineryError("TLC counted %d non-plain cases, the driver %d" % (tot["nonplain"], nontrivial))
    mid = [cases[0], cases[len(cases) // 3], cases[len(cases) // 2], cases[-1]] if cases else []
    smp = [{"id": c["id"], "sink": c["sink"], "classes": D.class_names(byid[c["id"]]["a"]["s"]), "text": ascii(c["text"]),
            "outcome": byid[c["id"]]["t"]["out"], "reader_returned": _show(byid[c["id"]]["t"]["field"])} for c in mid]
    strings_per_sink = sorted(d["cases"] for d in per_sink.values())
    cov = {"evaluations": len(recs), "distinct_nontrivial": nontrivial, "states": states, "transitions": trans,
           "traces_validated_against_impl": tot.get("cases", 0), "sinks": len(per_sink), "strings_per_sink": {
               "min": strings_per_sink[0], "median": strings_per_sink[len(strings_per_sink) // 2], "max": strings_per_sink[-1]} if strings_per_sink else {},
           "configs": cfginfo, "action_counts": actions, "validated": tot, "classes_used": used_classes,
           "rejected_cases": len(bad), "signatures": sum(len(v) for v in triggers.values()),
           "catalogue": [s.describe() for s in sinks], "not_catalogued": C.NOT_CATALOGUED,
           "uncovered_sinks": comp.get("uncovered_sinks", []), "completeness": {k: ([{kk: vv for kk, vv in row.items() if kk != "all_entries"} for row in v] if k == "covered_sites" else v)
                                                                               for k, v in comp.items() if k != "uncovered_sinks"},
           "samples": smp, "exhaustive": True,
           "phase_wall_s": {"tlc_explore_and_site_scan": round(t_tlc, 1), "drive": round(t_run, 1), "tlc_validate": round(t_val, 1)},
           "rule": "TLC enumerates every catalogue entry x every string of length <= MAXLEN over a class alphabet. quick: the 10 classes AMP LT GT "
                   "QUOT APOS CDEND(']]>') ENT(a well-formed reference) CDOPEN('<![CDATA[') PLAIN SP at length <= 2, plus NBSP-like / astral / C1 / "
                   "ELEM(a complete element such as '<b/>') and TAB / LF / CR singly. thorough: the 8 single-character-or-']]>' classes at length <= 3 "
                   "(entries sharing a setter with another entry: <= 2), all 10 at length <= 2, {NBSP, ASTRAL, C1, ELEM, AMP, QUOT, PLAIN} and "
                   "{TAB, LF, CR, PLAIN, AMP, QUOT} at length <= 2, plus hypothesis-drawn strings over the whole XML Char production around every "
                   "string of length <= 2 (any character of the class at each position, drawn fragments before / between / after). TAB/LF/CR are "
                   "not given to text entries (documented translation). Each case is concretised with a per-position representative and "
                   "stored through the public API on a fresh presentation. Distinct = distinct (entry, concrete string); non-trivial = the "
                   "string has at least one character outside PLAIN and SP. TLC evaluates Accepted, ReadBack, StructureUnchanged, StillParses, "
                   "ReopenReadBack on every observation. Signature = clauses@entry[minimal triggering class sequence among the enumerated "
                   "cases]; a drawn string is attributed to an enumerated trigger of the same entry whose classes all occur in it."}
    return rep.finish("exploration", cov, [
        "TLC 1.8; lxml parses every XML member of the saved package; structure = element tags in document order per member",
        "the catalogue is hand-written; its completeness is measured by the AST scan + call tracing reported under completeness / uncovered_sinks",
        "each entry is exercised on one fresh object kind built from the default template; strings are bounded by MAXLEN (+ drawn strings <= 40 characters)",
        "file-name entries: '/' cannot occur in a POSIX base name and is never given; text entries do not receive TAB/LF/CR (documented translation, C04)",
        "entries without a public reader are read from the saved XML by XPath; the embedded workbook of a chart (XlsxWriter) is not examined",
        "hyperlink hover address: pptx.action.ActionSetting is constructed directly (no public accessor exists)"])


def _show(f):
    if not f["set"]:
        return None
    return ascii("".join(chr(t // 32) if t // 32 < 0x110000 else D._MULTI_BY_TOK[t] for t in f["v"]))


if __name__ == "__main__":
    E.main_wrap(main)
