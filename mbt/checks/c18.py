"""C18 — core document properties round-trip and stay valid. spec/CoreProps.tla."""
from __future__ import annotations

import copy
import json
import os
import sys
import time
import concurrent.futures as cf

from mbt import engine as E
from mbt.drive import coreprops as C

PID = "C18"
CFG = """SPECIFICATION Spec
CONSTANTS ALPHA <- %(alpha)s
 INITS = {%(inits)s}
 NASSIGN = %(na)d
 NREOPEN = %(nr)d
INVARIANT TypeOK
INVARIANT EmitState
CHECK_DEADLOCK FALSE
"""
OPS = ("FirstAccess", "SetStr", "SetDate", "SetRev", "LoadLexical", "SaveReopen")


def explore(work, name, alpha, na, nr, inits=("absent", "empty")):
    """TLC enumerates every history of the configuration, evaluates the Impl layer against the property layer on every
    transition (DESIGN lines) and prints one line per history; returns (leaf histories, design-level classes, result)."""
    cfg = os.path.join(work, "MC_CoreProps_%s.cfg" % name)
    with open(cfg, "w") as f:
        f.write(CFG % dict(alpha=alpha, inits=", ".join('"%s"' % k for k in inits), na=na, nr=nr))
    utc = os.path.join(work, "utc_%s.json" % name)
    r = E.run_tlc("MC_CoreProps", cfg, work=work, workers=8, timeout=1500, heap="6g", env={"UTC_FILE": utc})
    if r.invariant_violated or "is violated" in r.out:
        raise E.MachineryError("MC_CoreProps[%s]: %s violated (the Impl layer left the state space of the spec; see %s)" % (name, r.invariant_violated, work))
    sts = r.printed("ST")
    if len(sts) != r.distinct:
        raise E.MachineryError("emitted %d histories for %d distinct states in MC_CoreProps[%s]" % (len(sts), r.distinct, name))
    # ToUtc (TLA+) against python's calendar for every lexical form of the alphabet: a disagreement is a spec error
    table = json.load(open(utc))
    for row in table:
        ref = C.py_utc(row["v"])
        if ref["ok"] != row["u"]["ok"] or (ref["ok"] and ref["v"] != row["u"]["v"]):
            raise E.MachineryError("ToUtc in CoreProps.tla disagrees with the reference calendar on %s: %s vs %s" % (C.render_lex(row["v"]), row["u"], ref))
    design = {}
    for d in r.printed("DESIGN"):
        for cl in d["f"]:
            sg = signature(cl, d["op"], d["cls"])
            design[sg] = design.get(sg, 0) + 1
    counts = {}
    for x in sts:
        op = x["h"][-1]["op"]
        counts[op] = counts.get(op, 0) + 1
    return [x["h"] for x in sts if x["leaf"]], design, counts, len(table), r


def signature(clause: str, op: str, cls: dict) -> str:
    return "%s@%s[%s:%s%s]" % (clause, op, cls["k"], cls["c"], "" if cls["m"] == "x" else "." + cls["m"])


def full_states(tr: dict, inits: dict) -> list:
    s = copy.deepcopy(inits[tr["kind"]])
    out = [s]
    for st in tr["steps"]:
        t = copy.deepcopy(out[-1])
        d = st["d"]
        t["present"], t["xsd"] = d["present"], d["xsd"]
        for x in d["str"]:
            t["str"][x["p"]] = copy.deepcopy(x["v"])
        for x in d["date"]:
            t["date"][x["p"]] = copy.deepcopy(x["v"])
        if d["rev"]:
            t["rev"] = copy.deepcopy(d["rev"][0])
        out.append(t)
    return out


def with_states(tr: dict, acts: list, states: list) -> dict:
    return {"id": tr["id"], "kind": tr["kind"],
            "steps": [{"a": a, "out": o, "d": C._delta(states[i], states[i + 1])} for i, (a, o) in enumerate(acts)]}


def validate_traces(traces, inits, work, tag):
    chunks, cur, n = [], [], 0
    for t in traces:
        cur.append(t)
        n += len(t["steps"])
        if n > 9000:
            chunks.append(cur)
            cur, n = [], 0
    if cur:
        chunks.append(cur)
    bad, tot, drifts = [], {}, []

    def run(ix_c):
        ix, c = ix_c
        return E.validate("Trace_CoreProps", {"inits": inits, "traces": c}, work=work, name="%s%d" % (tag, ix), heap="3g", timeout=1500)
    with cf.ThreadPoolExecutor(12) as ex:
        for b, s, r in ex.map(run, list(enumerate(chunks))):
            bad += b
            drifts += r.printed("DRIFT")
            for k, v in s.items():
                tot[k] = tot.get(k, 0) + v
    return bad, tot, drifts


def selftest(traces, inits, badids, work):
    """Corrupt one recorded field per clause family in traces TLC accepted, and fold one dropped action into its
    successor; TLC must reject exactly those traces at exactly that step with that clause."""
    def pick(pred):
        for t in traces:
            if t["id"] in badids:
                continue
            for k, st in enumerate(t["steps"]):
                if pred(t, k, st):
                    return copy.deepcopy(t), k
        raise E.MachineryError("selftest: no accepted trace of the wanted shape")
    cases = []
    t, k = pick(lambda t, k, st: st["a"]["op"] == "SetStr" and st["out"] == "ok" and len(st["a"]["v"]) > 2
                and any(x["p"] == st["a"]["p"] for x in st["d"]["str"]))
    slot = next(x for x in t["steps"][k]["d"]["str"] if x["p"] == t["steps"][k]["a"]["p"])
    slot["v"]["r"][0][0] = 1 if slot["v"]["r"][0][0] != 1 else 2
    cases.append(("reader returns another character class", "ReadStr", t, k))
    t, k = pick(lambda t, k, st: st["a"]["op"] == "SetDate" and st["out"] == "ok" and st["d"]["date"] and st["d"]["date"][0]["v"]["r"]["has"])
    t["steps"][k]["d"]["date"][0]["v"]["r"]["S"] = (t["steps"][k]["d"]["date"][0]["v"]["r"]["S"] + 1) % 60
    cases.append(("reader off by one second", "ReadDate", t, k))
    t, k = pick(lambda t, k, st: st["a"]["op"] == "SetStr" and st["out"] == "ok" and st["d"]["xsd"])
    t["steps"][k]["d"]["xsd"] = False
    for st in t["steps"][k + 1:]:
        st["d"]["xsd"] = False
    cases.append(("XSD monitor bit cleared", "XsdValid", t, k))
    t, k = pick(lambda t, k, st: st["a"]["op"] == "LoadLexical" and st["a"]["v"]["tz"] == "off" and st["a"]["v"]["f"] == 0
                and st["a"]["v"]["g"] == "full" and st["d"]["date"] and st["d"]["date"][0]["v"]["r"]["has"])
    t["steps"][k]["d"]["date"][0]["v"]["r"]["H"] = (t["steps"][k]["d"]["date"][0]["v"]["r"]["H"] + 1) % 24
    cases.append(("offset applied one hour wrong", "LexUtc", t, k))
    t, k = pick(lambda t, k, st: st["a"]["op"] == "SaveReopen" and k >= 1 and t["steps"][k - 1]["a"]["op"] == "SetStr" and t["steps"][k - 1]["out"] == "ok"
                and t["steps"][k - 1]["d"]["str"] and t["steps"][k - 1]["a"]["v"])
    t["steps"][k]["d"]["str"] = [{"p": t["steps"][k - 1]["d"]["str"][0]["p"], "v": {"has": True, "x": [], "r": []}}]
    if k + 1 < len(t["steps"]):
        t["steps"] = t["steps"][:k + 1]
    cases.append(("value lost across re-open", "ReopenIdentity", t, k))
    t, k = pick(lambda t, k, st: st["a"]["op"] == "SetStr" and st["out"] == "ValueError" and inits[t["kind"]]["present"])
    t["steps"][k]["d"]["str"] = [{"p": t["steps"][k]["a"]["p"], "v": {"has": True, "x": [[1, 255]], "r": [[1, 255]]}}]
    t["steps"] = t["steps"][:k + 1]
    cases.append(("refused value stored truncated", "RejectedUnchanged", t, k))
    # drop one action: its effect shows up as a side effect of the next one
    t, k = pick(lambda t, k, st: k >= 1 and st["a"]["op"] in ("SetStr", "SetDate", "SetRev") and st["out"] == "ok"
                and t["steps"][k - 1]["a"]["op"] in ("SetStr", "SetDate", "SetRev") and t["steps"][k - 1]["out"] == "ok"
                and C_prop(t["steps"][k - 1]["a"]) != C_prop(st["a"]) and inits[t["kind"]]["present"]
                and reads(full_states(t, inits)[k - 1]) != reads(full_states(t, inits)[k]))
    states = full_states(t, inits)
    acts = [(s["a"], s["out"]) for s in t["steps"]]
    t = with_states(t, acts[:k - 1] + acts[k:k + 1], states[:k] + states[k + 1:k + 2])
    cases.append(("one action dropped from the record", "OthersKept", t, k - 1))
    for i, c in enumerate(cases):
        c[2]["id"] = "selftest:%d" % i
    bad, _, _ = E.validate("Trace_CoreProps", {"inits": inits, "traces": [c[2] for c in cases]}, work=work, name="selftest")
    got = {b["id"]: b for b in bad}
    ok = True
    for i, (what, clause, t, k) in enumerate(cases):
        b = got.get("selftest:%d" % i)
        hit = b is not None and any(x["at"] == "step" and x["k"] == k + 1 and clause in x["failing"] for x in b["bad"]) and \
            all(x["k"] >= k + 1 for x in b["bad"])
        print("SELFTEST %s: %s -> expect %s at step %d; TLC: %s" % ("ok" if hit else "FAILED", what, clause, k + 1,
                                                                    [(x["k"], sorted(x["failing"])) for x in b["bad"]] if b else "accepted"))
        ok = ok and hit
    if not ok:
        raise E.MachineryError("selftest failed")


def reads(s):
    return [[s["str"][p]["r"] for p in sorted(s["str"])], [s["date"][p]["r"] for p in sorted(s["date"])], s["rev"]["r"]]


def C_prop(a):
    return "revision" if a["op"] == "SetRev" else a["p"]


def main() -> int:
    rep = E.Report(PID)
    work = E.workdir(PID)
    thorough = E.tier() == "thorough"
    do_selftest = "--selftest" in sys.argv
    replay = sys.argv[sys.argv.index("--replay") + 1] if "--replay" in sys.argv else None
    if thorough:
        cfgs = [("values", "ValuesThorough", 1, 2), ("wide", "OrdersWide", 2, 2), ("deep", "OrdersDeep", 3, 2)]
    else:
        cfgs = [("values", "ValuesQuick", 1, 2), ("orders", "OrdersQuick", 2, 2)]
    states = transitions = nlex = 0
    phase, t0 = {}, time.time()
    per_cfg, actions, design, jobs = {}, {}, {}, []
    if replay:
        rp = json.load(open(replay))
        jobs = [(rp["id"], rp["h"])]
    else:
        rdir = os.path.join(E.REPLAYS, PID)          # witnesses of this run only (file names are content hashes)
        for fn in os.listdir(rdir) if os.path.isdir(rdir) else []:
            os.remove(os.path.join(rdir, fn))
        with cf.ThreadPoolExecutor(len(cfgs)) as ex:
            res = list(ex.map(lambda c: explore(work, *c), cfgs))
        for (name, alpha, na, nr), (leaves, dsg, counts, ntab, r) in zip(cfgs, res):
            states += r.distinct
            transitions += r.generated
            nlex += ntab
            for k, v in counts.items():
                actions[k] = actions.get(k, 0) + v
            for k, v in dsg.items():
                design[k] = design.get(k, 0) + v
            n0 = len(jobs)
            for i, h in enumerate(leaves):
                jobs.append(("%s:%d" % (name, i), h))
                # the value sweep is also run on the library's own default template (a populated core.xml)
                if name == "values" and h[0]["kind"] == "empty" and not (h[1]["op"] == "LoadLexical" and h[1]["p"] != "created"):
                    jobs.append(("%s:%d:tpl" % (name, i), [{"op": "init", "kind": "template"}] + h[1:]))
                # ... and on a core.xml as another producer writes it (mixed-content keywords, xml:lang, another child order)
                if name == "values" and h[0]["kind"] == "empty":
                    jobs.append(("%s:%d:frn" % (name, i), [{"op": "init", "kind": "foreign"}] + h[1:]))
                # ... and on a core.xml whose root declares only the namespaces it uses (no dcterms, no xsi): the date properties
                if name == "values" and h[0]["kind"] == "empty" and h[1]["op"] == "SetDate":
                    jobs.append(("%s:%d:spr" % (name, i), [{"op": "init", "kind": "sparse"}] + h[1:]))
            per_cfg[name] = {"alphabet": alpha, "assignments": na, "reopens": nr, "histories": r.distinct, "leaf_histories": len(leaves),
                             "scenarios": len(jobs) - n0, "tlc_generated": r.generated, "tlc_wall_s": round(r.wall, 1), "lexical_forms": ntab}
        for op in OPS:
            if not actions.get(op):
                raise E.MachineryError("vacuous: action %s never explored (%s)" % (op, actions))
    phase["tlc_explore_s"] = round(time.time() - t0, 1)
    print("PHASE explore %.1fs: %d scenarios" % (phase["tlc_explore_s"], len(jobs)), flush=True)
    t0 = time.time()
    # longest first, for balance
    jobs.sort(key=lambda j: -sum(3 if a["op"] in ("SaveReopen", "LoadLexical") else 1 for a in j[1]))
    traces = E.pmap(C.run_trace, jobs, procs=16, chunk=8)
    # the readings of a package just opened are a function of the package: every run that opens the same initial package observes the
    # same initial state (the most frequent observation is taken as the package's; a run that saw something else - values left over
    # from another presentation handled in the same process - is a rejected trace)
    import collections
    seen_inits: dict = {}
    for t in traces:
        seen_inits.setdefault(t["kind"], collections.Counter())[json.dumps(t["init"], sort_keys=True)] += 1
    inits = {k: json.loads(c.most_common(1)[0][0]) for k, c in seen_inits.items()}
    for t in traces:
        s = t.pop("init")
        if s != inits[t["kind"]]:
            diff = sorted(k for k in set(s) | set(inits[t["kind"]]) if s.get(k) != inits[t["kind"]].get(k)) if isinstance(s, dict) else []
            rep.reject("OpenedPackageReadsAsItsDocument@open[%s]" % t["kind"],
                       {"module": "CoreProps", "id": t["id"], "kind": t["kind"], "observed_init": s, "package_init": inits[t["kind"]]},
                       "a run that opened the initial package %r read %s differently from the other runs that opened it" % (t["kind"], diff[:6]))
    phase["replay_s"] = round(time.time() - t0, 1)
    print("PHASE replay %.1fs" % phase["replay_s"], flush=True)
    t0 = time.time()
    bad, tot, drifts = validate_traces(traces, inits, work, "obs")
    phase["tlc_validate_s"] = round(time.time() - t0, 1)
    print("PHASE validate %.1fs: %s" % (phase["tlc_validate_s"], tot), flush=True)
    byid = {j[0]: j for j in jobs}
    trid = {t["id"]: t for t in traces}
    observed, nbadsteps = {}, 0
    korder = {"empty": 0, "absent": 1, "template": 2, "foreign": 3, "sparse": 4}

    def wkey(v):          # deterministic witnesses: shortest history, plainest package, enumeration order
        h, parts = byid[v["id"]][1], v["id"].split(":")
        return (len(h), korder.get(h[0]["kind"], 3), parts[0], int(parts[1]) if len(parts) > 1 and parts[1].isdigit() else 0)
    for v in sorted(bad, key=wkey):
        h = byid[v["id"]][1]
        tr = trid[v["id"]]
        for b in sorted(v["bad"], key=lambda b: b["k"]):
            nbadsteps += 1
            k = b["k"]
            a = h[k] if b["at"] == "step" else h[0]
            for clause in sorted(b["failing"]):
                sg = signature(clause, a["op"] if b["at"] == "step" else "init", b["cls"])
                observed[sg] = observed.get(sg, 0) + 1
                if observed[sg] > 2 and not replay:
                    continue
                shown = dict(a)
                if a["op"] == "LoadLexical":
                    shown = {"op": a["op"], "p": a["p"], "text": C.render_lex(a["v"])}
                elif a["op"] == "SetDate" and a["kind"] == "datetime":
                    shown = {"op": a["op"], "p": a["p"], "value": C.datetok(a["v"]).isoformat()}
                obs = tr["steps"][k - 1] if b["at"] == "step" else {}
                got = {"out": obs.get("out"), "read": [[x["p"], x["v"]["r"] if x["v"]["r"]["has"] else None] for x in obs.get("d", {}).get("date", [])]
                       + [["revision", x["r"]] for x in obs.get("d", {}).get("rev", [])], "xsd": obs.get("d", {}).get("xsd")}
                rep.reject(sg, {"module": "CoreProps", "id": v["id"], "h": h[:k + 1], "failing": b,
                                "observed": tr["steps"][k - 1] if b["at"] == "step" else inits[tr["kind"]]},
                           "%s after %s observed %s" % (json.dumps(shown, sort_keys=True)[:300],
                                                        json.dumps([x.get("kind", x["op"]) if x["op"] == "init" else x["op"] for x in h[:k]]), json.dumps(got)[:300]))
    if do_selftest:
        selftest(traces, inits, {v["id"] for v in bad}, work)
    if tot.get("drift"):
        rep.note("drift: %d observed steps differ from the Impl layer (property still holds unless listed as VIOLATION), e.g. %s" % (tot["drift"], [d["id"] for d in drifts[:5]]))
    if tot.get("readerRaised"):
        rep.note("%d observed states in which a date reader raised (UTC equivalent of the loaded lexical form is outside year 1..9999; "
                 "the statement demands nothing there)" % tot["readerRaised"])
    only_design = sorted(set(design) - set(observed))
    only_obs = sorted(set(observed) - set(design))
    if design and not replay:
        rep.note("design level: TLC finds the Impl transcription violating the property layer on %d transitions (%s); confirmed on the real "
                 "library: %s" % (sum(design.values()), sorted(design), sorted(set(design) & set(observed))))
    if only_design and not replay:
        rep.note("Impl layer predicts violations the real library does not show (transcription out of date): %s" % only_design)
    if only_obs and not replay:
        rep.note("observed violations the Impl transcription does not predict: %s" % only_obs)
    # vacuity on what was really executed
    seen, outs, nzone = {}, {}, 0
    for t in traces:
        for st in t["steps"]:
            seen[st["a"]["op"]] = seen.get(st["a"]["op"], 0) + 1
            outs[st["out"]] = outs.get(st["out"], 0) + 1
            if st["a"]["op"] == "LoadLexical" and st["a"]["v"]["tz"] != "none":
                nzone += 1
    if not replay:
        for op in OPS:
            if not seen.get(op):
                raise E.MachineryError("vacuous: no real %s step was executed" % op)
        if not outs.get("ok") or not outs.get("ValueError") or not nzone:
            raise E.MachineryError("vacuous: outcomes %s, zoned lexical loads %d" % (outs, nzone))
    smp = next((t for t in traces if t["id"].startswith(("orders", "wide", "deep"))), traces[0])
    cov = {"states": max(states, 1), "transitions": max(transitions, 1), "traces_validated_against_impl": len(traces),
           "real_steps_validated": tot.get("steps", 0), "rejected_traces": tot.get("rejected", 0), "rejected_steps": nbadsteps,
           "observed_violation_classes": observed, "design_level_classes": design, "drift_steps": tot.get("drift", 0),
           "reader_raised_states": tot.get("readerRaised", 0), "lexical_forms_crosschecked": nlex,
           "phase_wall_s": phase, "configs": per_cfg, "action_counts": actions, "real_steps_by_action": seen, "real_outcomes": outs,
           "samples": [{"history": [a if a["op"] != "SetStr" else {"op": "SetStr", "p": a["p"], "v": a["v"]} for a in byid[smp["id"]][1]],
                        "outcomes": [s["out"] for s in smp["steps"]]}],
           "exhaustive": True,
           "rule": "TLC enumerates every history of exactly NASSIGN actions from the alphabet (all 15 properties x length classes "
                   "{0,1,254,255,256} x character-class mixes, datetimes at the calendar boundaries with/without microseconds, refused "
                   "values of every kind, every W3CDTF granularity x fractional digits x offsets up to +-14:00 at day/month/leap/year "
                   "boundaries) interleaved with 0..2 save/re-open cycles from an absent and an empty part (value sweep also from the default "
                   "template); every history is replayed on a real package; TLC evaluates every named clause on every observed step"}
    return rep.finish("model_checking", cov, [
        "TLC 1.8; ToUtc of the spec cross-checked against python's datetime arithmetic for every lexical form explored",
        "XSD monitor: lxml XMLSchema over /repo/spec/ISO-IEC-29500-2/opc-xsd/opc-coreProperties.xsd with its two Dublin Core imports and the xml "
        "namespace import redirected to the local stubs /verif/schemas/{dc,dcterms,xml}.xsd (trusted base: SimpleLiteral, the dc:/dcterms: "
        "elements and the W3CDTF union type are declared there as in the 2003/04/02 originals, which are unreachable offline)",
        "state projected from CorePropertiesPart.blob parsed with plain lxml plus the public readers; presence from OpcPackage.iter_parts()",
        "text as run-length coded character classes with fixed representatives per position (projection injective on the assigned strings); "
        "strings over XML characters only; naive datetimes only; leap seconds excluded",
        "hh:mm (no seconds) lexical forms: both the UTC equivalent and None are accepted; forms whose UTC equivalent leaves year 1..9999 are not judged"])


if __name__ == "__main__":
    E.main_wrap(main)
