"""C19 — part-name arithmetic. spec/PackUri.tla; whole bounded domain, spec -> code -> spec."""
from __future__ import annotations

import json
import os
import sys

from mbt import engine as E

PID = "C19"


def render_seg(seg: dict) -> str:
    import re
    stem = re.sub(r"\{U\+([0-9A-F]{4,6})\}", lambda m: chr(int(m.group(1), 16)), seg["stem"])
    return stem + ("" if seg["num"] < 0 else "0" * seg.get("pad", 0) + str(seg["num"])) + "".join("." + e for e in seg["exts"])


class Codec:
    def __init__(self, segs: list[dict]):
        self.txt = {i + 1: render_seg(s) for i, s in enumerate(segs)}
        self.ids = {v: k for k, v in self.txt.items()}
        assert len(self.ids) == len(self.txt)

    def name(self, ids: list[int]) -> str:
        return "/" + "/".join(self.txt[i] for i in ids)

    def ref(self, ref: dict) -> str:
        parts = [("." if s == 0 else ".." if s == -1 else self.txt[s]) for s in ref["segs"]]
        return ("/" if ref["abs"] else "") + "/".join(parts)

    def seg(self, s: str) -> int:
        return 0 if s == "." else -1 if s == ".." else self.ids.get(s, 99)

    def parse_name(self, s) -> list[int]:
        if not isinstance(s, str) or not s.startswith("/"):
            return [98]
        if s == "/":
            return []
        return [self.seg(x) for x in s[1:].split("/")]

    def parse_ref(self, s: str) -> dict:
        ab = s.startswith("/")
        body = s[1:] if ab else s
        return {"abs": ab, "segs": [self.seg(x) for x in body.split("/")] if body else []}


def record(cases: dict) -> dict:
    """Call the real PackURI on every case TLC enumerated."""
    from pptx.opc.packuri import PackURI

    c = Codec(cases["segs"])
    acc, rel, res, rej = [], [], [], []
    def safe(fn, bad):
        try:
            return fn()
        except Exception:           # an accessor that raises reports a value no specification record holds
            return bad
    for p in cases["names"]:
        u = safe(lambda: PackURI(c.name(p)), None)
        if u is None:
            acc.append({"p": p, "dir": [97], "file": 97, "ext": "!raised", "idx": -2, "member": [97], "rels": {"dir": [97], "mid": "!raised", "of": 97}})
            continue
        idx = safe(lambda: u.idx, -2)
        idx = -1 if idx is None else idx
        ru = safe(lambda: str(u.rels_uri), None)
        if ru is None:
            rels = {"dir": [97], "mid": "!raised", "of": 97}
        else:
            rparts = ru[1:].split("/")
            fn = rparts[-1]
            rels = {"dir": [c.seg(x) for x in rparts[:-2]], "mid": rparts[-2] if len(rparts) >= 2 else "",
                    "of": (0 if fn == ".rels" else c.seg(fn[:-5])) if fn.endswith(".rels") else 99}
        member = safe(lambda: u.membername, "!raised")
        base = safe(lambda: u.baseURI, None)
        fname = safe(lambda: u.filename, None)
        acc.append({"p": p, "dir": c.parse_name(base) if base is not None else [97], "file": (c.seg(fname) if fname else 0) if fname is not None else 97,
                    "ext": safe(lambda: u.ext, "!raised"), "idx": idx,
                    "member": ([c.seg(x) for x in member.split("/")] if member else []), "rels": rels})
    for k, (b, q) in enumerate(cases["pairs"]):
        bs, qs = c.name(b), c.name(q)
        try:
            r = PackURI(qs).relative_ref(bs)
            back = c.parse_name(str(PackURI.from_rel_ref(bs, r)))
            rel.append({"b": b, "q": q, "ref": c.parse_ref(r), "back": back})
        except Exception as e:  # an exception here is a wrong answer, recorded as such
            rel.append({"b": b, "q": q, "ref": {"abs": False, "segs": [97]}, "back": [97]})
        for i, v in enumerate(cases["variants"][k]):
            try:
                got = c.parse_name(str(PackURI.from_rel_ref(bs, c.ref(v))))
            except Exception:
                got = [97]
            res.append({"b": b, "q": q, "i": i + 1, "ref": v, "got": got})
    for p in cases["names"][:200]:
        s = c.name(p)[1:]
        if not s:
            continue
        for cand in (s, "./" + s, "../" + s):
            try:
                PackURI(cand)
                raised = False
            except Exception:
                raised = True
            rej.append({"s": p, "raised": raised})
    return {"segs": cases["segs"], "acc": acc, "rel": rel, "res": res, "rej": rej}


def corrupt(obs: dict) -> dict:
    """Self-test: flip one recorded field in each record family."""
    o = json.loads(json.dumps(obs))
    o["acc"][3]["ext"] = o["acc"][3]["ext"] + "x"
    o["rel"][5]["back"] = o["rel"][5]["back"] + [1]
    o["res"][7]["got"] = [1] + o["res"][7]["got"]
    o["rej"][0]["raised"] = False
    return o


def main() -> int:
    selftest = "--selftest" in sys.argv
    replay = sys.argv[sys.argv.index("--replay") + 1] if "--replay" in sys.argv else None
    rep = E.Report(PID)
    work = E.workdir(PID)
    thorough = E.tier() == "thorough"
    nseg, nd, bd = (7, 4, 2) if thorough else (7, 3, 2)
    cfg = os.path.join(work, "MC_PackUri.cfg")
    with open(cfg, "w") as f:
        f.write("INIT Init\nNEXT Next\nCHECK_DEADLOCK FALSE\nCONSTANTS NSEG = %d\n NDEPTH = %d\n BDEPTH = %d\n Segs <- DefaultSegs\n" % (nseg, nd, bd))
    cases_file = os.path.join(work, "cases.json")
    mc = E.run_tlc("MC_PackUri", cfg, work=work, env={"CASES_FILE": cases_file}, workers=1, timeout=3000, heap="24g")
    dom = mc.printed("DOMAIN")[-1]
    with open(cases_file) as f:
        cases = json.load(f)
    if replay:
        with open(replay) as f:
            rp = json.load(f)
        rec = rp["record"]
        cases = {"segs": cases["segs"], "names": [rec.get("p", rec.get("q", []))],
                 "pairs": [[rec["b"], rec["q"]]] if "b" in rec else [],
                 "variants": [[rec["ref"]] if "got" in rec else []] if "b" in rec else []}
    obs = record(cases)
    if selftest:
        bad, summ, _ = E.validate("Trace_PackUri", corrupt(obs), work=work, name="selftest", heap="24g", timeout=3000)
        kinds = sorted(v["kind"] for v in bad)
        ok = kinds == ["acc", "rej", "rel", "res"]
        print("SELFTEST %s: corrupted 4 fields, rejected %s" % ("ok" if ok else "FAILED", kinds))
        if not ok:
            raise E.MachineryError("selftest: corrupted records not rejected exactly")
    # chunk the records so each TLC run stays small; runs are independent
    bad, tot = [], {"acc": 0, "rel": 0, "res": 0, "rej": 0, "drift": 0}
    CH = 150000
    parts = [(obs["acc"], obs["rel"][:0], obs["res"][:0], obs["rej"])]
    nrel = len(obs["rel"])
    nv = len(cases["variants"][0]) if cases["variants"] else 1
    step = max(1, CH // (nv + 1))
    for i in range(0, nrel, step):
        parts.append(([], obs["rel"][i:i + step], obs["res"][i * nv:(i + step) * nv], []))
    import concurrent.futures as cf

    def run(ix_part):
        ix, (a, rl, rs, rj) = ix_part
        return E.validate("Trace_PackUri", {"segs": obs["segs"], "acc": a, "rel": rl, "res": rs, "rej": rj}, work=work,
                          name="obs%d" % ix, heap="6g", timeout=3000)
    with cf.ThreadPoolExecutor(8) as ex:
        for b, s, _ in ex.map(run, list(enumerate(parts))):
            bad += b
            for k in tot:
                tot[k] += s.get(k, 0)
    c = Codec(cases["segs"])
    for v in bad:
        r = v["rec"]
        clause = "+".join(sorted(v["failing"]))
        if v["kind"] == "acc":
            site, what = "accessor", "PackURI(%r) accessor %s" % (c.name(r["p"]), clause)
        elif v["kind"] == "rel":
            site, what = "relative_ref", "%r.relative_ref(%r)" % (c.name(r["q"]), c.name(r["b"]))
        elif v["kind"] == "res":
            site, what = "from_rel_ref", "from_rel_ref(%r, %r)" % (c.name(r["b"]), c.ref(r["ref"]))
        else:
            site, what = "constructor", "PackURI(%r) not rejected" % c.name(r["s"])[1:]
        rep.reject("%s@%s" % (clause, site), {"module": "PackUri", "kind": v["kind"], "record": r, "verdict": v}, what)
    if tot["drift"]:
        rep.note("drift: %d relative_ref spellings differ from the spec's normal form (property still holds)" % tot["drift"])
    nevals = tot["acc"] + tot["rel"] + tot["res"] + tot["rej"]
    cov = {
        "states": dom["names"] + dom["pairs"], "transitions": nevals,
        "traces_validated_against_impl": nevals,
        "exhaustive": True,
        "domain": dom, "records": tot, "alphabet_segments": nseg, "name_depth": nd, "base_depth": bd,
        "spec_theorems_checked": ["T_RoundTrip", "T_Variants", "T_RelsInj", "T_NoDotsLeft", "T_Sibling"],
        "samples": [{"b": c.name(obs["rel"][k]["b"]), "q": c.name(obs["rel"][k]["q"]), "real_relative_ref": c.ref(obs["rel"][k]["ref"])}
                    for k in (0, len(obs["rel"]) // 3, len(obs["rel"]) - 1)] if obs["rel"] else [cases["names"][:1]],
        "rule": "states = part names + (base, name) pairs of the bounded domain enumerated by TLC; transitions = records "
                "(accessor sets, relative_ref round trips, 7 reference variants per pair, no-slash rejections) observed from "
                "the real PackURI and validated one by one by TLC against the PackUri operators",
        "tlc_wall_s": round(mc.wall, 1),
    }
    return rep.finish("model_checking", cov, [
        "TLC 1.8 + CommunityModules Json/IOUtils", "segment strings are parsed back by table lookup only",
        "bounded: alphabet of %d segments, names to depth %d, bases to depth %d" % (nseg, nd, bd)])


if __name__ == "__main__":
    E.main_wrap(main)
