"""C01 — open/save preserves every reachable part and relationship. spec/OpcPackage.tla."""
from __future__ import annotations

import io
import json
import os
import sys

from mbt import corpus, engine as E
from mbt.checks import opc_common as O
from mbt.drive import opc as D

PID = "C01"


def _corpus_one(args):
    k, path, work = args
    from pptx.package import Package
    out = []
    members = D.read_zip(path)
    tok = lambda n, b: D.generic_token(b, True)  # noqa: E731
    for form in ("path", "stream", "dir"):
        st = D.SegTable()
        if form == "path":
            src = lambda: path  # noqa: E731
        elif form == "stream":
            raw = open(path, "rb").read()
            src = lambda raw=raw: io.BytesIO(raw)  # noqa: E731
        else:
            p = os.path.join(work, "fs_%d" % os.getpid(), "deckdir")
            D.write_dir(members, p)
            src = lambda p=p: p  # noqa: E731
        ph0 = D.project_members(members, st, tok)
        tr = D.run_trace(Package.open, src, st, tok)
        tr.update({"id": "corpus:%s/%s" % (os.path.basename(path), form), "form": form, "ph0": ph0, "_segs": st.table(), "api": False,
                   "slidesExp": [], "slidesSeen": [], "slidesReopen": [], "slidesSTS": []})
        out.append(tr)
    return out


def corpus_traces(paths, work):
    res = E.pmap(_corpus_one, [(k, p, work) for k, p in enumerate(paths)], procs=16, chunk=1)
    return [t for ts in res for t in ts]


def validate_corpus(traces, work):
    """One TLC run per trace group (each deck has its own segment table)."""
    import concurrent.futures as cf
    bad, tot = [], {}

    def run(ix_t):
        ix, t = ix_t
        clean = {k: v for k, v in t.items() if k not in ("_segs", "errmsg", "model")}
        return E.validate("Trace_OpcPackage", {"segs": t["_segs"], "traces": [clean]}, work=work, name="corp%d" % ix, heap="2g")
    with cf.ThreadPoolExecutor(12) as ex:
        for b, s, _ in ex.map(run, list(enumerate(traces))):
            bad += b
            for k, v in s.items():
                tot[k] = tot.get(k, 0) + v
    return bad, tot


def configs(thorough: bool):
    if thorough:
        return [
            ("graph", dict(cands="1,2,3,4", maxparts=2, maxrels=2, forms="1,4"), None),
            ("graph3", dict(cands="2,3,6", maxparts=3, maxrels=2, forms="1,2,3,5"), None),
            ("forms", dict(cands="2,3", maxparts=2, maxrels=2, forms="1,2,3,4,5,6,7"), None),
            ("ctypes", dict(cands="3,4,7", maxparts=3, maxrels=0, freetypes="TRUE", autoroot="TRUE"), None),
            ("ctypes2", dict(cands="1,5,6", maxparts=3, maxrels=0, freetypes="TRUE", autoroot="TRUE"), None),
            ("sim", dict(cands="1,2,3,4,5,6,7", maxparts=5, maxrels=6, freetypes="TRUE", forms="1,2,3,4,5,6,7"), "num=6000"),
        ]
    return [
        ("graph", dict(cands="2,3", maxparts=2, maxrels=2, forms="1,4"), None),
        ("forms", dict(cands="2,3", maxparts=2, maxrels=1, forms="1,2,3,4,5,6,7"), None),
        ("ctypes", dict(cands="4,7", maxparts=2, maxrels=0, freetypes="TRUE", autoroot="TRUE"), None),
        ("ctypes2", dict(cands="1,6", maxparts=2, maxrels=0, freetypes="TRUE", autoroot="TRUE"), None),
        ("sim", dict(cands="1,2,3,4,5,6,7", maxparts=5, maxrels=6, freetypes="TRUE", forms="1,2,3,4,5,6,7"), "num=700"),
    ]


def describe(t: dict, st: D.SegTable) -> str:
    ph = t["ph0"]
    names = [st.render(m["n"]) for m in ph["mem"]]
    return "%s parts=%s" % (t["id"], names)


def main() -> int:
    rep = E.Report(PID)
    work = E.workdir(PID)
    thorough = E.tier() == "thorough"
    selftest = "--selftest" in sys.argv
    replay = sys.argv[sys.argv.index("--replay") + 1] if "--replay" in sys.argv else None
    states = transitions = 0
    cov_actions: dict = {}
    traces: list[dict] = []
    segs = None
    per_cfg = {}
    if replay:
        rp = json.load(open(replay))
        segs = rp["segs"]
        traces = O.replay([rp["model"]], segs, work, forms=(rp["form"],), procs=1) if rp.get("model") else corpus_traces([rp["deck"]], work)
    else:
        for name, kw, sim in configs(thorough):
            pkgs, segs, r = O.explore(work, name, simulate=sim, **kw)
            states += r.distinct
            transitions += r.generated
            for a, n in r.coverage_counts().items():
                cov_actions[a] = cov_actions.get(a, 0) + n
            per_cfg[name] = {"sealed_packages": len(pkgs), "tlc_distinct_states": r.distinct, "tlc_wall_s": round(r.wall, 1), "constants": kw, "simulate": sim}
            base = len(traces)
            trs = O.replay(pkgs, segs, work)
            for t in trs:
                t["id"] = name + ":" + t["id"]
            traces += trs
    if selftest:
        bad_t = json.loads(json.dumps(traces[:50]))
        victim = next(t for t in bad_t if t["pk1"]["ok"] and t["ph2"]["mem"])
        victim["ph2"]["mem"][0]["pl"] = "B2" if victim["ph2"]["mem"][0]["pl"] != "B2" else "B1"
        bad, _ = O.validate_all(bad_t, segs, work)
        ok = [b["id"] for b in bad] == [victim["id"]] and "SamePayload" in bad[0]["failing"]
        print("SELFTEST %s: flipped one payload token in %s -> rejected %s" % ("ok" if ok else "FAILED", victim["id"], bad))
        if not ok:
            raise E.MachineryError("selftest failed")
    bad, tot = O.validate_all(traces, segs, work)
    # corpus decks as recorded traces
    ctr, cbad, ctot = [], [], {}
    if not replay or (replay and not rp.get("model")):
        paths = corpus.decks() if thorough else sorted(set(corpus.subset(12, E.seed()) + corpus.opc_key_decks()))
        if replay:
            paths = [rp["deck"]]
        ctr = corpus_traces(paths, work) if not replay else traces
        cbad, ctot = validate_corpus(ctr, work)
        if replay:
            bad, tot = [], {}
    byid = {t["id"]: t for t in traces + ctr}
    for v in bad + cbad:
        t = byid[v["id"]]
        st = D.SegTable(t["_segs"])
        clause = "+".join(sorted(v["failing"]))
        rep.reject("%s@open-save[%s]" % (clause, "corpus" if t["id"].startswith("corpus:") else "generated"),
                   {"module": "OpcPackage", "form": t["form"], "model": t.get("model"), "segs": t["_segs"],
                    "deck": t["id"].split(":", 1)[1].rsplit("/", 1)[0] if t["id"].startswith("corpus:") else None,
                    "observed": {k: t[k] for k in ("ph0", "pk1", "ph2", "pk3", "ph4", "bytesSame")}, "failing": v["failing"]},
                   describe(t, st))
    drift = tot.get("driftOverride", 0)
    if drift:
        rep.note("drift: %d saved packages differ from the transcribed writer (ImplSave, rule=override) but satisfy the property" % drift)
    needed = {"AddPart", "AddRel", "AddExt", "Seal", "Open1", "Save1", "Open2", "Save2"}
    missing = sorted(a for a in needed if not cov_actions.get(a)) if not replay else []
    if missing:
        raise E.MachineryError("vacuous: actions never taken in MC_OpcPackage: %s" % missing)
    n = len(traces) + len(ctr)
    sample = traces[len(traces) // 2] if traces else ctr[0]
    cov = {
        "states": max(states, 1), "transitions": max(transitions, 1), "traces_validated_against_impl": n,
        "samples": [{"id": sample["id"], "ph0": sample["ph0"], "opened": sample["pk1"]}],
        "configs": per_cfg, "action_counts": cov_actions, "generated_traces": tot, "corpus_traces": ctot,
        "corpus_decks": len(ctr) // 3, "forms": ["path", "stream", "dir"],
        "exhaustive": False,
        "rule": "every package TLC seals within each config's bounds is materialised as zip path, stream and directory, run through "
                "open/save/open/save of the real library and the projected trace validated by TLC (Trace_OpcPackage); corpus decks likewise",
    }
    return rep.finish("model_checking", cov, [
        "TLC 1.8, CommunityModules Json", "zip reading by zipfile+lxml only", "XML equivalence = prefix-independent canonical form modulo "
        "whitespace-only text between elements", "bounded: candidate names/relationship counts per config; simulate beyond"])


if __name__ == "__main__":
    E.main_wrap(main)
