"""C17 — connector endpoints, group extents, freeform bounds. spec/Geometry.tla (+ Apa_Connector.tla)."""
from __future__ import annotations

import json
import os
import subprocess
import sys
import time
import concurrent.futures as cf

from mbt import engine as E
from mbt.drive import geometry as G

PID = "C17"


def mc(work, module, name, body, workers=16):
    cfg = os.path.join(work, "%s_%s.cfg" % (module, name))
    with open(cfg, "w") as f:
        f.write(body)
    r = E.run_tlc(module, cfg, work=work, workers=workers, timeout=1800, extra=["-coverage", "1"], heap="12g")
    if "is violated" in r.out or r.invariant_violated:
        raise E.MachineryError("design-level check failed in %s[%s]" % (module, name))
    return r


def _cxn(args):
    return G.cxn_group(*args)


def _grp(args):
    return G.grp_group(*args)


def _ff(args):
    return G.ff_case(*args)


def apalache(work) -> dict:
    out = os.path.join(work, "apa")
    t0 = time.time()
    try:
        p = subprocess.run(["apalache-mc", "check", "--init=IndInit", "--inv=IndInv", "--length=1", "--out-dir=" + out, "Apa_Connector.tla"],
                           cwd=E.SPEC, stdout=subprocess.PIPE, stderr=subprocess.STDOUT, text=True, timeout=300)
        ok = "The outcome is: NoError" in p.stdout
        res = {"ran": True, "inductive_step_holds": ok, "wall_s": round(time.time() - t0, 1)}
        if not ok and "Error" in p.stdout and "outcome is: Error" in p.stdout:
            raise E.MachineryError("Apalache found a counterexample to the connector inductive step: the transcription in "
                                   "Apa_Connector.tla violates the property (model error or transcribed defect)")
        return res
    except (subprocess.TimeoutExpired, FileNotFoundError) as e:
        return {"ran": False, "reason": type(e).__name__}


def main() -> int:
    rep = E.Report(PID)
    work = E.workdir(PID)
    thorough = E.tier() == "thorough"
    selftest = "--selftest" in sys.argv
    replay = sys.argv[sys.argv.index("--replay") + 1] if "--replay" in sys.argv else None
    lo, hi = (-2, 2)          # thorough goes one assignment deeper (every fourth assignment fanned out), not wider
    states = trans = 0
    info = {}
    cx_jobs, gr_jobs, ff_jobs = [], [], []
    if replay:
        rp = json.load(open(replay))
        if rp["kind"] == "cxn":
            cx_jobs = [(rp["id"], rp["h"], rp["scale"], rp["values"])]
        elif rp["kind"] == "grp":
            gr_jobs = [(rp["id"], rp["h"], rp["scale"], rp.get("salt", 0))]
        else:
            ff_jobs = [(rp["id"], rp["c"], rp.get("salt", 0))]
    else:
        r1 = mc(work, "MC_Connector", "a", "SPECIFICATION Spec\nCONSTANTS LO <- Neg%d\n HI = %d\n DEPTH = %d\nVIEW ViewSt\nINVARIANT EmitState\n"
                                          "PROPERTY Refines\nCHECK_DEADLOCK FALSE\n" % (-lo, hi, 4 if thorough else 3))
        paths = r1.printed("ST")
        if len(paths) != r1.distinct:
            raise E.MachineryError("connector: %d paths for %d states" % (len(paths), r1.distinct))
        scales = [1, 12700, 914400, 1 + (E.seed() * 7919 + 13) % 100000]
        vals = list(range(lo, hi + 1))
        for i, h in enumerate(paths):
            cx_jobs.append(("cxn:%d@%d" % (i, scales[i % 4]), h, scales[i % 4], vals))
            if thorough and i % 3 == 0:
                cx_jobs.append(("cxn:%d@%d" % (i, scales[(i + 1) % 4]), h, scales[(i + 1) % 4], vals))
        r2 = mc(work, "MC_Group", "a", "SPECIFICATION Spec\nCONSTANTS DEPTH = %d\n MAXDEPTH = 4\n NBOX = %d\nVIEW ViewSt\nINVARIANT EmitState\n"
                                      "PROPERTY Refines\nCHECK_DEADLOCK FALSE\n" % ((5, 3) if thorough else (4, 3)))
        gpaths = [p for p in r2.printed("ST") if p]
        for i, h in enumerate(gpaths):
            gr_jobs.append(("grp:%d" % i, h, [1, 12700, 914400][i % 3], i + E.seed()))
        r2s = E.run_tlc("MC_Group", os.path.join(work, "MC_Group_s.cfg"), work=work, workers=1, timeout=900,
                        extra=["-simulate", "num=%d" % (400 if thorough else 60), "-depth", "9", "-seed", str(E.seed() + 5)]) if _write(
            os.path.join(work, "MC_Group_s.cfg"), "SPECIFICATION Spec\nCONSTANTS DEPTH = 8\n MAXDEPTH = 4\n NBOX = 6\nINVARIANT EmitState\nCHECK_DEADLOCK FALSE\n") else None
        sim = [p for p in r2s.printed("ST") if len(p) == 8]
        for i, h in enumerate(sim):
            gr_jobs.append(("grpsim:%d" % i, h, 12700, i))
        r3 = mc(work, "MC_Freeform", "a", "SPECIFICATION Spec\nCONSTANTS LO <- Neg%d\n HI = %d\n NOPS = %d\n NSCALE = %d\nINVARIANT ImplOK\nCHECK_DEADLOCK FALSE\n"
                % ((2, 2, 2, 2) if thorough else (1, 1, 2, 3)), workers=1)
        cases = r3.printed("CASE")
        r3s = E.run_tlc("MC_Freeform", os.path.join(work, "MC_Freeform_s.cfg"), work=work, workers=1, timeout=900,
                        extra=["-simulate", "num=%d" % (3000 if thorough else 400), "-depth", "9", "-seed", str(E.seed() + 9)]) if _write(
            os.path.join(work, "MC_Freeform_s.cfg"), "SPECIFICATION Spec\nCONSTANTS LO <- Neg3\n HI = 3\n NOPS = 7\n NSCALE = 6\nINVARIANT ImplOK\nCHECK_DEADLOCK FALSE\n") else None
        cases += r3s.printed("CASE")
        for i, c in enumerate(cases):
            ff_jobs.append(("ff:%d" % i, c, i + E.seed()))
        states = r1.distinct + r2.distinct + r3.distinct
        trans = r1.generated + r2.generated + r3.generated
        info = {"connector": {"states": r1.distinct, "generated": r1.generated, "coords": [lo, hi]},
                "group": {"states": r2.distinct, "generated": r2.generated, "sim_paths": len(sim)},
                "freeform": {"states": r3.distinct, "cases": len(cases)},
                "actions": {**r1.coverage_counts(), **r2.coverage_counts(), **r3.coverage_counts()}}
        for a in ("Set", "AddLeaf", "AddGroup", "AddGroupOf", "AddOp", "Close", "Convert"):
            if not info["actions"].get(a):
                raise E.MachineryError("vacuous: action %s never taken" % a)
        info["apalache"] = apalache(work)
    cx = E.pmap(_cxn, cx_jobs, procs=16, chunk=4)
    gr = E.pmap(_grp, gr_jobs, procs=16, chunk=4)
    ff = E.pmap(_ff, ff_jobs, procs=16, chunk=64)
    if selftest:
        c = json.loads(json.dumps(cx[3]))
        c["steps"][0]["t"]["ex"] += 1
        g = json.loads(json.dumps(next(x for x in gr if any(n["grp"] for n in x["path"][-1]["t"]) and len(x["path"]) > 2)))
        gi = next(i for i, n in enumerate(g["path"][-1]["t"]) if n["grp"])
        g["path"][-1]["t"][gi]["cx"] += 1
        f = json.loads(json.dumps(ff[5]))
        f["t"]["w"] += 1
        bad, _, _ = E.validate("Trace_Geometry", {"cxn": [c], "grp": [g], "ff": [f]}, work=work, name="selftest")
        ok = sorted(b["kind"] for b in bad) == ["cxn", "ff", "grp"]
        print("SELFTEST %s: perturbed one field per machine -> %s" % ("ok" if ok else "FAILED", [(b["kind"], b["bad"]) for b in bad]))
        if not ok:
            raise E.MachineryError("selftest failed")
    # validate in chunks
    chunks = []
    for i in range(0, max(len(cx), 1), 300):
        chunks.append({"cxn": cx[i:i + 300], "grp": [], "ff": []})
    for i in range(0, len(gr), 400):
        chunks.append({"cxn": [], "grp": gr[i:i + 400], "ff": []})
    for i in range(0, len(ff), 8000):
        chunks.append({"cxn": [], "grp": [], "ff": ff[i:i + 8000]})
    bad, tot = [], {}

    def run(ix_c):
        return E.validate("Trace_Geometry", ix_c[1], work=work, name="obs%d" % ix_c[0], heap="4g")
    with cf.ThreadPoolExecutor(10) as ex:
        for b, s, _ in ex.map(run, list(enumerate(chunks))):
            bad += b
            for k, v in s.items():
                tot[k] = tot.get(k, 0) + v
    jobs = {j[0]: j for j in cx_jobs + gr_jobs + ff_jobs}
    for v in bad:
        j = jobs[v["id"]]
        for b in list(v["bad"])[:2]:
            clause = "+".join(sorted(b["failing"]))
            if v["kind"] == "cxn":
                rp = {"kind": "cxn", "id": j[0], "h": j[1], "scale": j[2], "values": j[3], "failing": b}
            elif v["kind"] == "grp":
                rp = {"kind": "grp", "id": j[0], "h": j[1], "scale": j[2], "salt": j[3], "failing": b}
            else:
                rp = {"kind": "ff", "id": j[0], "c": j[1], "salt": j[2], "failing": b}
            rep.reject("%s@%s" % (clause, {"cxn": "connector", "grp": "group", "ff": "freeform"}[v["kind"]]), rp, "%s %s" % (v["id"], b))
    if tot.get("drift"):
        rep.note("drift: %d observed steps differ from the Impl layer (property still holds)" % tot["drift"])
    nsteps = tot.get("cxnSteps", 0) + tot.get("grpSteps", 0) + tot.get("ff", 0)
    cov = {"states": max(states, 1), "transitions": max(trans, 1), "traces_validated_against_impl": len(cx) + len(gr) + len(ff),
           "real_steps_validated": nsteps, "machines": info, "validated": tot,
           "samples": [{"connector_path": cx_jobs[len(cx_jobs) // 2][1] if cx_jobs else None},
                       {"group_path": gr_jobs[len(gr_jobs) // 2][1] if gr_jobs else None},
                       {"freeform_case": ff_jobs[len(ff_jobs) // 2][1] if ff_jobs else None}],
           "rule": "connector: every distinct state reachable by endpoint assignments over the coordinate range (one path each), every "
                   "assignment of every value applied to a copy, at several EMU scales; groups: every history of <= DEPTH additions over "
                   "the box set, nesting <= 4, all leaf kinds cycling, + simulation depth 8; freeform: every pen of <= NOPS operations "
                   "over the vertex grid x scales x origins + simulated longer pens; fractional vertices as |delta|<1/2 perturbations"}
    return rep.finish("model_checking", cov, ["TLC 1.8; Apalache 0.58 for the unbounded inductive step of the connector axis",
                                             "frames read from a:xfrm in the lxml tree and from the public readers",
                                             "rounding: |observed - exact| <= 1/2 accepted (rule not fixed by the property)"])


def _write(p, s):
    with open(p, "w") as f:
        f.write(s)
    return True


if __name__ == "__main__":
    E.main_wrap(main)
