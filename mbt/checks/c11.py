"""C11 — accepted attribute values are exactly those the schema can represent. spec/SimpleTypes.tla.

type table extracted from the live declarations + the XSD files  ->  TLC enumerates the write / read tokens per type
->  every token goes through a REAL element at every declared site (mbt/drive/simpletypes.py), the schema judges the strings
->  TLC evaluates clauses A, B, C, D (and E) on every observed record.
"""
from __future__ import annotations

import concurrent.futures as cf
import json
import os
import sys

from mbt import engine as E
from mbt.drive import simpletypes as D
from mbt.extract import simpletypes as S

PID = "C11"
# read alternatives that are evaluated and reported, never judged: (python type, XSD type, value-class prefix) -> why
REPORT_ONLY_READ = {
    ("ST_Coordinate", "ST_AdjCoordinate", "form:exemplar"): "a:pt@x/@y take a guide name in the schema; the library only ever writes them (FreeformBuilder), no reader exists",
    ("ST_Coordinate", "ST_AdjCoordinate", "form:other"): "same",
}


# write tokens that go beyond the property's quantifier (boundary values, one quantum in/out, rounding thresholds, wrong python
# types): lexical tricks on the hex-colour string that python's int(s, 16) tolerates. Evaluated and reported, never judged.
REPORT_ONLY_WRITE = {"str:plus5": "'+12345'", "str:0x4": "'0x1234'", "str:under": "'1_2345'", "str:space5": "' 12345'"}


def table_for_tlc(pairs: list[dict]) -> list[dict]:
    out = []
    for p in pairs:
        out.append({"id": p["id"], "py": p["py"], "xsd": p["xsd"], "pyKind": p["pyKind"], "anchors": p["anchors"], "zeroIdx": p["zeroIdx"],
                    "members": [{"kind": m["kind"], "name": m["name"], "loIdx": m["loIdx"], "hiIdx": m["hiIdx"], "enum": m["enum"]} for m in p["members"]],
                    "pyMembers": p["pyMembers"], "validates": p["validates"], "judgeE": p["judgeE"]})
    return out


def site_of(p: dict) -> str:
    return p["py"] if p["py"] == p["xsd"] else "%s~%s" % (p["py"], p["xsd"])


def validate(pairs_by_id, recs_w, recs_r, work, types_file, name, consts):
    cfg = os.path.join(work, "Trace_SimpleTypes_%s.cfg" % name)
    with open(cfg, "w") as f:
        f.write("INIT Init\nNEXT Next\nCHECK_DEADLOCK FALSE\nCONSTANTS DELTA = %d\n ULP = %d\n NRAND = %d\n" % consts)
    path = os.path.join(work, name + ".json")
    with open(path, "w") as f:
        json.dump({"w": recs_w, "r": recs_r}, f, separators=(",", ":"))
    r = E.run_tlc("Trace_SimpleTypes", cfg, work=work, env={"TRACE_FILE": path, "TYPES_FILE": types_file}, workers=1, timeout=1500, heap="6g")
    summ = r.printed("SUMMARY")
    if not summ:
        raise E.MachineryError("no SUMMARY from Trace_SimpleTypes[%s]" % name)
    return {"verdicts": r.printed("VERDICT"), "erep": r.printed("EREP"), "arep": r.printed("AREP"), "range": r.printed("RANGE"), "summary": summ[-1]}


def finish(rep, rp, level, cov, assumptions) -> int:
    """A --replay run judges one recorded case; it must not replace the evidence of the last full run."""
    path = os.path.join(E.EVID, PID + ".json")
    keep = open(path).read() if rp and os.path.exists(path) else None
    rc = rep.finish(level, cov, assumptions)
    if keep is not None:
        with open(path, "w") as f:
            f.write(keep)
    return rc


def main() -> int:
    rep = E.Report(PID)
    work = E.workdir(PID)
    thorough = E.tier() == "thorough"
    do_selftest = "--selftest" in sys.argv
    replay = sys.argv[sys.argv.index("--replay") + 1] if "--replay" in sys.argv else None
    rp = json.load(open(replay)) if replay else None
    consts = (8, 4, 20000) if thorough else (3, 2, 300)

    # ---- extraction
    pairs, xsd, rows = S.pairs()
    for p in pairs:
        # E is a verdict only for plain numeric ranges (python int == XSD integer, 1:1) and string enumerations
        p["judgeE"] = (p["pyKind"] == "int" and (p["scaleNum"], p["scaleDen"]) == (1, 1)) or p["pyKind"] == "strenum"
    probe = S.Probe(xsd, [t for p in pairs for t in p["xsd_types"]])
    D.setup(pairs, probe, E.seed())
    by_id = {p["id"]: p for p in pairs}
    types_file = os.path.join(work, "types.json")
    with open(types_file, "w") as f:
        json.dump(table_for_tlc(pairs), f, separators=(",", ":"))
    unresolved = [r for r in rows if not r["xsd_types"]]

    # ---- TLC enumerates the domain
    cfg = os.path.join(work, "MC_SimpleTypes.cfg")
    with open(cfg, "w") as f:
        f.write("INIT Init\nNEXT Next\nCHECK_DEADLOCK FALSE\nCONSTANTS DELTA = %d\n ULP = %d\n NRAND = %d\n" % consts)
    cases_file = os.path.join(work, "cases.json")
    mc = E.run_tlc("MC_SimpleTypes", cfg, work=work, env={"TYPES_FILE": types_file, "CASES_FILE": cases_file}, workers=1, timeout=900, heap="6g")
    dom = mc.printed("DOMAIN")[-1]
    with open(cases_file) as f:
        cases = {c["pair"]: c for c in json.load(f)}
    if set(cases) != set(by_id) or not dom["write"] or not dom["read"]:
        raise E.MachineryError("domain generation incomplete: %s" % dom)

    # ---- every token through a real element at every site
    jobs = [(p["id"], si, cases[p["id"]]["write"], cases[p["id"]]["read"]) for p in pairs for si in range(len(p["sites"]))]
    if rp:
        jobs = [(rp["pair_id"], rp["site_index"], [rp["token"]] if rp["kind"] == "w" else [], [rp["token"]] if rp["kind"] == "r" else [])]
        if by_id[rp["pair_id"]]["py"] != rp["py"]:
            raise E.MachineryError("replay file does not match the current type table")
    res = E.pmap(D.run_site, jobs, procs=16, chunk=1)
    W, WM, R, RM = [], [], [], []
    for x in res:
        for rec, meta in zip(x["w"], x["wm"]):
            meta["site_index"] = x["site"]
            W.append(rec)
            WM.append(meta)
        for rec, meta in zip(x["r"], x["rm"]):
            meta["site_index"] = x["site"]
            R.append(rec)
            RM.append(meta)

    # ---- self-test of the binding
    if do_selftest:
        selftest(work, pairs, W, WM, R, types_file, consts)

    # ---- TLC judges every record (chunks in parallel JVMs)
    CH = 30000 if thorough else 12000
    parts = [("w", i, W[i:i + CH]) for i in range(0, len(W), CH)] + [("r", i, R[i:i + CH]) for i in range(0, len(R), CH)]

    def run(part):
        kind, off, recs = part
        out = validate(by_id, recs if kind == "w" else [], recs if kind == "r" else [], work, types_file, "obs_%s%d" % (kind, off), consts)
        return kind, off, out
    tot: dict = {}
    bad_w, bad_r, erep, arep = {}, {}, {}, []
    with cf.ThreadPoolExecutor(8) as ex:
        for kind, off, out in ex.map(run, parts):
            for k, v in out["summary"].items():
                tot[k] = tot.get(k, 0) + v
            if out["range"]:
                k = out["range"][0]["k"] - 1 + off
                raise E.MachineryError("extracted facets disagree with the schema on a written integer: %s %s" % (by_id[W[k]["pair"]]["py"], WM[k]))
            for v in out["verdicts"]:
                (bad_w if v["kind"] == "w" else bad_r)[v["k"] - 1 + off] = sorted(v["failing"])
            for v in out["erep"]:
                erep[v["k"] - 1 + off] = v["judged"]
            arep += [v["k"] - 1 + off for v in out["arep"]]
    if len(bad_w) + len(bad_r) + sum(1 for k, j in erep.items() if j) != tot["rejected"]:
        raise E.MachineryError("parsed %d+%d verdicts, TLC counted %d" % (len(bad_w), len(bad_r), tot["rejected"]))
    if not rp and not (tot["accepted"] and tot["refused"] and tot["lexValidRead"] and tot["eApplies"] and tot["rangeChecked"]):
        raise E.MachineryError("vacuous: %s" % tot)

    # ---- verdicts, grouped by narrow signature  clauses@pytype[~xsdtype][value class]
    groups: dict = {}
    reported_writes = []
    for k, failing in bad_w.items():
        if WM[k]["vclass"] in REPORT_ONLY_WRITE:
            reported_writes.append({"type": site_of(by_id[W[k]["pair"]]), "site": WM[k]["site"], "value": WM[k]["value"], "written": WM[k]["after"], "failing": failing})
            continue
        if erep.get(k):
            failing = failing + ["E"]
        groups.setdefault(("+".join(failing), W[k]["pair"], WM[k]["vclass"]), []).append(("w", k))
    for k, judged in erep.items():
        if judged and k not in bad_w:
            groups.setdefault(("E", W[k]["pair"], WM[k]["vclass"]), []).append(("w", k))
    reported_reads = []
    for k, failing in bad_r.items():
        p = by_id[R[k]["pair"]]
        why = next((w for (py, xs, pre), w in REPORT_ONLY_READ.items() if py == p["py"] and xs == p["xsd"] and RM[k]["vclass"].startswith(pre)), None)
        if why:
            reported_reads.append({"type": site_of(p), "site": RM[k]["site"], "lex": RM[k]["lex"], "read": RM[k]["read"], "why": why})
            continue
        groups.setdefault(("C", R[k]["pair"], RM[k]["vclass"]), []).append(("r", k))
    for (clauses, pid, vclass), items in sorted(groups.items(), key=lambda kv: (by_id[kv[0][1]]["py"], kv[0][0], kv[0][2])):
        p = by_id[pid]
        sig = "%s@%s[%s]" % (clauses, site_of(p), vclass)
        if rp and rp.get("signature") != sig:
            continue
        kind, k = items[0]
        meta = (WM if kind == "w" else RM)[k]
        rec = (W if kind == "w" else R)[k]
        sites = sorted({(WM if kd == "w" else RM)[i]["site"] for kd, i in items})
        if kind == "w":
            what = "%s = %s: %s; attribute %s -> %s%s; read back %s (to_xml: %s)" % (
                meta["prop"], meta["value"], "accepted" if rec["acc"] else "raised " + rec["exc"], meta["before"], meta["after"],
                "" if rec["attrValid"] else " (NOT valid for %s)" % p["xsd"], meta["read"] or "-", meta["to_xml"])
        else:
            what = "%s with %s=%r (schema-valid for %s): reading raised %s" % (meta["prop"], meta["site"], meta["lex"], p["xsd"], rec["exc"])
        rep.reject(sig, {"module": "SimpleTypes", "kind": kind, "pair_id": pid, "py": p["py"], "xsd": p["xsd"], "site_index": meta["site_index"],
                         "token": rec["tok"], "record": rec, "observed": meta, "sites": sites, "occurrences": len(items)},
                   what + (" [%d records, sites %s]" % (len(items), sites[:4]) if len(items) > 1 else ""))

    # ---- setter level (spec/PropRefusal.tla): refused property assignments lose nothing that was written before
    prop_cov = property_setter_stage(rep, work, rp, do_selftest)

    # ---- reported, not judged
    e_by_type: dict = {}
    for k, judged in erep.items():
        d = e_by_type.setdefault(site_of(by_id[W[k]["pair"]]), {"judged": judged, "representable_but_refused": 0, "examples": []})
        d["representable_but_refused"] += 1
        if len(d["examples"]) < 3:
            d["examples"].append({"value": WM[k]["value"], "site": WM[k]["site"], "exc": W[k]["exc"]})
    a_unval: dict = {}
    for k in arep:
        d = a_unval.setdefault(site_of(by_id[W[k]["pair"]]), {"n": 0, "examples": []})
        d["n"] += 1
        if len(d["examples"]) < 2:
            d["examples"].append({"value": WM[k]["value"], "site": WM[k]["site"], "written": WM[k]["after"]})
    if any(not d["judged"] for d in e_by_type.values()):
        rep.note("E (XSD-representable => accepted) evaluated, not judged, fails on: %s" % {t: d["representable_but_refused"] for t, d in e_by_type.items() if not d["judged"]})
    if a_unval:
        rep.note("python classes that validate nothing let schema-invalid strings through (reported, not judged): %s" % {t: d["n"] for t, d in a_unval.items()})
    if reported_writes:
        rep.note("string shapes outside the quantifier, reported only: %s" % [(x["type"], x["value"], x["written"]) for x in reported_writes])
    if reported_reads:
        rep.note("read alternatives reported only: %s" % [(x["type"], x["site"], x["lex"]) for x in reported_reads[:6]])
    if unresolved:
        rep.note("attribute declarations without an XSD type (not checked): %s" % [(r["tag"], r["attr"]) for r in unresolved])

    distinct = len({(r["pair"], json.dumps(r["tok"], sort_keys=True)) for r in W}) + len({(r["pair"], json.dumps(r["tok"], sort_keys=True)) for r in R})
    i_s = next((i for i, m in enumerate(WM) if m["vclass"].endswith(":threshold") and W[i]["acc"]), 0)
    i_r = next((i for i, m in enumerate(RM) if m["vclass"].startswith("form:um")), 0)
    cov = {
        "evaluations": len(W) + len(R), "distinct_nontrivial": distinct,
        "rule": "TLC enumerates per (python type, XSD type) pair the write tokens <<anchor, delta, half-quantum, ulp>> (anchors = the XSD facets, "
                "the built-in base type's bounds, zero; delta in -%d..%d; float neighbours of each rounding threshold within %d ulp by math.nextafter), "
                "%d seeded float draws per float type, wrong python types, NaN/inf, every enumeration member and XSD token, and the read tokens = every "
                "lexical alternative of the XSD type (plain/+/leading zeros, N%%, N.N%%, six universal-measure units, true/false/1/0, xsd:double "
                "literals, enumeration tokens); each token is assigned / read through a real element at EVERY declared (element, attribute) "
                "site. evaluations = observed records; distinct_nontrivial = distinct (type pair, token) cases - every token is a boundary, "
                "threshold, wrong-type or lexical-alternative case by construction" % (consts[0], consts[0], consts[1], consts[2]),
        "samples": ([{"write": {**WM[i_s], "token": W[i_s]["tok"]}}] if W else []) +
                   ([{"read": {**RM[i_r], "token": R[i_r]["tok"], "lexValid": R[i_r]["lexValid"]}}] if R else []),
        "type_pairs": len(pairs), "attribute_sites": len(jobs), "declarations": len(rows), "unresolved_declarations": len(unresolved),
        "tokens_generated_by_tlc": dom, "records": tot,
        "clause_E_per_type": e_by_type, "unvalidated_string_types_A": a_unval, "read_alternatives_reported_only": reported_reads, "write_tokens_reported_only": reported_writes,
        "rejected_groups": len(groups), "constants": {"DELTA": consts[0], "ULP": consts[1], "NRAND": consts[2]},
        "tlc_wall_s": round(mc.wall, 1),
        "property_setter_stage": prop_cov,
    }
    return finish(rep, rp, "exploration", cov, [
        "TLC 1.8 + CommunityModules Json/IOUtils", "lxml XMLSchema over the XSD files in /repo/spec is the judge of lexical validity "
        "(wrapper schema importing the real XSD, one probe attribute per simple type)",
        "attribute -> XSD type by element name within the namespace; several candidates (c:grouping, c:order): valid for ANY counts as valid",
        "python-unit scales of the seven converting types are a hand table (extract/simpletypes.SCALE); D would fail everywhere if one were wrong",
        "D compares modulo 360 degrees for the two angle types (the type itself identifies those values) and case-insensitively for hexBinary",
        "judged through the element property (the setter of the statement); the direct to_xml outcome is recorded only"])


def property_setter_stage(rep, work, rp, do_selftest) -> dict:
    """Every catalogued property of C09's machine x every out-of-domain / wrong-type value class (alone, and after an accepted
    assignment to the same property): the refused call must not lose an attribute value or text the part held (PropRefusal.tla)."""
    from mbt.checks import c09
    from mbt.drive import props as PD
    if rp and rp.get("module") != "PropRefusal":
        return {"skipped": "replay of another module"}
    pcat = PD.prepare(E.tier(), E.seed())
    with open(os.path.join(work, "cat.json"), "w") as f:
        json.dump(pcat, f)
    knames = [k["kind"] for k in pcat]
    if rp:
        rjobs = [tuple(rp["job"])]
    else:
        rjobs = []
        allk = list(range(1, len(pcat) + 1))
        for name, depth in (("psweep", 1), ("ppairs", 2)):
            sts, acts, _r = c09.explore(work, name, depth, 1 if depth == 1 else 2, allk)
            for i, s_ in enumerate(sts):
                sc = [a for a in c09.scenario(acts, s_) if a["op"] != "SaveReopen"]
                if sc[-1]["op"] == "SetNone" or (depth == 2 and not (sc[0]["op"] == "Set" and sc[0]["p"] == sc[1]["p"])):
                    continue
                kn = knames[s_["k"] - 1]
                K = PD.RT["kinds"][kn]
                rjobs.append(("%s:%d" % (name, i), kn, K["deck"], K["path"], sc))
    traces = E.pmap(PD.run_monitored, rjobs, procs=16, chunk=16)
    kept = [(j, t) for j, t in zip(rjobs, traces) if t is not None]
    recs = [{"id": j[0], "out": t["steps"][0]["out"], "lost": t["lost"]} for j, t in kept]
    # reader level: one accepted in-domain assignment per catalogued property, the saved file read as written and respelled
    sjobs = []
    if not rp:
        seen = set()
        sts, acts, _r = c09.explore(work, "preader", 1, 1, list(range(1, len(pcat) + 1)))
        for i, s_ in enumerate(sts):
            sc = [a for a in c09.scenario(acts, s_) if a["op"] != "SaveReopen"]
            if len(sc) != 1 or sc[0]["op"] != "Set" or sc[0]["v"]["cls"] != "in":
                continue
            kn = knames[s_["k"] - 1]
            key = (kn, sc[0]["p"], sc[0]["v"]["anchor"])
            if key in seen or sc[0]["v"]["delta"] != 0:
                continue
            seen.add(key)
            K = PD.RT["kinds"][kn]
            sjobs.append(("preader:%d" % i, kn, K["deck"], K["path"], sc))
    elif rp.get("reader"):
        sjobs = [tuple(rp["job"])]
        rjobs, kept, recs = [], [], []
    rres = [(j, r) for j, r in zip(sjobs, E.pmap(PD.run_respelled, sjobs, procs=16, chunk=16)) if r is not None]
    recs += [{"id": r["id"], "out": r["out"], "lost": r["lost"]} for _, r in rres]
    readers = {r["id"]: (j, r) for j, r in rres}
    if do_selftest:
        k0 = next(i for i, r in enumerate(recs) if r["out"] in ("ValueError", "TypeError") and not r["lost"])
        bad0, _, _ = E.validate("PropRefusal", {"recs": [dict(recs[k0], id="selftest", lost=["val@x"]), recs[k0]]}, work=work, name="prop_selftest")
        ok = [b["id"] for b in bad0] == ["selftest"]
        print("SELFTEST %s: a refused property assignment recorded as having lost an attribute -> %s" % ("ok" if ok else "FAILED", bad0))
        if not ok:
            raise E.MachineryError("PropRefusal selftest failed")
    bad, summ, _ = E.validate("PropRefusal", {"recs": recs}, work=work, name="prop_obs", heap="4g")
    byid = {j[0]: (j, t) for j, t in kept}
    for v in bad:
        if v["id"] in readers:
            j, r = readers[v["id"]]
            pr = PD.RT["kinds"][j[1]]["props"][j[4][-1]["p"] - 1]["p"]
            rep.reject("RespelledFormsReadable@%s.%s" % (j[1], pr), {"module": "PropRefusal", "reader": True, "job": list(j), "lost": r["lost"]},
                       "%s: after %s.%s was assigned and the deck saved, the file respelled as another producer spells it (lower-case hex "
                       "colours, true / false booleans) reads %s differently" % (j[1], j[1], pr, r["lost"][:4]))
            continue
        j, t = byid[v["id"]]
        last = j[4][-1]
        pr = PD.RT["kinds"][j[1]]["props"][last["p"] - 1]["p"]
        vcls = last["v"]["cls"] + ":" + str(last["v"]["anchor"])
        rep.reject("RefusedKeepsValues@%s.%s[%s]" % (j[1], pr, vcls),
                   {"module": "PropRefusal", "job": list(j), "lost": t["lost"], "out": t["steps"][0]["out"]},
                   "%s.%s %s: refused with %s, the part lost %s" % (j[1], pr, [(a["op"], a["v"]["cls"] + ":" + str(a["v"]["anchor"])) for a in j[4]],
                                                                   t["steps"][0]["out"], t["lost"][:4]))
    if not rp and summ["refused"] < 500:
        raise E.MachineryError("vacuous: only %d refused property assignments observed" % summ["refused"])
    if not rp and summ["respelled"] < 20:
        raise E.MachineryError("vacuous: only %d respelled readings observed" % summ["respelled"])
    return {"candidates": len(rjobs), "judged": len(recs), "refused": summ["refused"], "rejected": summ["rejected"],
            "respelled_files_read": summ["respelled"], "respelled_attributes": sum(r["n"] for _, r in rres)}


def selftest(work, pairs, W, WM, R, types_file, consts):
    by_id = {p["id"]: p for p in pairs}
    # (a) one recorded field per clause
    ia = next(i for i, r in enumerate(W) if r["acc"] and r["present"] and r["attrValid"] and by_id[r["pair"]]["validates"] and r["readOk"] and r["within"])
    ib = next(i for i, r in enumerate(W) if not r["acc"] and r["exc"] in ("TypeError", "ValueError") and not r["changed"])
    idd = next(i for i, r in enumerate(W) if i != ia and r["acc"] and r["present"] and r["attrValid"] and r["within"] and by_id[r["pair"]]["pyKind"] == "float")
    ic = next(i for i, r in enumerate(R) if r["lexValid"] and r["readOk"])
    w = [json.loads(json.dumps(W[i])) for i in (ia, ib, idd, ia)]
    w[0]["attrValid"] = False
    w[1]["changed"] = True
    w[2]["within"] = False
    r = [json.loads(json.dumps(R[ic])), json.loads(json.dumps(R[ic]))]
    r[0]["readOk"] = False
    out = validate(by_id, w, r, work, types_file, "selftest_fields", consts)
    got = sorted((v["kind"], v["k"], tuple(sorted(v["failing"]))) for v in out["verdicts"])
    ok1 = got == [("r", 1, ("C",)), ("w", 1, ("A",)), ("w", 2, ("B",)), ("w", 3, ("D",))]
    print("SELFTEST %s: flipped attrValid / changed / within / readOk of four records, one left untouched -> TLC rejects %s" % ("ok" if ok1 else "FAILED", got))
    # (b) one extracted facet: the upper bound of ST_TextFontSize moved onto its lower bound
    t2 = table_for_tlc(pairs)
    victim = next(p for p in t2 if p["py"] == "ST_TextFontSize")
    m = next(m for m in victim["members"] if m["kind"] == "int")
    m["hiIdx"] = m["loIdx"]
    tf2 = os.path.join(work, "types_selftest.json")
    with open(tf2, "w") as f:
        json.dump(t2, f, separators=(",", ":"))
    sel = [i for i, r in enumerate(W) if r["pair"] == victim["id"]][:400] + [i for i, r in enumerate(W) if by_id[r["pair"]]["py"] == "ST_LineWidth"][:100]
    out2 = validate(by_id, [W[i] for i in sel], [], work, tf2, "selftest_facet", consts)
    hit = {by_id[W[sel[v["k"] - 1]]["pair"]]["py"] for v in out2["range"]}
    ok2 = hit == {"ST_TextFontSize"}
    print("SELFTEST %s: maxInclusive of ST_TextFontSize perturbed in the extracted table -> TLC's range verdict disagrees with the schema on %d records of %s" % (
        "ok" if ok2 else "FAILED", len(out2["range"]), sorted(hit)))
    if not (ok1 and ok2):
        raise E.MachineryError("selftest failed")


if __name__ == "__main__":
    E.main_wrap(main)
