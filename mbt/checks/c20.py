"""C20 — enumerations and the preset-shape table agree with the standard. spec/EnumTables.tla.

tables extracted from the live classes + the standard's files  ->  TLC evaluates the named clauses of the relation and
explores the machine Add -> SaveReopen -> ReadBack (one path per state)  ->  every path replayed through the public API  ->
TLC validates every observed step against the property layer.  Exhaustive over the finite tables.
"""
from __future__ import annotations

import concurrent.futures as cf
import json
import os
import sys

from mbt import engine as E
from mbt.drive import enumtables as D
from mbt.extract import enums as X

PID = "C20"
CFG = "SPECIFICATION Spec\nCONSTANT Tab <- TabFromFile\nVIEW ViewSt\nINVARIANT EmitState\nCHECK_DEADLOCK FALSE\n"


def action_counts(r) -> dict:
    """Per-action counts of `-coverage 1` (existential actions carry a location suffix the engine's parser skips)."""
    import re
    res = {}
    for m in re.finditer(r"^<Do(\w+) line \d+, col \d+ to line \d+, col \d+ of module \w+(?: \([\d ]+\))?>: (\d+):(\d+)", r.out, re.M):
        res[m.group(1)] = res.get(m.group(1), 0) + int(m.group(3))
    return res


def relation(work: str, tables: dict, name: str, explore: bool = True):
    """Run MC_EnumTables over `tables`. Returns (bad records, relation summary, design lines, paths, tlc)."""
    tf = os.path.join(work, name + ".json")
    with open(tf, "w") as f:
        json.dump(tables, f, separators=(",", ":"))
    cfg = os.path.join(work, "MC_EnumTables_%s.cfg" % name)
    with open(cfg, "w") as f:
        f.write(CFG)
    r = E.run_tlc("MC_EnumTables", cfg, work=work, env={"TABLES_FILE": tf}, workers=1, timeout=900,
                  extra=["-coverage", "1"] if explore else [], heap="4g")
    rel = r.printed("RELATION")
    if not rel:
        raise E.MachineryError("no RELATION line from MC_EnumTables[%s]" % name)
    bad = r.printed("BAD")
    if len(bad) != rel[-1]["offenders"]:
        raise E.MachineryError("parsed %d BAD lines, TLC counted %d offenders" % (len(bad), rel[-1]["offenders"]))
    paths = [p for p in r.printed("ST") if len(p) == 3]
    return bad, rel[-1], r.printed("DESIGN"), paths, r


def sig_of(b: dict) -> str:
    site = b["enum"] if b["clause"] not in ("AdjNamesAndOrderEqual", "AdjDefaultsEqual", "HasTableEntry") else "autoshape_types"
    return "%s@%s[%s]" % (b["clause"], site, b["member"])


def describe(b: dict) -> str:
    c, m, x = b["clause"], b["member"], sorted(b["members"])
    if c == "TokenInjective":
        return "%s members %s all map to token %r" % (b["enum"], x, m)
    if c == "TokenInSchemaEnum":
        return "%s.%s token %s is not in the schema enumeration of %s" % (b["enum"], m, x, b["site"])
    if c == "RoundTrip":
        return "%s.%s: to_xml/from_xml(to_xml) recorded as %s" % (b["enum"], m, x)
    if c == "PresetExists":
        return "MSO_AUTO_SHAPE_TYPE.%s preset %s has no definition in presetShapeDefinitions.xml" % (m, x)
    if c == "HasTableEntry":
        return "MSO_AUTO_SHAPE_TYPE.%s has no entry in pptx.spec.autoshape_types" % m
    if c in ("AdjNamesAndOrderEqual", "AdjDefaultsEqual"):
        return "autoshape_types[%s] avLst differs from the standard's %s (%s)" % (m, x, "names/order" if c.startswith("AdjN") else "defaults")
    if c == "ChartTypeInverse":
        return "XL_CHART_TYPE.%s written, PlotTypeInspector reads %s" % (m, x)
    return "%s %s %s %s" % (c, b["enum"], m, x)


def validate(traces: list, work: str, tables_file: str, name: str, cross: list | None = None):
    """(verdicts, summary, tlc); the cross-site read records are judged in the same run (XVERDICT lines -> tlc.printed)."""
    return E.validate("Trace_EnumTables", {"traces": traces, "cross": cross or []}, work=work, name=name, env={"TABLES_FILE": tables_file},
                      timeout=900, heap="4g")


def selftest(work: str, tables: dict, base_bad: list, traces: list, tables_file: str):
    base = {json.dumps(b, sort_keys=True) for b in base_bad}
    shapes = next(e for e in tables["enums"] if e["name"] == "MSO_AUTO_SHAPE_TYPE")
    presets = {p["name"] for p in tables["presets"]}
    toks = [m["tok"] for m in shapes["members"] if m["hasTok"]]
    base_members = {b["member"] for b in base_bad} | {n for b in base_bad for n in b["members"]}
    cand = [m for m in shapes["members"] if m["hasTok"] and toks.count(m["tok"]) == 1 and m["tok"] in presets and m["name"] not in base_members]
    pick = cand[E.seed() % len(cand)]["name"]
    # (a) one extracted token
    t1 = json.loads(json.dumps(tables))
    for m in next(e for e in t1["enums"] if e["name"] == "MSO_AUTO_SHAPE_TYPE")["members"]:
        if m["name"] == pick:
            m["tok"] += "X"
    # (b) one adjustment default
    t2 = json.loads(json.dumps(tables))
    cand2 = [s for s in t2["shapes"] if s["av"] and s["member"] not in base_members]
    s2 = cand2[(E.seed() + 7) % len(cand2)]
    s2["av"][-1]["v"] += 1
    # (c) one recorded field of one trace, (d) one action dropped
    good = [t for t in traces if t["kind"] == "shape" and all(s["o"]["ok"] for s in t["steps"])]
    g1 = json.loads(json.dumps(good[(E.seed() + 3) % len(good)]))
    g1["id"] = "selftest-field"
    g1["steps"][2]["o"]["apiType"] = "RECTANGLE" if g1["item"] != "RECTANGLE" else "OVAL"
    g2 = json.loads(json.dumps(good[(E.seed() + 5) % len(good)]))
    g2["id"] = "selftest-dropped"
    del g2["steps"][1]
    g3 = json.loads(json.dumps(good[(E.seed() + 11) % len(good)]))
    g3["id"] = "selftest-untouched"
    with cf.ThreadPoolExecutor(3) as ex:
        f1 = ex.submit(relation, work, t1, "selftest_token", False)
        f2 = ex.submit(relation, work, t2, "selftest_default", False)
        f3 = ex.submit(validate, [g1, g2, g3], work, tables_file, "selftest_traces")
        new1 = [b for b in f1.result()[0] if json.dumps(b, sort_keys=True) not in base]
        new2 = [b for b in f2.result()[0] if json.dumps(b, sort_keys=True) not in base]
        bad3 = f3.result()[0]
    ok1 = bool(new1) and all(b["member"] == pick for b in new1) and {"TokenInSchemaEnum", "PresetExists", "RoundTrip"} <= {b["clause"] for b in new1}
    ok2 = [sig_of(b) for b in new2] == ["AdjDefaultsEqual@autoshape_types[%s]" % s2["member"]]
    by = {v["id"]: v for v in bad3}
    ok3 = (set(by) == {"selftest-field", "selftest-dropped"}
           and [(b["k"], sorted(b["failing"])) for b in by["selftest-field"]["bad"]] == [(3, ["TypeReadBack"])]
           and by["selftest-dropped"]["wellFormed"] is False)
    print("SELFTEST %s: token of %s perturbed -> TLC names %s" % ("ok" if ok1 else "FAILED", pick, sorted({sig_of(b) for b in new1})))
    print("SELFTEST %s: one default of %s perturbed -> TLC names %s" % ("ok" if ok2 else "FAILED", s2["member"], [sig_of(b) for b in new2]))
    print("SELFTEST %s: one recorded apiType flipped / SaveReopen dropped / one trace untouched -> rejected %s" % (
        "ok" if ok3 else "FAILED", sorted(by)))
    if not (ok1 and ok2 and ok3):
        raise E.MachineryError("selftest failed")


def finish(rep, rp, level, cov, assumptions) -> int:
    """A --replay run judges one recorded case; it must not replace the evidence of the last full run."""
    path = os.path.join(E.EVID, PID + ".json")
    keep = open(path).read() if rp and os.path.exists(path) else None
    rc = rep.finish(level, cov, assumptions)
    if keep is not None:
        with open(path, "w") as f:
            f.write(keep)
    return rc


def main() -> int:
    rep = E.Report(PID)
    work = E.workdir(PID)
    do_selftest = "--selftest" in sys.argv
    replay = sys.argv[sys.argv.index("--replay") + 1] if "--replay" in sys.argv else None
    rp = json.load(open(replay)) if replay else None

    tables = X.tables()
    tables_file = os.path.join(work, "tables.json")
    bad, rel, design, paths, mc = relation(work, tables, "tables")
    ev = rel["evaluated"]
    counts = action_counts(mc)
    if not (ev["members"] and ev["shapes"] and ev["writable"] and ev["comparable"] and ev["tokenUses"]):
        raise E.MachineryError("vacuous relation: %s" % ev)
    for a in ("AddAutoShape", "AddChart", "SaveReopen", "ReadBack"):
        if not counts.get(a):
            raise E.MachineryError("vacuous action %s: %s" % (a, counts))
    want = 4 * (ev["shapes"] + ev["writable"])
    if len(paths) != want:
        raise E.MachineryError("emitted %d complete paths, expected %d (every item on the four hosts)" % (len(paths), want))

    # ---- replay every path through the real library
    jobs = [("%s:%s:%s" % (p[0]["op"], p[0]["item"], p[0]["host"]), p) for p in paths]
    if rp and rp.get("kind") == "trace":
        jobs = [(rp["id"], rp["actions"])]
    traces = E.pmap(D.run_trace, jobs, procs=16, chunk=4)
    if do_selftest:
        selftest(work, tables, bad, traces, os.path.join(work, "tables.json"))
    # every token two enumerations share, read at one attribute and then at the other - in ONE process, so that whatever a read
    # remembers is there for the next (spec/EnumTables.tla CrossHolds)
    cross = E.pmap(D.cross_reads, [None], procs=1)[0] if not rp else []
    if do_selftest and cross:
        fake = [dict(cross[0], gotType="MSO_SOMETHING_ELSE"), cross[0]]
        _, _, tl = validate([], work, tables_file, "cross_selftest", fake)
        xs = tl.printed("XVERDICT")
        ok = len(xs) == 1 and xs[0]["k"] == 1
        print("SELFTEST %s: a cross-site read recorded with another enumeration's type -> %s" % ("ok" if ok else "FAILED", str(xs)[:200]))
        if not ok:
            raise E.MachineryError("cross-site selftest failed")
    verdicts, summ, tlc_obs = validate(traces, work, tables_file, "obs", cross)
    if not rp and len(cross) < 20:
        raise E.MachineryError("vacuous: %d cross-site reads" % len(cross))
    for xv in tlc_obs.printed("XVERDICT"):
        r = xv["rec"]
        rep.reject("ReadIsOfTheAttributesEnumeration@%s[%s]" % (r["site"], r["tok"]),
                   {"module": "EnumTables", "kind": "cross", "record": r},
                   "%s=%r read after %s: got %s %r, the attribute's enumeration is %s" % (r["site"], r["tok"], r["first"], r["gotType"], r["gotTok"], r["enum"]))

    # ---- verdicts
    groups: dict = {}
    for b in bad:
        groups.setdefault(sig_of(b), []).append(b)
    for sig, bs in sorted(groups.items()):
        if rp and rp.get("signature") != sig:
            continue
        rep.reject(sig, {"module": "EnumTables", "kind": "relation", "offenders": bs}, describe(bs[0]) + (
            " (+%d more sites)" % (len(bs) - 1) if len(bs) > 1 else ""))
    byid = {t["id"]: t for t in traces}
    observed_failing = set()
    seen = set()
    for v in verdicts:
        t = byid[v["id"]]
        clauses = sorted({c for b in v["bad"] for c in b["failing"]}) or ["Malformed"]
        observed_failing.add((v["kind"], v["item"]))
        sig = "%s@%s[%s]" % ("+".join(clauses), t["steps"][0]["a"]["op"], v["item"])
        if (rp and rp.get("signature") != sig) or sig in seen:     # one replay per signature (hosts behave alike)
            continue
        seen.add(sig)
        first = sorted(v["bad"], key=lambda b: b["k"])[0] if v["bad"] else {"k": 0, "op": "?"}
        o = t["steps"][max(first["k"], 1) - 1]["o"]
        what = "%s(%s) on %s: after %s read back type=%r adjustments=%s chart=%r%s" % (
            t["steps"][0]["a"]["op"], v["item"], v["host"], first["op"], o["apiType"], o["adj"], o["apiChart"],
            (" exception " + o["exc"]) if o["exc"] else "")
        rep.reject(sig, {"module": "EnumTables", "kind": "trace", "id": v["id"], "actions": [s["a"] for s in t["steps"]],
                         "observed": t["steps"], "verdict": v}, what)
    predicted = {(d["kind"], d["item"]) for d in design}
    if not rp:
        ghost = predicted - observed_failing
        if ghost:
            rep.note("drift: model counterexamples the real library does not show (the Impl transcription over the extracted tables and the code disagree; the verdict is the observed one): %s" % sorted(ghost)[:5])
        extra = observed_failing - predicted
        if extra:
            rep.note("observed failures the Impl transcription does not predict: %s" % sorted(extra)[:5])
    if summ.get("drift"):
        rep.note("drift: %d observed steps differ from the Impl transcription" % summ["drift"])
    if rel["notJudged"]:
        rep.note("not judged by the preset clauses (the standard's presetShapeDefinitions.xml has no definition for %s although "
                 "ST_ShapeType enumerates it; it defines %s twice): %s" % (
                     sorted(rel["stdGap"]), [p["name"] for p in tables["presets"] if p["count"] > 1], sorted(rel["notJudged"])))
    py_alias = [(e["name"], m["name"], m["canonical"]) for e in tables["enums"] for m in e["members"] if m["pyAlias"]]
    if py_alias:
        rep.note("python-level aliases (same int value, same member object; their own declared token is not observable): %s" % py_alias)

    n_eval = ev["members"] + ev["tokenUses"] + 3 * ev["shapes"] + 2 * ev["writable"] + summ["steps"]
    smp = next((t for t in traces if t["kind"] == "shape" and t["steps"][0]["o"]["adj"]), traces[0])
    cov = {
        "explanation": "TLC evaluates nine named clauses of the relation between the tables extracted at run time (every BaseXmlEnum "
                       "subclass of pptx.enum.*, the XSD enumerations of the attribute types they are declared on, pptx.spec.autoshape_types, "
                       "presetShapeDefinitions.xml, ChartXmlWriter/PlotTypeInspector over all XL_CHART_TYPE members), naming each offending member; "
                       "then explores the machine AddAutoShape/AddChart -> SaveReopen -> ReadBack over every auto-shape type and every writable "
                       "chart type on a slide and in a group; every path is replayed through the public API and every observed step is "
                       "validated by TLC against the property layer (type read back, adjustment count/defaults as the standard's). "
                       "Both parts are exhaustive over the finite tables.",
        "exhaustive": True,
        "states": mc.distinct, "transitions": mc.generated, "traces_validated_against_impl": len(traces),
        "real_steps_validated": summ["steps"], "action_counts": {k: counts.get(k, 0) for k in ("AddAutoShape", "AddChart", "SaveReopen", "ReadBack")},
        "evaluations": n_eval, "distinct_nontrivial": ev["members"] + ev["shapes"] + ev["writable"],
        "rule": "evaluations = member/token pairs + (member, attribute site) schema look-ups + 3 preset clauses per auto-shape type + 2 chart "
                "clauses per writable type + observed replay steps; distinct_nontrivial = distinct XML-mapped members + auto-shape types + "
                "writable chart types (each an independent literal of the library compared with the standard)",
        "relation": {"evaluated": ev, "per_clause_offenders": {c["clause"]: c["n"] for c in rel["perClause"]},
                     "enumerations": {e["name"]: {"bound_as": e["boundAs"], "members": len(e["members"]),
                                                  "with_token": sum(m["hasTok"] for m in e["members"]),
                                                  "schema_types": sorted({u["xsdType"] for u in e["uses"]})} for e in tables["enums"]},
                     "presets_in_standard": len(tables["presets"]), "not_judged": sorted(rel["notJudged"]),
                     "chart_types": len(tables["charts"]), "writable_chart_types": ev["writable"],
                     "not_writable": [c["member"] for c in tables["charts"] if not c["writable"]]},
        "design_level_counterexamples": sorted("%s:%s" % (d["kind"], d["item"]) for d in design),
        "drift_steps": summ.get("drift", 0),
        "samples": [{"scenario": [s["a"] for s in smp["steps"]], "observed_after_reopen": smp["steps"][1]["o"]},
                    {"enum_member": next(m for m in tables["enums"][0]["members"] if m["hasTok"])},
                    {"chart": {k: v for k, v in next(c for c in tables["charts"] if c["writable"]).items() if k != "tokens"}}],
        "tlc_wall_s": round(mc.wall, 1),
    }
    return finish(rep, rp, "other", cov, [
        "TLC 1.8 + CommunityModules Json/IOUtils", "lxml for the XSD files and presetShapeDefinitions.xml shipped in /repo/spec",
        "attribute -> XSD type resolved by element name within the namespace; when several element declarations share a name a token "
        "must be in the enumeration of at least one",
        "MSO_CONNECTOR_TYPE has no attribute declaration; its use (a:prstGeom/@prst) is the one hand-written entry of the extractor",
        "chart data per type: 2 categories x 2 series / 2 XY points / 2 bubble points"])


if __name__ == "__main__":
    E.main_wrap(main)
