"""Shared by the Deck-based checks (C02, C06, ...): MC_Deck exploration, replay, TLC validation."""
from __future__ import annotations

import json
import os
import concurrent.futures as cf

from mbt import engine as E
from mbt.drive import deck as K
from mbt.drive import opc as D

CFG = """SPECIFICATION Spec
CONSTANTS ALPHA = {%(alpha)s}
 DEPTH = %(depth)d
 INITS = {%(inits)s}
 MAXSHAPES = %(maxshapes)d
 Segs <- DefaultSegs
VIEW ViewSt
INVARIANT EmitState
CHECK_DEADLOCK FALSE
"""
EMPTY_Z = None


def explore(work, name, alpha, depth, inits, maxshapes=6, sim=None):
    cfg = os.path.join(work, "MC_Deck_%s.cfg" % name)
    body = CFG % dict(alpha=",".join('"%s"' % x for x in alpha), depth=depth, inits=",".join(map(str, inits)), maxshapes=maxshapes)
    if sim:
        body = body.replace("VIEW ViewSt\n", "")
    with open(cfg, "w") as f:
        f.write(body)
    extra = ["-simulate", sim, "-depth", str(depth + 1), "-seed", str(E.seed() + 11)] if sim else ["-coverage", "1"]
    r = E.run_tlc("MC_Deck", cfg, work=work, workers=1 if sim else 16, timeout=2400, extra=extra, heap="12g")
    paths = r.printed("ST")
    if sim:
        seen, out = set(), []
        for p in paths:
            if len(p) == depth + 1:
                k = json.dumps(p, sort_keys=True)
                if k not in seen:
                    seen.add(k)
                    out.append(p)
        paths = out
    elif len(paths) != r.distinct:
        raise E.MachineryError("MC_Deck[%s]: %d paths for %d distinct states" % (name, len(paths), r.distinct))
    ces = r.printed("DESIGNCE")
    return paths, ces, r


def _job(args):
    hid, h = args[0], args[1]
    try:
        return K.run_history(hid, h, facets_on=(len(args) < 3 or args[2]), companion=(len(args) > 3 and bool(args[3])))
    except Exception as e:   # a crash of the driver itself is a machinery failure, reported by the parent
        import traceback
        return {"id": hid, "h": h, "crash": "%s: %s\n%s" % (type(e).__name__, e, traceback.format_exc()[-3000:])}


def replay(jobs, procs=16):
    res = E.pmap(_job, jobs, procs=procs, chunk=2)
    crashed = [r for r in res if "crash" in r]
    if crashed:
        raise E.DriverCrash("driver crashed on %d histories, first: %s" % (len(crashed), crashed[0]["id"]), crashed[0]["crash"])
    return res


def prepare(traces):
    """Intern part names against one shared segment table; normalise records for TLC."""
    st = D.SegTable()
    out = []
    for tr in traces:
        steps = []
        for s in tr["steps"]:
            a = {"op": s["a"]["op"], "k": s["a"].get("k", 0), "j": s["a"].get("j", 0), "kind": s["a"].get("kind", ""), "l": s["a"].get("l", 0), "tid": s["a"].get("tid", "")}
            steps.append({"a": a, "out": s["out"], "t": s["t"], "savedSame": s.get("savedSame", True)})
        saves = []
        for sv in tr["saves"]:
            if sv.get("z") is None:
                saves.append({"at": sv["at"], "ok": False, "z": {}})
            else:
                z = D.intern({k: v for k, v in sv["z"].items() if k != "reopenErr"}, st)
                saves.append({"at": sv["at"], "ok": True, "z": z})
        out.append({"id": tr["id"], "steps": steps, "saves": saves})
    return {"segs": st.table() or [{"stem": "x", "num": -1, "exts": []}], "traces": out}


def validate(traces, work, tag="obs", chunk=250):
    parts = [traces[i:i + chunk] for i in range(0, len(traces), chunk)] or [[]]
    bad, tot = [], {}

    def run(ix_part):
        ix, part = ix_part
        return E.validate("Trace_Deck", prepare(part), work=work, name="%s%d" % (tag, ix), heap="5g", timeout=2400)
    with cf.ThreadPoolExecutor(10) as ex:
        for b, s, _ in ex.map(run, list(enumerate(parts))):
            bad += b
            for k, v in s.items():
                tot[k] = tot.get(k, 0) + v
    return bad, tot
