"""C06 — shape ids, slide ids, relationship ids and part names are unique and stable. spec/Deck.tla."""
from __future__ import annotations

from mbt import engine as E
from mbt.checks import alloc_stage, c02

PID = "C06"
MINE = {"NewShapeIdsFresh", "NewSlideIdFresh", "SlideIdsStable", "RidsUniquePerSource", "RidsNotReassigned", "PartNamesUnique",
        "SlidesNamedInOrderOnceAccessed", "LookupStable", "LinksAsSet", "UniqueMembers", "OperationSucceeds"}
IDS = ["addShape", "autoshape", "textbox", "group", "freeform", "picture", "connector", "table", "setTurbo", "addSlide", "reopen", "access"]
RIDS = ["addShape", "picture", "notes", "setLink", "changeLink", "clearLink", "setJump", "clearJump", "setRunLink", "setHover", "clearRunLink", "reopen"]


def configs(thorough):
    if thorough:
        return [("ids", ["addShape", "autoshape", "group", "freeform", "picture", "setTurbo", "addSlide", "reopen"], 4, [2, 4], None), ("ids3", IDS, 3, [2, 3, 4, 5, 6], None), ("rids", RIDS, 4, [5], None), ("rids3", RIDS, 3, [2], None),
                ("notesgap", ["notes", "access", "save", "reopen", "addSlide"], 3, [13], None), ("sim", c02.FULL, 12, [1, 2, 3, 4, 5], "num=600")]
    return [("ids", ["addShape", "autoshape", "group", "freeform", "picture", "setTurbo", "addSlide", "reopen", "access"], 3, [2, 4], None),
            ("media", ["addShape", "picture", "movie", "reopen", "save"], 3, [6], None),
            ("rids", RIDS, 3, [5], None), ("turbo", ["setTurbo", "addShape", "textbox", "freeform"], 4, [5], None),
            ("notesgap", ["notes", "access", "reopen"], 2, [13], None),
            ("sim", c02.FULL, 10, [1, 2, 3, 4, 5], "num=60")]


def main() -> int:
    return c02.run(PID, MINE, configs(E.tier() == "thorough"),
                   "TLC explores every history of additions (every shape kind, both id allocators, turbo mode on/off, slides, notes, links) "
                   "<= DEPTH from decks with id gaps, ids near 2^31, slide ids at the upper bound and permuted part names; the allocators' "
                   "transcription is checked for freshness at design level; each history is replayed and TLC evaluates freshness, stability "
                   "and naming clauses on the ids read from the serialised parts after every step; " + "ALLOCATOR STAGE (spec/Alloc.tla): every subset of an identifier universe x short alloc/release/turbo sequences per allocator", facets_on=False, extra=alloc_stage.run)


if __name__ == "__main__":
    E.main_wrap(main)
