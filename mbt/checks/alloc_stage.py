"""Allocator stage of C06 (spec/Alloc.tla): every initial identifier set x every short operation sequence, per allocator."""
from __future__ import annotations

import json
import os

from mbt import engine as E
from mbt.drive import alloc as A

KINDS = ["rid", "partname", "image", "media", "slideid", "shape", "ctn"]


def _job(args):
    hid, h = args
    try:
        return A.run_history(hid, h)
    except Exception as e:
        import traceback
        return {"id": hid, "crash": "%s: %s\n%s" % (type(e).__name__, e, traceback.format_exc()[-3000:])}


def _class(t, k):
    """The history class of a rejected step: which operations preceded it and what the initial set contained."""
    ops = [s["op"] for s in t["steps"][1:k]]
    init = {x["c"] for x in t["steps"][0]["used"]}
    tags = []
    if "turbo" in ops and any(o in ("allocGap", "allocFree", "allocAgain") for o in ops[ops.index("turbo"):]):
        return "turbo-then-gap"        # the history class of the recorded turbo finding: what else the deck holds is irrelevant to it
    elif "turbo" in ops:
        tags.append("turbo")
    for c in ("alpha", "pad", "alt"):
        if c in init:
            tags.append(c + "-present")
    if "release" in ops:
        tags.append("after-release")
    return ",".join(tags) or "plain"


def apalache(work: str) -> dict:
    """Apa_Alloc.tla: the transcribed allocators are fresh for EVERY subset of a 24-number range (symbolic, 2^24 sets)."""
    import subprocess
    import time
    out = os.path.join(work, "apa_alloc")
    t0 = time.time()
    try:
        p = subprocess.run(["apalache-mc", "check", "--init=Init", "--inv=Inv", "--length=0", "--out-dir=" + out, "Apa_Alloc.tla"],
                           cwd=E.SPEC, stdout=subprocess.PIPE, stderr=subprocess.STDOUT, text=True, timeout=600)
    except (subprocess.TimeoutExpired, FileNotFoundError) as e:
        return {"ran": False, "reason": type(e).__name__}
    ok = "The outcome is: NoError" in p.stdout
    if not ok and "outcome is: Error" in p.stdout:
        raise E.MachineryError("Apalache refuted an invariant of Apa_Alloc.tla: the allocator transcription is wrong or transcribes a defect:\n"
                               + "\n".join(p.stdout.splitlines()[-12:]))
    return {"ran": True, "all_subsets_fresh": ok, "wall_s": round(time.time() - t0, 1)}


def run(rep: E.Report, work: str, selftest: bool = False, replay: dict | None = None) -> dict:
    thorough = E.tier() == "thorough"
    depth, maxrel = (4, 2) if thorough else (3, 1)
    if replay:
        jobs = [(replay["id"], replay["h"])]
        r = None
    else:
        cfg = os.path.join(work, "MC_Alloc.cfg")
        with open(cfg, "w") as f:
            f.write("SPECIFICATION Spec\nCONSTANTS KINDS = {%s}\n DEPTH = %d\n MAXREL = %d\nINVARIANT Emit\nINVARIANT TypeOK\nCHECK_DEADLOCK FALSE\n"
                    % (",".join('"%s"' % k for k in KINDS), depth, maxrel))
        r = E.run_tlc("MC_Alloc", cfg, work=work, workers=16, timeout=2400, extra=["-coverage", "1"], heap="8g")
        hs = r.printed("H")
        if not hs:
            raise E.MachineryError("MC_Alloc printed no history")
        jobs = [("alloc:%d" % i, h) for i, h in enumerate(hs)]
        ces = r.printed("CE")
        if ces:
            kinds = sorted({c["kind"] + ":" + "+".join(c["failing"]) for c in ces})
            rep.note("Alloc design level: %d allocations where the transcribed allocator breaks a clause (%s); the same histories are in the replay set"
                     % (len(ces), ", ".join(kinds)))
    traces = E.pmap(_job, jobs, procs=16)
    crashed = [t for t in traces if "crash" in t]
    if crashed:
        raise E.DriverCrash("alloc driver crashed on %d histories, first %s" % (len(crashed), crashed[0]["id"]), crashed[0]["crash"])
    # binding sanity: the object really holds the initial identifier set the history starts from
    byid = dict(zip((j[0] for j in jobs), jobs))
    for t in traces:
        want = sorted((x["c"], x["n"]) for x in byid[t["id"]][1][0]["used"])
        got = sorted((x["c"], x["n"]) for x in t["steps"][0]["used"])
        if want != got:
            # the identifiers were written into the document / package the object was made from: an object that does not hold them has
            # lost or merged some on the way in (the hosts themselves are exercised by every run on the unchanged tree)
            rep.reject("LoadedIdentifiersHeld@alloc.%s.init" % t["kind"], {"module": "Alloc", "id": t["id"], "h": byid[t["id"]][1], "observed": t["steps"][:1]},
                       "%s: the object made from identifiers %s holds %s (%s)" % (t["kind"], want, got, t["steps"][0]["_raw"]))
            t["_skip"] = True
    clean = lambda t: {"id": t["id"], "kind": t["kind"], "steps": [{k: v for k, v in s.items() if not k.startswith("_")} for s in t["steps"]]}  # noqa: E731
    if selftest:
        t = json.loads(json.dumps(clean(next(x for x in traces if x["kind"] == "rid" and x["steps"][1]["op"] == "alloc" and len(x["steps"][0]["used"]) > 1))))
        t["steps"][1]["new"] = t["steps"][0]["used"][0]          # the call claims to have returned an identifier that existed
        bad, _, _ = E.validate("Trace_Alloc", {"traces": [t]}, work=work, name="alloc_selftest")
        ok = len(bad) == 1 and "Fresh" in bad[0]["failing"]
        print("SELFTEST %s: alloc returned an identifier already in use -> %s" % ("ok" if ok else "FAILED", str(bad)[:200]))
        if not ok:
            raise E.MachineryError("alloc selftest failed")
    tot = {"traces": 0, "rejected": 0, "drift": 0, "allocs": 0}
    CH = 6000
    tmap = {t["id"]: t for t in traces}
    traces = [t for t in traces if not t.get("_skip")]
    for c0 in range(0, len(traces), CH):
        bad, summ, _ = E.validate("Trace_Alloc", {"traces": [clean(t) for t in traces[c0:c0 + CH]]}, work=work, name="alloc_obs%d" % (c0 // CH))
        for k in tot:
            tot[k] += summ.get(k, 0)
        for b in bad:
            t = tmap[b["id"]]
            st = t["steps"][b["step"] - 1]
            sig = "%s@alloc.%s.%s|%s" % ("+".join(sorted(b["failing"])), t["kind"], b["op"], _class(t, b["step"]))
            rep.reject(sig, {"module": "Alloc", "id": t["id"], "h": byid[t["id"]][1], "failing": b, "observed": t["steps"]},
                       "%s %s after %s on identifiers %s: returned %s%s, identifiers now %s"
                       % (t["kind"], b["op"], [s["op"] for s in t["steps"][1:b["step"] - 1]], t["steps"][b["step"] - 2]["_raw"],
                          st["new"], (" raised " + st["raised"]) if st["raised"] else "", st["_raw"]))
    if tot["drift"]:
        rep.note("Alloc drift: %d histories where the real allocator returned something else than the transcription (every clause true)" % tot["drift"])
    per = {}
    for t in traces:
        per[t["kind"]] = per.get(t["kind"], 0) + 1
    if not replay:
        missing = [k for k in KINDS if not per.get(k)]
        if missing:
            raise E.MachineryError("vacuous: no history for allocator %s" % missing)
    apa = apalache(work) if not replay else {"ran": False, "reason": "replay"}
    return {"alloc_apalache": apa, "alloc_histories_replayed": len(traces), "alloc_allocations_judged": tot["allocs"], "alloc_histories_per_kind": per,
            "alloc_tlc_distinct": r.distinct if r else 0, "alloc_depth": depth, "alloc_max_releases": maxrel,
            "alloc_actions": r.coverage_counts() if r else {},
            "alloc_rule": "for each of the 7 allocators TLC enumerates every subset of a universe of pre-existing identifiers (gaps, zero, a "
                          "differently spelled number, a non-numeric identifier, the same number under another extension, the bounds of the value "
                          "space) x every sequence of <= DEPTH allocate / allocate-by-gap / release / turbo-on steps; each history is replayed on the "
                          "real object and the identifier set READ BACK after every call is judged by TLC (Fresh, InRange, ExistingKept, ExactlyOneNew, Succeeds)"}
