"""C13 — a new slide mirrors its layout's placeholders and inherits their geometry. spec/Layout.tla."""
from __future__ import annotations

import json
import os
import sys
import concurrent.futures as cf

from mbt import corpus, engine as E
from mbt.drive import layout as L

PID = "C13"
CFG = """SPECIFICATION Spec
CONSTANTS NPH = %d
 DEPTH = %d
 MODE = "%s"
INVARIANT MirrorOK
INVARIANT EmitH
CHECK_DEADLOCK FALSE
"""


def explore(work, name, nph, depth, mode):
    cfg = os.path.join(work, "MC_Layout_%s.cfg" % name)
    with open(cfg, "w") as f:
        f.write(CFG % (nph, depth, mode))
    r = E.run_tlc("MC_Layout", cfg, work=work, workers=16, timeout=1800, heap="8g")
    if r.invariant_violated:
        raise E.MachineryError("MC_Layout design check failed: %s" % r.invariant_violated)
    return r.printed("SC"), r


def _gen(args):
    tid, sc = args
    h = []
    for a in sc["h"]:
        a = dict(a)
        if a["op"] in ("addSlide", "dropPh", "movePh"):
            a["l"] = L.GEN_LAYOUT
        if a["op"] == "setGeom":
            a.update({"x": 0, "y": 0, "cx": 3456789, "cy": 456789} if (a["k"] + a["j"]) % 2 == 0 else {"x": 123456, "y": 0, "cx": 3456789, "cy": 456789})
        h.append(a)
    return L.run(tid, L.gen_deck(sc["pop"]), h)


def _corpus(args):
    tid, path = args
    import pptx
    prs = pptx.Presentation(path)
    n = len(L.layouts_of(prs)[0])
    h = [{"op": "addSlide", "l": i + 1} for i in range(n)]
    if n:
        h += [{"op": "notes", "k": len(prs.slides) + 1}, {"op": "addSlide", "l": 1}, {"op": "setGeom", "k": len(prs.slides) + 1, "j": 1, "x": 5, "y": 6, "cx": 7, "cy": 8},
              {"op": "reopen"}, {"op": "addSlide", "l": n}]
        first = L.layouts_of(prs)[1][0]
        if len(first) >= 2:     # the first layout edited through its elements, then used again
            h += [{"op": "movePh", "l": 1, "j": 1}, {"op": "addSlide", "l": 1}, {"op": "dropPh", "l": 1, "j": 1}, {"op": "addSlide", "l": 1}]
        if not [p for p in first if p["type"] not in ("dt", "ftr", "sldNum")]:
            h = [a for a in h if a["op"] != "setGeom"]
    return L.run(tid, path, h)


def main() -> int:
    rep = E.Report(PID)
    work = E.workdir(PID)
    thorough = E.tier() == "thorough"
    selftest = "--selftest" in sys.argv
    replay = sys.argv[sys.argv.index("--replay") + 1] if "--replay" in sys.argv else None
    states = trans = 0
    per = {}
    gens, corp = [], []
    if replay:
        rp = json.load(open(replay))
        if rp.get("deck"):
            corp = [(rp["id"], rp["deck"])]
        else:
            gens = [(rp["id"], rp["scenario"])]
    else:
        cfgs = [("single", 1, 2, "single"), ("pairs", 2, 3 if thorough else 2, "pairs")] + ([("triples", 3, 1, "pairs")] if thorough else [])
        for name, nph, depth, mode in cfgs:
            scs, r = explore(work, name, nph, depth, mode)
            states += r.distinct
            trans += r.generated
            per[name] = {"scenarios": len(scs), "tlc_distinct": r.distinct, "placeholders": nph, "depth": depth}
            gens += [("%s:%d" % (name, i), sc) for i, sc in enumerate(scs)]
        decks = corpus.decks() if thorough else corpus.subset(24, E.seed())
        # + a generated deck whose slide part names are out of order with a gap (slide3, slide1, slide4) and that has notes pages
        from mbt.drive import readonly as RO
        decks = decks + [p for p in RO.gen_decks(os.path.join(work, "gen")) if "permuted" in p]
        corp = [("corpus:" + os.path.basename(p), p) for p in decks]
    gt = E.pmap(_gen, gens, procs=16, chunk=8)
    ct = E.pmap(_corpus, corp, procs=16, chunk=1)
    traces = gt + ct
    def strip(o):
        if isinstance(o, dict):
            return {k: strip(v) for k, v in o.items() if k != "raised"}
        if isinstance(o, list):
            return [strip(v) for v in o]
        return o

    def clean(t):
        return strip({"id": t["id"], "lay": t["lay"], "mas": t["mas"], "nmas": t["nmas"],
                      "steps": [{k: s[k] for k in ("a", "out", "t", "notes", "lay")} for s in t["steps"]]})
    if selftest:
        t = json.loads(json.dumps(clean(next(x for x in gt if len(x["steps"]) > 1 and x["steps"][1]["t"]["slides"] and x["steps"][1]["t"]["slides"][-1]["phs"]))))
        t["steps"][1]["t"]["slides"][-1]["phs"][0]["idx"] += 1
        bad, _, _ = E.validate("Trace_Layout", {"traces": [t]}, work=work, name="selftest")
        ok = len(bad) == 1 and any("PhMirror" in b["failing"] for b in bad[0]["bad"])
        print("SELFTEST %s: changed one cloned placeholder idx -> %s" % ("ok" if ok else "FAILED", str(bad)[:300]))
        if not ok:
            raise E.MachineryError("selftest failed")
    bad, tot = [], {}
    chunks = [traces[i:i + 300] for i in range(0, len(traces), 300)] or [[]]

    def run(ix_c):
        return E.validate("Trace_Layout", {"traces": [clean(t) for t in ix_c[1]]}, work=work, name="obs%d" % ix_c[0], heap="5g")
    with cf.ThreadPoolExecutor(10) as ex:
        for b, s, _ in ex.map(run, list(enumerate(chunks))):
            bad += b
            for k, v in s.items():
                tot[k] = tot.get(k, 0) + v
    byid = {t["id"]: t for t in traces}
    gsc = dict(gens)
    cdeck = dict(corp)
    for v in bad:
        t = byid[v["id"]]
        for b in v["bad"][:3]:
            st = t["steps"][b["k"] - 1]
            clause = "+".join(sorted(b["failing"]))
            raised = sorted({"%s:%s" % (p.get("raised"), p["type"]) for sl in st["t"]["slides"] for p in sl["phs"] if p.get("raised")})
            # history class: the layout placeholder(s) a failing inheritance falls back to are carried by a p:pic without an a:xfrm
            # of its own (python-pptx wraps those in a Picture proxy, which has no master fallback)
            cls = ""
            lay_phs = st["lay"]
            if clause == "PhInherit" and st["t"]["slides"]:
                culprits = [q for q in st["t"]["slides"][-1]["phs"] if not q["own"] and not q["rd"]
                            and any(lp["idx"] == q["idx"] and lp.get("car") != "sp" and not lp["own"] for lp in lay_phs)]
                others = [q for q in st["t"]["slides"][-1]["phs"] if not q["own"] and not q["rd"] and q not in culprits
                          and any(lp["idx"] == q["idx"] and lp["own"] for lp in lay_phs)]
                if culprits and not others:
                    cls = "|layout-placeholder-is-a-picture-without-own-geometry"
            rep.reject("%s@%s[%s]%s%s" % (clause, st["a"]["op"], "corpus" if v["id"].startswith("corpus:") else "generated",
                                          ("|reader-raised:" + ",".join(raised)) if raised else "", cls),
                       {"module": "Layout", "id": v["id"], "deck": cdeck.get(v["id"]), "scenario": gsc.get(v["id"]), "failing": b,
                        "action": st["a"], "err": st.get("err"), "layout_phs": t["lay"][st["a"]["l"] - 1] if st["a"].get("l") else None,
                        "slide_phs": st["t"]["slides"][-1]["phs"] if st["t"]["slides"] else None},
                       "%s step %d %s" % (v["id"], b["k"], json.dumps(st["a"])))
    nlay = sum(len(t["lay"]) for t in ct)
    smp = gt[len(gt) // 2] if gt else ct[0]
    cov = {"states": max(states, 1), "transitions": max(trans, 1), "traces_validated_against_impl": len(traces),
           "real_steps_validated": tot.get("steps", 0), "configs": per, "corpus_decks": len(ct), "corpus_layouts": nlay,
           "samples": [{"population": gsc.get(smp["id"], {}).get("pop"), "history": [s["a"] for s in smp["steps"][1:]]}],
           "rule": "generated: TLC enumerates placeholder populations (every type x idx class x orientation x size x own-geometry singly; pairs "
                   "(triples) over a reduced variant set incl. duplicate types/idx and latent types) and every history <= DEPTH of add-slide / "
                   "override / add-shape / notes / save-reopen; the driver rewrites a layout part accordingly; corpus: every layout of every deck "
                   "gets a slide in one accumulating history (+notes, override, re-open); TLC validates mirror, naming, inheritance, order, "
                   "relation and frame clauses on the placeholders read from the XML and the geometry readers"}
    return rep.finish("model_checking", cov, ["TLC 1.8", "placeholders read from the lxml tree in document order; geometry through the public readers",
                                             "master fallback by the type mapping title/ctrTitle->title, latent->same, others->body",
                                             "duplicate idx in a layout: the geometry of any counterpart with that idx is accepted"])


if __name__ == "__main__":
    E.main_wrap(main)
