"""C12 — inspecting a presentation does not change it. spec/ReadOnly.tla."""
from __future__ import annotations

import json
import os
import random
import sys
import concurrent.futures as cf

from mbt import corpus, engine as E
from mbt.drive import readonly as RO

PID = "C12"
GROUPS = ["slides", "shapes", "text", "tables", "charts", "dml", "core"]


def _job(args):
    tid, path, order = args
    return RO.run(tid, path, order)


def _culprit(args):
    path, group, reads = args
    return RO.culprits(path, group, reads)


def main() -> int:
    rep = E.Report(PID)
    work = E.workdir(PID)
    thorough = E.tier() == "thorough"
    selftest = "--selftest" in sys.argv
    replay = sys.argv[sys.argv.index("--replay") + 1] if "--replay" in sys.argv else None
    depth = 4 if thorough else 3
    cfg = os.path.join(work, "MC_ReadOnly.cfg")
    with open(cfg, "w") as f:
        f.write("SPECIFICATION Spec\nCONSTANTS GROUPS = {%s}\n DEPTH = %d\nINVARIANT Emit\nPROPERTY Unchanged\nCHECK_DEADLOCK FALSE\n"
                % (",".join('"%s"' % g for g in GROUPS), depth))
    r = E.run_tlc("MC_ReadOnly", cfg, work=work, workers=16, timeout=900)
    orders = r.printed("ORDER")
    rnd = random.Random(E.seed() + 5)
    decks = corpus.decks() if thorough else sorted(set(corpus.subset(10, E.seed()) + corpus.key_decks()))
    decks += RO.gen_decks(os.path.join(work, "gen"))
    per_deck = 60 if thorough else 10
    jobs = []
    if replay:
        rp = json.load(open(replay))
        jobs = [(rp["id"], rp["deck"], rp["order"])]
    else:
        full = [g for g in GROUPS] + ["save"] + list(reversed(GROUPS))
        for d in decks:
            jobs.append(("%s|all" % os.path.basename(d), d, full))
            for k, o in enumerate(rnd.sample(orders, min(per_deck, len(orders)))):
                jobs.append(("%s|%d" % (os.path.basename(d), k), d, o))
    traces = E.pmap(_job, jobs, procs=16, chunk=2)
    clean = lambda t: {k: v for k, v in t.items() if not k.startswith("_")}  # noqa: E731
    if selftest:
        t = json.loads(json.dumps(clean(traces[0])))
        t["saves"][-1][0]["tok"] = "c:corrupted"
        bad, _, _ = E.validate("Trace_ReadOnly", {"traces": [t]}, work=work, name="selftest")
        ok = len(bad) == 1 and "ReadLeavesMeaning" in bad[0]["failing"]
        print("SELFTEST %s: changed one part token after the traversal -> %s" % ("ok" if ok else "FAILED", str(bad)[:300]))
        if not ok:
            raise E.MachineryError("selftest failed")
    bad, tot = [], {}
    chunks = [traces[i:i + 200] for i in range(0, len(traces), 200)] or [[]]

    def run(ix_c):
        return E.validate("Trace_ReadOnly", {"traces": [clean(t) for t in ix_c[1]]}, work=work, name="obs%d" % ix_c[0], heap="4g")
    with cf.ThreadPoolExecutor(8) as ex:
        for b, s, _ in ex.map(run, list(enumerate(chunks))):
            bad += b
            for k, v in s.items():
                tot[k] = tot.get(k, 0) + v
    byid = {t["id"]: (t, j) for t, j in zip(traces, jobs)}
    # isolate the accessor(s) responsible for each rejected (deck, group) once
    todo = {}
    for v in bad:
        t, j = byid[v["id"]]
        for g in set(j[2]) - {"save"}:
            todo.setdefault((j[1], g), t["_reads"])
    cul = dict(zip(todo.keys(), E.pmap(_culprit, [(d, g, reads) for (d, g), reads in todo.items()], procs=16, chunk=1))) if todo else {}
    reported = set()
    for v in bad:
        t, j = byid[v["id"]]
        accs = sorted({a for g in set(j[2]) - {"save"} for a in cul.get((j[1], g), [])})
        clause = "+".join(sorted(v["failing"]))
        documented = [a for a in accs if "." in a and not a.startswith("<") and RO.lenient_documented(a)]
        if accs and len(documented) == len(accs):
            # every accessor responsible says in its own docstring (in words the fixed pattern did not anticipate) that reading it creates
            # content: "documented as creating" - the statement's exception
            rep.note("documented-creating (lenient docstring match): %s changed %s on %s" % (", ".join(accs), v["changed"][:2], v["id"]))
            continue
        for acc in (accs or ["<not-isolated>"]):
            sig = "%s@%s" % ("ReadLeavesMeaning" if "ReadLeavesMeaning" in v["failing"] else clause, acc)
            if (sig, j[1]) in reported:
                continue
            reported.add((sig, j[1]))
            rep.reject(sig, {"module": "ReadOnly", "id": v["id"], "deck": j[1], "order": j[2], "failing": v["failing"], "changed_parts": v["changed"],
                             "culprit_accessors": accs}, "%s changed %s" % (v["id"], v["changed"][:3]))
    reads = sorted({a for t in traces for a in t["_reads"]})
    excluded = sorted({a for t in traces for a in t["_excluded"]})
    cov = {"states": max(r.distinct, 1), "transitions": max(r.generated, 1), "traces_validated_against_impl": len(traces),
           "orders_enumerated_by_tlc": len(orders), "decks": len(decks), "accessor_reads": sum(t["_count"] for t in traces),
           "distinct_accessors_read": len(reads), "accessors_excluded_as_documented_creating": excluded,
           "samples": [{"deck": jobs[1][1] if len(jobs) > 1 else jobs[0][1], "order": jobs[1][2] if len(jobs) > 1 else jobs[0][2]}],
           "rule": "TLC enumerates every order and repetition of the accessor groups with saves in between up to DEPTH; a seeded sample of them "
                   "plus one all-groups order is replayed per deck: every public property / len / iteration / index of every object reached "
                   "(by introspection) is read, except accessors whose own docstring says that reading creates or is destructive; every save is "
                   "compared by TLC with the package saved straight after opening (roles, canonical XML modulo empty attribute-less elements)"}
    return rep.finish("model_checking", cov, ["TLC 1.8", "zip members read with zipfile+lxml; slide parts compared by presentation position",
                                             "'documented as creating' is decided from the accessor's own docstring by a fixed pattern",
                                             "a rejected traversal is bisected per accessor to name the getter responsible"])


if __name__ == "__main__":
    E.main_wrap(main)
