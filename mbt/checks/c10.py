"""C10 — a child is inserted where the schema allows it, whatever siblings exist. spec/ChildOrder.tla.

constants (extracted now)  ->  MC_ChildOrder (TLC: Init = the quantifier; Impl vs property layer; prints every
transition + every counterexample)  ->  every transition replayed on a real element with the real generated method
->  Trace_ChildOrder (TLC: property clauses on the OBSERVED sequences; drift vs ImplStep)  ->  verdict.
"""
from __future__ import annotations

import concurrent.futures as cf
import json
import os
import re
import sys
import time

from mbt import engine as E
from mbt.drive import childorder as CO

PID = "C10"
ALL_OPS = ("Insert", "Add", "PublicAdd", "GetOrAdd", "RemoveAll", "ChangeTo", "Hand", "HandGetOrAdd")
CFG = ("SPECIFICATION Spec\nCONSTANTS DEPTH = %d\n SUBSETS = %s\n MAXSLOTS = %d\n L2OPS = {%s}\n L2MAXSLOTS = %d\nVIEW ViewSt\nINVARIANT TypeOK\n"
       "INVARIANT InitPermitted\nCHECK_DEADLOCK FALSE\n")
_RE_INIT = re.compile(r"Finished computing initial states: (\d+) distinct state")


# ------------------------------------------------------------------------------------------------ TLC output
def _payloads(out: str, tag: str) -> list[str]:
    """Raw (still escaped) JSON payloads of PrintT(<<tag, ToJson(v)>>) lines, one- and two-line forms."""
    one = '<<"%s", "' % tag
    head = '<< "%s",' % tag
    res = []
    lines = out.split("\n")
    i, n = 0, len(lines)
    while i < n:
        ln = lines[i]
        if ln.startswith(one) and ln.endswith('">>'):
            res.append(ln[len(one) - 1:-2])
        elif ln.strip() == head and i + 1 < n:
            nx = lines[i + 1].strip()
            if nx.startswith('"') and nx.endswith('" >>'):
                res.append(nx[:-3].rstrip())
                i += 1
        i += 1
    return res


def _decode(chunk: list[str]) -> list:
    return [json.loads(json.loads(s)) for s in chunk]


def printed_parallel(out: str, tag: str) -> list:
    pl = _payloads(out, tag)
    if len(pl) < 20000:
        return _decode(pl)
    res = []
    for part in E.pmap(_decode, E.chunks(pl, 64), procs=16, chunk=1):
        res += part
    return res


def model_check(work, consts, name, depth, subsets, maxslots, workers=16, timeout=1500, l2ops=ALL_OPS, l2max=99):
    cpath = os.path.join(work, "cases_%s.json" % name)
    with open(cpath, "w") as f:
        json.dump(consts, f, separators=(",", ":"))
    cfg = os.path.join(work, "MC_ChildOrder_%s.cfg" % name)
    with open(cfg, "w") as f:
        f.write(CFG % (depth, "TRUE" if subsets else "FALSE", maxslots, ", ".join('"%s"' % o for o in l2ops), l2max))
    r = E.run_tlc("MC_ChildOrder", cfg, work=work, env={"CASES_FILE": cpath}, workers=workers, timeout=timeout, heap="16g")
    if r.invariant_violated:
        raise E.MachineryError("MC_ChildOrder[%s]: invariant %s violated (context builder produced a context that is not "
                               "schema-permitted, or the constants are malformed)" % (name, r.invariant_violated))
    m = _RE_INIT.search(r.out)
    n_init = int(m.group(1)) if m else 0
    trs = printed_parallel(r.out, "TR")
    if len(trs) != r.generated - n_init:
        raise E.MachineryError("MC_ChildOrder[%s]: parsed %d transitions, TLC generated %d - %d initial" % (name, len(trs), r.generated, n_init))
    cex = printed_parallel(r.out, "CEX")
    if len(cex) != sum(1 for t in trs if t[5]):
        raise E.MachineryError("MC_ChildOrder[%s]: %d CEX records for %d failing transitions" % (name, len(cex), sum(1 for t in trs if t[5])))
    return r, n_init, trs, cex, cpath


# ------------------------------------------------------------------------------------------------ replay + validation
def replay_all(built, trs):
    """Every TLC transition on the real classes. The real call depends on (tag, kids, op, declaration) only, so one
    execution serves every XSD type the tag is seen through."""
    cases = built["cases"]
    CO.URI2PFX = built["uri2pfx"]
    keys, index = [], {}
    for t in trs:
        c = cases[t[0] - 1]
        d = c["decls"][t[1] - 1]
        key = (c["tag"], tuple(t[3]), t[2], d["prop"], d["child"])
        if key not in index:
            index[key] = len(keys)
            keys.append(key)
    parts = E.pmap(CO.replay_many, E.chunks(keys, 256), procs=16, chunk=1)
    obs = [o for p in parts for o in p]
    # the same calls on parents whose children have content of their own (descendants named like the children): the sentence is about
    # CHILDREN; where the outcome differs from the plain rendering, the observed step is judged as well
    parts = E.pmap(CO.replay_many, E.chunks([k + (True,) for k in keys if k[1]], 256), procs=16, chunk=1)
    deep = dict(zip([k for k in keys if k[1]], [o for p in parts for o in p]))
    # ... and on the same parents written with OTHER namespace prefixes (what another serialiser makes of the same document)
    parts = E.pmap(CO.replay_many, E.chunks([k + (False, True) for k in keys if k[1]], 256), procs=16, chunk=1)
    alias = dict(zip([k for k in keys if k[1]], [o for p in parts for o in p]))
    steps, extra = [], []
    for i, t in enumerate(trs):
        c = cases[t[0] - 1]
        d = c["decls"][t[1] - 1]
        key = (c["tag"], tuple(t[3]), t[2], d["prop"], d["child"])
        o = obs[index[key]]
        steps.append({"id": i, "k": t[0], "x": t[1], "op": t[2], "s": t[3], "t": o["t"], "out": o["out"], "judged": t[6]})
        o2 = deep.get(key)
        if o2 is not None and (o2["t"] != o["t"] or o2["out"] != o["out"]):
            extra.append({"id": len(trs) + i, "k": t[0], "x": t[1], "op": t[2], "s": t[3], "t": o2["t"], "out": o2["out"], "judged": t[6], "deep": True})
        o3 = alias.get(key)
        if o3 is not None and (o3["t"] != o["t"] or o3["out"] != o["out"]):
            extra.append({"id": 2 * len(trs) + i, "k": t[0], "x": t[1], "op": t[2], "s": t[3], "t": o3["t"], "out": o3["out"], "judged": t[6], "alias": True})
    replay_all.deep = {"contexts": len(deep), "other_prefix_contexts": len(alias), "differing_steps": len(extra)}
    return steps + extra, len(keys) + len(deep) + len(alias)


def validate_steps(work, cpath, steps, tag="obs", size=30000):
    chunks = [steps[i:i + size] for i in range(0, len(steps), size)] or [[]]
    bad, drift, tot = [], [], {}

    def run(ix_c):
        ix, c = ix_c
        recs = [{k: s[k] for k in ("id", "k", "x", "op", "s", "t")} for s in c]
        v, s, r = E.validate("Trace_ChildOrder", {"steps": recs}, work=work, name="%s%d" % (tag, ix), env={"CASES_FILE": cpath},
                             heap="3g", timeout=1500)
        return v, s, r.printed("DRIFT")
    with cf.ThreadPoolExecutor(10) as ex:
        for v, s, dr in ex.map(run, list(enumerate(chunks))):
            bad += v
            drift += dr
            for k, n in s.items():
                tot[k] = tot.get(k, 0) + n
    return bad, drift, tot


def minimal(recs, named=(), slots=()):
    """Witness: an operation whose method the library names first, then a parent that is schema-valid as it stands (its
    required slots all populated, the child's own one too), then fewest siblings, then the simplest operation."""
    order = {"Insert": 0, "Add": 1, "PublicAdd": 2, "GetOrAdd": 3, "ChangeTo": 4, "RemoveAll": 5, "Hand": 6, "HandGetOrAdd": 7}

    def incomplete(s):
        return 0 if all(any(t in sl["members"] for t in s["s"]) for sl in slots if sl["req"]) else 1
    return sorted(recs, key=lambda s: (0 if s["op"] in named else 1, incomplete(s), len(s["s"]), order.get(s["op"], 9), s["s"]))[0]


def diagnose(case, decl, w):
    """Why the child landed there, and the smallest repair: the successors the tuple lacks, or - when the tuple is
    complete - the search order of first_child_found_in (tuple order instead of document order)."""
    k = case["rank"][decl["child"]]
    later = suggest_fix(case, decl)
    if decl["child"] not in w["t"]:
        return "after the call the new %s is not among the CHILDREN of the parent%s" % (
            decl["child"], " (the siblings hold descendants of the same names: it was placed inside one of them)" if w.get("deep") else "")
    offending = [t for t in w["s"] if t in case["rank"] and case["rank"][t] > k and w["t"].index(t) < w["t"].index(decl["child"])]
    missing = [m for m in later if m not in decl["succ"]]
    if offending and all(t in decl["succ"] for t in offending):
        return ("successors tuple names %s but first_child_found_in takes the first TAG of the tuple that occurs (%s), not the first "
                "successor in document order; fix: search in document order%s" % (
                    offending, next((t for t in decl["succ"] if t in w["s"]), "?"),
                    "" if list(dict.fromkeys(decl["succ"])) == decl["succ"] else " / remove the duplicated entry from the tuple"))
    return "successors tuple lacks %s; fix: successors=%s" % ([m for m in missing if m in offending] or missing[:4], tuple(later))


def suggest_fix(case, decl):
    """The successors tuple the schema asks for: every member of every later slot, in schema order (for a repeatable
    slot of the child itself nothing of the own slot)."""
    k = case["rank"][decl["child"]]
    later = [m for s in case["slots"][k:] for m in s["members"]]
    return later


# ------------------------------------------------------------------------------------------------ main
def main() -> int:
    rep = E.Report(PID)
    work = E.workdir(PID)
    thorough = E.tier() == "thorough"
    selftest = "--selftest" in sys.argv
    replay = sys.argv[sys.argv.index("--replay") + 1] if "--replay" in sys.argv else None
    t0 = time.time()
    built = CO.build_cases(full_pairs=thorough)
    cases = built["cases"]
    consts = CO.tlc_constants(built)
    if not cases or built["n_decls"] < 50:
        raise E.MachineryError("extraction found %d cases / %d declarations" % (len(cases), built["n_decls"]))
    t_extract = time.time() - t0

    if replay:
        return run_replay(rep, work, built, consts, replay)

    maxslots = 12
    # second step ("insert after insert"): the quick tier applies the inserting entry points only
    l2ops = ALL_OPS if thorough else ("Insert", "PublicAdd", "GetOrAdd", "ChangeTo", "Hand", "HandGetOrAdd")
    l2max = 99 if thorough else 16     # ... and only to element types of <= 16 slots (the three axis types are 20-23)
    r, n_init, trs, cex, cpath = model_check(work, consts, "a", 2, thorough, maxslots, l2ops=l2ops, l2max=l2max)
    t_mc = r.wall
    t1 = time.time()
    steps, n_real = replay_all(built, trs)
    t_replay = time.time() - t1

    # operations that cannot be called without arguments (hand-written public adders) are not transitions of the model
    uncallable = [s for s in steps if s["out"].startswith("raised:TypeError") and "argument" in s["out"]]
    unc_ids = {s["id"] for s in uncallable}
    raised = [s for s in steps if s["out"] != "ok" and s["id"] not in unc_ids]
    if uncallable:
        names = sorted({"%s.%s" % (cases[s["k"] - 1]["cls"], CO.METHOD[s["op"]] % cases[s["k"] - 1]["decls"][s["x"] - 1]["prop"]) for s in uncallable})
        rep.note("not callable without arguments (hand-written, excluded from the verdict): %s" % ", ".join(names[:8]))
        steps_v = [s for s in steps if s["id"] not in unc_ids]
    else:
        steps_v = steps
    if raised:
        kinds = sorted({"%s/%s %s -> %s" % (cases[s["k"] - 1]["tag"], cases[s["k"] - 1]["decls"][s["x"] - 1]["child"], s["op"], s["out"][:60]) for s in raised})
        rep.note("%d real calls raised (validated on the state they left): %s" % (len(raised), "; ".join(kinds[:5])))

    if selftest:
        run_selftest(work, built, consts, cex, steps_v, cpath)

    t2 = time.time()
    bad, drift, tot = validate_steps(work, cpath, steps_v)
    t_val = time.time() - t2
    if tot.get("steps") != len(steps_v):
        raise E.MachineryError("validated %s of %d observed steps" % (tot.get("steps"), len(steps_v)))

    # ---- vacuity
    op_counts = {op: 0 for op in ALL_OPS}
    judged_decl = set()
    all_decl = {(c["id"], x + 1) for c in cases for x in range(len(c["decls"]))}
    for t in trs:
        op_counts[t[2]] += 1
        if t[6]:
            judged_decl.add((t[0], t[1]))
    offered = {op for c in cases for d in c["decls"] for op in d["ops"]}
    for op in offered:
        if not op_counts.get(op):
            raise E.MachineryError("vacuous: operation %s never taken" % op)
    tot["orderedJudged"] = sum(1 for s in steps_v if s["judged"])
    if not tot.get("orderedJudged"):
        raise E.MachineryError("vacuous: Ordered never judged")
    unjudged = sorted(all_decl - judged_decl)
    if unjudged:
        raise E.MachineryError("vacuous: %d declarations never inserted into a schema-permitted context, e.g. %s" % (
            len(unjudged), ["%s/%s" % (cases[k - 1]["tag"], cases[k - 1]["decls"][x - 1]["child"]) for k, x in unjudged[:5]]))

    # ---- design-level counterexamples (Impl layer vs property layer, from the extracted constants alone)
    design = {}
    for c_ in cex:
        for cl in c_["failing"]:
            design.setdefault("%s@%s/%s" % (cl, c_["tag"], c_["child"]), []).append(c_)
    # ---- observed rejections
    by_id = {s["id"]: s for s in steps_v}
    observed = {}
    for v in bad:
        s = by_id[v["id"]]
        c = cases[s["k"] - 1]
        d = c["decls"][s["x"] - 1]
        for cl in v["failing"]:
            observed.setdefault("%s@%s/%s" % (cl, c["tag"], d["child"]), []).append(s)
    # every design counterexample must be confirmed by the real method (or be explained by drift)
    drift_ids = {d_["id"] for d_ in drift}
    unconfirmed = [sig for sig in design if sig not in observed]
    # (never an error: the verdict is the observed one; a declaration the code DECLARES but does not USE - a generated method that is
    # silently inherited instead - makes exactly this difference, and the observed steps name it)
    for sig in unconfirmed:
        rep.note("design counterexample %s not reproduced on the real element (Impl layer drifted)" % sig)

    latent, reported = [], []
    for sig in sorted(observed):
        recs = observed[sig]
        w0 = recs[0]
        d0 = cases[w0["k"] - 1]["decls"][w0["x"] - 1]
        named_ops = [o for o in d0["ops"] if (CO.METHOD[o] % d0["prop"]) in d0["callers"]]
        w = minimal(recs, named_ops, cases[w0["k"] - 1]["slots"])
        c = cases[w["k"] - 1]
        d = c["decls"][w["x"] - 1]
        clause = sig.split("@")[0]
        reach = bool(d["remove_callers"]) if clause == "RemoveRemovesAll" else d["reachable"]
        xtypes = sorted({cases[s["k"] - 1]["xtype"] for s in recs})
        what = "%s() on <%s> holding %s -> %s; successors=%s; schema type %s; %s; %d observed transitions" % (
            CO.METHOD[w["op"]] % d["prop"], c["tag"], w["s"], w["t"], tuple(d["succ"]), "/".join(xtypes),
            diagnose(c, d, w) if clause == "Ordered" else "", len(recs))
        if not reach:
            latent.append(sig)
            rep.note("latent-declaration %s: no code under src/pptx names %s; %s" % (
                sig, "/".join(CO.METHOD[o] % d["prop"] for o in d["ops"] if o != "RemoveAll"), what))
            continue
        callers = d["remove_callers"] if clause == "RemoveRemovesAll" else d["callers"]
        reported.append(sig)
        rep.reject(sig, {"module": "ChildOrder", "tag": c["tag"], "cls": c["cls"], "xtype": c["xtype"], "prop": d["prop"], "child": d["child"],
                         "op": w["op"], "from": w["s"], "deep": bool(w.get("deep")), "alias": bool(w.get("alias")), "observed": w["t"], "failing": [clause], "successors": d["succ"],
                         "schema_later_members": suggest_fix(c, d), "callers": callers, "xtypes": xtypes},
                   what + "; named by " + ", ".join("%s (%s)" % (k, v[0]) for k, v in sorted(callers.items())))
    if drift:
        rep.note("drift: %d observed successors differ from ImplStep (property judged on the observed state)" % len(drift))

    smp = next((s for s in steps_v if len(s["s"]) >= 3 and s["op"] == "GetOrAdd" and s["s"] != s["t"]), steps_v[0])
    sc = cases[smp["k"] - 1]
    n_slots_sub = sum(1 for c in cases if len(c["slots"]) <= maxslots)
    cov = {"states": max(r.distinct, 1), "transitions": max(len(trs), 1), "traces_validated_against_impl": len(steps_v),
           "real_executions_distinct": n_real, "initial_contexts": n_init,
           "registered_tags": built["n_tags"], "classes": built["n_classes"], "declarations_class_level": built["n_class_decls"],
           "declarations_tag_level": built["n_decls"], "declaration_source_per_tag": built["extraction"], "cases_tag_x_xsdtype": len(cases),
           "applicable_declarations": sum(len(c["decls"]) for c in cases), "declarations_judged": len(judged_decl),
           "not_applicable": built["not_applicable"], "unsupported_content_models": built["unsupported"],
           "handwritten_insertion_sites_not_judged_here": built["handwritten_sites"][:80], "op_counts": op_counts, "validated": tot,
           "handwritten_adders_judged": sorted({"%s.%s" % (c["cls"], d["prop"]) for c in cases for d in c["decls"] if "Hand" in d["ops"]}),
           "siblings_with_content": getattr(replay_all, "deep", {}),
           "design_counterexamples": {k: len(v) for k, v in sorted(design.items())},
           "observed_rejections": {k: len(v) for k, v in sorted(observed.items())},
           "latent_declarations": latent, "reported": reported,
           "subsets_family": {"enabled": thorough, "max_slots": maxslots, "cases_within_bound": n_slots_sub, "cases_total": len(cases)},
           "wall": {"extract_s": round(t_extract, 1), "tlc_s": round(t_mc, 1), "replay_s": round(t_replay, 1), "validate_s": round(t_val, 1)},
           "samples": [{"element": sc["tag"], "xsd_type": sc["xtype"], "method": CO.METHOD[smp["op"]] % sc["decls"][smp["x"] - 1]["prop"],
                        "context": smp["s"], "observed": smp["t"]}],
           "exhaustive": True,
           "rule": "constants re-extracted from the working tree (class registry + closures of the generated methods; XSD content models "
                   "flattened to slots, conservative rules). TLC enumerates, per registered class x XSD type x declared child, the contexts "
                   "{required + one other permitted child (each), all later, all earlier, all permitted, every ordering of two kinds of a "
                   "repeatable mixed slot" + (", every schema-permitted subset of the slots for types with <= %d slots" % maxslots if thorough else
                                              " (kinds no declaration names: two representatives)") +
                   "}, each family with the child's own slot empty and populated, an exclusive slot contributing each alternative in turn, "
                   "a repeatable mixed slot each kind in turn and all kinds; applies every generated method of every declaration of the class "
                   "to every context, and a second step to every state so reached (" +
                   ("every method" if thorough else "inserting entry points only, element types of <= 16 slots") +
                   "); every transition is executed on a real element and the observed child sequence is validated by TLC"}
    return rep.finish("model_checking", cov, [
        "TLC 1.8; the XSD files under /repo/spec (ISO/IEC 29500-4 transitional, OPC) are the schema",
        "slot model under-constrains: order inside one choice / one repeatable particle is not judged; refinement: an optional choice "
        "between an element and a sequence group (c:dLbls, c:dLbl) is flattened per alternative, contexts populate one alternative only",
        "parents are built with OxmlElement(tag) + empty OxmlElement children; observed order read by lxml iteration",
        "reachability is a name scan over src/pptx (over-approximate): an unreached declaration is a NOTE, not a violation",
        "hand-written insertion sites that bypass the declarations (append/addprevious in shapetree, placeholders, chart rewriters) are C03's"])


# ------------------------------------------------------------------------------------------------ selftest / replay
def run_selftest(work, built, consts, cex, steps, cpath):
    cases = built["cases"]
    flagged = {(c["tag"], c["child"]) for c in cex}
    # (a) perturb one extracted successors tuple -> TLC must print a counterexample for exactly that declaration
    done = None
    for c in cases:
        for x, d in enumerate(c["decls"]):
            k = c["rank"][d["child"]]
            later = [m for s in c["slots"][k:] for m in s["members"]]
            if d["succ"] and later and (c["tag"], d["child"]) not in flagged and "Insert" in d["ops"]:
                one = json.loads(json.dumps([cc for cc in consts["cases"] if cc["id"] == c["id"]][0]))
                one["id"] = 1
                one["decls"][x]["succ"] = []
                r, _, trs, cx, _ = model_check(work, {"cases": [one]}, "selftest", 1, False, 12, workers=4)
                hit = {e["child"] for e in cx if "Ordered" in e["failing"]}
                if hit == {d["child"]}:
                    done = (c["tag"], d["child"], d["succ"], len(cx))
                    break
                raise E.MachineryError("selftest(a): emptied successors of %s/%s, TLC flagged %s" % (c["tag"], d["child"], sorted(hit)))
        if done:
            break
    if not done:
        raise E.MachineryError("selftest(a): no declaration to perturb")
    # (b) corrupt one observed sequence -> rejected, exactly that step, clause Ordered; (c) a remove that removed nothing
    pick = None
    for s in steps:
        c = cases[s["k"] - 1]
        d = c["decls"][s["x"] - 1]
        if s["op"] == "Insert" and s["judged"] and s["out"] == "ok" and len(s["s"]) >= 2 and (c["tag"], d["child"]) not in flagged:
            rk = c["rank"]
            if all(t in rk for t in s["s"]) and rk[s["s"][0]] < rk[d["child"]] and sorted(s["s"], key=lambda t: rk[t]) == s["s"] and s["t"].count(d["child"]) == 1:
                pick = json.loads(json.dumps(s))
                pick["t"] = [d["child"]] + pick["s"]
                break
    rm = next(json.loads(json.dumps(s)) for s in steps if s["op"] == "RemoveAll" and s["s"] != s["t"])
    rm["t"] = rm["s"]
    good = next(json.loads(json.dumps(s)) for s in steps if s["op"] == "GetOrAdd" and s["id"] not in (pick["id"], rm["id"]) and
                (cases[s["k"] - 1]["tag"], cases[s["k"] - 1]["decls"][s["x"] - 1]["child"]) not in flagged)
    bad, _, tot = validate_steps(work, cpath, [pick, rm, good], tag="selftest")
    got = {v["id"]: v["failing"] for v in bad}
    ok = got == {pick["id"]: ["Ordered"], rm["id"]: ["RemoveRemovesAll"]}
    print("SELFTEST %s: (a) emptied successors of %s/%s %s -> %d TLC counterexamples, all on that child; (b) moved the inserted child to the "
          "front of an observed sequence, (c) undid an observed removal -> %s" % ("ok" if ok else "FAILED", done[0], done[1], tuple(done[2]), done[3], got), flush=True)
    if not ok:
        raise E.MachineryError("selftest failed")


def run_replay(rep, work, built, consts, path) -> int:
    rp = json.load(open(path))
    cases = built["cases"]
    c = next((c for c in cases if c["tag"] == rp["tag"] and c["xtype"] == rp["xtype"]), None)
    if c is None:
        raise E.MachineryError("replay: no case %s/%s on this tree" % (rp["tag"], rp["xtype"]))
    x = next((i for i, d in enumerate(c["decls"]) if d["prop"] == rp["prop"]), None)
    if x is None:
        raise E.MachineryError("replay: %s no longer declares %s" % (rp["tag"], rp["prop"]))
    d = c["decls"][x]
    CO.URI2PFX = built["uri2pfx"]
    o = CO.replay_one((c["tag"], tuple(rp["from"]), rp["op"], d["prop"], d["child"], bool(rp.get("deep")), bool(rp.get("alias"))))
    cpath = os.path.join(work, "cases_replay.json")
    with open(cpath, "w") as f:
        json.dump(consts, f)
    step = {"id": 0, "k": c["id"], "x": x + 1, "op": rp["op"], "s": rp["from"], "t": o["t"], "out": o["out"]}
    bad, drift, tot = validate_steps(work, cpath, [step], tag="replay")
    print("REPLAY %s %s on <%s> holding %s -> %s (%s)" % (rp["op"], d["child"], c["tag"], rp["from"], o["t"], o["out"]), flush=True)
    for v in bad:
        for cl in v["failing"]:
            rep.reject("%s@%s/%s" % (cl, c["tag"], d["child"]), {**rp, "observed": o["t"]}, "replayed: %s -> %s" % (rp["from"], o["t"]))
    return rep.finish("model_checking", {"states": 1, "transitions": 1, "traces_validated_against_impl": 1, "samples": [step], "replay_of": path,
                                         "validated": tot}, ["single recorded transition re-executed and re-validated"])


if __name__ == "__main__":
    E.main_wrap(main)
