"""C16 — recoverable irregular packages open intact; non-packages are refused cleanly.
spec/OpcPackage.tla (OpenOf / ApiOutcome / SaveClauses) + fault enumeration."""
from __future__ import annotations

import io
import json
import os
import random
import sys
import concurrent.futures as cf

from mbt import corpus, engine as E
from mbt.checks import opc_common as O
from mbt.drive import faults as F
from mbt.drive import opc as D

PID = "C16"
TOK = lambda n, b: D.generic_token(b, True)  # noqa: E731
BT = lambda b: D.generic_token(b, True)  # noqa: E731


def _source(kind, members, form, scratch):
    buf = io.BytesIO()
    D.write_zip(members, buf)
    raw = buf.getvalue()
    if kind == "notzip":
        raw = b"<html>definitely not a zip</html>" * 5
    elif kind.startswith("truncated"):
        frac = {"truncated": 0.5, "truncated10": 0.1, "truncated90": 0.9}[kind]
        raw = raw[: max(4, int(len(raw) * frac))]
    os.makedirs(scratch, exist_ok=True)
    if form == "path":
        p = os.path.join(scratch, "deck.pptx")
        if kind == "nopath":
            p = os.path.join(scratch, "missing.pptx")
        else:
            with open(p, "wb") as f:
                f.write(raw)
        return lambda: p
    if form == "stream":
        return lambda: io.BytesIO(raw)
    p = os.path.join(scratch, "deckdir")
    D.write_dir(members, p)
    if form == "dirlink":
        # a directory-form package whose sub-directories are symbolic links to directories elsewhere (shared asset folders): the same
        # members by name, reached through links
        import shutil
        real = os.path.join(scratch, "deckdir_real")
        link = os.path.join(scratch, "deckdir_link")
        shutil.rmtree(real, ignore_errors=True)
        shutil.rmtree(link, ignore_errors=True)
        os.rename(p, real)
        os.makedirs(link)
        for name in os.listdir(real):
            src = os.path.join(real, name)
            if os.path.isdir(src):
                os.symlink(src, os.path.join(link, name), target_is_directory=True)
            else:
                shutil.copy(src, os.path.join(link, name))
        return lambda: link
    return lambda: p


def api_trace(tid, kind, members, form, st, scratch):
    import pptx
    src = _source(kind, members, form, scratch)
    ph0 = D.project_members(members, st, TOK) if kind == "pkg" else dict(D.EMPTY_PH)
    ph0 = dict(ph0)
    ph0["kind"] = "truncated" if kind.startswith("truncated") else kind
    opener = lambda s: pptx.Presentation(s).part.package  # noqa: E731
    tr = D.run_trace(opener, src, st, TOK)
    tr.update({"id": tid, "form": form, "api": True, "ph0": ph0, "slidesExp": [], "slidesSeen": [], "slidesReopen": [], "slidesSTS": []})
    exp = F.slide_sequence(members, BT) if (kind == "pkg" and tr["pk1"]["ok"]) else None
    if exp is not None:
        tr["slidesExp"] = exp

        def seq(prs):
            return [BT(s.part.blob) for s in prs.slides]
        try:
            prs = pptx.Presentation(src())
            tr["slidesSeen"] = seq(prs)
            b = io.BytesIO()
            prs.save(b)
            tr["slidesReopen"] = seq(pptx.Presentation(io.BytesIO(b.getvalue())))
        except Exception as e:
            tr["slidesSeen"] = tr["slidesSeen"] or ["ERR:" + type(e).__name__]
            tr["slidesReopen"] = ["ERR:" + type(e).__name__]
        try:
            prs = pptx.Presentation(src())
            b1 = io.BytesIO()
            prs.save(b1)
            len(prs.slides)
            b2 = io.BytesIO()
            prs.save(b2)
            tr["slidesSTS"] = seq(pptx.Presentation(io.BytesIO(b2.getvalue())))
        except Exception as e:
            tr["slidesSTS"] = ["ERR:" + type(e).__name__]
    return tr


def _deck_job(args):
    path, forms, npairs, seed, work = args
    import pptx  # noqa: F401
    from pptx.opc.package import PartFactory
    known = set(PartFactory.part_type_for)
    members = D.read_zip(path)
    st = D.SegTable()
    scratch = os.path.join(work, "fs_%d" % os.getpid())
    name = os.path.basename(path)
    singles = F.all_single_faults(members, known)
    traces = []
    for i, (fid, m) in enumerate(singles):
        form = forms[i % len(forms)] if fid != "none" else None
        # zip members are an ordered list: the order faults are opened in both zip forms (and one directory form)
        fms = list(forms) if not form else ["path", "stream", "dir"] if fid.startswith("extra:case-twin") else [form]
        for fm in fms:
            traces.append(api_trace("%s|%s|%s" % (name, fid, fm), "pkg", m, fm, st, scratch))
    for kind in ("notzip", "truncated", "truncated10", "truncated90", "nopath"):
        for fm in ("path", "stream"):
            if kind == "nopath" and fm == "stream":
                continue
            traces.append(api_trace("%s|%s|%s" % (name, kind, fm), kind, members, fm, st, scratch))
    rnd = random.Random(seed * 7919 + len(name))
    gens = [F.f_dangling, F.f_delrels, F.f_nocore, F.f_caseflip, F.f_extra, F.f_casetwin, F.f_rename_slides, F.f_refusals]
    for k in range(npairs):
        fid1, m1 = singles[rnd.randrange(1, len(singles))]
        g = gens[rnd.randrange(len(gens))]
        try:
            second = list(g(m1))
        except Exception:
            second = []     # the first fault removed what the second needs (e.g. no content types left)
        if not second:
            continue
        fid2, m2 = second[rnd.randrange(len(second))]
        fm = forms[k % len(forms)]
        traces.append(api_trace("%s|%s + %s|%s" % (name, fid1, fid2, fm), "pkg", m2, fm, st, scratch))
    return {"deck": path, "segs": st.table(), "traces": traces, "singles": len(singles)}


def validate_deck(ix, job, work):
    clean = [{k: v for k, v in t.items() if k not in ("errmsg",)} for t in job["traces"]]
    return E.validate("Trace_OpcPackage", {"segs": job["segs"], "traces": clean}, work=work, name="deck%d" % ix, heap="4g")


def skeleton_configs(thorough):
    if thorough:
        return [("faults", dict(cands="2,3,6", maxparts=2, maxrels=2, forms="1,4", dangling="TRUE", faults="TRUE"), None),
                # (two candidates: with five types per binary part the three-candidate family no longer fits the memory of this sandbox)
                ("faultsCt", dict(cands="4,6", maxparts=2, maxrels=1, freetypes="TRUE", autoroot="TRUE", dangling="TRUE", faults="TRUE"), None),
                ("sim", dict(cands="1,2,3,4,5,6,7", maxparts=5, maxrels=6, freetypes="TRUE", forms="1,2,3,4,5,6,7", dangling="TRUE", faults="TRUE"), "num=5000")]
    return [("faults", dict(cands="2,3", maxparts=2, maxrels=1, forms="1,4", dangling="TRUE", faults="TRUE"), None),
            ("faultsCt", dict(cands="4,6", maxparts=2, maxrels=0, freetypes="TRUE", autoroot="TRUE", dangling="TRUE", faults="TRUE"), None),
            ("sim", dict(cands="1,2,3,4,5,6,7", maxparts=5, maxrels=6, freetypes="TRUE", forms="1,2,3,4,5,6,7", dangling="TRUE", faults="TRUE"), "num=500")]


def main() -> int:
    rep = E.Report(PID)
    work = E.workdir(PID)
    thorough = E.tier() == "thorough"
    selftest = "--selftest" in sys.argv
    replay = sys.argv[sys.argv.index("--replay") + 1] if "--replay" in sys.argv else None
    states = transitions = 0
    per_cfg, cov_actions = {}, {}
    sk_traces, segs = [], None
    if not replay:
        for name, kw, sim in skeleton_configs(thorough):
            pkgs, segs, r = O.explore(work, name, simulate=sim, **kw)
            states += r.distinct
            transitions += r.generated
            for a, n in r.coverage_counts().items():
                cov_actions[a] = cov_actions.get(a, 0) + n
            per_cfg[name] = {"sealed_packages": len(pkgs), "tlc_distinct_states": r.distinct, "tlc_wall_s": round(r.wall, 1)}
            trs = O.replay(pkgs, segs, work)
            for t in trs:
                t["id"] = name + ":" + t["id"]
            sk_traces += trs
    sk_bad, sk_tot = O.validate_all(sk_traces, segs, work) if sk_traces else ([], {})
    # corpus decks: every single fault at every location, sampled pairs
    if replay:
        rp = json.load(open(replay))
        paths, npairs = [rp["deck"]], 0
    else:
        paths = corpus.decks() if thorough else sorted(set(corpus.subset(6, E.seed()) + corpus.opc_key_decks()))
        npairs = 60 if thorough else 12
    jargs = [(p, ("path", "stream", "dir", "dirlink"), npairs, E.seed(), work) for p in paths]
    BATCH = 12 if (thorough and not replay and not selftest) else len(jargs)
    # the thorough tier works through the corpus in batches of decks (all decks' traces at once did not fit the memory of this sandbox):
    # a batch is replayed, validated and then slimmed to the traces a rejection refers to
    jobs = E.pmap(_deck_job, jargs[:BATCH], procs=16, chunk=1)
    if replay:
        for j in jobs:
            j["traces"] = [t for t in j["traces"] if t["id"] == rp["trace_id"]] or j["traces"][:1]
    if selftest:
        j = json.loads(json.dumps(jobs[0]))
        v = next(t for t in j["traces"] if t["pk1"]["ok"] and t["pk1"]["parts"])
        v["pk1"]["parts"] = v["pk1"]["parts"][1:]
        j["traces"] = [v]
        bad, _, _ = validate_deck(999, j, work)
        ok = len(bad) == 1 and "OpenAsSpec" in bad[0]["failing"]
        print("SELFTEST %s: dropped one loaded part from %s -> %s" % ("ok" if ok else "FAILED", v["id"], bad))
        if not ok:
            raise E.MachineryError("selftest failed")
    c_bad, c_tot = [], {}
    done, batch, b0 = [], jobs, 0
    while batch:
        with cf.ThreadPoolExecutor(10) as ex:
            futs = [ex.submit(validate_deck, len(done) + i, j, work) for i, j in enumerate(batch)]
            for (i, j), fu in zip(enumerate(batch), futs):
                b, s, _ = fu.result()
                for v in b:
                    v["_job"] = len(done) + i
                c_bad += b
                for k, x in s.items():
                    c_tot[k] = c_tot.get(k, 0) + x
                if BATCH < len(jargs):          # keep what the report needs: the rejected traces in full, the others by id and outcome
                    keep = {v["id"] for v in b}
                    j["traces"] = [t if (t["id"] in keep or (not done and i == 0 and n_ < 4)) else
                                   {"id": t["id"], "pk1": {"err": t["pk1"]["err"], "parts": [0] * len(t["pk1"]["parts"])}}
                                   for n_, t in enumerate(j["traces"])]
        done += batch
        b0 += BATCH
        batch = E.pmap(_deck_job, jargs[b0:b0 + BATCH], procs=16, chunk=1) if b0 < len(jargs) else []
    jobs = done
    byid = {t["id"]: t for t in sk_traces}
    for v in sk_bad:
        t = byid[v["id"]]
        clause = "+".join(sorted(v["failing"]))
        rep.reject("%s@skeleton[%s]" % (clause, t["ph0"]["kind"]),
                   {"module": "OpcPackage", "form": t["form"], "model": t.get("model"), "segs": t["_segs"],
                    "observed": {k: t[k] for k in ("ph0", "pk1", "ph2", "pk3", "ph4", "bytesSame")}, "failing": v["failing"]}, t["id"])
    for v in c_bad:
        j = jobs[v["_job"]]
        t = next(x for x in j["traces"] if x["id"] == v["id"])
        deck, fid, form = t["id"].split("|")
        fkind = "+".join(sorted(x.strip().split(":")[0] for x in fid.split(" + ")))
        clause = "+".join(sorted(v["failing"]))
        rep.reject("%s@corpus[%s]" % (clause, fkind),
                   {"module": "OpcPackage", "deck": j["deck"], "trace_id": t["id"], "fault": fid, "form": form, "failing": v["failing"],
                    "observed": {k: t[k] for k in ("pk1", "slidesExp", "slidesSeen", "slidesReopen", "slidesSTS", "bytesSame")},
                    "errmsg": t.get("errmsg")}, "%s fault=%s form=%s" % (deck, fid, form))
    ntr = len(sk_traces) + sum(len(j["traces"]) for j in jobs)
    kinds = {}
    for j in jobs:
        for t in j["traces"]:
            k = t["id"].split("|")[1].split(":")[0]
            kinds[k] = kinds.get(k, 0) + 1
    refused = sk_tot.get("refused", 0) + c_tot.get("refused", 0)
    sample = jobs[0]["traces"][min(3, len(jobs[0]["traces"]) - 1)]
    cov = {
        "evaluations": ntr, "distinct_nontrivial": len({t["id"] for j in jobs for t in j["traces"]}) + len(sk_traces),
        "rule": "one evaluation = one faulted package opened by the real library (Package.open for TLC-built skeletons, pptx.Presentation "
                "for corpus decks) and run through open/save/open/save (+ slide traversal sequences), validated by TLC against "
                "OpenOf/ApiOutcome/SaveClauses; distinct = distinct (deck, fault location(s), form) or (skeleton, fault, form)",
        "samples": [{"id": sample["id"], "outcome": sample["pk1"]["err"] or "ok", "parts_loaded": len(sample["pk1"]["parts"])}],
        "states": states, "transitions": transitions, "traces_validated_against_impl": ntr,
        "skeleton_configs": per_cfg, "action_counts": cov_actions, "skeleton_traces": sk_tot, "corpus_traces": c_tot,
        "corpus_decks": len(jobs), "fault_kinds": kinds, "refused_outcomes": refused, "pairs_per_deck": npairs,
        "single_fault_sites": sum(j["singles"] for j in jobs),
    }
    return rep.finish("fault_enumeration", cov, [
        "TLC 1.8, CommunityModules Json", "faults are injected at byte level with zipfile+lxml", "expected outcome is computed by TLC from "
        "the projected faulted package (OpenOf / ApiOutcome), not hand-written per fault",
        "slide traversal is judged only when every sldId leads to a present slide part"])


if __name__ == "__main__":
    E.main_wrap(main)
