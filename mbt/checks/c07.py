"""C07 — a chart's XML is valid and reports exactly the data it was given. spec/ChartData.tla.
TLC explores every bounded history AddChart / Load ; Format* ; ReplaceData^<=L ; [SaveReopen] over the enumerated data shapes
(Impl layer judged by the property layer), emits every history; the driver replays each into the real library (every member
type of the writer family; corpus charts from their decks) and TLC validates every observed step clause by clause."""
from __future__ import annotations

import collections
import concurrent.futures as cf
import json
import os
import sys
import time

from mbt import engine as E
from mbt.drive import chart as CH

PID = "C07"
ALLFAMS = ["area", "bar", "doughnut", "line", "pie", "radar", "xy", "bubble"]
CFG = """SPECIFICATION Spec
CONSTANTS FAMS = {%(fams)s}
 NSERS = {%(nsers)s}
 CATSEL = {%(catsel)s}
 XYSEL = {%(xysel)s}
 L = %(L)d
 FMT = "%(fmt)s"
 REOPEN = "%(reopen)s"
 RMOD = %(rmod)d
 CORPUSSEL = %(corpussel)d
 HOWS = {%(hows)s}
INVARIANT EmitState
INVARIANT Sane
CHECK_DEADLOCK FALSE
"""
EMPTY = {"raised": "", "date1904": False, "xsd": [], "outer": "", "plots": []}


def configs(thorough: bool) -> list:
    q = lambda fams: ", ".join('"%s"' % f for f in fams)
    if thorough:
        return [
            ("pairs", dict(fams=q(ALLFAMS), nsers="0,1,2,3", catsel="1,2,3,4,5,6,7,8,9,10", xysel="1,2,3,4,5,6,7,8", L=1, fmt="prefix", reopen="end",
                           rmod=2, corpussel=0)),
            ("seqs", dict(fams=q(ALLFAMS), nsers="0,1,3", catsel="3,7", xysel="1,4,5", L=3, fmt="all", reopen="end", rmod=2, corpussel=0)),
            ("corpus", dict(fams='"corpus"', nsers="0,1,2,5", catsel="2,4,7", xysel="1,3,4,5", L=2, fmt="none", reopen="end", rmod=3, corpussel=0)),
            ("multi", dict(fams='"corpus"', nsers="1,2,3,4,5,6,7", catsel="2,5", xysel="1", L=2, fmt="none", reopen="end", rmod=1, corpussel=100000)),
            ("staged", dict(fams=q(ALLFAMS), nsers="1,3", catsel="2,3,4,5,7,9", xysel="3,4,5,6", L=1, fmt="none", reopen="end", rmod=2, corpussel=0,
                            hows='"staged"')),
            ("staged2", dict(fams=q(["bar", "line", "pie", "xy", "bubble"]), nsers="1,3", catsel="3,5,9", xysel="4,5", L=2, fmt="none", reopen="end", rmod=2,
                             corpussel=0, hows='"staged", "fresh"')),
        ]
    return [
        ("pairs", dict(fams=q(ALLFAMS), nsers="0,1,3", catsel="1,2,3,4,5,6,7,8,9,10", xysel="1,2,3,4,5,6", L=1, fmt="all", reopen="end", rmod=5,
                       corpussel=0)),
        ("seqs", dict(fams=q(["bar", "doughnut", "radar", "xy", "bubble"]), nsers="0,2,3", catsel="4,7", xysel="1,4,5", L=2, fmt="ends",
                      reopen="end", rmod=3, corpussel=0)),
        ("corpus", dict(fams='"corpus"', nsers="0,1,5", catsel="2,5,7", xysel="1,3,5", L=1, fmt="none", reopen="end", rmod=2, corpussel=3)),
        # the multi-plot charts of the corpus: every series count from one to more than they hold (every cut between and inside the plots)
        ("multi", dict(fams='"corpus"', nsers="1,2,3,4,5,6", catsel="2", xysel="1", L=1, fmt="none", reopen="end", rmod=1, corpussel=100000)),
        # more than ten series (c:idx / c:order cross a decimal-digit boundary): grow to 12, shrink from 12, 12 -> 11
        ("wide", dict(fams=q(["bar", "line", "xy"]), nsers="1,11,12", catsel="1", xysel="7,9", L=1, fmt="none", reopen="end", rmod=1, corpussel=0)),
        # one chart-data object rendered when half built, then completed (ReplaceData with the completed object)
        ("staged", dict(fams=q(["bar", "line", "pie", "xy", "bubble"]), nsers="1,3", catsel="3,4,5,9", xysel="4,5", L=1, fmt="none", reopen="end",
                        rmod=2, corpussel=0, hows='"staged"')),
    ]


def corpus_file(work: str) -> tuple[str, list]:
    """Project every chart of the cht-*.pptx decks (initial states of the corpus exploration)."""
    supported = {v[3] for v in CH.chart_types().values()}
    # the read API has series classes for the plot elements of the 29 writable types only (a c:area3DChart series raises
    # NotImplementedError): "every supported chart type"
    cc = [c for c in CH.corpus_charts() if c[2] and all(k in supported for k in c[4])]
    jobs = [{"id": "c%d" % (i + 1), "h": [{"op": "load"}], "shapes": {}, "type": None, "corpus": (c[0], c[1])} for i, c in enumerate(cc)]
    trs = E.pmap(CH.run_history, jobs, procs=16)
    charts = []
    for i, (c, tr) in enumerate(zip(cc, trs)):
        if tr["init"] is None:
            raise E.MachineryError("corpus chart %s #%d could not be loaded" % (c[0], c[1]))
        kind = "bubble" if c[2] == "bubbleChart" else "xy" if c[2] == "scatterChart" else "cat"
        charts.append({"id": i + 1, "kind": kind, "multi": len(c[3]) > 1, "deck": os.path.basename(c[0]), "n": c[1], "chart": tr["init"]})
    path = os.path.join(work, "corpus.json")
    with open(path, "w") as f:
        json.dump({"charts": charts}, f, separators=(",", ":"))
    return path, cc


def explore(work, name, params, corpus_path):
    cfg = os.path.join(work, "MC_ChartData_%s.cfg" % name)
    with open(cfg, "w") as f:
        f.write(CFG % dict({"hows": '"fresh"'}, **params))
    shapes_file = os.path.join(work, "shapes_%s.json" % name)
    r = E.run_tlc("MC_ChartData", cfg, work=work, env={"SHAPES_FILE": shapes_file, "CORPUS_FILE": corpus_path}, workers=16, timeout=3000,
                  heap="16g")
    if r.invariant_violated or "is violated" in r.out:
        raise E.MachineryError("MC_ChartData[%s]: %s violated (the abstract chart does not hold the data's series count)" % (name, r.invariant_violated))
    paths = r.printed("ST")
    if len(paths) != r.distinct:
        raise E.MachineryError("MC_ChartData[%s]: %d histories printed for %d states" % (name, len(paths), r.distinct))
    with open(shapes_file) as f:
        shapes = json.load(f)["shapes"]
    return paths, r.printed("DESIGN"), shapes, r


def hkey(h) -> str:
    return json.dumps(h, sort_keys=True)


def _chunk(args) -> dict:
    """Worker: replay the histories of one chunk, write the trace file, let TLC validate it, classify the rejected steps."""
    ci, jobs, shapes, ntab, work, keep, design = args
    wdir = os.path.join(work, "c%d" % ci)
    os.makedirs(wdir, exist_ok=True)
    trs = []
    for j in jobs:
        t = CH.run_history(j)
        t["fam"] = j["fam"]
        if t["init"] is None:
            t["init"] = EMPTY
        trs.append(t)
    table = [shapes.get(i + 1, {}) for i in range(ntab)]
    path = os.path.join(wdir, "obs.json")
    with open(path, "w") as f:
        json.dump({"shapes": table, "traces": trs}, f, separators=(",", ":"))
    r = E.run_tlc("Trace_ChartData", "Trace_ChartData.cfg", work=wdir, env={"TRACE_FILE": path}, workers=1, timeout=3000, heap="3g")
    summ = r.printed("SUMMARY")
    if not summ:
        raise E.MachineryError("no SUMMARY from Trace_ChartData on chunk %d" % ci)
    bad, drift = r.printed("VERDICT"), r.printed("DRIFT")
    byid = {t["id"]: (t, j) for t, j in zip(trs, jobs)}
    tot = collections.Counter({"traces": len(trs), "steps": summ[-1]["steps"], "rejected": summ[-1]["rejected"], "drift": summ[-1]["drift"]})
    sigs: dict = {}
    rejected = {}
    for v in bad:
        t, j = byid[v["id"]]
        rejected[v["id"]] = {b["k"]: set(b["failing"]) for b in v["bad"]}
        for b in v["bad"]:
            k = b["k"]
            st = t["steps"][k - 1]
            s = t["init"] if k == 1 else t["steps"][k - 2]["t"]
            shape = table[st["a"]["d"] - 1] if "d" in st["a"] else None
            for clause in sorted(b["failing"]):
                if clause == "FormatApplied":
                    tot["fmt_broken"] += 1
                    continue
                cls = classify(clause, st["a"]["op"], s, st["t"], shape, t["gen"])
                for c1 in (cls.split("+") if clause in ("XsdValid", "XsdKept") else [cls]):
                    sig = "%s@%s[%s]" % (clause, OPNAME[st["a"]["op"]], c1)
                    nload = len([a for a in j["h"] if a["op"] == "load"])
                    h = j["h"][:nload + k]
                    cost = len(json.dumps(h)) + sum(len(json.dumps(table[a["d"] - 1])) for a in h if "d" in a)
                    cur = sigs.get(sig)
                    if cur is None or cost < cur[1]:
                        what = "%s %s: %s" % (j.get("type") or os.path.basename(j["corpus"][0]) + "#%d" % j["corpus"][1], v["id"], json.dumps(h)[:300])
                        rp = {"module": "ChartData", "job": dict(j, h=h, shapes={str(a["d"]): table[a["d"] - 1] for a in h if "d" in a}, dkey=""),
                              "table": [x if any(a.get("d") == i + 1 for a in h) else {} for i, x in enumerate(table)], "step": k,
                              "failing": sorted(b["failing"]), "observed": st["t"], "before": s}
                        sigs[sig] = (1 + (cur[0] if cur else 0), cost, rp, what)
                    else:
                        sigs[sig] = (cur[0] + 1,) + cur[1:]
    refuted = []
    for j in jobs:
        want = design.get(j["id"])
        if not want:
            continue
        k = len([a for a in j["h"] if a["op"] != "load"])
        if set(want) <= rejected.get(j["id"], {}).get(k, set()):
            tot["confirmed"] += 1
        else:
            tot["refuted"] += 1
            refuted.append("%s at step %d of %s; the real library does not show it" % (want, k, j["id"]))
    depth = 0
    types = set()
    for t in trs:
        if t["gen"]:
            types.add(t["type"])
            if t["steps"] and not t["steps"][0]["t"]["raised"] and t["steps"][0]["t"]["ctype"] != t["type"]:
                tot["tdiff"] += 1
        else:
            tot["op_load"] += 1
        for k, st in enumerate(t["steps"]):
            tot["op_" + st["a"]["op"]] += 1
            for p in st["t"]["plots"]:
                depth = max(depth, p["depth"])
            if st["a"]["op"] == "replace" and not st["t"]["raised"]:
                s = t["init"] if k == 0 else t["steps"][k - 1]["t"]
                o, n = sum(len(p["sers"]) for p in s["plots"]), sum(len(p["sers"]) for p in st["t"]["plots"])
                tot["grow"] += n > o
                tot["shrink"] += n < o
                tot["multi"] += len(s["plots"]) > 1
                tot["emptied"] += not st["t"]["plots"]
    return {"tot": dict(tot), "sigs": sigs, "refuted": refuted[:3], "depth": depth, "types": sorted(types),
            "drift_ex": drift[0]["id"] if drift else None, "traces": trs if keep else None}


def label_tokens(nodes) -> list:
    out = []
    for n in nodes:
        out.append(n["lab"])
        out += label_tokens(n["subs"])
    return out


def classify(clause: str, op: str, s: dict, t: dict, shape: dict | None, gen: bool) -> str:
    """The narrow class of a failing clause: what kind of input / structure it fails on."""
    origin = "generated" if gen else "corpus"
    if clause == "NoRaise":
        if op == "replace" and s["plots"] and not s["plots"][-1]["sers"]:
            return "grow-from-empty-plot:" + t["raised"]
        return "%s:%s" % (origin, t["raised"])
    if clause == "XsdValid":
        return "+".join(t["xsd"])
    if clause == "XsdKept":
        return "+".join(sorted(set(t["xsd"]) - set(s["xsd"])))
    if clause in ("CatsAsGiven", "LevelsReadable") and shape is not None:
        seen = {x for p in t["plots"] for x in p["leaf"]} | {x for p in t["plots"] for f in p["flat"] for x in f} | \
               {e["lab"] for p in t["plots"] for lv in p["levels"] for e in lv}
        if shape["catKind"] in ("num", "date"):
            return shape["catKind"]
        miss = sorted({x.split(":")[1] for x in label_tokens(shape["cats"]) if x not in seen})
        return "str-" + "+".join(miss) if miss else "structure-depth%d" % max([1] + [len(f) for p in t["plots"] for f in p["flat"]])
    if clause == "NamesAsGiven" and shape is not None:
        seen = {x["name"] for p in t["plots"] for x in p["sers"]}
        n = sum(len(p["sers"]) for p in t["plots"])
        if n != len(shape["series"]):
            return "series-count-%s" % origin
        miss = sorted({x["name"].split(":")[1] for x in shape["series"] if x["name"] not in seen})
        return "str-" + "+".join(miss) if miss else "order"
    return origin


OPNAME = {"add": "AddChart", "replace": "ReplaceData", "reopen": "SaveReopen", "format": "Format", "load": "Load"}


def main() -> int:
    rep = E.Report(PID)
    work = E.workdir(PID)
    thorough = E.tier() == "thorough"
    selftest = "--selftest" in sys.argv
    replay = sys.argv[sys.argv.index("--replay") + 1] if "--replay" in sys.argv else None
    fams: dict = {}
    for n, v in CH.chart_types().items():
        fams.setdefault(v[2], []).append(n)
    phase = {}
    t_ph = time.time()
    table: list = []           # global shape table (1-based ids in the traces)
    jobs: list = []
    design: dict = {}          # history key -> failing clauses predicted by the Impl layer
    info: dict = {}
    states = trans = 0
    if replay:
        with open(replay) as f:
            rp = json.load(f)
        table = rp["table"]
        jobs = [rp["job"]]
    else:
        corpus_path, cc = corpus_file(work)
        cfgs = configs(thorough)
        with cf.ThreadPoolExecutor(3) as ex:
            explored = list(ex.map(lambda np: explore(work, np[0], np[1], corpus_path), cfgs))
        for (name, params), (paths, des, shapes, r) in zip(cfgs, explored):
            base = len(table)
            table += shapes
            states += r.distinct
            trans += r.generated
            info[name] = {"histories": len(paths), "design_counterexamples": len(des), "shapes": len(shapes), "tlc_wall_s": round(r.wall, 1),
                          "constants": params}
            for d in des:
                design[name + hkey(d["h"])] = sorted(d["failing"])
            for i, h in enumerate(paths):
                hh = [dict(a, d=a["d"] + base) if "d" in a else a for a in h]
                sh = {str(a["d"]): table[a["d"] - 1] for a in hh if "d" in a}
                if h[0]["op"] == "load":
                    c = cc[h[0]["c"] - 1]
                    jobs.append({"id": "%s:%d" % (name, i), "h": hh, "shapes": sh, "type": None, "fam": "corpus", "corpus": (c[0], c[1]),
                                 "dkey": name + hkey(h)})
                    continue
                fam = h[0]["fam"]
                members = fams[fam]
                # every member type replays every AddChart; longer histories rotate over the members (thorough: two members for the
                # histories of two actions)
                pick = members if len(h) == 1 else [members[(i + k) % len(members)]
                                                   for k in range(2 if thorough and len(members) > 1 and len(h) == 2 else 1)]
                for m in pick:
                    jobs.append({"id": "%s:%d:%s" % (name, i, m), "h": hh, "shapes": sh, "type": m, "fam": fam, "dkey": name + hkey(h)})
        if thorough:
            # the driver widens counts around the scenarios: 26 / 50 series, hundreds of points
            wide = [j for k, j in enumerate(jobs) if k % 23 == 0 and len(j["h"]) >= 2 and j["fam"] != "pie"][:300]
            for j in wide:
                hh, sh = [], {}
                for a in j["h"]:
                    if "d" in a:
                        s0 = table[a["d"] - 1]
                        n = len(s0["series"])
                        table.append(CH.widen(s0, {0: 0, 1: 1, 2: 26}.get(n, 50), 40 if s0["kind"] == "cat" else 60))
                        a = dict(a, d=len(table))
                        sh[str(a["d"])] = table[-1]
                    hh.append(a)
                jobs.append(dict(j, id=j["id"] + ":wide", h=hh, shapes=sh, dkey=""))
    phase["explore"] = round(time.time() - t_ph, 1)
    t_ph = time.time()
    # ---- replay + validation, chunk by chunk in the worker processes (drive, write the trace file, TLC, classify)
    order = sorted(range(len(jobs)), key=lambda k: (jobs[k]["id"].endswith(":wide"), k % 97))
    per = 40 if replay else max(60, min(400, len(jobs) // 48))
    chunks, cur, w = [], [], 0
    for k in order:
        cur.append(jobs[k])
        w += 25 if jobs[k]["id"].endswith(":wide") else 1
        if w >= per:
            chunks.append(cur)
            cur, w = [], 0
    if cur:
        chunks.append(cur)
    args = [(ci, c, {a["d"]: table[a["d"] - 1] for j in c for a in j["h"] if "d" in a}, len(table), work, selftest and ci == 0,
             {j["id"]: design[j["dkey"]] for j in c if design.get(j.get("dkey") or "")})
            for ci, c in enumerate(chunks)]
    outs = E.pmap(_chunk, args, procs=16, chunk=1)
    phase["drive+validate"] = round(time.time() - t_ph, 1)
    if selftest:
        trs = outs[0]["traces"]
        cand = next(t for t in trs if t["gen"] and len(t["steps"]) >= 3 and t["steps"][-1]["a"]["op"] == "replace"
                    and not t["steps"][-1]["t"]["raised"] and len(t["steps"][-1]["t"]["plots"]) == 1
                    and len(t["steps"][-1]["t"]["plots"][0]["sers"]) >= 2 and t["steps"][-1]["t"]["plots"][0]["sers"][0]["vals"]
                    and len(t["steps"][-2]["t"]["plots"][0]["sers"]) >= 2 and t["steps"][-2]["a"]["op"] == "format")
        k = len(cand["steps"])
        a, b, c = (json.loads(json.dumps(cand)) for _ in range(3))
        a["id"], b["id"], c["id"] = "st:value", "st:fmt", "st:dropped"
        a["steps"][-1]["t"]["plots"][0]["sers"][0]["vals"][0] = "n:424242"        # a value the data never held
        b["steps"][-1]["t"]["plots"][0]["sers"][0]["fmt"] = "0" * 12                # formatting of a surviving series changed
        d0 = c["steps"][-1]["a"]["d"]                                               # the action is not the one that was executed:
        other = next(i + 1 for i, s_ in enumerate(table) if s_ and s_["kind"] == table[d0 - 1]["kind"] and i + 1 != d0
                     and [x["name"] for x in s_["series"]] != [x["name"] for x in table[d0 - 1]["series"]])
        c["steps"][-1]["a"]["d"] = other                                            # ... its data is another shape's
        bad, _, _ = E.validate("Trace_ChartData", {"shapes": table, "traces": [cand, a, b, c]}, work=work, name="selftest")
        base_bad = {(x["k"], "+".join(sorted(x["failing"]))) for v in bad if v["id"] == cand["id"] for x in v["bad"]}
        got = {v["id"]: {(x["k"], "+".join(sorted(x["failing"]))) for x in v["bad"]} - base_bad for v in bad if v["id"] != cand["id"]}
        okv = any("ValsAsGiven" in f and kk == k for kk, f in got.get("st:value", ()))
        okf = any("FmtSurvives" in f and kk == k for kk, f in got.get("st:fmt", ()))
        okd = any("NamesAsGiven" in f and kk == k for kk, f in got.get("st:dropped", ()))
        print("SELFTEST %s: corrupted a value, a format token, swapped an action -> %s" % ("ok" if okv and okf and okd else "FAILED",
                                                                                            {k_: sorted(v) for k_, v in got.items()}))
        if not (okv and okf and okd):
            raise E.MachineryError("selftest failed")
    # ---- merge
    tot = collections.Counter()
    sigs: dict = {}
    types_seen, refuted_ex = set(), []
    depth = 0
    drift_ex = None
    for o in outs:
        tot.update(o["tot"])
        types_seen |= set(o["types"])
        depth = max(depth, o["depth"])
        refuted_ex += o["refuted"]
        drift_ex = drift_ex or o["drift_ex"]
        for sig, (n, cost, rp, what) in o["sigs"].items():
            cur = sigs.get(sig)
            sigs[sig] = (n + (cur[0] if cur else 0),) + ((cost, rp, what) if cur is None or cost < cur[1] else cur[1:])
    # design-level counterexamples must be confirmed by the real traces of the same history (else: model error)
    if refuted_ex:
        for x in refuted_ex[:3]:
            print("MODEL-ERROR: Impl layer predicts %s" % x, file=sys.stderr)
        raise E.MachineryError("%d design-level counterexamples are not reproduced by the real library (Impl transcription out of date)"
                               % tot["refuted"])
    if tot["fmt_broken"]:
        raise E.MachineryError("Format(i) did not change exactly the token of series i in %d steps (instrumentation broken)" % tot["fmt_broken"])
    for sig, (n, cost, rp, what) in sorted(sigs.items()):
        rep.reject(sig, rp, "%d steps; e.g. %s" % (n, what))
    ndrift = tot["drift"]
    if ndrift:
        rep.note("drift: %d observed steps differ from the Impl layer (idx/order/plots as coded); the property still judged them; e.g. %s"
                 % (ndrift, drift_ex))
    if tot["emptied"]:
        rep.note("%d replace_data calls with zero series removed every plot (as the statement says); schema validity and later calls on such a "
                 "chart are not judged" % tot["emptied"])
    if tot["tdiff"]:
        rep.note("%d generated charts report a chart_type different from the one asked for (not part of the statement)" % tot["tdiff"])
    ops = {o: tot["op_" + o] for o in ("add", "replace", "format", "reopen", "load")}
    grow, shrink, multi, confirmed = tot["grow"], tot["shrink"], tot["multi"], tot["confirmed"]
    if not replay:
        if any(not ops.get(o) for o in ops) or not grow or not shrink or not multi or depth < 4 or len(types_seen) != 29:
            raise E.MachineryError("vacuous: ops=%s grow=%d shrink=%d multi=%d depth=%d types=%d" % (ops, grow, shrink, multi, depth, len(types_seen)))
    smp = [j["h"] for j in jobs if len(j["h"]) >= 4][:2] + [j["h"] for j in jobs if j["fam"] == "corpus" and len(j["h"]) >= 2][:1]
    cov = {"states": max(states, 1), "transitions": max(trans, 1), "traces_validated_against_impl": tot["traces"],
           "real_steps_validated": tot["steps"], "rejected_traces": tot["rejected"], "configs": info,
           "action_counts": dict(ops), "growing_replacements": grow, "shrinking_replacements": shrink, "replacements_on_multi_plot_charts": multi,
           "chart_types_replayed": len(types_seen), "corpus_histories": ops["load"], "widened_histories": sum(1 for j in jobs if j["id"].endswith(":wide")),
           "design_counterexamples_confirmed": confirmed, "drift_steps": ndrift, "max_category_depth_read": depth, "shapes": len(table), "phase_wall_s": phase,
           "samples": [{"history": h, "data_of_first_action": table[h[0]["d"] - 1] if "d" in h[0] else None} for h in smp],
           "exhaustive": True,
           "rule": "states = histories visited by TLC (the history is part of the state): AddChart(family, d0) or a loaded corpus chart, "
                   "Format on a prefix of the series, <= L ReplaceData over every shape of the kind, SaveReopen; every history is replayed on "
                   "real charts (every member type of the family for AddChart, members rotating over longer histories; thorough adds widened "
                   "copies with 26/50 series and hundreds of points) and every observed step is validated by TLC with ChartData!Failing"}
    return rep.finish("model_checking", cov, [
        "TLC 1.8 + CommunityModules", "dml-chart.xsd validity with lxml after markup-compatibility preprocessing (mc:Choice only for understood "
        "namespaces, else mc:Fallback; mc:Ignorable content dropped)", "tokens of untouched content = exclusive C14N of the serialised chart part "
        "with c:ser/{c:tx,c:cat,c:val,c:xVal,c:yVal,c:bubbleSize} (and c:externalData) removed", "values / numeric labels compared as canonical "
        "decimal text (10.0 = 10)", "a pie chart gets one-series data (docs: 'only ever has a single series')",
        "a replace_data with zero series may remove every plot (statement); validity / growth of such a chart is not judged",
        "1900 date system only (no 1904 chart in the corpus, none can be created through the API)"])


if __name__ == "__main__":
    E.main_wrap(main)
