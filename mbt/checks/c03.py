"""C03 — every XML part written stays valid PresentationML/DrawingML. spec/SlideOps.tla + XSD monitor."""
from __future__ import annotations

import json
import os
import sys
import concurrent.futures as cf

from mbt import engine as E

PID = "C03"


def _job(args):
    from mbt.drive import slideops as S
    tid, kind, prep, ops = args
    return S.run(tid, kind, prep, ops)


def _deck_job(args):
    """A Deck.tla history (MC_Deck simulation, full public-API alphabet): the XSD monitor judges every part of the initial deck
    and of the package saved at the end of the history."""
    import io
    from lxml import etree
    from mbt.drive import deck as K, opc as D
    from mbt.monitor import xsd
    tid, h = args

    def verdict(raw):
        out = []
        for n, b in D.read_zip(io.BytesIO(raw)).items():
            if n.endswith(".xml") and not n.startswith("[") and "/_rels/" not in n:
                try:
                    out.append({"role": "/" + n, "err": xsd.errors(b)})
                except etree.XMLSyntaxError:
                    out.append({"role": "/" + n, "err": ["not-well-formed"]})
        return sorted(out, key=lambda x: x["role"])
    run = K.DeckRun(h[0]["init"])
    base = verdict(run.raw0)
    # slide parts are renamed by the first access: judge by presentation position
    for a in h[1:]:
        run.apply(a)
    b = io.BytesIO()
    run.prs.save(b)
    final = verdict(b.getvalue())
    # a renamed slide part would look like a new part with the old one's baseline lost: baseline errors are matched by signature only
    base_sigs = sorted({e for p in base for e in p["err"]})
    final = [{"role": p["role"], "err": [e for e in p["err"] if e not in base_sigs]} for p in final]
    return {"id": tid, "base": [{"role": p["role"], "err": []} for p in base], "steps": [], "final": final, "unexpected": [], "h": h}


def catalogue():
    from mbt.catalog import slideops as CAT
    tab = CAT.table()
    tab += [{"name": "create." + k, "kinds": [], "pre": [], "set": [], "clr": [], "rejects": []} for k in CAT.KINDS]
    return tab, CAT.KINDS


def tla_str_seq(xs):
    return "<<" + ", ".join('"%s"' % x for x in xs) + ">>"


def write_data_module(path, tab):
    rows = ["  [name |-> \"%s\", kinds |-> %s, pre |-> %s, set |-> %s, clr |-> %s, rejects |-> %s]"
            % (o["name"], tla_str_seq(o["kinds"]), tla_str_seq(o["pre"]), tla_str_seq(o["set"]), tla_str_seq(o["clr"]), tla_str_seq(o["rejects"]))
            for o in tab if o["kinds"]]
    with open(path, "w") as f:
        f.write("---------------------------- MODULE SlideOpsData ----------------------------\n"
                "(* GENERATED from mbt/catalog/slideops.py by mbt/checks/c03.py - the operation catalogue as a TLA+ constant. *)\n"
                "OpsData == <<\n" + ",\n".join(rows) + "\n>>\n"
                "=============================================================================\n")


def explore(work, name, kinds, depth, opsfile):
    import shutil
    tab, _ = catalogue()
    write_data_module(os.path.join(work, "SlideOpsData.tla"), tab)
    shutil.copy(os.path.join(E.SPEC, "MC_SlideOps.tla"), os.path.join(work, "MC_SlideOps.tla"))
    cfg = os.path.join(work, "MC_SlideOps_%s.cfg" % name)
    with open(cfg, "w") as f:
        f.write("SPECIFICATION Spec\nCONSTANTS KINDS = {%s}\n PREPS = {\"plain\", \"rich\"}\n DEPTH = %d\n Ops <- OpsFromFile\nINVARIANT Emit\nCHECK_DEADLOCK FALSE\n"
                % (",".join('"%s"' % k for k in kinds), depth))
    r = E.run_tlc("MC_SlideOps", cfg, work=work, workers=16, timeout=3000, heap="12g", specdir=work, libs=[E.SPEC])
    return r.printed("SEQ"), r


def main() -> int:
    rep = E.Report(PID)
    work = E.workdir(PID)
    thorough = E.tier() == "thorough"
    selftest = "--selftest" in sys.argv
    replay = sys.argv[sys.argv.index("--replay") + 1] if "--replay" in sys.argv else None
    tab, kinds = catalogue()
    opsfile = os.path.join(work, "ops.json")
    with open(opsfile, "w") as f:
        json.dump([o for o in tab if o["kinds"]], f)
    jobs, per = [], {}
    states = trans = 0
    if replay:
        rp = json.load(open(replay))
        jobs = [] if (rp.get("refusal") or rp.get("deck_history") or rp.get("host")) else [(rp["id"], rp["kind"], rp["prep"], rp["ops"])]
    else:
        # quick: the line chart with a DATE axis stands for the line chart (same writer, same operations + the date-axis ones)
        cfgs = [("pairs", kinds if thorough else [k for k in kinds if k != "chart_line"], 2)] + (
            [("triples", ["textbox", "table", "chart_bar", "picture", "slide", "ph_insert"], 3)] if thorough else [])
        seen = set()
        for name, ks, depth in cfgs:
            seqs, r = explore(work, name, ks, depth, opsfile)
            states += r.distinct
            trans += r.generated
            n0 = len(jobs)
            for s in seqs:
                key = (s["kind"], s["prep"], tuple(s["ops"]))
                if key in seen:
                    continue
                seen.add(key)
                jobs.append(("%s:%d" % (name, len(jobs)), s["kind"], s["prep"], s["ops"]))
            per[name] = {"sequences": len(jobs) - n0, "depth": depth, "kinds": len(ks), "tlc_distinct": r.distinct}
        if thorough and len(jobs) > 160000:
            import random
            rnd = random.Random(E.seed())
            keep = [j for j in jobs if len(j[3]) <= 2]
            rest = [j for j in jobs if len(j[3]) > 2]
            jobs = keep + rnd.sample(rest, 160000 - len(keep))
    traces = E.pmap(_job, jobs, procs=16, chunk=8)
    # second host: Deck histories over the full public-API alphabet (multi-object decks, notes, media, charts, links)
    deck_jobs = []
    if not replay:
        from mbt.checks import c02, deck_common as DC
        paths, _, rd = DC.explore(work, "deckhost", c02.FULL, 10 if thorough else 8, [1, 2, 3, 4, 5, 6], sim="num=%d" % (1500 if thorough else 150))
        deck_jobs = [("deck:%d" % i, p) for i, p in enumerate(paths)]
        per["deck_histories"] = {"histories": len(paths), "depth": 10 if thorough else 8}
    elif rp.get("deck_history"):
        deck_jobs = [(rp["id"], rp["deck_history"])]
        jobs, traces = [], []
    deck_traces = E.pmap(_deck_job, deck_jobs, procs=16, chunk=2)
    jobs = jobs + [(t["id"], "deck", "history", ["<history>"]) for t in deck_traces]
    traces = traces + deck_traces
    # third host: the whole Props catalogue (C09's machine) under the XSD monitor: every in-domain, None, out-of-domain and wrong-type
    # value of every catalogued property, on a fresh object and after an accepted assignment - accepted ones must keep the part valid
    # ("arguments drawn from their whole documented domains"), refused ones must leave it as valid as it was
    tab = tab + [{"name": "reject.attr", "kinds": [], "pre": [], "set": [], "clr": [], "rejects": ["ValueError", "TypeError"]},
                 {"name": "prop.set", "kinds": [], "pre": [], "set": [], "clr": [], "rejects": []}]
    # further hosts: the histories of other modules' machines replayed with the monitor on (mbt/checks/c03_hosts.py)
    from mbt.checks import c03_hosts as H
    tab = tab + [H.OK, H.REFUSED]
    for hname, (mkjobs, runjob) in H.HOSTS.items():
        if replay and not (rp.get("host") and rp["host"][0] == hname):
            continue
        if replay:
            hjobs = [tuple(rp["host"][1])]
        else:
            hjobs, info = mkjobs(work, thorough)
            per["host_" + hname] = info
        htraces = [t for ts in E.pmap(runjob, hjobs, procs=16, chunk=4) for t in ts]
        if replay:
            htraces = [t for t in htraces if t["id"] == rp["id"]] or htraces
        else:
            per["host_" + hname]["traces"] = len(htraces)
            per["host_" + hname]["real_calls"] = sum(len(t["steps"]) for t in htraces)
        for t in htraces:
            jobs.append((t["id"], hname, "host", [s_["label"] for s_ in t["steps"]]))
            traces.append(t)
    if not replay or rp.get("refusal"):
        from mbt.checks import c09
        from mbt.drive import props as PD
        pcat = PD.prepare(E.tier(), E.seed())
        with open(os.path.join(work, "cat.json"), "w") as f:
            json.dump(pcat, f)
        knames = [k["kind"] for k in pcat]
        if replay:
            rjobs = [tuple(rp["refusal"])]
        else:
            rjobs = []
            allk = list(range(1, len(pcat) + 1))
            for name, depth in (("refsweep", 1), ("refpairs", 2)):
                sts, acts, _r = c09.explore(work, name, depth, 1 if depth == 1 else 2, allk)
                if depth == 1:
                    sweep = (sts, acts)
                for i, s_ in enumerate(sts):
                    sc = [a for a in c09.scenario(acts, s_) if a["op"] != "SaveReopen"]
                    # every single assignment (accepted or refused); pairs: a second assignment to the SAME property after an accepted
                    # one (an old explicit setting exists), and every out-of-domain second assignment
                    if depth == 2 and not (sc[0]["op"] == "Set" and (sc[0]["p"] == sc[1]["p"] or sc[1]["op"] == "SetOut")):
                        continue
                    kn = knames[s_["k"] - 1]
                    K = PD.RT["kinds"][kn]
                    rjobs.append(("%s:%d" % (name, i), kn, K["deck"], K["path"], sc))
            # the same single assignments on the objects of a deck with charts of types the library cannot generate (c:bar3DChart,
            # c:line3DChart, c:pie3DChart: whatever of them the working tree lets the API reach)
            from mbt.drive import readonly as RO
            fdeck = RO.foreign_charts_deck(os.path.join(work, "gen"))
            sts, acts = sweep
            fobjs = [o for o in PD.corpus_objects(fdeck) if o[0] in knames and o[0] not in ("Presentation", "Slide", "SlideLayout", "LayoutPlaceholder")]
            nf0 = len(rjobs)
            for oi, (kind, deck, path) in enumerate(fobjs):
                for i, s_ in enumerate(sts):
                    if knames[s_["k"] - 1] == kind:
                        sc = [a for a in c09.scenario(acts, s_) if a["op"] != "SaveReopen"]
                        rjobs.append(("refforeign:%d:%d" % (oi, i), kind, deck, path, sc))
            per["foreign_chart_objects"] = {"objects": len(fobjs), "kinds": sorted({o[0] for o in fobjs}), "assignments": len(rjobs) - nf0}
        rtraces = E.pmap(PD.run_monitored, rjobs, procs=16, chunk=16)
        kept = [(j, t) for j, t in zip(rjobs, rtraces) if t is not None]
        nref = sum(1 for _, t in kept if t["steps"][0]["op"] == "reject.attr")
        per["catalogued_property_assignments"] = {"candidates": len(rjobs), "judged": len(kept), "accepted": len(kept) - nref, "refused": nref}
        if not replay and (nref < 50 or len(kept) - nref < 200):
            raise E.MachineryError("vacuous: only %d refused / %d accepted property assignments observed" % (nref, len(kept) - nref))
        for j, t in kept:
            pr = PD.RT["kinds"][j[1]]["props"][[a for a in j[4] if a["op"] != "SaveReopen"][-1]["p"] - 1]["p"]
            last = [a for a in j[4] if a["op"] != "SaveReopen"][-1]
            vcls = "None" if last["op"] == "SetNone" else last["v"]["cls"] + ":" + str(last["v"]["anchor"])
            jobs.append((t["id"], j[1], "refused" if t["steps"][0]["op"] == "reject.attr" else "assigned", ["%s.%s=%s" % (j[1], pr, vcls)]))
            t["refusal"] = list(j)
            traces.append(t)
    clean = lambda t: {k: v for k, v in t.items() if k in ("id", "base", "steps", "final")}  # noqa: E731
    if selftest:
        t = json.loads(json.dumps(clean(next(x for x in traces if len(x["steps"]) > 1 and x["steps"][-1]["parts"]))))
        t["steps"][-1]["parts"][0]["err"] = ["unexpected:spTree/sp"]
        t["steps"] = [{k: s[k] for k in ("op", "out", "parts")} for s in t["steps"]]
        bad, _, _ = E.validate("Trace_SlideOps", {"ops": tab, "traces": [t]}, work=work, name="selftest")
        ok = len(bad) == 1 and any("AllPartsValid" in b["failing"] or "RejectedKeepsValidity" in b["failing"] for b in bad[0]["bad"])
        print("SELFTEST %s: injected one error signature into a logged verdict -> %s" % ("ok" if ok else "FAILED", str(bad)[:300]))
        if not ok:
            raise E.MachineryError("selftest failed")
    bad, tot = [], {}
    chunks = [traces[i:i + 1500] for i in range(0, len(traces), 1500)] or [[]]

    def run(ix_c):
        payload = {"ops": tab, "traces": [dict(clean(t), steps=[{k: s[k] for k in ("op", "out", "parts")} for s in t["steps"]]) for t in ix_c[1]]}
        return E.validate("Trace_SlideOps", payload, work=work, name="obs%d" % ix_c[0], heap="6g", timeout=2400)
    with cf.ThreadPoolExecutor(10) as ex:
        for b, s, _ in ex.map(run, list(enumerate(chunks))):
            bad += b
            for k, v in s.items():
                tot[k] = tot.get(k, 0) + v
    byid = {t["id"]: (t, j) for t, j in zip(traces, jobs)}
    for v in bad:
        t, j = byid[v["id"]]
        seen_new = set()
        for b in sorted(v["bad"], key=lambda x: x["k"]):
            # each step is charged only with the error signatures it introduces (an earlier step's errors persist in later verdicts)
            opname = (t["steps"][b["k"] - 1].get("label") or t["steps"][b["k"] - 1]["op"]) if b["at"] == "step" else "save"
            if j[2] in ("refused", "assigned"):
                opname = j[3][0]
            fresh = [n for n in b["new"] if (n["role"], n["sig"]) not in seen_new]
            seen_new |= {(n["role"], n["sig"]) for n in b["new"]}
            sigs = sorted({n["sig"] + "@" + ("/".join(n["role"].split("/")[2:3]) or n["role"]) for n in fresh})
            only_clause = sorted(set(b["failing"]) - {"AllPartsValid", "RejectedKeepsValidity"})
            if not sigs and not only_clause:
                continue
            clause = "+".join(sorted(b["failing"]))
            for sg in (sigs or ["-"])[:4]:
                rep.reject("%s@%s[%s|%s]" % (clause if sigs else "+".join(only_clause), opname, sg, j[2]),
                           {"module": "SlideOps", "id": v["id"], "kind": j[1], "prep": j[2], "ops": j[3], "failing": b, "deck_history": t.get("h"), "refusal": t.get("refusal"),
                            "host": t.get("host")},
                           ("host=%s history %s step %d" % (j[1], H.describe(t), b["k"])) if t.get("host") else
                           "kind=%s prep=%s ops=%s step %d" % (j[1], j[2], j[3], b["k"]))
    unexpected = {}
    for t in traces:
        for u in t.get("unexpected", []):
            k = ":".join(u.split(":")[:2])
            unexpected[k] = unexpected.get(k, 0) + 1
    if unexpected:
        rep.note("operations that raised an exception the catalogue does not list (not judged; enabling model too coarse or a defect outside C03): %s"
                 % json.dumps(unexpected)[:600])
    used = {}
    for j in jobs:
        for o in j[3]:
            if o != "<history>":
                used[o] = used.get(o, 0) + 1
    unused = sorted(o["name"] for o in tab if o["kinds"] and o["name"] not in used)
    if unused and not replay:
        raise E.MachineryError("vacuous: catalogue operations never scheduled: %s" % unused)
    nsteps = tot.get("steps", 0)
    cov = {"evaluations": nsteps + len(traces), "distinct_nontrivial": len({(j[1], j[2], tuple(j[3])) for j in jobs}),
           "rule": "one evaluation = one public-API operation (or the final save) after which every slide / chart / notes part is validated "
                   "against the transitional XSDs (after MCE preprocessing); TLC enumerates, from the operation catalogue with enabling flags, "
                   "every ordered pair (and triples per tier) of operations per object kind x preparation (plain / PowerPoint-like siblings: "
                   "extLst in spTree, cSld and bodyPr, leading a:br, endParaRPr); distinct = distinct (kind, prep, operation sequence)",
           "samples": [{"kind": jobs[len(jobs) // 2][1], "prep": jobs[len(jobs) // 2][2], "ops": jobs[len(jobs) // 2][3]}],
           "states": states, "transitions": trans, "traces_validated_against_impl": len(traces), "configs": per,
           "catalogue_operations": len([o for o in tab if o["kinds"]]), "object_kinds": len(kinds), "operation_use_counts": used,
           "unexpected_exceptions": unexpected}
    return rep.finish("exploration", cov, ["validity oracle = lxml XMLSchema over /repo/spec/ISO-IEC-29500-4/xsd (pml, dml-main, dml-chart) after the "
                                            "markup-compatibility preprocessor in mbt/monitor/xsd.py", "TLC 1.8 generates the programs and evaluates the "
                                            "clauses on the logged error signatures; it does not judge validity itself",
                                            "baseline subtraction: only signatures a part did not have before count"])


if __name__ == "__main__":
    E.main_wrap(main)
