"""C09 - a property reads back as set, survives save/re-open; None restores inheritance. spec/Props.tla.

   catalogue (mbt/catalog/props.py)  ->  MC_Props.tla: TLC enumerates, per object kind, every sequence of 1 / 2 / 3 assignments over
   the kind's properties and value classes, then SaveReopen  ->  drive/props.py replays each on a real object (fresh fixture
   decks and corpus decks) and logs readings, explicit-setting flags and the exact-arithmetic quantum monitor  ->
   Trace_Props.tla: TLC evaluates every named clause on every observed step."""
from __future__ import annotations

import copy
import json
import os
import sys
import time
import concurrent.futures as cf

from mbt import corpus
from mbt import engine as E
from mbt.drive import props as D

PID = "C09"
CFG = "SPECIFICATION Spec\nCONSTANTS KINDS = {%s}\n DEPTH = %d\n LVL = %d\nINVARIANT EmitState\nCHECK_DEADLOCK FALSE\n"
REOPEN = {"op": "SaveReopen", "p": 0, "v": {"cls": "INIT", "anchor": "", "delta": 0}, "exp": "ok"}
OPS = ("Set", "SetNone", "SetOut", "SaveReopen")


def explore(work, name, depth, lvl, kinds, big=False):
    """TLC enumerates every assignment sequence of the configuration; returns (leaf sequences, action tables, result)."""
    cfg = os.path.join(work, "MC_Props_%s.cfg" % name)
    with open(cfg, "w") as f:
        f.write(CFG % (", ".join(str(i) for i in kinds), depth, lvl))
    acts_file = os.path.join(work, "acts_%s.json" % name)
    # -coverage 1 (per-disjunct counts) on the small configurations; the big thorough pairs run is counted from its output
    r = E.run_tlc("MC_Props", cfg, work=work, workers=12 if big else 6, timeout=1500, heap="8g", extra=[] if big else ["-coverage", "1"],
                  env={"CAT_FILE": os.path.join(work, "cat.json"), "ACTS_FILE": acts_file})
    if r.invariant_violated or "is violated" in r.out or "Assumption" in r.out and "is false" in r.out:
        raise E.MachineryError("MC_Props[%s]: design-level sanity failed (%s); see %s" % (name, r.invariant_violated, work))
    sts = sorted(r.printed("ST"), key=lambda s: (s["k"], s["h"]))      # TLC workers print in any order; scenario ids must not depend on it
    dom = r.printed("DOMAIN")
    if not dom or len(sts) != dom[-1]["leaves"]:
        raise E.MachineryError("MC_Props[%s]: %d sequences emitted, %s expected" % (name, len(sts), dom))
    with open(acts_file) as f:
        acts = json.load(f)
    return sts, acts, r


def scenario(acts, s):
    return [dict(acts[s["k"] - 1][j - 1], exp=e) for j, e in zip(s["h"], s["e"])] + [dict(REOPEN)]


def validate_traces(traces, work, tag):
    chunks, cur, n = [], [], 0
    for t in traces:
        cur.append(t)
        n += len(t["steps"])
        if n > 12000:
            chunks.append(cur)
            cur, n = [], 0
    if cur:
        chunks.append(cur)
    bad, tot, reports = [], {}, []

    def run(ix_c):
        ix, c = ix_c
        return E.validate("Trace_Props", c, work=work, name="%s%d" % (tag, ix), heap="3g", timeout=1500,
                          env={"CAT_FILE": os.path.join(work, "cat.json")})
    with cf.ThreadPoolExecutor(14) as ex:
        for b, s, r in ex.map(run, list(enumerate(chunks))):
            bad += b
            reports += r.printed("REPORT")
            for k, v in s.items():
                tot[k] = tot.get(k, 0) + v
    return bad, tot, reports


def value_class(kname, step):
    """Value class of a step for signatures: enum members by name (each member is its own class), else cls:anchor."""
    a = step["a"]
    if a["op"] == "SaveReopen":
        return "reopen"
    if a["op"] == "SetNone":
        return "None"
    pr = D.RT["kinds"][kname]["props"][a["p"] - 1]
    v = a["v"]
    if v["anchor"] in ("member", "ret"):
        lst = pr["mem"] if v["anchor"] == "member" else pr["ret"]
        return "member:%s" % lst[v["delta"] - 1].name
    return "%s:%s" % (v["cls"], v["anchor"])


def selftest(traces, badids, work, cat):
    """Corrupt one recorded field per clause in traces TLC accepted (and fold one dropped action into its successor);
    TLC must reject exactly those traces at exactly that step with that clause."""
    def props(t):
        return cat[t["k"] - 1]["props"]

    def pick(pred):
        for t in traces:
            if t["id"] in badids:
                continue
            for k, st in enumerate(t["steps"]):
                if pred(t, k, st):
                    return copy.deepcopy(t), k
        raise E.MachineryError("selftest: no accepted trace of the wanted shape")

    def judged(t, st):
        d, v = props(t)[st["a"]["p"] - 1], st["a"]["v"]
        return (v["cls"] == "out" and d["edgeDoc"]) or (v["cls"] == "bad" and v["anchor"] == "str" and not d["truthy"])

    def free_slot(t, k):            # a property outside {p} + coupled + weak of step k
        d = props(t)[t["steps"][k]["a"]["p"] - 1]
        excl = {t["steps"][k]["a"]["p"]} | set(d["coupled"]) | set(d["weak"])
        return next((i for i in range(1, len(props(t)) + 1) if i not in excl), None)
    cases = []
    t, k = pick(lambda t, k, st: st["a"]["op"] == "Set" and st["out"] == "ok" and st["m"]["within"] and st["a"]["v"]["anchor"] == "thr")
    t["steps"][k]["m"]["within"] = False
    cases.append(("quantum monitor bit cleared", "ReadBackWithinQuantum", t, k))
    t, k = pick(lambda t, k, st: st["a"]["op"] == "Set" and st["out"] == "ok" and free_slot(t, k) and len(t["steps"]) == 2)
    t["steps"][k]["dr"].append([free_slot(t, k), "s:<disturbed>"])
    cases.append(("reading of an independent property changed", "OthersUnchanged", t, k))
    t, k = pick(lambda t, k, st: st["a"]["op"] == "SaveReopen" and st["out"] == "ok" and not st["dr"] and k >= 1
                and t["steps"][k - 1]["a"]["op"] == "Set" and t["steps"][k - 1]["out"] == "ok" and t["steps"][k - 1]["dr"])
    t["steps"][k]["dr"] = [[t["steps"][k - 1]["a"]["p"], "None"]]
    cases.append(("value lost across re-open", "ReopenSame", t, k))
    t, k = pick(lambda t, k, st: st["a"]["op"] == "SetNone" and st["out"] == "ok" and k >= 1 and t["steps"][k - 1]["a"] ["op"] == "Set"
                and t["steps"][k - 1]["a"]["p"] == st["a"]["p"] and t["steps"][k - 1]["out"] == "ok" and st["dx"])
    t["steps"][k]["dx"] = []
    cases.append(("explicit attribute still there after None", "NoneRestoresInheritance", t, k))
    t, k = pick(lambda t, k, st: st["a"]["op"] == "SetOut" and st["out"] in ("TypeError", "ValueError") and judged(t, st) and not st["dr"])
    t["steps"][k]["out"] = "ok"
    t["steps"] = t["steps"][:k + 1]
    cases.append(("out-of-domain value recorded as accepted", "OutOfDomainRefused", t, k))
    t, k = pick(lambda t, k, st: st["a"]["op"] == "SetOut" and st["out"] in ("TypeError", "ValueError"))
    t["steps"][k]["out"] = "KeyError"
    cases.append(("refusal recorded with another exception class", "RefusalClass", t, k))
    t, k = pick(lambda t, k, st: st["a"]["op"] == "Set" and st["out"] == "ok" and st["a"]["v"]["anchor"] in ("typ", "mid", "member", "true"))
    t["steps"][k]["out"] = "ValueError"
    cases.append(("in-domain value recorded as refused", "InDomainAccepted", t, k))
    # drop one action: its effect shows up as a side effect of the next one
    t, k = pick(lambda t, k, st: k >= 1 and st["a"]["op"] == "Set" and st["out"] == "ok" and t["steps"][k - 1]["a"]["op"] == "Set"
                and t["steps"][k - 1]["out"] == "ok" and t["steps"][k - 1]["dr"] and free_slot(t, k)
                and t["steps"][k - 1]["a"]["p"] not in ({st["a"]["p"]} | set(props(t)[st["a"]["p"] - 1]["coupled"]) | set(props(t)[st["a"]["p"] - 1]["weak"]))
                and {x[0] for x in t["steps"][k - 1]["dr"]} == {t["steps"][k - 1]["a"]["p"]})
    prev = t["steps"].pop(k - 1)
    t["steps"][k - 1]["dr"] = prev["dr"] + [x for x in t["steps"][k - 1]["dr"] if x[0] not in {y[0] for y in prev["dr"]}]
    t["steps"][k - 1]["dx"] = prev["dx"] + [x for x in t["steps"][k - 1]["dx"] if x[0] not in {y[0] for y in prev["dx"]}]
    cases.append(("one action dropped from the record", "OthersUnchanged", t, k - 1))
    for i, c in enumerate(cases):
        c[2]["id"] = "selftest:%d" % i
    bad, _, _ = E.validate("Trace_Props", [c[2] for c in cases], work=work, name="selftest", env={"CAT_FILE": os.path.join(work, "cat.json")})
    got = {b["id"]: b for b in bad}
    ok = True
    for i, (what, clause, t, k) in enumerate(cases):
        b = got.get("selftest:%d" % i)
        hit = b is not None and any(x["k"] == k + 1 and clause in x["failing"] for x in b["bad"]) and all(x["k"] >= k + 1 for x in b["bad"])
        print("SELFTEST %s: %s -> expect %s at step %d; TLC: %s" % ("ok" if hit else "FAILED", what, clause, k + 1,
                                                                    [(x["k"], sorted(x["failing"])) for x in b["bad"]] if b else "accepted"))
        ok = ok and hit
    if not ok:
        raise E.MachineryError("selftest failed")


def pick_corpus(objs, per_kind, seed):
    """Up to per_kind objects of every kind, spread over the decks (deterministic)."""
    by = {}
    for kind, deck, path in sorted(objs):
        by.setdefault(kind, []).append((deck, path))
    out = []
    for kind, lst in sorted(by.items()):
        decks = sorted({d for d, _ in lst})
        chosen, i = [], seed
        while len(chosen) < min(per_kind, len(lst)):
            d = decks[i % len(decks)]
            cand = [x for x in lst if x[0] == d and x not in chosen]
            if cand:
                chosen.append(cand[(i // len(decks)) % len(cand)])
            i += 1
            if i > seed + 50 * per_kind:
                break
        out += [(kind, d, p) for d, p in chosen]
    return out


def main() -> int:
    rep = E.Report(PID)
    replay = sys.argv[sys.argv.index("--replay") + 1] if "--replay" in sys.argv else None
    work = E.workdir(PID)
    do_selftest = "--selftest" in sys.argv
    rp = json.load(open(replay)) if replay else None
    tier, seed = (rp["tier"], rp["seed"]) if rp else (E.tier(), E.seed())
    thorough = tier == "thorough"
    phase, t0 = {}, time.time()
    cat = D.prepare(tier, seed)
    with open(os.path.join(work, "cat.json"), "w") as f:
        json.dump(cat, f)
    knames = [k["kind"] for k in cat]
    nprops = sum(1 for k in cat for p in k["props"] if not p["ro"])
    comp = D.completeness()
    phase["catalogue_s"] = round(time.time() - t0, 1)
    t0 = time.time()
    jobs, per_cfg, actions, coverage, states, transitions = [], {}, {}, {}, 0, 0
    if rp:
        jobs = [(rp["id"], rp["kind"], rp["deck"], rp["path"], rp["acts"])]
    else:
        rdir = os.path.join(E.REPLAYS, PID)          # witnesses of this run only (file names are content hashes)
        for fn in os.listdir(rdir) if os.path.isdir(rdir) else []:
            os.remove(os.path.join(rdir, fn))
        # (name, depth, value-class level): every sequence of exactly `depth` assignments, then SaveReopen
        # thorough: the pairs run over ALL value classes (level 1); quick: over the pair classes (level 2)
        cfgs = [("sweep", 1, 1, False), ("pairs", 2, 1 if thorough else 2, thorough), ("triples", 3, 3, False)]
        # quick: the two axis kinds (23 and 17 triple-level actions: 17 000 of 42 000 triples) are left to the thorough tier
        allk = list(range(1, len(cat) + 1))
        kinds_of = {"sweep": allk, "pairs": allk,
                    "triples": allk if thorough else [i for i in allk if knames[i - 1] not in ("ValueAxis", "CategoryAxis")]}
        with cf.ThreadPoolExecutor(len(cfgs)) as ex:
            res = list(ex.map(lambda c: explore(work, c[0], c[1], c[2], kinds_of[c[0]], c[3]), cfgs))
        sweep_acts = None
        for (name, depth, lvl, big), (sts, acts, r) in zip(cfgs, res):
            states += r.distinct
            transitions += r.generated
            for k, v in r.coverage_counts().items():
                coverage[k] = coverage.get(k, 0) + v
            for i, s in enumerate(sts):
                kn = knames[s["k"] - 1]
                K = D.RT["kinds"][kn]
                sc = scenario(acts, s)
                for a in sc:                    # actions of the enumerated sequences, per kind of action
                    actions[a["op"]] = actions.get(a["op"], 0) + 1
                jobs.append(("%s:%d" % (name, i), kn, K["deck"], K["path"], sc))
            per_cfg[name] = {"assignments": depth, "value_class_level": lvl, "kinds": len(kinds_of[name]), "sequences": len(sts), "tlc_distinct": r.distinct,
                             "tlc_wall_s": round(r.wall, 1), "actions_per_kind": {knames[i]: len(a) for i, a in enumerate(acts)}}
            if name == "sweep":
                sweep_acts = acts
        for op in OPS:
            if not actions.get(op):
                raise E.MachineryError("vacuous: action %s never explored (%s)" % (op, actions))
        # objects of the corpus decks: every single assignment of the pairs alphabet, then SaveReopen
        decks = corpus.decks() if thorough else corpus.subset(16, seed)
        # + the generated decks (every shape kind, content of other producers, charts of types the library cannot generate)
        from mbt.drive import readonly as RO
        decks = decks + RO.gen_decks(os.path.join(work, "gen"))
        found = [o for lst in E.pmap(D.corpus_objects, decks, procs=16, chunk=1) for o in lst if o[0] in knames]
        chosen = pick_corpus(found, 10 if thorough else 2, seed)
        n0 = len(jobs)
        for ci, (kind, deck, path) in enumerate(chosen):
            ki = knames.index(kind)
            for ai, a in enumerate(sweep_acts[ki]):
                # quick: the typical / interior / None / wrong-type classes; thorough: the whole single-assignment alphabet
                if thorough or a["op"] == "SetNone" or (a["v"]["anchor"] in ("typ", "mid", "member", "true", "false", "ascii", "str", "thr") and abs(a["v"]["delta"]) <= 1):
                    jobs.append(("corpus:%d:%d" % (ci, ai), kind, deck, path, [dict(a, exp="free"), dict(REOPEN)]))
        per_cfg["corpus"] = {"decks_scanned": len(decks), "objects_found": len(found), "objects_used": len(chosen),
                             "kinds_with_corpus_objects": len({c[0] for c in chosen}), "sequences": len(jobs) - n0}
    phase["tlc_explore_s"] = round(time.time() - t0, 1)
    print("PHASE explore %.1fs: %d scenarios" % (phase["tlc_explore_s"], len(jobs)), flush=True)
    t0 = time.time()
    traces = E.pmap(D.run_trace, jobs, procs=16, chunk=24)
    phase["replay_s"] = round(time.time() - t0, 1)
    print("PHASE replay %.1fs" % phase["replay_s"], flush=True)
    t0 = time.time()
    bad, tot, reports = validate_traces(traces, work, "obs")
    phase["tlc_validate_s"] = round(time.time() - t0, 1)
    print("PHASE validate %.1fs: %s" % (phase["tlc_validate_s"], tot), flush=True)
    byid = {j[0]: j for j in jobs}
    trid = {t["id"]: t for t in traces}
    observed, nbadsteps = {}, 0
    order = {"sweep": 0, "pairs": 1, "triples": 2, "corpus": 3}

    def wkey(v):            # deterministic witnesses: shortest scenario first, fixtures before corpus, enumeration order
        parts = v["id"].split(":")
        return (order.get(parts[0], 4), [int(x) for x in parts[1:] if x.isdigit()])
    for v in sorted(bad, key=wkey):
        j, tr = byid[v["id"]], trid[v["id"]]
        for b in sorted(v["bad"], key=lambda b: b["k"]):
            nbadsteps += 1
            k = b["k"]
            st = tr["steps"][k - 1]
            pname = D.RT["kinds"][j[1]]["props"][b["p"] - 1]["p"] if b["p"] else "*"
            for clause in sorted(b["failing"]):
                sg = "%s@%s.%s[%s]" % (clause, j[1], pname, value_class(j[1], st))
                observed[sg] = observed.get(sg, 0) + 1
                if observed[sg] > 1 and not replay:
                    continue
                before = [[x["a"]["op"], D.RT["kinds"][j[1]]["props"][x["a"]["p"] - 1]["p"] if x["a"]["p"] else "", x["m"]["av"]] for x in tr["steps"][:k - 1]]
                rep.reject(sg, {"module": "Props", "id": v["id"], "kind": j[1], "deck": j[2], "path": j[3], "acts": j[4][:k], "failing": b,
                                "observed": st, "tier": tier, "seed": seed},
                           "%s %s.%s = %s after %s on %s: outcome %s %s, reads %s, other readings changed %s" % (
                               st["a"]["op"], j[1], pname, st["m"]["av"] or "-", json.dumps(before), os.path.basename(j[2]), st["out"],
                               st["m"]["exc"][:100], st["m"]["rv"] or "-", json.dumps([x for x in st["dr"] if x[0] != b["p"]])[:160]))
    if do_selftest:
        selftest(traces, {v["id"] for v in bad}, work, cat)
    if tot.get("drift"):
        rep.note("drift: %d observed outcomes differ from the prediction of the declared catalogue (a violation only where listed)" % tot["drift"])
    # report-only observations, aggregated
    obs = {}
    for o in reports:
        key = o["w"]
        ex = "%s.%s[%s] %s" % (cat[o["k"] - 1]["kind"], cat[o["k"] - 1]["props"][o["p"] - 1]["p"], o["cls"], o["out"])
        obs.setdefault(key, set()).add(ex)
    obs = {k: sorted(v) for k, v in obs.items()}
    what = {"RefusedChangesReadings": "a REFUSED assignment changed a reading (setter removes the old setting before it validates); the statement does not state a frame on refusal",
            "AcceptedUndocumented": "out-of-domain candidate of an UNDOCUMENTED domain was accepted (not judged)",
            "RefusedUndocumented": "out-of-domain candidate of an undocumented domain was refused with TypeError/ValueError (consistent)",
            "RefusedAtSchemaBound": "value at the schema bound of an undocumented range was refused (not judged)",
            "NeedsUnmet": "assignment made while its declared precondition does not hold (brightness without a colour type): outcome not judged"}
    for k, v in sorted(obs.items()):
        rep.note("report-only %s: %d (kind.property[class] outcome) - %s; e.g. %s" % (k, len(v), what.get(k, ""), v[:3]))
    # vacuity on what was really executed
    seen, outs, changed = {}, {}, 0
    nontrivial = set()
    for t in traces:
        sig, moved = [], False
        for st in t["steps"]:
            seen[st["a"]["op"]] = seen.get(st["a"]["op"], 0) + 1
            outs["ok" if st["out"] == "ok" else "refused"] = outs.get("ok" if st["out"] == "ok" else "refused", 0) + 1
            sig.append((st["a"]["op"], st["a"]["p"], st["a"]["v"]["cls"], st["a"]["v"]["anchor"], st["a"]["v"]["delta"]))
            if st["a"]["op"] != "SaveReopen" and st["out"] == "ok" and st["dr"]:
                moved = True
        if moved:
            changed += 1
            nontrivial.add((t["k"], byid[t["id"]][2], byid[t["id"]][3], tuple(sig)))
    if not replay:
        for op in OPS:
            if not seen.get(op):
                raise E.MachineryError("vacuous: no real %s step was executed" % op)
        if not outs.get("ok") or not outs.get("refused") or not tot.get("readback") or not tot.get("none") or not tot.get("refusedJ"):
            raise E.MachineryError("vacuous: outcomes %s, judgements %s" % (outs, tot))
    def telling(t):         # two different properties, a rounding-threshold or interior value, readings that moved
        st = t["steps"]
        return len(st) == 3 and st[0]["a"]["p"] != st[1]["a"]["p"] and st[0]["dr"] and st[1]["dr"] and \
            any(x["a"]["v"]["anchor"] in ("thr", "mid") for x in st[:2]) and all(x["out"] == "ok" for x in st)
    smp = [t for t in traces if t["id"].startswith("pairs") and telling(t)][:1] + \
          [t for t in traces if t["id"].startswith("sweep") and t["steps"][0]["a"]["op"] == "SetOut" and t["steps"][0]["out"] != "ok"][:1] + \
          [t for t in traces if t["id"].startswith("corpus") and t["steps"][0]["dr"]][:1] or traces[:1]
    samples = []
    for t in smp:
        j = byid[t["id"]]
        samples.append({"kind": j[1], "deck": os.path.basename(j[2]), "path": j[3],
                        "steps": [{"op": s["a"]["op"], "prop": D.RT["kinds"][j[1]]["props"][s["a"]["p"] - 1]["p"] if s["a"]["p"] else "",
                                   "token": s["a"]["v"], "assigned": s["m"]["av"], "outcome": s["out"], "read": s["m"]["rv"],
                                   "within_quantum": s["m"]["within"], "readings_changed": s["dr"]} for s in t["steps"]]})
    cov = {"evaluations": len(traces), "distinct_nontrivial": len(nontrivial),
           "rule": "TLC (MC_Props) enumerates per object kind EVERY sequence of exactly 1 (all value classes: bounds, bound+-1 quantum, typical, "
                   "seeded interior, seeded rounding-threshold neighbours just below/above k+1/2 quanta, every represented enum member, None, "
                   "out-of-domain and wrong-type/NaN/inf candidates), 2 (pair classes) and 3 (triple classes) assignments over the kind's "
                   "properties, any order, same property twice included, then SaveReopen; each sequence is replayed on a fresh real object; "
                   "single assignments are also replayed on objects of the corpus decks (thorough: the whole alphabet on up to 10 objects per kind). A scenario counts as non-trivial when at "
                   "least one accepted assignment changed a public reading; distinct by (kind, deck, object path, token sequence).",
           "samples": samples, "exhaustive": True,
           "states": max(states, 1), "transitions": max(transitions, 1), "traces_validated_against_impl": len(traces),
           "real_steps_validated": tot.get("steps", 0), "judged": {"read_back": tot.get("readback", 0), "none_restores": tot.get("none", 0),
                                                                    "out_of_domain_judged": tot.get("refusedJ", 0), "reopen": tot.get("reopen", 0)},
           "rejected_traces": tot.get("rejected", 0), "rejected_steps": nbadsteps, "observed_violation_classes": observed,
           "drift_steps": tot.get("drift", 0), "scenarios_changing_a_reading": changed,
           "catalogue": {"object_kinds": len(cat), "properties": nprops, "observers": sum(1 for k in cat for p in k["props"] if p["ro"]),
                         "settable_sites_introspected": comp["settable_sites"], "catalogued_sites": len(comp["catalogued"]),
                         "out_of_scope_sites": comp["out_of_scope"], "kinds": {k["kind"]: [p["p"] for p in k["props"] if not p["ro"]] for k in cat}},
           "uncatalogued": comp["uncatalogued"],
           "report_only": {k: {"count": len(v), "what": what.get(k, ""), "cases": v[:400]} for k, v in obs.items()},
           "phase_wall_s": phase, "configs": per_cfg, "action_counts": actions, "tlc_coverage_counts": coverage, "real_steps_by_action": seen, "real_outcomes": outs}
    return rep.finish("exploration", cov, [
        "TLC 1.8 generates the scenarios and evaluates every named clause on the observed steps; it does NOT compute with the values: "
        "|read - assigned| <= quantum is computed by the driver with exact arithmetic (fractions.Fraction over the exact binary value of "
        "the floats; angles modulo 360; a slack of 1e-6 quantum for the float multiplication the setter must perform) and logged as a "
        "boolean together with both values as strings - TLC requires the boolean (ReadBackWithinQuantum)",
        "the DOMAIN of each property is the catalogue's reading of the docstrings (mbt/catalog/props.py, `src`); where the documentation "
        "states no bounds the schema bounds are used as value classes, their refusal and the out-of-domain candidates are reported, not judged; "
        "a str assigned to a boolean whose setter is documented only as 'boolean' is reported, not judged (python truthiness)",
        "readings are canonical strings of the PUBLIC readers ('!Exc' when a reader raises); explicit-setting flags are plain lxml XPath on the "
        "object's element; save/re-open through Presentation.save(BytesIO) and Presentation(BytesIO)",
        "coupledWith / weak / needs are DECLARED in the catalogue from the documentation (rgb<->theme_color<->brightness, number_format<->"
        "number_format_is_linked, crosses<->crosses_at, a:off/a:ext pairs while not explicit); everything else is the frame",
        "after an accepted out-of-domain candidate (report-only class) the property is outside the statement for the rest of its trace",
        "frame on REFUSAL is not stated by the property: measured and reported only (report_only.RefusedChangesReadings)",
        "hypothesis 6.168 draws the interior values and threshold bases, seeded by VERIF_SEED (deterministic per seed and tier)"])


if __name__ == "__main__":
    E.main_wrap(main)
