"""C14 — tables stay rectangular, merges consistent. spec/Table.tla."""
from __future__ import annotations

import json
import os
import sys
import concurrent.futures as cf

from mbt import engine as E
from mbt.drive import table as T

PID = "C14"
CFG = """SPECIFICATION Spec
CONSTANTS MAXR = %(maxr)d
 MAXC = %(maxc)d
 DEPTH = %(depth)d
 PATS = {%(pats)s}
 SIZEACTS = %(size)s
 W = %(w)d
 H = %(h)d
 SIM = %(sim)s
 VARS = {%(vars)s}
VIEW ViewSt
INVARIANT InvAll
INVARIANT InvCreate
INVARIANT OutcomeAgrees
INVARIANT EmitState
PROPERTY Refines
CHECK_DEADLOCK FALSE
"""


def explore(work, name, sim=None, **kw):
    d = dict(maxr=3, maxc=3, depth=2, pats="1", size="FALSE", w=1000, h=700, vars="0")
    d.update(kw)
    d["sim"] = "TRUE" if sim else "FALSE"
    cfg = os.path.join(work, "MC_Table_%s.cfg" % name)
    with open(cfg, "w") as f:
        f.write(CFG % d if not sim else (CFG % d).replace("PROPERTY Refines\n", "").replace("INVARIANT OutcomeAgrees\n", ""))
    extra = ["-simulate", sim, "-depth", str(d["depth"] + 1), "-seed", str(E.seed() + 3)] if sim else ["-coverage", "1"]
    r = E.run_tlc("MC_Table", cfg, work=work, workers=1 if sim else 16, timeout=3000, extra=extra, heap="16g")
    if r.invariant_violated or r.action_prop_violated or "is violated" in r.out:
        raise E.MachineryError("design-level check failed in MC_Table[%s]: %s %s (the Impl transcription no longer satisfies the "
                               "property layer; see %s)" % (name, r.invariant_violated, r.action_prop_violated, work))
    paths = r.printed("ST")
    if not sim and len(paths) != r.distinct:
        raise E.MachineryError("emitted %d paths for %d distinct states in MC_Table[%s]" % (len(paths), r.distinct, name))
    return paths, r


def _job(args):
    gid, h, size, fan = args
    return T.run_group(gid, h, size, fan)


def validate_groups(groups, work, tag):
    # chunk by step count
    chunks, cur, n = [], [], 0
    for g in groups:
        cur.append(g)
        n += len(g["steps"]) + len(g["path"])
        if n > 40000:
            chunks.append(cur)
            cur, n = [], 0
    if cur:
        chunks.append(cur)
    bad, tot = [], {}

    def run(ix_c):
        ix, c = ix_c
        return E.validate("Trace_Table", {"groups": c}, work=work, name="%s%d" % (tag, ix), heap="5g", timeout=3000)
    with cf.ThreadPoolExecutor(10) as ex:
        for b, s, _ in ex.map(run, list(enumerate(chunks))):
            bad += b
            for k, v in s.items():
                tot[k] = tot.get(k, 0) + v
    return bad, tot


def main() -> int:
    rep = E.Report(PID)
    work = E.workdir(PID)
    thorough = E.tier() == "thorough"
    selftest = "--selftest" in sys.argv
    replay = sys.argv[sys.argv.index("--replay") + 1] if "--replay" in sys.argv else None
    if thorough:
        cfgs = [("s44", dict(maxr=4, maxc=4, depth=2, pats="1,2"), None, True),
                ("s33", dict(maxr=3, maxc=3, depth=2, pats="3,4,5", size="TRUE"), None, True),
                ("doc", dict(maxr=3, maxc=3, depth=2, pats="4,5,6", vars="0,1,2,3"), None, True),
                ("sim", dict(maxr=12, maxc=12, depth=10, pats="1,2,4", size="TRUE", w=9144000, h=6858001), "num=400", False)]
    else:
        cfgs = [("s33", dict(maxr=3, maxc=3, depth=2, pats="1,4,5"), None, True),
                ("s44", dict(maxr=4, maxc=4, depth=1, pats="2", size="TRUE"), None, True),
                ("doc", dict(maxr=2, maxc=3, depth=1, pats="4", vars="1,2,3"), None, True),
                ("fld", dict(maxr=2, maxc=3, depth=1, pats="6", vars="0"), None, True),
                ("sim", dict(maxr=12, maxc=12, depth=10, pats="1,4", size="TRUE", w=9144000, h=6858001, vars="0,1,3"), "num=40", False)]
    states = transitions = 0
    per_cfg, actions = {}, {}
    jobs = []
    create_cases = []
    if replay:
        rp = json.load(open(replay))
        jobs = [(rp["id"], rp["h"], True, rp.get("fanout", False))]
        cfgs = []
    for name, kw, sim, fan in cfgs:
        paths, r = explore(work, name, sim, **kw)
        states += r.distinct
        transitions += r.generated
        for a, n in r.coverage_counts().items():
            actions[a] = actions.get(a, 0) + n
        if sim:
            full = [p for p in paths if len(p) == kw["depth"] + 1]
            paths = full
        per_cfg[name] = {"paths": len(paths), "tlc_distinct": r.distinct, "tlc_generated": r.generated, "tlc_wall_s": round(r.wall, 1), "constants": kw}
        size = kw.get("size") == "TRUE"
        jobs += [("%s:%d" % (name, i), p, size, fan) for i, p in enumerate(paths)]
        if not create_cases:
            create_cases = r.printed("CREATE")[-1]
    for i, (r_, c_, w_, h_) in enumerate(create_cases):
        if w_ < c_ or h_ < r_:
            continue
        h0 = {"op": "create", "r": r_, "c": c_, "w": w_, "h": h_, "pat": 3, "txt": [[[0]] * c_] * r_}
        jobs.append(("create:%d" % i, [h0], False, False))
    groups = E.pmap(_job, jobs, procs=16, chunk=4)
    if selftest:
        g = json.loads(json.dumps(next(x for x in groups if any(not s["same"] and s["a"]["op"] == "merge" for s in x["steps"]))))
        k = next(i for i, s in enumerate(g["steps"]) if not s["same"] and s["a"]["op"] == "merge")
        cell = g["steps"][k]["t"]["rows"][g["steps"][k]["a"]["a"][0] - 1][g["steps"][k]["a"]["a"][1] - 1]
        cell["hm"] = not cell["hm"]
        cell["sp"] = not cell["sp"]
        g["steps"] = [g["steps"][k]]
        bad, _, _ = E.validate("Trace_Table", {"groups": [g]}, work=work, name="selftest")
        ok = len(bad) == 1 and bad[0]["bad"][0]["at"] == "step"
        print("SELFTEST %s: flipped hMerge/is_spanned of one cell -> %s" % ("ok" if ok else "FAILED", bad))
        if not ok:
            raise E.MachineryError("selftest failed")
        g = json.loads(json.dumps(next(x for x in groups if any(not s["same"] and s["a"]["op"] == "merge" and s["out"] == "ok" for s in x["steps"]))))
        k = next(i for i, s in enumerate(g["steps"]) if not s["same"] and s["a"]["op"] == "merge" and s["out"] == "ok")
        g["steps"] = [g["steps"][k]]
        g["steps"][0]["kept"] = [[{"o": False, "sp": False, "sh": 1, "sw": 1} for _ in row] for row in g["steps"][0]["kept"]]    # a stale view
        bad, _, _ = E.validate("Trace_Table", {"groups": [g]}, work=work, name="selftest2")
        ok = len(bad) == 1 and "KeptObjectAgrees" in bad[0]["bad"][0]["failing"]
        print("SELFTEST %s: the kept Table object reports the cells as unmerged after a merge -> %s" % ("ok" if ok else "FAILED", str(bad)[:200]))
        if not ok:
            raise E.MachineryError("selftest failed")
    bad, tot = validate_groups(groups, work, "obs")
    byid = {g["id"]: g for g in groups}
    for v in bad:
        g = byid[v["id"]]
        for b in v["bad"][:3]:
            if b["at"] == "step":
                a = g["steps"][b["k"] - 1]["a"]
                obs = g["steps"][b["k"] - 1]
            elif b["at"] == "path":
                a = g["path"][b["k"] - 1]["a"]
                obs = g["path"][b["k"] - 1]
            else:
                a, obs = g["h"][0], {"created": g["created"]}
            clause = "+".join(sorted(b["failing"]))
            rep.reject("%s@%s" % (clause, a["op"]),
                       {"module": "Table", "id": g["id"], "h": g["h"] + ([a] if b["at"] == "step" else []), "fanout": False,
                        "failing": b, "observed": obs, "state_before": g["path"][-1]["t"] if b["at"] == "step" else None},
                       "%s then %s" % (json.dumps([x if x["op"] != "create" else {k: x[k] for k in ("op", "r", "c", "pat")} for x in g["h"]]), json.dumps(a)))
    if tot.get("drift"):
        rep.note("drift: %d observed successors differ from ImplStep (property still holds)" % tot["drift"])
    actions["Other"] = actions.get("Other", 0) + actions.get("Step", 0)
    need = {"Merge", "Split", "Other"}
    if not replay and any(not actions.get(a) for a in need):
        raise E.MachineryError("vacuous: %s" % actions)
    nsteps = tot.get("steps", 0)
    smp = next((g for g in groups if len(g["path"]) > 2), groups[0])
    cov = {"states": max(states, 1), "transitions": max(transitions, 1), "traces_validated_against_impl": len(groups),
           "real_steps_validated": nsteps, "configs": per_cfg, "action_counts": actions, "create_cases": len(create_cases),
           "samples": [{"path": smp["h"][1:], "create": {k: smp["h"][0][k] for k in ("r", "c", "pat")},
                        "fanout_actions": len(smp["steps"]), "final_row1": smp["path"][-1]["t"]["rows"][0]}],
           "exhaustive": True,
           "rule": "TLC enumerates every distinct table state reachable by <= DEPTH merges/splits/resizes on every shape and text pattern "
                   "(one shortest path each); the driver replays each path on a real table and applies EVERY merge (all ordered cell pairs), "
                   "split and cross-table merge to a copy of the state reached, so every history of DEPTH+1 actions is executed; TLC validates "
                   "Inv and Post on each observed step"}
    return rep.finish("model_checking", cov, ["TLC 1.8", "table state read from the lxml tree (attributes, paragraphs) and the public readers",
                                             "text tokens T<n>; one paragraph token per a:p"])


if __name__ == "__main__":
    E.main_wrap(main)
