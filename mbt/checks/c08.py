"""C08 — the chart's cached values and its embedded workbook agree cell for cell. spec/ChartSheet.tla (function-shaped):
spec (layout function, column letters; theorems on the whole bounded domain) -> code (add_chart / replace_data on every
enumerated data shape, _column_reference on all 16384 columns) -> spec (TLC validates what was read back from the saved bytes)."""
from __future__ import annotations

import collections
import concurrent.futures as cf
import json
import os
import sys

from mbt import engine as E
from mbt.drive import chart as CH

PID = "C08"
CFG = """INIT Init
NEXT Next
CHECK_DEADLOCK FALSE
CONSTANTS MAXLEAF = %(maxleaf)d
 SMALLN = {%(smalln)s}
 BIGN = {%(bign)s}
 XYN = %(xyn)d
 XYLENS = {%(xylens)s}
 LONG = %(long)s
"""
QUICK = dict(maxleaf=4, smalln="0,1,2,3", bign="25,26,27", xyn=3, xylens="0,1,2,3", long="FALSE")
THOROUGH = dict(maxleaf=5, smalln="0,1,2,3,4", bign="25,26,27,51,52,53,701,702,703", xyn=4, xylens="0,1,2,3", long="TRUE")


def jobs_for(shapes: list, seed: int) -> list:
    """Every shape as add_chart(shape) and as add_chart(other data); replace_data(shape); the chart type rotates over all
    members of the data kind (a pie chart "only ever has a single series" - docs - and its writer takes series[0] only, so
    PIE / PIE_EXPLODED get the one-series shapes: data kind matching chart kind)."""
    jobs = []
    for i, s in enumerate(shapes):
        ts = CH.types_of_kind(s["kind"])
        if len(s["series"]) != 1:
            ts = [t for t in ts if "PIE" not in t]
        for k, site in enumerate(("AddChart", "ReplaceData", "ReuseData", "StagedData", "Replace1904")):
            if site == "Replace1904" and not (s["kind"] == "cat" and s["catKind"] == "date"):
                continue
            if site == "ReuseData" and len(s["series"]) < 2:
                continue
            if site == "StagedData" and (not s["series"] or (s["kind"] == "cat" and len(s["cats"]) < 2 and not any(c["subs"] for c in s["cats"]))):
                continue
            jobs.append(("%d:%s" % (i, site), s, site, ts[(i + k + seed) % len(ts)], i + seed))
    # the PowerPoint-authored charts of the corpus (supported plot families; the bar+line chart among them): replace_data with two shapes each
    supported = {v[3] for v in CH.chart_types().values()}
    bykind = {k: [s for s in shapes if s["kind"] == k and 1 <= len(s["series"]) <= 6 and not s.get("tod")] for k in ("cat", "xy", "bubble")}
    # (a chart whose last plot holds no series cannot take new ones - AttributeError, judged by C07 - and is left out here)
    for n, c in enumerate(c for c in CH.corpus_charts() if c[2] and all(k in supported for k in c[4]) and c[3][-1] > 0):
        kind = "bubble" if c[2] == "bubbleChart" else "xy" if c[2] == "scatterChart" else "cat"
        pool = [s for s in bykind[kind] if c[2] != "pieChart" or len(s["series"]) == 1]
        for k in range(2):
            s = pool[(n * 7 + k * 131 + seed) % len(pool)]
            jobs.append(("c%d.%d:ReplaceData" % (n, k), s, "ReplaceData", "corpus:%s#%d" % (c[0], c[1]), n + seed))
        if len(c[3]) > 1:
            # a multi-plot chart: every series count from one to one more than it holds (surplus series go plot by plot from the end, a
            # plot left without series goes too: every cut between and inside the plots)
            for cnt in range(1, sum(c[3]) + 2):
                cands = [s for s in pool if len(s["series"]) == cnt]
                if cands:
                    s = cands[(n + cnt + seed) % len(cands)]
                    jobs.append(("c%d.n%d:ReplaceData" % (n, cnt), s, "ReplaceData", "corpus:%s#%d" % (c[0], c[1]), n + seed))
    return jobs


def weight(job) -> int:
    s = job[1]
    return 40 + sum(len(x["vals"]) + 3 for x in s["series"]) * (3 if s["kind"] != "cat" else 1)


def balanced_chunks(jobs: list, target: int) -> list:
    out, cur, w = [], [], 0
    for j in sorted(jobs, key=weight, reverse=True):
        cur.append(j)
        w += weight(j)
        if w >= target:
            out.append(cur)
            cur, w = [], 0
    if cur:
        out.append(cur)
    return out


def classes_of(v: dict, rec: dict) -> dict:
    """signature class -> (clauses, first witness) of one rejected chart: the class of the DATA token at the failing position."""
    out: dict = {}
    if "Raises" in v["failing"]:
        out["raised-" + rec["raised"].split(":")[0]] = ({"Raises"}, {"raised": rec["raised"]})
    tod = bool(rec["data"].get("tod"))
    for w in v.get("witness", []):
        at = w.get("at", {})
        src = at.get("pt", at.get("want", ""))
        if w["clause"] == "RefSizeIsPtCount":
            cls = "range-" + w["part"]
        elif tod and w["part"] == "cat":
            cls = "date-with-time"
        elif src.startswith("s:"):
            cls = "str-" + src.split(":")[1]
        elif src.startswith("n:") and w["part"] == "cat" and rec["data"]["catKind"] == "date":
            cls = "date"
        elif src.startswith("n:"):
            cls = "number"
        else:
            cls = "other-" + src.split(":")[0]
        c, first = out.setdefault(cls, (set(), w))
        c.add(w["clause"])
    return out


def validate_all(cols, recs, work, tag="obs"):
    chunks, cur, n = [], [], 0
    for r in recs:
        cur.append(r)
        n += 200 + sum(len(row) for row in r["obs"]["grid"]) + 30 * len(r["obs"]["sers"])
        if n > 400000:
            chunks.append(cur)
            cur, n = [], 0
    if cur or not chunks:
        chunks.append(cur)
    bad, tot = [], collections.Counter()

    def run(ix_c):
        ix, c = ix_c
        return E.validate("Trace_ChartSheet", {"cols": cols if ix == 0 else [], "traces": c}, work=work, name="%s%d" % (tag, ix),
                          heap="6g", timeout=3000)
    with cf.ThreadPoolExecutor(8) as ex:
        for b, s, _ in ex.map(run, list(enumerate(chunks))):
            bad += b
            tot.update(s)
    return bad, dict(tot)


def main() -> int:
    selftest = "--selftest" in sys.argv
    replay = sys.argv[sys.argv.index("--replay") + 1] if "--replay" in sys.argv else None
    rep = E.Report(PID)
    work = E.workdir(PID)
    thorough = E.tier() == "thorough"
    params = THOROUGH if thorough else QUICK
    cfg = os.path.join(work, "MC_ChartSheet.cfg")
    with open(cfg, "w") as f:
        f.write(CFG % params)
    cases_file = os.path.join(work, "cases.json")
    mc = E.run_tlc("MC_ChartSheet", cfg, work=work, env={"CASES_FILE": cases_file}, workers=1, timeout=3000, heap="16g")
    dom = mc.printed("DOMAIN")[-1]
    with open(cases_file) as f:
        cases = json.load(f)
    shapes = cases["shapes"]
    if len(cases["cols"]) != 16384:
        raise E.MachineryError("column table of the spec has %d entries" % len(cases["cols"]))
    if replay:
        with open(replay) as f:
            rp = json.load(f)
        jobs = [(rp["id"], rp["shape"], rp["site"], rp["type"], rp["parity"])] if rp.get("kind") != "col" else []
        cols = [c for c in CH.column_table() if rp.get("kind") == "col" and c["n"] == rp["n"]]
    else:
        jobs = jobs_for(shapes, E.seed())
        cols = CH.column_table()
    byid = {j[0]: j for j in jobs}
    recs = [r for ch in E.pmap(CH.sheet_chunk, balanced_chunks(jobs, 4000), procs=16, chunk=1) for r in ch]
    if selftest:
        base = next(r for r in recs if r["site"] == "ReplaceData" and r["data"]["kind"] == "cat" and len(r["obs"]["sers"]) == 2
                    and r["obs"]["sers"][1]["val"]["lvls"][0] and not r["raised"]
                    and not any(c in json.dumps(r["data"]) for c in ("s:eq", "s:arr")) and not r["data"]["tod"])
        a, b, c = (json.loads(json.dumps(base)) for _ in range(3))
        a["id"], b["id"], c["id"] = "st:point", "st:ref", "st:cell"
        a["obs"]["sers"][1]["val"]["lvls"][0][0]["v"] = "n:424242"          # a cached point that is not the cell
        b["obs"]["sers"][0]["val"]["ref"][3] += 1                          # a range wider than its point count
        c["obs"]["grid"][0][c["obs"]["sers"][0]["tx"]["ref"][0] - 1] = "s:plain:77"   # the name cell holds something else
        cc = [dict(cols[701]), dict(cols[5])]
        cc[0]["digits"] = [26, 25]
        bad, _, _ = E.validate("Trace_ChartSheet", {"cols": cc, "traces": [base, a, b, c]}, work=work, name="selftest")
        got = sorted((v["id"], "+".join(sorted(v["failing"]))) for v in bad)
        want = [("702", "ColumnLetters"), ("st:cell", "CellHoldsData+PointEqualsCell"), ("st:point", "PointEqualsCell"),
                ("st:ref", "RefSizeIsPtCount")]
        ok = got == want
        print("SELFTEST %s: corrupted a point, a reference, a cell, a column string -> %s" % ("ok" if ok else "FAILED", got))
        if not ok:
            raise E.MachineryError("selftest: corrupted records not rejected exactly: %s" % got)
    bad, tot = validate_all(cols, recs, work)
    recid = {r["id"]: r for r in recs}
    # one VIOLATION per narrow signature clauses@site[class], the smallest witness as the replay
    sigs: dict = {}
    for v in bad:
        if v["kind"] == "col":
            sigs.setdefault("ColumnLetters@_column_reference", []).append((0, v, None, {"kind": "col", "n": int(v["id"]), "verdict": v}))
            continue
        r = recid[v["id"]]
        for cls, (clauses, first) in classes_of(v, r).items():
            sig = "%s@%s[%s]" % ("+".join(sorted(clauses)), r["site"], cls)
            j = byid[v["id"]]
            sigs.setdefault(sig, []).append((weight(j), v, first, {"module": "ChartSheet", "id": j[0], "shape": j[1], "site": j[2], "type": j[3],
                                                                   "parity": j[4], "failing": sorted(clauses), "witness": first,
                                                                   "raised": r["raised"]}))
    for sig, lst in sorted(sigs.items()):
        lst.sort(key=lambda x: x[0])
        _, v, first, rp = lst[0]
        rep.reject(sig, rp, "%d charts; e.g. %s %s %s" % (len(lst), rp.get("type", ""), v["id"], json.dumps(first)[:260]))
    if tot.get("drift"):
        rep.note("drift: %d observed references / sheets differ from the layout function (the clauses are judged on the observed ones)" % tot["drift"])
    mism = sum(1 for r in recs if not r["raised"] and len(r["obs"]["sers"]) != len(r["data"]["series"]))
    if mism:
        rep.note("%d charts have a series count different from the data's (judged by C07); the common prefix was validated" % mism)
    # vacuity
    nontrivial = [r for r in recs if r["obs"]["sers"]]
    maxcol = max([p["ref"][2] for r in recs for s in r["obs"]["sers"] for p in s.values() if p["present"]] or [0])
    maxdepth = max([len(s["cat"]["lvls"]) for r in recs for s in r["obs"]["sers"][:1]] or [0])
    kinds = {r["data"]["kind"] for r in nontrivial}
    if not replay:
        need_col = 703 if thorough else 27
        if maxcol < need_col or maxdepth < 4 or kinds != {"cat", "xy", "bubble"} or not tot.get("points") or tot.get("cols") != 16384:
            raise E.MachineryError("vacuous: maxcol=%d depth=%d kinds=%s points=%s cols=%s" % (maxcol, maxdepth, kinds, tot.get("points"), tot.get("cols")))
        if not {"AddChart", "ReplaceData", "ReuseData", "StagedData", "Replace1904"} <= {r["site"] for r in nontrivial}:
            raise E.MachineryError("vacuous: a site was never observed")
    smp = [r for r in nontrivial if r["data"]["kind"] == "bubble" and len(r["obs"]["sers"]) == 3][:1] + \
          [r for r in nontrivial if len(r["obs"]["sers"][0]["cat"]["lvls"]) == 3][:1]
    cov = {"states": len(shapes) + len(cols), "transitions": tot.get("points", 0) + tot.get("cols", 0),
           "traces_validated_against_impl": len(recs) + len(cols), "exhaustive": True,
           "domain": dom, "charts": len(recs), "corpus_charts_rewritten": sum(1 for r in recs if r["type"].startswith("corpus:")), "charts_with_series": len(nontrivial), "cached_points_validated": tot.get("points", 0),
           "columns_validated": tot.get("cols", 0), "rejected_charts": sum(1 for v in bad if v["kind"] == "chart"),
           "max_column_referenced": maxcol, "max_category_depth": maxdepth, "drift": tot.get("drift", 0),
           "spec_theorems_checked": ["T_ColLetters (bijection, inverse, odometer successor on 1..16384)", "T_Serial", "T_Shapes (disjoint ranges, "
                                     "Size = ptCount, accumulated row offsets, sheet read through the references = data)", "T_Flat"],
           "samples": [{"id": r["id"], "type": r["type"], "data": r["data"],
                        "refs": [{k: p["f"] for k, p in s.items() if p["present"]} for s in r["obs"]["sers"]],
                        "grid": r["obs"]["grid"][:6]} for r in smp],
           "rule": "states = data shapes enumerated by TLC from the bounded domain (category forests of depth 1-4 with <= MAXLEAF leaves, string / "
                   "numeric / date labels, series counts SMALLN and BIGN, XY/bubble length sequences over XYLENS, missing-value patterns) + the "
                   "16384 column numbers; every shape is built by add_chart and by replace_data over a different chart, the deck is saved, and "
                   "the references, point counts, cached points (from the chart part) and the cells (own reader of the embedded .xlsx) are "
                   "validated one by one by TLC; transitions = cached points + column strings validated",
           "constants": params, "tlc_wall_s": round(mc.wall, 1)}
    return rep.finish("model_checking", cov, [
        "TLC 1.8 + CommunityModules Json/IOUtils", "own .xlsx reader (zipfile + lxml; shared strings with _xHHHH_ escapes decoded, formula cells "
        "distinguished from value cells)", "numbers compared as canonical decimal text (Decimal.normalize), never as floats; supplied numbers have "
        "<= 15 significant digits", "an empty range is written r2 = r1 - 1 (e.g. $B$2:$B$1) and accepted as size 0", "an empty cached string and an "
        "empty cell are taken as equal", "1900 date system only (no public way to create a 1904 chart; none in the corpus)"])


if __name__ == "__main__":
    E.main_wrap(main)
