"""C04 — text assigned is the text read back, with only the documented translations. spec/TextBody.tla."""
from __future__ import annotations

import json
import os
import random
import sys
import time
import concurrent.futures as cf

from mbt import engine as E
from mbt.drive import textbody as T

PID = "C04"
ALL = "1,2,3,4,5,6,7,8,9,10,11,12,13,14,15"
CORE = "1,2,3,5,6,11,13"           # NL VT TAB C0 SP PLAIN XESC: the classes the translation distinguishes
TEN = "1,2,3,4,5,6,7,8,11,13"       # + CR LT AMP (length 4)
SITES3 = '"frame","cell","shape","nobody","spanned"'
CFG = """SPECIFICATION Spec
CONSTANTS MAXLEN = %(maxlen)d
 ALPHA = {%(alpha)s}
 PRIORS = {%(priors)s}
 SITES = {%(sites)s}
 DEPTH = %(depth)d
 BUILD = %(build)s
 REASSIGN = %(reassign)s
VIEW ViewSt
PROPERTY Refines
CHECK_DEADLOCK FALSE
"""
BATCH = 160
ASSIGN = ("SetFrame", "SetCell", "SetShapeText", "SetPara", "SetRun")
SR = {"op": "SaveReopen"}


def explore(work, name, **kw):
    d = dict(maxlen=2, alpha=ALL, priors="1,2,3,4,5", sites=SITES3, depth=1, build="FALSE", reassign="TRUE")
    d.update(kw)
    cfg = os.path.join(work, "MC_TextBody_%s.cfg" % name)
    with open(cfg, "w") as f:
        f.write(CFG % d)
    # DEPTH > 1: one worker, so that the history TLC keeps for a body reached several ways is always the same one
    r = E.run_tlc("MC_TextBody", cfg, work=work, workers=8 if d["depth"] == 1 else 1, timeout=3000, extra=["-coverage", "1"], heap="6g")
    if r.invariant_violated or r.action_prop_violated or "is violated" in r.out:
        raise E.MachineryError("design-level check failed in MC_TextBody[%s]: %s (the Impl transcription no longer satisfies the "
                               "property layer; see %s)" % (name, r.action_prop_violated, work))
    cases = r.printed("CASE")
    priors = r.printed("PRIORS")
    if not priors or not cases:
        raise E.MachineryError("MC_TextBody[%s] emitted %d cases / %d prior tables" % (name, len(cases), len(priors)))
    cc = r.coverage_counts()
    taken = sum(cc.get(a, 0) for a in ASSIGN + ("AddPara", "AddRun", "AddBreak", "SetParaProp", "ReassignFrame", "ReassignPara"))
    if taken != len(cases):                                     # PrintT lines of concurrent workers must not have been lost or merged
        raise E.MachineryError("MC_TextBody[%s]: %d API transitions taken, %d scenarios parsed" % (name, taken, len(cases)))
    cases.sort(key=lambda h: json.dumps(h, sort_keys=True))     # TLC's output order is not deterministic with several workers
    random.Random(E.seed() + 4).shuffle(cases)                  # mixes levels and lengths evenly over batches and chunks
    return cases, priors[-1], r, d


def scenarios(name, cases, priors, offset=0):
    """One scenario per emitted history; the save/re-open cycles are placed by the batch pattern:
    0: acts SR SR   1: SR acts SR SR (the prior body has itself been through a package round trip)
    2: acts SR      3: SR between the actions and after them."""
    out = []
    for i, h in enumerate(cases):
        pat = ((i + offset) // BATCH) % 4
        acts = h[1:]
        if pat == 0:
            seq = acts + [SR, SR]
        elif pat == 1:
            seq = [SR] + acts + [SR, SR]
        elif pat == 2:
            seq = acts + [SR]
        else:
            seq = [x for a in acts for x in (a, SR)]
        out.append({"id": "%s:%d" % (name, i), "site": h[0]["site"], "prior": h[0]["id"], "build": priors[h[0]["id"] - 1], "acts": seq})
    return out


def _chunk_job(args):
    """Worker: drive one chunk of scenarios on the real library, write the traces, have TLC validate them."""
    ix, scns, seed, work = args
    t0 = time.time()
    traces = []
    for i in range(0, len(scns), BATCH):
        traces += T.run_batch(scns[i:i + BATCH], seed)
    used, ops = set(), {}
    for t in traces:
        used.update(t.pop("used"))
        for s in t["steps"]:
            ops[s["a"]["op"]] = ops.get(s["a"]["op"], 0) + 1
    t1 = time.time()
    sub = os.path.join(work, "obs", "%04d" % ix)
    os.makedirs(sub, exist_ok=True)
    path = os.path.join(sub, "traces.json")
    with open(path, "w") as f:
        json.dump({"traces": traces}, f, separators=(",", ":"))
    r = E.run_tlc("Trace_TextBody", "Trace_TextBody.cfg", work=sub, env={"TRACE_FILE": path}, workers=1, timeout=3000, heap="3g")
    summ = r.printed("SUMMARY")
    if not summ:
        raise E.MachineryError("no SUMMARY from Trace_TextBody on %s:\n%s" % (path, "\n".join(r.out.splitlines()[-15:])))
    return {"path": path, "bad": r.printed("VERDICT"), "summary": summ[-1], "used": sorted(used), "ops": ops, "n": len(traces),
            "drive_s": t1 - t0, "validate_s": time.time() - t1}


def load_traces(paths):
    out = []
    for p in paths:
        with open(p) as f:
            out += json.load(f)["traces"]
    return out


def selftest(traces, work):
    """Corrupt one recorded field per clause family; TLC must reject exactly the corrupted copies at that step."""
    def pick(pred):
        for t in traces:
            for k, s in enumerate(t["steps"]):
                if not s["same"] and pred(t, k, s):
                    return json.loads(json.dumps(t)), k
        raise E.MachineryError("selftest: no recorded step to corrupt")
    want, objs = {}, []

    def add(tag, tr, k, clause):
        tr["id"] = "selftest:" + tag
        want[tr["id"]] = (k + 1, clause)
        objs.append(tr)
    # a) one character of the public frame reader changes class
    tr, k = pick(lambda t, k, s: s["a"]["op"] in ("SetFrame", "SetCell", "SetShapeText") and T.PLAIN in s["a"]["s"] and len(s["a"]["s"]) >= 2)
    clean = json.loads(json.dumps(tr))                       # the untouched original of (a) must be accepted
    clean["id"] = "selftest:clean"
    objs.append(clean)
    rd = tr["steps"][k]["t"]["rd"]["frame"]
    ix = next(i for i, c in enumerate(rd) if c % 16 == T.PLAIN and c < 1000)
    rd[ix] = T.AMP
    add("char", tr, k, "ReadBack")
    # b) a line-break element goes missing from the tree
    tr, k = pick(lambda t, k, s: s["a"]["op"] == "SetPara" and any(it["k"] == "br" for it in s["t"]["body"][s["a"]["i"] - 1]["items"]))
    items = tr["steps"][k]["t"]["body"][tr["steps"][k]["a"]["i"] - 1]["items"]
    items.remove(next(it for it in items if it["k"] == "br"))
    add("break", tr, k, "BreakPerBreak")
    # c) the assignment is dropped: the state after it is the state before it
    tr, k = pick(lambda t, k, s: s["a"]["op"] == "SetRun" and len(s["a"]["s"]) >= 1)
    tr["steps"][k]["same"], tr["steps"][k]["t"] = True, []
    for s in tr["steps"][k + 1:]:
        s["same"], s["t"] = True, []
    add("dropped", tr, k, "ReadBack")
    # d) paragraph properties lost by a paragraph-level assignment
    tr, k = pick(lambda t, k, s: s["a"]["op"] == "SetPara" and s["t"]["body"][s["a"]["i"] - 1]["props"] not in (0,))
    tr["steps"][k]["t"]["body"][tr["steps"][k]["a"]["i"] - 1]["props"] = 0
    add("props", tr, k, "KeepsProps")
    # e) a whitespace-only run is lost at re-open
    tr, k = pick(lambda t, k, s: s["a"]["op"] in ASSIGN and k + 1 < len(t["steps"]) and t["steps"][k + 1]["a"]["op"] == "SaveReopen"
                 and t["steps"][k + 1]["same"] and any(r == [T.SP] for rs in s["t"]["rd"]["runs"] for r in rs))
    o = json.loads(json.dumps(tr["steps"][k]["t"]))
    pi = next(i for i, rs in enumerate(o["rd"]["runs"]) if [T.SP] in rs)
    ri = o["rd"]["runs"][pi].index([T.SP])
    o["rd"]["runs"][pi][ri] = []
    o["rd"]["paras"][pi] = [c for c in o["rd"]["paras"][pi] if c != T.SP] if o["rd"]["paras"][pi] == [T.SP] else o["rd"]["paras"][pi][:-1]
    tr["steps"][k + 1]["same"], tr["steps"][k + 1]["t"] = False, o
    for s in tr["steps"][k + 2:]:
        s["same"], s["t"] = True, []
    add("reopen", tr, k + 1, "ReopenSameText")
    bad, _, _ = E.validate("Trace_TextBody", {"traces": objs}, work=work, name="selftest")
    got = {v["id"]: v["bad"] for v in bad}
    ok = set(got) == set(want)
    for i, (k, clause) in want.items():
        b = sorted(got.get(i, []), key=lambda x: x["k"])
        ok = ok and bool(b) and b[0]["k"] == k and clause in b[0]["failing"]
    print("SELFTEST %s: corrupted reader char / dropped a:br / dropped assignment / lost props / lost blank run at re-open -> %s" % (
        "ok" if ok else "FAILED", {i: [(x["k"], sorted(x["failing"])) for x in b] for i, b in got.items()}), flush=True)
    if not ok:
        raise E.MachineryError("selftest failed: wanted %s" % want)


def main() -> int:
    rep = E.Report(PID)
    work = E.workdir(PID)
    thorough = E.tier() == "thorough"
    do_selftest = "--selftest" in sys.argv
    replay = sys.argv[sys.argv.index("--replay") + 1] if "--replay" in sys.argv else None
    if thorough:
        cfgs = [("all3", dict(maxlen=3)),
                ("par4", dict(maxlen=4, alpha=TEN, priors="2", sites='"frame"')),
                ("cs4", dict(maxlen=4, alpha=TEN, priors="1", sites='"cell","shape"')),
                ("core5", dict(maxlen=5, alpha=CORE, priors="4", sites='"frame"')),
                ("deep", dict(maxlen=1, alpha=CORE, depth=2, build="TRUE"))]
    else:
        cfgs = [("par3", dict(maxlen=3, priors="2", sites='"frame"')),
                ("cs3", dict(maxlen=3, priors="1", sites='"cell","shape"')),
                ("all2", dict(maxlen=2)),
                ("deep", dict(maxlen=1, alpha=CORE, priors="1,3", depth=2, build="TRUE"))]
    states = trans = 0
    per_cfg, actions, scns = {}, {}, []
    t0 = time.time()
    if replay:
        rp = json.load(open(replay))
        scns = [rp["scenario"]]
        cfgs = []
    with cf.ThreadPoolExecutor(max(1, len(cfgs))) as ex:        # the model-checking runs are independent: run them side by side
        explored = list(ex.map(lambda c: explore(work, c[0], **c[1]), cfgs))
    for (name, kw), (cases, priors, r, consts) in zip(cfgs, explored):
        states += r.distinct
        trans += r.generated
        for a, n in r.coverage_counts().items():
            actions[a] = actions.get(a, 0) + n
        per_cfg[name] = {"cases": len(cases), "tlc_distinct": r.distinct, "tlc_generated": r.generated, "tlc_wall_s": round(r.wall, 1),
                         "constants": {k: v for k, v in consts.items() if k != "alpha"}, "alphabet_classes": len(consts["alpha"].split(","))}
        scns += scenarios(name, cases, priors, offset=len(scns))
        if name == "all2" or name == "all3":
            # the LONG one-assignment histories the specification writes out (every site of this configuration)
            longs = [h for rec in r.printed("LONG") for h in rec]
            per_cfg[name]["long_cases"] = len(longs)
            scns += scenarios(name + "L", sorted(longs, key=lambda h: json.dumps(h, sort_keys=True)), priors, offset=len(scns))
    t_tlc = time.time() - t0
    seed = json.load(open(replay)).get("seed", E.seed()) if replay else E.seed()
    t0 = time.time()
    chunk = BATCH * max(10, min(30, len(scns) // (BATCH * 48)))        # one JVM start per chunk: bigger chunks for the big tier
    jobs = [(n, scns[i:i + chunk], seed, work) for n, i in enumerate(range(0, len(scns), chunk))]
    res = E.pmap(_chunk_job, jobs, procs=16, chunk=1)
    t_run = time.time() - t0
    used = sorted({c for r in res for c in r["used"]})
    tot, ops = {}, {}
    for r in res:
        for k, v in r["summary"].items():
            tot[k] = tot.get(k, 0) + v
        for k, v in r["ops"].items():
            ops[k] = ops.get(k, 0) + v
    ntraces = sum(r["n"] for r in res)
    if ntraces != len(scns) or tot.get("traces") != len(scns):
        raise E.MachineryError("%d scenarios, %d traces driven, %s validated" % (len(scns), ntraces, tot.get("traces")))
    if do_selftest:
        selftest(load_traces([r["path"] for r in res[:4]]), work)
    scid = {s["id"]: s for s in scns}
    rej = []
    for r in res:
        if not r["bad"]:
            continue
        byid = {t["id"]: t for t in load_traces([r["path"]])}
        for v in r["bad"]:
            for b in v["bad"]:
                tr = byid[v["id"]]
                rej.append((sum(len(x.get("s", [])) for x in scid[v["id"]]["acts"]), len(scid[v["id"]]["acts"]), v["id"], b,
                            tr["steps"][b["k"] - 1]["a"], tr))
    rej.sort(key=lambda x: (x[0], x[1], x[2]))
    for _, _, tid, b, a, tr in rej[:2000]:
        sc = scid[tid]
        clause = "+".join(sorted(b["failing"]))
        conc = T.describe(sc, seed)
        rep.reject("%s@%s[%s]" % (clause, a["op"], tr["site"]),
                   {"module": "TextBody", "scenario": sc, "seed": seed, "failing": b, "concrete": conc,
                    "observed_before": _state_at(tr, b["k"] - 1), "observed_after": _state_at(tr, b["k"])},
                   "prior %d in %s, %s; step %d" % (tr["prior"], tr["site"], json.dumps([c for c in conc if "repr" in c or c["op"] == "SaveReopen"])[:400], b["k"]))
    for k, msg in (("driftImpl", "observed bodies differ from ImplBody (property still evaluated on the observed state)"),
                   ("driftReaders", "observations where a public reader differs from the reader computed on the projected tree"),
                   ("driftPrior", "prior bodies differ from the modelled prior")):
        if tot.get(k):
            rep.note("drift: %d %s" % (tot[k], msg))
    if not replay:
        need = ["SetFrame", "SetCell", "SetShapeText", "SetPara", "SetRun", "SaveReopen", "AddPara", "AddRun", "AddBreak", "SetParaProp"]
        if any(not actions.get(a) for a in need):
            raise E.MachineryError("vacuous: action never taken in the model: %s" % {a: actions.get(a, 0) for a in need})
        if any(not ops.get(a) for a in need) or not tot.get("assigns") or not tot.get("reopens"):
            raise E.MachineryError("vacuous: operation never replayed: %s" % ops)
        c0 = [c for c in used if c % 16 == T.C0]
        if len(c0) < len(T.REPS[T.C0]):
            raise E.MachineryError("only %d of the %d other C0 controls were used" % (len(c0), len(T.REPS[T.C0])))
    mid = scns[len(scns) // 2]
    smp = [{"id": s["id"], "site": s["site"], "prior": s["prior"], "calls": T.describe(s, seed)} for s in (scns[0], mid, scns[-1])]
    cov = {"states": max(states, 1), "transitions": max(trans, 1), "traces_validated_against_impl": ntraces,
           "real_steps_validated": tot.get("steps", 0), "assignments_validated": tot.get("assigns", 0),
           "reopen_steps_validated": tot.get("reopens", 0), "configs": per_cfg, "action_counts": actions, "replayed_ops": ops,
           "distinct_concrete_characters": len(used), "validated": tot, "samples": smp, "exhaustive": True,
           "phase_wall_s": {"tlc_explore": round(t_tlc, 1), "drive_and_validate": round(t_run, 1),
                            "drive_cpu": round(sum(r["drive_s"] for r in res), 1), "tlc_validate_cpu": round(sum(r["validate_s"] for r in res), 1)},
           "rule": "TLC enumerates every string of length <= MAXLEN over the class alphabet at every level (frame/cell/shape, every "
                   "paragraph, every run) on every prior body x container of the config, plus histories of 2 actions incl. builders "
                   "(one per reachable body x action); each emitted history is replayed on a real text box / table cell / autoshape "
                   "with per-position concrete representatives (all 28 other C0 controls, CR, astral, C1, DEL, markup, escape "
                   "look-alikes), followed (or preceded) by save/re-open cycles; TLC evaluates every named clause on every observed step"}
    return rep.finish("model_checking", cov, ["TLC 1.8", "body read from the lxml tree (a:p / a:r / a:br / a:fld / a:pPr), text from the public .text readers",
                                             "characters beyond the representative table are not exercised; strings are bounded by MAXLEN",
                                             "TAB may read back kept (documented) or escaped (literal statement): both accepted",
                                             "a:fld prior content is written into the tree directly (no public API creates fields)"])


def _state_at(tr, k):
    while k > 0 and tr["steps"][k - 1]["same"]:
        k -= 1
    return tr["pre"] if k == 0 else tr["steps"][k - 1]["t"]


if __name__ == "__main__":
    E.main_wrap(main)
