"""XSD validity monitor: ISO/IEC 29500-4 transitional schemas shipped in /repo/spec, after markup-compatibility preprocessing.
Returns error SIGNATURES (normalised, value-free) so that a baseline can be subtracted and findings can be named narrowly."""
from __future__ import annotations

import copy
import hashlib
import os
import re

from lxml import etree

from mbt.engine import REPO

XSD_DIR = os.path.join(REPO, "spec/ISO-IEC-29500-4/xsd")
P = "http://schemas.openxmlformats.org/presentationml/2006/main"
A = "http://schemas.openxmlformats.org/drawingml/2006/main"
C = "http://schemas.openxmlformats.org/drawingml/2006/chart"
R = "http://schemas.openxmlformats.org/officeDocument/2006/relationships"
MC = "http://schemas.openxmlformats.org/markup-compatibility/2006"
CDR = "http://schemas.openxmlformats.org/drawingml/2006/chartDrawing"
PIC = "http://schemas.openxmlformats.org/drawingml/2006/picture"
UNDERSTOOD = {P, A, C, R, CDR, PIC}
_SCHEMAS: dict = {}
_FILES = {P: "pml.xsd", C: "dml-chart.xsd", A: "dml-main.xsd"}


def schema_for(ns: str):
    if ns not in _FILES:
        return None
    if ns not in _SCHEMAS:
        _SCHEMAS[ns] = etree.XMLSchema(etree.parse(os.path.join(XSD_DIR, _FILES[ns])))
    return _SCHEMAS[ns]


def q(ns, n):
    return "{%s}%s" % (ns, n)


def mce(root):
    """Markup-compatibility preprocessing (ISO/IEC 29500-3) on a copy: mc:AlternateContent -> first mc:Choice whose Requires
    namespaces are all understood (only the transitional ones are), else mc:Fallback; elements/attributes of mc:Ignorable
    namespaces and mc:* attributes are dropped."""
    root = copy.deepcopy(root)
    ign = set()
    for el in root.iter():
        if isinstance(el.tag, str) and el.get(q(MC, "Ignorable")):
            for pfx in el.get(q(MC, "Ignorable")).split():
                if el.nsmap.get(pfx):
                    ign.add(el.nsmap[pfx])
    for ac in list(root.iter(q(MC, "AlternateContent"))):
        parent = ac.getparent()
        if parent is None:
            continue
        chosen = None
        for ch in ac:
            if ch.tag == q(MC, "Choice"):
                req = [ch.nsmap.get(p) for p in (ch.get("Requires") or "").split()]
                if req and all(r in UNDERSTOOD for r in req):
                    chosen = ch
                    break
        if chosen is None:
            chosen = ac.find(q(MC, "Fallback"))
        at = parent.index(ac)
        kids = list(chosen) if chosen is not None else []
        parent.remove(ac)
        for k, kid in enumerate(kids):
            parent.insert(at + k, kid)
    for el in list(root.iter()):
        if not isinstance(el.tag, str):
            continue
        if etree.QName(el).namespace in ign and el.getparent() is not None:
            el.getparent().remove(el)
            continue
        for a in list(el.attrib):
            if a.startswith("{") and etree.QName(a).namespace in (ign | {MC}):
                del el.attrib[a]
    return etree.fromstring(etree.tostring(root))


_RE_EL = re.compile(r"Element '\{[^}]*\}(\w+)'")
_RE_AT = re.compile(r"attribute '(?:\{[^}]*\})?(\w+)'")
_RE_EXP = re.compile(r"Expected is (?:one of )?\( (.*?) \)")


def errors(blob_or_root) -> list[str]:
    """Sorted error signatures of an XML part ([] = valid or no schema for its root namespace)."""
    root = etree.fromstring(blob_or_root) if isinstance(blob_or_root, (bytes, str)) else blob_or_root
    ns = etree.QName(root).namespace
    sch = schema_for(ns)
    if sch is None:
        return []
    r = mce(root)
    if sch.validate(r):
        return []
    out = set()
    for e in sch.error_log:
        m = e.message
        el = _RE_EL.search(m)
        name = el.group(1) if el else "?"
        at = _RE_AT.search(m)
        if "This element is not expected" in m:
            parent = ""
            try:
                node = r.getroottree().xpath(e.path, namespaces={k: v for k, v in r.nsmap.items() if k}) if e.path else []
                parent = etree.QName(node[0].getparent()).localname + "/" if node and node[0].getparent() is not None else ""
            except Exception:
                parent = ""
            out.add("unexpected:%s%s" % (parent, name))
        elif "Missing child element" in m:
            out.add("missing-child-of:%s" % name)
        elif at and ("is not a valid value" in m or "facet" in m or "is not an element of the set" in m):
            if "atomic type" in m and any(("facet" in x.message and x.line == e.line) for x in sch.error_log if x is not e):
                continue              # libxml2 prints a second line for the same attribute
            out.add("bad-value:%s@%s" % (name, at.group(1)))
        elif "is required but missing" in m:
            out.add("missing-attr:%s@%s" % (name, at.group(1) if at else "?"))
        elif "is not allowed" in m and at:
            out.add("attr-not-allowed:%s@%s" % (name, at.group(1)))
        elif "is not a valid value" in m or "facet" in m:
            out.add("bad-text:%s" % name)
        else:
            out.add("other:%s:%s" % (name, hashlib.sha1(re.sub(r"'[^']*'", "", m).encode()).hexdigest()[:6]))
    return sorted(out)
