"""Operation catalogue for SlideOps.tla (C03): every public mutator the check drives, with the object kinds it applies to,
the flags it needs (enabling condition) and the flags it sets/clears.  The TLA+ machine interprets this table; the driver
executes `fn(ctx)`.  ctx.sh is the object under test (shape / graphic frame / slide), ctx.slide its slide, ctx.prs the deck."""
from __future__ import annotations

import io

from pptx.dml.color import RGBColor
from pptx.enum.chart import XL_LEGEND_POSITION, XL_TICK_LABEL_POSITION, XL_TICK_MARK, XL_DATA_LABEL_POSITION, XL_MARKER_STYLE
from pptx.enum.dml import MSO_LINE, MSO_PATTERN, MSO_THEME_COLOR
from pptx.enum.text import MSO_ANCHOR, MSO_AUTO_SIZE, PP_ALIGN, MSO_UNDERLINE
from pptx.util import Emu, Pt

TEXTY = ["autoshape", "textbox", "ph_title", "ph_body"]
SHAPEY = ["autoshape", "textbox", "freeform"]
FILLY = ["autoshape", "textbox", "freeform"]
LINEY = ["autoshape", "textbox", "freeform", "connector"]
GEOM = ["autoshape", "textbox", "picture", "connector", "freeform", "table", "chart_bar", "chart_pie", "movie", "ole", "ph_title", "ph_body", "group"]
# chart_date: a line chart whose categories are dates - its category axis is a c:dateAx
CHARTS = ["chart_bar", "chart_line", "chart_pie", "chart_xy", "chart_bubble", "chart_date"]
AXCHARTS = ["chart_bar", "chart_line", "chart_xy", "chart_bubble", "chart_date"]
CATCHARTS = ["chart_bar", "chart_line", "chart_pie", "chart_date"]

OPS: list[dict] = []


def op(name, kinds, pre=(), set_=(), clr=(), rejects=()):
    def deco(fn):
        OPS.append({"name": name, "kinds": list(kinds), "pre": list(pre), "set": list(set_), "clr": list(clr), "rejects": list(rejects), "fn": fn})
        return fn
    return deco


# ---------------------------------------------------------------- text
def _tf(c):
    return c.sh.text_frame


@op("text.set", TEXTY, set_=["text"], clr=["p2"])
def _(c): _tf(c).text = "Hello & <World>"


@op("text.set_multi", TEXTY, set_=["text", "p2"])
def _(c): _tf(c).text = "first\nsecond\vbroken\n\nlast"


@op("text.set_leading_break", TEXTY, set_=["text"], clr=["p2"])
def _(c): _tf(c).text = "\vstarts with a break"


@op("text.set_empty", TEXTY, clr=["text", "p2"])
def _(c): _tf(c).text = ""


@op("text.clear", TEXTY, clr=["text", "p2"])
def _(c): _tf(c).clear()


@op("text.add_paragraph", TEXTY, set_=["p2"])
def _(c): _tf(c).add_paragraph().text = "added paragraph"


@op("text.fit_text", TEXTY, pre=["text"])
def _(c):
    try:
        _tf(c).fit_text(max_size=18)
    except (OSError, KeyError):      # no usable font file on this machine: the call changes nothing
        pass


@op("text.auto_size", TEXTY)
def _(c): _tf(c).auto_size = MSO_AUTO_SIZE.SHAPE_TO_FIT_TEXT


@op("text.auto_size_none", TEXTY)
def _(c): _tf(c).auto_size = None


@op("text.word_wrap", TEXTY)
def _(c): _tf(c).word_wrap = False


@op("text.word_wrap_none", TEXTY)
def _(c): _tf(c).word_wrap = None


@op("text.margins", TEXTY)
def _(c):
    tf = _tf(c)
    tf.margin_left, tf.margin_top, tf.margin_right, tf.margin_bottom = Emu(0), Emu(91440), Emu(45720), Emu(1)


@op("text.vertical_anchor", TEXTY)
def _(c): _tf(c).vertical_anchor = MSO_ANCHOR.MIDDLE


@op("text.vertical_anchor_none", TEXTY)
def _(c): _tf(c).vertical_anchor = None


@op("para.alignment", TEXTY)
def _(c): _tf(c).paragraphs[0].alignment = PP_ALIGN.CENTER


@op("para.alignment_none", TEXTY)
def _(c): _tf(c).paragraphs[0].alignment = None


@op("para.level", TEXTY)
def _(c): _tf(c).paragraphs[0].level = 3


@op("para.line_spacing", TEXTY)
def _(c): _tf(c).paragraphs[0].line_spacing = 1.5


@op("para.line_spacing_pt", TEXTY)
def _(c): _tf(c).paragraphs[0].line_spacing = Pt(14)


@op("para.space_before_after", TEXTY)
def _(c):
    p = _tf(c).paragraphs[0]
    p.space_before, p.space_after = Pt(6), Pt(0)


@op("para.space_none", TEXTY)
def _(c):
    p = _tf(c).paragraphs[0]
    p.space_before = None
    p.line_spacing = None


@op("para.text", TEXTY, set_=["text"])
def _(c): _tf(c).paragraphs[0].text = "para\vtext"


@op("para.add_run", TEXTY, set_=["text"])
def _(c): _tf(c).paragraphs[0].add_run().text = "run"


@op("para.add_line_break", TEXTY)
def _(c): _tf(c).paragraphs[0].add_line_break()


@op("para.clear", TEXTY, clr=["text"])
def _(c): _tf(c).paragraphs[0].clear()


@op("para.font", TEXTY)
def _(c):
    f = _tf(c).paragraphs[0].font
    f.size, f.bold = Pt(11), True


@op("para.last.alignment", TEXTY, pre=["p2"])
def _(c): _tf(c).paragraphs[-1].alignment = PP_ALIGN.RIGHT


def _run(c):
    p = _tf(c).paragraphs[0]
    return p.runs[0] if p.runs else p.add_run()


@op("run.font_basic", TEXTY, pre=["text"])
def _(c):
    f = _run(c).font
    f.size, f.bold, f.italic, f.underline, f.name = Pt(40.5), True, False, MSO_UNDERLINE.WAVY_LINE, "Noto Sans"


@op("run.font_none", TEXTY, pre=["text"])
def _(c):
    f = _run(c).font
    f.size, f.bold, f.italic, f.underline, f.name = None, None, None, None, None


@op("run.font_color_rgb", TEXTY, pre=["text"])
def _(c): _run(c).font.color.rgb = RGBColor(0x12, 0xAB, 0xEF)


@op("run.font_color_theme", TEXTY, pre=["text"])
def _(c):
    col = _run(c).font.color
    col.theme_color = MSO_THEME_COLOR.ACCENT_2
    col.brightness = -0.25


@op("run.font_fill_gradient", TEXTY, pre=["text"])
def _(c): _run(c).font.fill.gradient()


@op("run.font_language", TEXTY, pre=["text"])
def _(c):
    from pptx.enum.lang import MSO_LANGUAGE_ID
    _run(c).font.language_id = MSO_LANGUAGE_ID.FRENCH


@op("run.hyperlink", TEXTY, pre=["text"])
def _(c): _run(c).hyperlink.address = "http://example.invalid/?a=1&b=2"


@op("run.hyperlink_none", TEXTY, pre=["text"])
def _(c): _run(c).hyperlink.address = None


@op("run.text", TEXTY, pre=["text"])
def _(c): _run(c).text = "tab\there\x07bell"


# ---------------------------------------------------------------- fill / line / shadow / geometry
@op("fill.solid_rgb", FILLY, clr=["radial"])
def _(c):
    c.sh.fill.solid()
    c.sh.fill.fore_color.rgb = RGBColor(1, 2, 3)


@op("fill.solid_theme", FILLY, clr=["radial"])
def _(c):
    c.sh.fill.solid()
    c.sh.fill.fore_color.theme_color = MSO_THEME_COLOR.ACCENT_1
    c.sh.fill.fore_color.brightness = 0.4


@op("fill.gradient", FILLY, clr=["radial"])
def _(c):
    f = c.sh.fill
    f.gradient()
    f.gradient_angle = 359.999999
    f.gradient_stops[0].color.rgb = RGBColor(9, 9, 9)
    f.gradient_stops[0].position = 0.25


@op("fill.authored_radial_gradient", FILLY, set_=["radial"])
def _(c):
    # not an API call: the fill as PowerPoint writes a radial ("path") gradient, put into the shape's spPr with lxml - python-pptx
    # itself only makes linear gradients
    from lxml import etree
    A_ = "http://schemas.openxmlformats.org/drawingml/2006/main"
    c.sh.fill.gradient()
    gf = c.sh._element.spPr.find("{%s}gradFill" % A_)
    for el in gf.findall("{%s}lin" % A_) + gf.findall("{%s}path" % A_):     # (the op may be applied to a fill that is radial already)
        gf.remove(el)
    path = etree.fromstring('<a:path xmlns:a="%s" path="circle"><a:fillToRect l="50000" t="50000" r="50000" b="50000"/></a:path>' % A_)
    tile = gf.find("{%s}tileRect" % A_)
    if tile is not None:
        tile.addprevious(path)
    else:
        gf.append(path)


@op("reject.gradient_angle_on_radial", FILLY, pre=["radial"], rejects=["ValueError"])
def _(c): c.sh.fill.gradient_angle = 45           # "raises ValueError for a non-linear gradient (e.g. a radial gradient)"


@op("fill.patterned", FILLY, clr=["radial"])
def _(c):
    f = c.sh.fill
    f.patterned()
    f.pattern = MSO_PATTERN.DIVOT
    f.fore_color.rgb = RGBColor(200, 0, 0)
    f.back_color.theme_color = MSO_THEME_COLOR.BACKGROUND_1


@op("fill.background", FILLY, clr=["radial"])
def _(c): c.sh.fill.background()


@op("line.width_dash", LINEY)
def _(c):
    ln = c.sh.line
    ln.width = Pt(2.25)
    ln.dash_style = MSO_LINE.DASH_DOT


@op("line.color", LINEY)
def _(c): c.sh.line.color.rgb = RGBColor(0, 128, 0)


@op("line.fill_background", LINEY)
def _(c): c.sh.line.fill.background()


@op("line.dash_none_width0", LINEY)
def _(c):
    c.sh.line.dash_style = None
    c.sh.line.width = 0


@op("shadow.inherit_false", SHAPEY + ["picture", "connector"])
def _(c): c.sh.shadow.inherit = False


@op("shadow.inherit_true", SHAPEY + ["picture", "connector"])
def _(c): c.sh.shadow.inherit = True


@op("geom.move_resize", GEOM)
def _(c): c.sh.left, c.sh.top, c.sh.width, c.sh.height = Emu(-5), Emu(0), Emu(1234567), Emu(1)


@op("geom.rotation", ["autoshape", "textbox", "picture", "freeform", "ph_title", "ph_body"])
def _(c): c.sh.rotation = -450.5


@op("geom.rotation_zero", ["autoshape", "textbox", "picture", "freeform"])
def _(c): c.sh.rotation = 0


@op("shape.name", GEOM)
def _(c): c.sh.name = "Renamed <shape> & \"co\""


@op("shape.click_hyperlink", ["autoshape", "textbox", "picture"])
def _(c): c.sh.click_action.hyperlink.address = "https://example.invalid/x"


@op("shape.click_jump", ["autoshape", "textbox", "picture"])
def _(c): c.sh.click_action.target_slide = c.prs.slides[0]


@op("shape.click_clear", ["autoshape", "textbox", "picture"])
def _(c):
    c.sh.click_action.hyperlink.address = None
    c.sh.click_action.target_slide = None


@op("autoshape.adjustment", ["autoshape"])
def _(c): c.sh.adjustments[0] = 0.3


@op("picture.crop", ["picture"])
def _(c): c.sh.crop_left, c.sh.crop_right, c.sh.crop_top, c.sh.crop_bottom = 0.1, 0.0, -0.2, 0.999


@op("picture.auto_shape_type", ["picture"])
def _(c):
    from pptx.enum.shapes import MSO_SHAPE
    c.sh.auto_shape_type = MSO_SHAPE.OVAL


@op("picture.line", ["picture"])
def _(c): c.sh.line.width = Pt(1)


@op("connector.endpoints", ["connector"])
def _(c): c.sh.begin_x, c.sh.end_y = Emu(999999), Emu(3)


@op("connector.connect", ["connector"])
def _(c):
    target = next(s for s in c.slide.shapes if s.shape_id != c.sh.shape_id and s.has_text_frame)
    c.sh.begin_connect(target, 0)
    c.sh.end_connect(target, 2)


@op("group.add_members", ["group"])
def _(c):
    from pptx.enum.shapes import MSO_SHAPE
    c.sh.shapes.add_shape(MSO_SHAPE.DIAMOND, 10, 10, 100, 100)
    c.sh.shapes.add_textbox(300, 300, 50, 50).text_frame.text = "in group"
    c.sh.shapes.add_group_shape()


@op("group.add_picture_connector", ["group"])
def _(c):
    from pptx.enum.shapes import MSO_CONNECTOR
    c.sh.shapes.add_picture(io.BytesIO(c.png), 5, 5)
    c.sh.shapes.add_connector(MSO_CONNECTOR.ELBOW, 0, 0, 50, 60)


# ---------------------------------------------------------------- table
def _tbl(c):
    return c.sh.table


@op("table.cell_text", ["table"])
def _(c): _tbl(c).cell(0, 0).text = "a\nb\vc"


@op("table.merge", ["table"], set_=["merged"])
def _(c):
    if not _tbl(c).cell(0, 0).is_merge_origin:
        _tbl(c).cell(0, 0).merge(_tbl(c).cell(1, 1))


@op("table.merge_overlap", ["table"], pre=["merged"], rejects=["ValueError"])
def _(c): _tbl(c).cell(1, 1).merge(_tbl(c).cell(2, 2))


@op("table.split", ["table"], pre=["merged"], clr=["merged"])
def _(c): _tbl(c).cell(0, 0).split()


@op("table.split_unmerged", ["table"], rejects=["ValueError"])
def _(c): _tbl(c).cell(2, 2).split()


@op("table.cell_fill_margins", ["table"])
def _(c):
    cell = _tbl(c).cell(1, 0)
    cell.fill.solid()
    cell.fill.fore_color.rgb = RGBColor(5, 6, 7)
    cell.margin_left, cell.margin_bottom = Emu(10), Emu(20)
    cell.vertical_anchor = MSO_ANCHOR.BOTTOM


@op("table.cell_reset", ["table"])
def _(c):
    cell = _tbl(c).cell(1, 0)
    cell.margin_left = None
    cell.vertical_anchor = None
    cell.fill.background()


@op("table.flags", ["table"])
def _(c):
    t = _tbl(c)
    t.first_row, t.first_col, t.last_row, t.last_col, t.horz_banding, t.vert_banding = False, True, True, True, False, True


@op("table.sizes", ["table"])
def _(c):
    _tbl(c).columns[0].width = Emu(777)
    _tbl(c).rows[1].height = Emu(999)


@op("table.cell_font", ["table"])
def _(c):
    tf = _tbl(c).cell(2, 1).text_frame
    tf.text = "x"
    tf.paragraphs[0].runs[0].font.bold = True
    tf.paragraphs[0].alignment = PP_ALIGN.JUSTIFY


@op("table.bad_cell", ["table"], rejects=["IndexError"])
def _(c): _tbl(c).cell(9, 9)


# ---------------------------------------------------------------- chart
def _ch(c):
    return c.sh.chart


@op("chart.legend_on", CHARTS, set_=["legend"])
def _(c):
    ch = _ch(c)
    ch.has_legend = True
    ch.legend.position = XL_LEGEND_POSITION.BOTTOM
    ch.legend.include_in_layout = False
    ch.legend.font.size = Pt(9)


@op("chart.legend_offset", CHARTS, pre=["legend"])
def _(c): _ch(c).legend.horz_offset = -0.5


@op("chart.legend_off", CHARTS, clr=["legend"])
def _(c): _ch(c).has_legend = False


@op("chart.title_on", CHARTS, set_=["title"])
def _(c):
    ch = _ch(c)
    ch.has_title = True
    ch.chart_title.text_frame.text = "Title & <more>"


@op("chart.title_format", CHARTS, pre=["title"])
def _(c): _ch(c).chart_title.format.fill.solid()


@op("chart.title_off", CHARTS, clr=["title"])
def _(c): _ch(c).has_title = False


@op("chart.style_font", CHARTS)
def _(c):
    ch = _ch(c)
    ch.chart_style = 48
    ch.font.size = Pt(10)
    ch.font.italic = True


@op("chart.style_none", CHARTS)
def _(c): _ch(c).chart_style = None


@op("chart.value_axis_scale", AXCHARTS)
def _(c):
    ax = _ch(c).value_axis
    ax.minimum_scale, ax.maximum_scale, ax.major_unit, ax.minor_unit = -10, 123.5, 20, 5


@op("chart.value_axis_scale_none", AXCHARTS)
def _(c):
    ax = _ch(c).value_axis
    ax.minimum_scale, ax.maximum_scale, ax.major_unit, ax.minor_unit = None, None, None, None


@op("chart.value_axis_look", AXCHARTS)
def _(c):
    ax = _ch(c).value_axis
    ax.has_major_gridlines, ax.has_minor_gridlines = True, True
    ax.major_tick_mark, ax.minor_tick_mark = XL_TICK_MARK.CROSS, XL_TICK_MARK.INSIDE
    ax.tick_label_position = XL_TICK_LABEL_POSITION.LOW
    ax.visible = False
    ax.format.line.width = Pt(1)
    ax.major_gridlines.format.line.color.rgb = RGBColor(1, 1, 1)


@op("chart.value_axis_title", AXCHARTS, set_=["axtitle"])
def _(c):
    ax = _ch(c).value_axis
    ax.has_title = True
    ax.axis_title.text_frame.text = "Axis"


@op("chart.value_axis_title_off", AXCHARTS, clr=["axtitle"])
def _(c): _ch(c).value_axis.has_title = False


@op("chart.tick_labels", AXCHARTS)
def _(c):
    tl = _ch(c).value_axis.tick_labels
    tl.number_format, tl.number_format_is_linked = '0.0"%"', False
    tl.font.size = Pt(8)


@op("chart.category_axis", ["chart_bar", "chart_line"])
def _(c):
    ax = _ch(c).category_axis
    ax.reverse_order = True
    ax.has_major_gridlines = True
    ax.tick_labels.font.bold = True
    ax.tick_labels.offset = 50
    ax.visible = True


@op("chart.date_axis", ["chart_date"])
def _(c):
    ax = _ch(c).category_axis
    ax.reverse_order = True
    ax.has_major_gridlines = True
    ax.tick_labels.font.bold = True
    ax.major_tick_mark = XL_TICK_MARK.OUTSIDE
    ax.visible = True


@op("reject.date_axis_offset", ["chart_date"], rejects=["ValueError"])
def _(c): _ch(c).category_axis.tick_labels.offset = 50          # "only a category axis has an offset"


@op("chart.plot_dlbls_on", CHARTS, set_=["dlbls"])
def _(c):
    pl = _ch(c).plots[0]
    pl.has_data_labels = True
    dl = pl.data_labels
    dl.number_format, dl.number_format_is_linked = "0.00", False
    dl.show_value, dl.show_category_name, dl.show_series_name, dl.show_legend_key, dl.show_percentage = True, True, False, True, False
    dl.font.size = Pt(7)


@op("chart.plot_dlbls_position", CATCHARTS, pre=["dlbls"])
def _(c): _ch(c).plots[0].data_labels.position = XL_DATA_LABEL_POSITION.CENTER


@op("chart.plot_dlbls_off", CHARTS, clr=["dlbls"])
def _(c): _ch(c).plots[0].has_data_labels = False


@op("chart.plot_bar_props", ["chart_bar"])
def _(c):
    pl = _ch(c).plots[0]
    pl.gap_width, pl.overlap, pl.vary_by_categories = 55, -20, True


@op("chart.plot_bubble_scale", ["chart_bubble"])
def _(c): _ch(c).plots[0].bubble_scale = 50


@op("chart.plot_bubble_scale_none", ["chart_bubble"])
def _(c): _ch(c).plots[0].bubble_scale = None


@op("chart.plot_vary", ["chart_pie", "chart_line"])
def _(c): _ch(c).plots[0].vary_by_categories = False


@op("chart.series_format", CHARTS)
def _(c):
    s = _ch(c).plots[0].series[0]
    s.format.fill.solid()
    s.format.fill.fore_color.rgb = RGBColor(10, 20, 30)
    s.format.line.width = Pt(3)


@op("chart.series_invert", ["chart_bar"])
def _(c): _ch(c).plots[0].series[0].invert_if_negative = False


@op("chart.series_smooth_marker", ["chart_line", "chart_xy"])
def _(c):
    s = _ch(c).plots[0].series[0]
    s.smooth = True
    s.marker.style, s.marker.size = XL_MARKER_STYLE.DIAMOND, 9
    s.marker.format.fill.solid()


@op("chart.series_data_labels", CATCHARTS)
def _(c):
    dl = _ch(c).plots[0].series[0].data_labels
    dl.show_value = True
    dl.position = XL_DATA_LABEL_POSITION.CENTER


@op("chart.point_format", ["chart_bar", "chart_line", "chart_pie", "chart_xy"])
def _(c):
    pt = _ch(c).plots[0].series[0].points[1]
    pt.format.fill.solid()
    pt.format.fill.fore_color.theme_color = MSO_THEME_COLOR.ACCENT_3


@op("chart.point_marker", ["chart_line", "chart_xy"])
def _(c): _ch(c).plots[0].series[0].points[0].marker.style = XL_MARKER_STYLE.STAR


@op("chart.point_data_label", ["chart_bar", "chart_line", "chart_pie", "chart_xy", "chart_bubble"])
def _(c):
    dl = _ch(c).plots[0].series[0].points[0].data_label
    dl.has_text_frame = True
    dl.text_frame.text = "custom"
    dl.font.bold = True


@op("chart.point_data_label_position", ["chart_bar", "chart_line", "chart_pie"])
def _(c): _ch(c).plots[0].series[0].points[1].data_label.position = XL_DATA_LABEL_POSITION.CENTER


@op("chart.replace_data_same", CATCHARTS)
def _(c):
    from pptx.chart.data import CategoryChartData
    cd = CategoryChartData()
    cd.categories = ["x", "y", "z"]
    cd.add_series("A", (1, None, 3))
    cd.add_series("B", (4, 5, 6))
    _ch(c).replace_data(cd)


@op("chart.replace_data_shrink", CATCHARTS)
def _(c):
    from pptx.chart.data import CategoryChartData
    cd = CategoryChartData(number_format="0.0")
    cd.categories = ["only"]
    cd.add_series("One", (7,))
    _ch(c).replace_data(cd)


@op("chart.replace_data_grow", CATCHARTS)
def _(c):
    from pptx.chart.data import CategoryChartData
    cd = CategoryChartData()
    cd.categories = ["a", "b", "c", "d"]
    for k in range(5):
        cd.add_series("S%d" % k, (k, k + 1, None, k + 3))
    _ch(c).replace_data(cd)


@op("chart.replace_data_xy", ["chart_xy"])
def _(c):
    from pptx.chart.data import XyChartData
    cd = XyChartData()
    s = cd.add_series("P")
    s.add_data_point(1.5, -2)
    s.add_data_point(3, 4)
    cd.add_series("Q")
    _ch(c).replace_data(cd)


@op("chart.replace_data_bubble", ["chart_bubble"])
def _(c):
    from pptx.chart.data import BubbleChartData
    cd = BubbleChartData()
    s = cd.add_series("B1")
    s.add_data_point(1, 2, 3)
    _ch(c).replace_data(cd)


# ---------------------------------------------------------------- slide-level
@op("slide.background_solid", ["slide"])
def _(c):
    f = c.slide.background.fill
    f.solid()
    f.fore_color.rgb = RGBColor(250, 250, 210)


@op("slide.authored_background_style", ["slide"])
def _(c):
    # not an API call: the slide's background as PowerPoint writes it when a Background Style is picked on the Design tab - a theme
    # reference p:bg/p:bgRef (what the default template's slide master carries); put into p:cSld with lxml, replacing any p:bg there
    from lxml import etree
    P_ = "http://schemas.openxmlformats.org/presentationml/2006/main"
    A_ = "http://schemas.openxmlformats.org/drawingml/2006/main"
    cs = c.slide._element.find("{%s}cSld" % P_)
    for el in cs.findall("{%s}bg" % P_):
        cs.remove(el)
    from pptx.oxml import parse_xml
    cs.insert(0, parse_xml('<p:bg xmlns:p="%s" xmlns:a="%s"><p:bgRef idx="1001"><a:schemeClr val="bg1"/></p:bgRef></p:bg>' % (P_, A_)))


@op("slide.background_gradient", ["slide"])
def _(c): c.slide.background.fill.gradient()


@op("slide.background_patterned", ["slide"])
def _(c): c.slide.background.fill.patterned()


@op("slide.background_none", ["slide"])
def _(c): c.slide.background.fill.background()


@op("slide.follow_master", ["slide"])
def _(c): c.slide.follow_master_background  # read only; here for pairing with the setters above


@op("slide.notes", ["slide"])
def _(c): c.slide.notes_slide.notes_text_frame.text = "notes\nsecond line"


@op("slide.notes_placeholder_text", ["slide"])
def _(c):
    ns = c.slide.notes_slide
    for ph in ns.placeholders:
        if ph.has_text_frame:
            ph.text_frame.text = "ph"


@op("slide.name", ["slide"])
def _(c): c.slide.name = "A <slide> & name"


@op("slide.add_each_shape_kind", ["slide"])
def _(c):
    from pptx.enum.shapes import MSO_CONNECTOR, MSO_SHAPE
    sh = c.slide.shapes
    sh.add_shape(MSO_SHAPE.CLOUD, 1, 2, 3, 4)
    sh.add_connector(MSO_CONNECTOR.CURVE, 9, 8, 7, 6)
    sh.add_picture(io.BytesIO(c.png), 0, 0, 50)
    sh.add_table(1, 1, 0, 0, 10, 10)
    sh.add_group_shape()


@op("slide.add_chart_movie_ole", ["slide"])
def _(c):
    from pptx.chart.data import CategoryChartData
    from pptx.enum.chart import XL_CHART_TYPE
    sh = c.slide.shapes
    cd = CategoryChartData()
    cd.categories = ["a"]
    cd.add_series("s", (1,))
    sh.add_chart(XL_CHART_TYPE.DOUGHNUT, 0, 0, 100000, 100000, cd)
    sh.add_movie(io.BytesIO(b"\x00\x00\x00\x18ftypmp42 fake"), 0, 0, 1000, 1000, mime_type="video/mp4")
    sh.add_ole_object(io.BytesIO(b"object bytes"), "Verif.Obj.1", 0, 0)


@op("slide.placeholder_insert", ["slide"])
def _(c):
    s2 = c.prs.slides.add_slide(c.prs.slide_layouts[8])
    for ph in list(s2.placeholders):
        if "PICTURE" in str(ph.placeholder_format.type):
            ph.insert_picture(io.BytesIO(c.png))


def _ph(c, t):
    return next(p for p in c.slide.placeholders if t in str(p.placeholder_format.type))


@op("ph.insert_table", ["ph_insert"], set_=["tbl_used"])
def _(c):
    if "tbl_used" not in c.flags:
        _ph(c, "TABLE").insert_table(2, 3).table.cell(0, 0).text = "t"
        c.flags.add("tbl_used")


@op("ph.insert_chart", ["ph_insert"])
def _(c):
    from pptx.chart.data import CategoryChartData
    from pptx.enum.chart import XL_CHART_TYPE
    if "chart_used" not in c.flags:
        cd = CategoryChartData()
        cd.categories = ["a", "b"]
        cd.add_series("s", (1, 2))
        _ph(c, "CHART").insert_chart(XL_CHART_TYPE.PIE, cd)
        c.flags.add("chart_used")


@op("ph.insert_picture", ["ph_insert"])
def _(c):
    if "pic_used" not in c.flags:
        _ph(c, "PICTURE").insert_picture(io.BytesIO(c.png))
        c.flags.add("pic_used")


@op("ph.object_text", ["ph_insert"])
def _(c): _ph(c, "OBJECT").text_frame.text = "object placeholder\vtext"


@op("slide.bad_index", ["slide"], rejects=["IndexError"])
def _(c): c.prs.slides[99]


@op("slide.bad_rotation", ["slide"], rejects=["TypeError", "ValueError"])
def _(c):
    sh = c.slide.shapes.add_textbox(0, 0, 10, 10)
    sh.rotation = "ninety"


# ---------------------------------------------------------------- refused attribute values ("an out-of-range attribute value ... leaves
# every part as valid as it was"): each call must raise the documented exception and must leave nothing half-written behind
REFUSED = ["ValueError", "TypeError"]


@op("reject.chart_style", CHARTS, rejects=REFUSED)
def _(c): _ch(c).chart_style = 49


@op("reject.chart_font_size", CHARTS, rejects=REFUSED)
def _(c): _ch(c).font.size = Pt(5000)


@op("reject.axis_major_unit", AXCHARTS, rejects=REFUSED)
def _(c): _ch(c).value_axis.major_unit = 0


@op("reject.axis_minor_unit", AXCHARTS, rejects=REFUSED)
def _(c): _ch(c).value_axis.minor_unit = -2.5


@op("reject.axis_maximum", AXCHARTS, rejects=REFUSED)
def _(c): _ch(c).value_axis.maximum_scale = "auto"


@op("reject.axis_minimum", AXCHARTS, rejects=REFUSED)
def _(c): _ch(c).value_axis.minimum_scale = "auto"


@op("reject.bar_gap_width", ["chart_bar"], rejects=REFUSED)
def _(c): _ch(c).plots[0].gap_width = 501


@op("reject.bar_overlap", ["chart_bar"], rejects=REFUSED)
def _(c): _ch(c).plots[0].overlap = 101


@op("reject.bubble_scale", ["chart_bubble"], rejects=REFUSED)
def _(c): _ch(c).plots[0].bubble_scale = 301


@op("reject.marker_size", ["chart_line", "chart_xy"], rejects=REFUSED)
def _(c): _ch(c).plots[0].series[0].marker.size = 1


@op("reject.font_size", TEXTY, rejects=REFUSED)
def _(c): _tf(c).paragraphs[0].font.size = Pt(4001)


@op("reject.paragraph_level", TEXTY, rejects=REFUSED)
def _(c): _tf(c).paragraphs[0].level = 9


@op("reject.space_before", TEXTY, rejects=REFUSED)
def _(c): _tf(c).paragraphs[0].space_before = Pt(1585)


@op("reject.line_width", LINEY, rejects=REFUSED)
def _(c): c.sh.line.width = Emu(20116801)


@op("reject.width_negative", ["autoshape", "textbox", "picture", "table", "chart_bar"], rejects=REFUSED)
def _(c): c.sh.width = Emu(-1)


@op("reject.slide_width", ["slide"], rejects=REFUSED)
def _(c): c.prs.slide_width = Emu(1)


def table() -> list[dict]:
    """The catalogue without the callables (what the TLA+ machine reads)."""
    return [{k: v for k, v in o.items() if k != "fn"} for o in OPS]


BY_NAME = {o["name"]: o for o in OPS}
KINDS = ["autoshape", "textbox", "picture", "connector", "group", "freeform", "table", "chart_bar", "chart_line", "chart_pie", "chart_xy",
         "chart_bubble", "chart_date", "movie", "ole", "ph_title", "ph_body", "slide", "ph_insert"]
