"""C05 sink catalogue: every string-accepting entry point of python-pptx's public API whose argument ends up in XML.

An entry (class Sink) is
    id       "group.what[.variant]"
    setup    setup(prs, scratch)            build the scaffolding on a FRESH presentation (public API only)
    at       at(prs) -> object              navigate from the presentation to the object the string is stored on
    store    store(obj, s, scratch)         the entry point under test
    found    found(prs) -> object           navigate to the object the reader is called on (works on the live AND on the
                                            re-opened presentation; default: `at`)
    read     read(obj) -> str | None        the PUBLIC reader of the same field, or None when there is none; then
    xpath    (member, expr)                 the stored value is read from the saved XML member by XPath (plain lxml)
    owner    zip member name of the part that holds the value (its element structure is the frame condition)
    derive   derive(s) -> str               documented derived value the reader is expected to return (file-name sinks: base name)
    no_empty the entry point documents the empty string as "remove" / a file cannot be named by its extension alone
    textual  the sink documents a translation of TAB/LF/CR (text of runs / paragraphs / frames: C04) - those are never given
    filename the string is (the stem of) a file name: '/' is never given
    light    the entry goes through the same setter / writer code as another entry: it gets the shorter string families only
    stored   False: the string names a file whose name is not kept anywhere in XML (only Accepted / structure / parses apply)

`scan_sites()` is the completeness measurement: an AST scan of /repo/src/pptx for `%` / `.format` / f-string substitution
into XML templates; `trace_sites()` runs a catalogue entry with a marker string under sys.settrace and reports which of
those sites were executed and which produced XML containing the marker.
"""
from __future__ import annotations

import ast
import os
import sys

# ------------------------------------------------------------------------------------------------ helpers

EMU = 914400
PNG = (b"\x89PNG\r\n\x1a\n\x00\x00\x00\rIHDR\x00\x00\x00\x01\x00\x00\x00\x01\x08\x06\x00\x00\x00\x1f\x15\xc4\x89"
       b"\x00\x00\x00\rIDATx\x9cc\xf8\xcf\xc0\xf0\x1f\x00\x05\x00\x01\xff\x89\x99=\x1d\x00\x00\x00\x00IEND\xaeB`\x82")
NS = {
    "a": "http://schemas.openxmlformats.org/drawingml/2006/main",
    "p": "http://schemas.openxmlformats.org/presentationml/2006/main",
    "c": "http://schemas.openxmlformats.org/drawingml/2006/chart",
    "r": "http://schemas.openxmlformats.org/officeDocument/2006/relationships",
    "ct": "http://schemas.openxmlformats.org/package/2006/content-types",
    "pr": "http://schemas.openxmlformats.org/package/2006/relationships",
    "cp": "http://schemas.openxmlformats.org/package/2006/metadata/core-properties",
    "dc": "http://purl.org/dc/elements/1.1/",
}
SLIDE = "ppt/slides/slide1.xml"
SLIDE_RELS = "ppt/slides/_rels/slide1.xml.rels"
CHART = "ppt/charts/chart1.xml"
CORE = "docProps/core.xml"
CTYPES = "[Content_Types].xml"
LAYOUT = "ppt/slideLayouts/slideLayout1.xml"
MASTER = "ppt/slideMasters/slideMaster1.xml"
NOTES = "ppt/notesSlides/notesSlide1.xml"


class Sink:
    def __init__(self, id, setup, at, store, read=None, found=None, xpath=None, owner=SLIDE, reader="", no_empty=False,
                 textual=False, derive=None, stored=True, note="", filename=False, light=False):
        self.id, self.setup, self.at, self.store, self.read = id, setup, at, store, read
        self.filename, self.light = filename or derive is not None, light
        self.found = found or at
        self.xpath, self.owner, self.reader = xpath, owner, reader
        self.no_empty, self.textual, self.derive, self.stored, self.note = no_empty, textual, derive or (lambda s: s), stored, note
        self.group = id.split(".")[0]

    def describe(self) -> dict:
        return {"id": self.id, "owner": self.owner, "reader": self.reader or ("xpath %s : %s" % self.xpath if self.xpath else "none"),
                "no_empty": self.no_empty, "textual": self.textual, "stored": self.stored, "filename": self.filename,
                "light": self.light, "note": self.note}


def _write(scratch, name, blob):
    path = os.path.join(scratch, name)
    with open(path, "wb") as f:
        f.write(blob)
    return path


def _blank(prs, scratch=None):
    prs.slides.add_slide(prs.slide_layouts[6])


def _slide(prs):
    return prs.slides[0]


def _last(prs):
    return prs.slides[0].shapes[len(prs.slides[0].shapes) - 1]


def _setup_with(maker):
    """setup: a blank slide plus one object made by maker(slide, scratch)."""
    def setup(prs, scratch):
        _blank(prs)
        maker(prs.slides[0], scratch)
    return setup


def _mk_textbox(slide, scratch):
    slide.shapes.add_textbox(0, 0, EMU, EMU).text_frame.text = "run"


def _mk_autoshape(slide, scratch):
    from pptx.enum.shapes import MSO_SHAPE
    slide.shapes.add_shape(MSO_SHAPE.ROUNDED_RECTANGLE, 0, 0, EMU, EMU)


def _mk_picture(slide, scratch):
    import io
    slide.shapes.add_picture(io.BytesIO(PNG), 0, 0)


def _mk_connector(slide, scratch):
    from pptx.enum.shapes import MSO_CONNECTOR
    slide.shapes.add_connector(MSO_CONNECTOR.STRAIGHT, 0, 0, EMU, EMU)


def _mk_group(slide, scratch):
    slide.shapes.add_group_shape()


def _mk_freeform(slide, scratch):
    fb = slide.shapes.build_freeform(0, 0)
    fb.add_line_segments([(EMU, 0), (EMU, EMU)])
    fb.convert_to_shape()


def _mk_table(slide, scratch):
    slide.shapes.add_table(2, 2, 0, 0, EMU, EMU)


def _set(attr):
    def store(obj, s, scratch):
        setattr(obj, attr, s)
    return store


def _get(attr):
    def read(obj):
        return getattr(obj, attr)
    return read


def _run(prs):
    return _last(prs).text_frame.paragraphs[0].runs[0]


# ------------------------------------------------------------------------------------------------ charts

def _ct(name):
    from pptx.enum.chart import XL_CHART_TYPE
    return getattr(XL_CHART_TYPE, name)


# one chart type per XML writer class of chart/xmlwriter.py
FAMILIES = {"area": "AREA", "bar": "BAR_CLUSTERED", "doughnut": "DOUGHNUT", "line": "LINE", "pie": "PIE", "radar": "RADAR",
            "xy": "XY_SCATTER", "bubble": "BUBBLE"}


def _chart_data(fam, name="Series 1", label="East", nf=None, ser_nf=None, cat_nf=None, levels=None, dates=False):
    """Chart data of family `fam` with the strings placed where the keyword says; everything else plain."""
    from pptx.chart.data import BubbleChartData, CategoryChartData, XyChartData
    kw = {} if nf is None else {"number_format": nf}
    if fam == "xy":
        cd = XyChartData(**kw)
        ser = cd.add_series(name, number_format=ser_nf)
        ser.add_data_point(1, 2)
        ser.add_data_point(3, 4)
        return cd
    if fam == "bubble":
        cd = BubbleChartData(**kw)
        ser = cd.add_series(name, number_format=ser_nf)
        ser.add_data_point(1, 2, 3)
        ser.add_data_point(3, 4, 5)
        return cd
    cd = CategoryChartData(**kw)
    if levels is not None:                       # levels = (root label, middle label, leaf label)
        root = cd.add_category(levels[0])
        mid = root.add_sub_category(levels[1])
        mid.add_sub_category(levels[2])
        mid.add_sub_category("leaf b")
        cd.add_category("root b").add_sub_category("mid b").add_sub_category("leaf c")
        cd.add_series(name, (1, 2, 3), number_format=ser_nf)
        return cd
    if dates:
        import datetime as dt
        cd.categories = [dt.date(2016, 12, 27), dt.date(2016, 12, 28)]
    elif cat_nf is not None:
        cd.categories = [1.5, 2.5]
    else:
        cd.categories = [label, "West"]
    if cat_nf is not None:
        cd.categories.number_format = cat_nf
    cd.add_series(name, (1.1, 2.2), number_format=ser_nf)
    return cd


def _add_chart(fam, **kw):
    def store(slide, s, scratch):
        slide.shapes.add_chart(_ct(FAMILIES[fam]), 0, 0, 4 * EMU, 3 * EMU, _chart_data(fam, **{k: (s if v is Ellipsis else v) for k, v in kw.items()}))
    return store


def _add_chart_levels(fam, pos):
    def store(slide, s, scratch):
        lv = ["root a", "mid a", "leaf a"]
        lv[pos] = s
        slide.shapes.add_chart(_ct(FAMILIES[fam]), 0, 0, 4 * EMU, 3 * EMU, _chart_data(fam, levels=tuple(lv)))
    return store


def _mk_chart(fam, **kw):
    def maker(slide, scratch):
        slide.shapes.add_chart(_ct(FAMILIES[fam]), 0, 0, 4 * EMU, 3 * EMU, _chart_data(fam, **kw))
    return maker


def _replace(fam, **kw):
    def store(chart, s, scratch):
        chart.replace_data(_chart_data(fam, **{k: (s if v is Ellipsis else v) for k, v in kw.items()}))
    return store


def _replace_levels(fam, pos):
    def store(chart, s, scratch):
        lv = ["root a", "mid a", "leaf a"]
        lv[pos] = s
        chart.replace_data(_chart_data(fam, levels=tuple(lv)))
    return store


def _chart(prs):
    return _last(prs).chart


def _series_name(chart):
    return chart.plots[0].series[0].name


def _cat_label(chart):
    return chart.plots[0].categories[0].label


def _level_label(pos):
    # Categories.levels is ordered from the leaf level to the root level; pos 0 = root, 2 = leaf
    def read(chart):
        return chart.plots[0].categories.levels[2 - pos][0].label
    return read


def _fc(path):
    return (CHART, "//c:ser[1]/%s//c:formatCode" % path)


# ------------------------------------------------------------------------------------------------ the catalogue

def build() -> list[Sink]:
    S = []
    add = S.append

    # ---- names (attribute `name` of p:cNvPr / p:cSld, set through lxml)
    for kind, maker in (("autoshape", _mk_autoshape), ("textbox", _mk_textbox), ("picture", _mk_picture), ("connector", _mk_connector),
                        ("group", _mk_group), ("graphicframe", _mk_table), ("freeform", _mk_freeform)):
        add(Sink("name.shape.%s" % kind, _setup_with(maker), _last, _set("name"), _get("name"), reader="BaseShape.name", light=kind != "autoshape"))

    def setup_title_slide(prs, scratch):
        prs.slides.add_slide(prs.slide_layouts[0])
    add(Sink("name.placeholder", setup_title_slide, lambda prs: prs.slides[0].placeholders[1], _set("name"), _get("name"),
             reader="SlidePlaceholder.name"))
    add(Sink("name.slide", _blank, _slide, _set("name"), _get("name"), reader="Slide.name", note="'' documented as 'no name': reads back ''"))
    add(Sink("name.layout", _blank, lambda prs: prs.slide_layouts[0], _set("name"), _get("name"), owner=LAYOUT, reader="SlideLayout.name"))
    add(Sink("name.master", _blank, lambda prs: prs.slide_master, _set("name"), _get("name"), owner=MASTER, reader="SlideMaster.name"))
    add(Sink("name.notes_slide", lambda prs, sc: (_blank(prs), prs.slides[0].notes_slide), lambda prs: prs.slides[0].notes_slide,
             _set("name"), _get("name"), owner=NOTES, reader="NotesSlide.name"))
    add(Sink("name.layout_placeholder", _blank, lambda prs: prs.slide_layouts[0].placeholders[0], _set("name"), _get("name"), owner=LAYOUT,
             reader="LayoutPlaceholder.name"))

    # ---- strings that are ALREADY in the document when a later call builds new XML next to them (the call may read them): the string is
    # stored on the template object first, then the cloning call is made; the new part must come out as it does for a plain string
    def name_then_add_slide(ph, s, scratch):
        ph.name = s
        prs = ph.part.package.presentation_part.presentation
        prs.slides.add_slide(prs.slide_layouts[0])
    add(Sink("name.layout_placeholder.then_add_slide", _blank, lambda prs: prs.slide_layouts[0].placeholders[0], name_then_add_slide, None,
             owner="ppt/slides/slide2.xml", stored=False,
             note="a layout placeholder is renamed, then a slide is added from the layout: the clone's XML is built by the library"))

    def name_then_notes(ph, s, scratch):
        ph.name = s
        ph.part.package.presentation_part.presentation.slides[0].notes_slide
    add(Sink("name.notes_master_placeholder.then_notes_slide", _blank,
             lambda prs: next(p for p in prs.notes_master.placeholders if p.placeholder_format.type is not None and p.name.startswith("Notes")),
             name_then_notes, None, owner=NOTES, stored=False,
             note="a notes-master placeholder is renamed, then the first notes page is created (placeholders cloned from the master)"))

    def layout_name_then_add_slide(layout, s, scratch):
        layout.name = s
        layout.part.package.presentation_part.presentation.slides.add_slide(layout)
    add(Sink("name.layout.then_add_slide", _blank, lambda prs: prs.slide_layouts[1], layout_name_then_add_slide, None,
             owner="ppt/slides/slide2.xml", stored=False, note="a layout is renamed, then a slide is added from it"))

    # ---- file names: the stored value is the base name of the path (ImagePart.desc / Video.filename)
    def add_picture(slide, s, scratch):
        slide.shapes.add_picture(_write(scratch, s + ".png", PNG), 0, 0)
    add(Sink("picture.filename", _blank, _slide, add_picture, None, _last, xpath=(SLIDE, "//p:pic/p:nvPicPr/p:cNvPr/@descr"),
             derive=lambda s: s + ".png", no_empty=True, note="add_picture(path): descr = base name; no public reader of descr"))

    def add_picture_group(grp, s, scratch):
        grp.shapes.add_picture(_write(scratch, s + ".png", PNG), 0, 0)
    add(Sink("picture.filename.in_group", _setup_with(_mk_group), _last, add_picture_group, None, xpath=(SLIDE, "//p:grpSp/p:pic/p:nvPicPr/p:cNvPr/@descr"),
             derive=lambda s: s + ".png", no_empty=True, note="GroupShapes.add_picture(path)"))

    def setup_pic_layout(prs, scratch):
        prs.slides.add_slide(prs.slide_layouts[8])

    def insert_picture(ph, s, scratch):
        ph.insert_picture(_write(scratch, s + ".png", PNG))
    add(Sink("placeholder.insert_picture.filename", setup_pic_layout, lambda prs: prs.slides[0].placeholders[1], insert_picture, None,
             xpath=(SLIDE, "//p:pic/p:nvPicPr/p:cNvPr/@descr"), derive=lambda s: s + ".png", no_empty=True,
             note="PicturePlaceholder.insert_picture(path): descr = base name"))

    # second-order: the placeholder's own name (set through lxml, safe) is substituted again into the template of the shape
    # that replaces the placeholder.  The default template has a picture placeholder only; a chart / table placeholder is made
    # by retyping the layout's content placeholder in the tree (stands for a template that has one).
    def name_then(insert):
        def store(ph, s, scratch):
            ph.name = s
            insert(ph, scratch)
        return store

    def setup_typed_layout(ph_type):
        def setup(prs, scratch):
            layout = prs.slide_layouts[1]
            ph = [e for e in layout._element.iter("{%s}ph" % NS["p"]) if e.get("idx") == "1"][0]
            ph.set("type", ph_type)
            prs.slides.add_slide(layout)
        return setup

    def ph1(prs):
        return prs.slides[0].placeholders[1]
    add(Sink("placeholder.insert_picture.name", setup_pic_layout, ph1, name_then(lambda ph, sc: ph.insert_picture(_write(sc, "p.png", PNG))),
             _get("name"), reader="PlaceholderPicture.name", note="ph.name = s; ph.insert_picture(..): the new p:pic takes the placeholder's name"))
    add(Sink("placeholder.insert_chart.name", setup_typed_layout("chart"), ph1,
             name_then(lambda ph, sc: ph.insert_chart(_ct("BAR_CLUSTERED"), _chart_data("bar"))), _get("name"), reader="PlaceholderGraphicFrame.name",
             note="ph.name = s; ChartPlaceholder.insert_chart(..): the new p:graphicFrame takes the placeholder's name"))
    add(Sink("placeholder.insert_table.name", setup_typed_layout("tbl"), ph1, name_then(lambda ph, sc: ph.insert_table(2, 2)), _get("name"),
             reader="PlaceholderGraphicFrame.name", note="ph.name = s; TablePlaceholder.insert_table(..)"))

    def add_movie(slide, s, scratch):
        slide.shapes.add_movie(_write(scratch, s + ".mp4", b"\x00\x00\x00\x18ftypmp42 not a movie"), 0, 0, EMU, EMU, mime_type="video/mp4")
    add(Sink("movie.filename", _blank, _slide, add_movie, _get("name"), _last, derive=lambda s: s + ".mp4", no_empty=True,
             reader="Movie.name", note="add_movie(path): the shape is named with the base name of the video file"))

    def add_movie_poster(slide, s, scratch):
        slide.shapes.add_movie(_write(scratch, "m.mp4", b"\x00\x00\x00\x18ftypmp42 not a movie"), 0, 0, EMU, EMU,
                               poster_frame_image=_write(scratch, s + ".png", PNG), mime_type="video/mp4")
    add(Sink("movie.poster_filename", _blank, _slide, add_movie_poster, None, _last, stored=False, no_empty=True, filename=True,
             note="add_movie(poster_frame_image=path): the poster's file name is not kept in XML; only acceptance and the frame condition apply"))

    def add_movie_mime(slide, s, scratch):
        slide.shapes.add_movie(_write(scratch, "m.zq", b"not a movie"), 0, 0, EMU, EMU, mime_type=s)
    add(Sink("movie.mime_type", _blank, _slide, add_movie_mime, None, _last, owner=CTYPES,
             xpath=(CTYPES, "/ct:Types/ct:Default[@Extension='zq']/@ContentType | /ct:Types/ct:Override[contains(@PartName,'/ppt/media/')]/@ContentType"),
             no_empty=True, note="add_movie(mime_type=s): content type of the media part in [Content_Types].xml"))

    # ---- hyperlink addresses (Target of an external relationship, set through lxml)
    add(Sink("hyperlink.run", _setup_with(_mk_textbox), lambda prs: _run(prs).hyperlink, _set("address"), _get("address"), owner=SLIDE_RELS,
             reader="_Hyperlink.address", no_empty=True, note="'' documented as removal"))
    add(Sink("hyperlink.shape_click", _setup_with(_mk_autoshape), lambda prs: _last(prs).click_action.hyperlink, _set("address"),
             _get("address"), owner=SLIDE_RELS, reader="Hyperlink.address", no_empty=True))
    add(Sink("hyperlink.picture_click", _setup_with(_mk_picture), lambda prs: _last(prs).click_action.hyperlink, _set("address"),
             _get("address"), owner=SLIDE_RELS, reader="Hyperlink.address", no_empty=True, light=True))

    def hover(prs):
        from pptx.action import ActionSetting
        sh = _last(prs)
        return ActionSetting(sh._element._nvXxPr.cNvPr, sh, hover=True).hyperlink
    add(Sink("hyperlink.shape_hover", _setup_with(_mk_autoshape), hover, _set("address"), _get("address"), owner=SLIDE_RELS,
             reader="Hyperlink.address", no_empty=True,
             note="no public accessor builds a hover action; pptx.action.ActionSetting(cNvPr, shape, hover=True) is constructed directly"))

    # ---- fonts (a:latin typeface)
    add(Sink("font.name.run", _setup_with(_mk_textbox), lambda prs: _run(prs).font, _set("name"), _get("name"), reader="Font.name"))
    add(Sink("font.name.paragraph", _setup_with(_mk_textbox), lambda prs: _last(prs).text_frame.paragraphs[0].font, _set("name"), _get("name"),
             reader="Font.name", light=True))
    add(Sink("font.name.chart", _setup_with(_mk_chart("bar")), lambda prs: _chart(prs).font, _set("name"), _get("name"), owner=CHART, reader="Font.name", light=True))
    add(Sink("font.name.tick_labels", _setup_with(_mk_chart("bar")), lambda prs: _chart(prs).value_axis.tick_labels.font, _set("name"), _get("name"),
             owner=CHART, reader="Font.name", light=True))

    # ---- text (C04 checks the translation; here: structure only, markup alphabet)
    add(Sink("text.text_frame", _setup_with(_mk_textbox), lambda prs: _last(prs).text_frame, _set("text"), _get("text"), textual=True, reader="TextFrame.text"))
    add(Sink("text.shape", _setup_with(_mk_autoshape), _last, _set("text"), _get("text"), textual=True, reader="Shape.text"))
    add(Sink("text.paragraph", _setup_with(_mk_textbox), lambda prs: _last(prs).text_frame.paragraphs[0], _set("text"), _get("text"), textual=True,
             reader="_Paragraph.text"))
    add(Sink("text.run", _setup_with(_mk_textbox), _run, _set("text"), _get("text"), textual=True, reader="_Run.text"))
    add(Sink("text.table_cell", _setup_with(_mk_table), lambda prs: _last(prs).table.cell(1, 1), _set("text"), _get("text"), textual=True,
             reader="_Cell.text"))
    add(Sink("text.title_placeholder", setup_title_slide, lambda prs: prs.slides[0].shapes.title, _set("text"), _get("text"), textual=True,
             reader="Shape.text"))
    add(Sink("text.notes", _blank, lambda prs: prs.slides[0].notes_slide.notes_text_frame, _set("text"), _get("text"), owner=NOTES, textual=True,
             reader="TextFrame.text (notes)"))

    def set_tf_text(obj, s, scratch):
        obj.text_frame.text = s

    def get_tf_text(obj):
        return obj.text_frame.text
    add(Sink("text.chart_title", _setup_with(_mk_chart("bar")), lambda prs: _chart(prs).chart_title, set_tf_text, get_tf_text, owner=CHART,
             textual=True, reader="ChartTitle.text_frame.text"))
    add(Sink("text.axis_title", _setup_with(_mk_chart("bar")), lambda prs: _chart(prs).value_axis.axis_title, set_tf_text, get_tf_text,
             owner=CHART, textual=True, reader="AxisTitle.text_frame.text"))
    add(Sink("text.data_label", _setup_with(_mk_chart("bar")), lambda prs: _chart(prs).plots[0].series[0].points[0].data_label, set_tf_text,
             get_tf_text, owner=CHART, textual=True, reader="DataLabel.text_frame.text"))

    # ---- OLE prog_id
    def add_ole(slide, s, scratch):
        import io
        slide.shapes.add_ole_object(io.BytesIO(b"embedded object bytes"), s, 0, 0, EMU, EMU)
    add(Sink("ole.prog_id", _blank, _slide, add_ole, lambda gf: gf.ole_format.prog_id, _last, reader="_OleFormat.prog_id",
             note="add_ole_object(prog_id=str)"))

    # ---- core properties (the 11 string-valued ones of the 15; the other four are dates / an int)
    for prop in ("author", "category", "comments", "content_status", "identifier", "keywords", "language", "last_modified_by", "subject",
                 "title", "version"):
        add(Sink("core.%s" % prop, lambda prs, sc: None, lambda prs: prs.core_properties, _set(prop), _get(prop), owner=CORE,
                 reader="CoreProperties.%s" % prop, light=prop not in ("title", "keywords"), note="strings longer than 255 characters are refused by documented contract (never generated)"))

    # ---- chart data through add_chart (XML text written by chart/xmlwriter.py) ...
    for fam in FAMILIES:
        add(Sink("chart.series_name.%s" % fam, _blank, _slide, _add_chart(fam, name=...), _series_name, _chart, owner=CHART, reader="_BaseSeries.name"))
    for fam in ("bar", "pie", "radar"):
        add(Sink("chart.category_label.%s" % fam, _blank, _slide, _add_chart(fam, label=...), _cat_label, _chart, owner=CHART, reader="Category.label"))
    for pos, lv in enumerate(("root", "mid", "leaf")):
        add(Sink("chart.category_level.%s" % lv, _blank, _slide, _add_chart_levels("bar", pos), _level_label(pos), _chart, owner=CHART,
                 reader="Categories.levels[k][0].label"))
    for fam in ("bar", "line", "pie"):
        add(Sink("chart.data_number_format.%s" % fam, _blank, _slide, _add_chart(fam, nf=...), None, _chart, owner=CHART, xpath=_fc("c:val"),
                 note="CategoryChartData(number_format=s)"))
    add(Sink("chart.series_number_format.bar", _blank, _slide, _add_chart("bar", ser_nf=...), None, _chart, owner=CHART, xpath=_fc("c:val"),
             note="add_series(number_format=s)"))
    for fam, paths in (("xy", ("c:xVal", "c:yVal")), ("bubble", ("c:xVal", "c:yVal", "c:bubbleSize"))):
        for path in paths:
            add(Sink("chart.data_number_format.%s.%s" % (fam, path[2:]), _blank, _slide, _add_chart(fam, nf=...), None, _chart, owner=CHART,
                     xpath=_fc(path), note="%sChartData(number_format=s)" % ("Xy" if fam == "xy" else "Bubble")))
        add(Sink("chart.series_number_format.%s" % fam, _blank, _slide, _add_chart(fam, ser_nf=...), None, _chart, owner=CHART, xpath=_fc("c:yVal"),
                 note="add_series(number_format=s)"))
    for fam in ("area", "bar", "line"):     # the three writers with a date axis
        add(Sink("chart.categories_number_format.date_axis.%s" % fam, _blank, _slide, _add_chart(fam, cat_nf=..., dates=True),
                 lambda ch: ch.category_axis.tick_labels.number_format, _chart, owner=CHART, reader="TickLabels.number_format",
                 note="Categories.number_format with date categories: c:dateAx/c:numFmt/@formatCode"))
    add(Sink("chart.categories_number_format.cache", _blank, _slide, _add_chart("bar", cat_nf=...), None, _chart, owner=CHART, xpath=_fc("c:cat"),
             note="Categories.number_format with numeric categories: c:cat/c:numRef/c:numCache/c:formatCode"))

    # ---- ... and through Chart.replace_data (elements built by the series rewriters)
    for fam in ("bar", "xy", "bubble"):
        add(Sink("chart.replace.series_name.%s" % fam, _setup_with(_mk_chart(fam)), _chart, _replace(fam, name=...), _series_name, owner=CHART,
                 reader="_BaseSeries.name"))
    add(Sink("chart.replace.category_label", _setup_with(_mk_chart("bar")), _chart, _replace("bar", label=...), _cat_label, owner=CHART,
             reader="Category.label"))
    add(Sink("chart.replace.category_level.mid", _setup_with(_mk_chart("bar")), _chart, _replace_levels("bar", 1), _level_label(1), owner=CHART,
             reader="Categories.levels[k][0].label"))
    add(Sink("chart.replace.data_number_format.bar", _setup_with(_mk_chart("bar")), _chart, _replace("bar", nf=...), None, owner=CHART, xpath=_fc("c:val")))
    add(Sink("chart.replace.categories_number_format", _setup_with(_mk_chart("bar")), _chart, _replace("bar", cat_nf=...), None, owner=CHART,
             xpath=_fc("c:cat")))
    add(Sink("chart.replace.data_number_format.xy", _setup_with(_mk_chart("xy")), _chart, _replace("xy", nf=...), None, owner=CHART, xpath=_fc("c:yVal")))
    add(Sink("chart.replace.data_number_format.bubble", _setup_with(_mk_chart("bubble")), _chart, _replace("bubble", nf=...), None, owner=CHART,
             xpath=_fc("c:bubbleSize")))

    # ---- chart formatting properties (attribute formatCode, set through lxml)
    add(Sink("chart.tick_labels.number_format", _setup_with(_mk_chart("bar")), lambda prs: _chart(prs).value_axis.tick_labels, _set("number_format"),
             _get("number_format"), owner=CHART, reader="TickLabels.number_format"))

    def mk_chart_labels(slide, scratch):
        _mk_chart("bar")(slide, scratch)
        slide.shapes[len(slide.shapes) - 1].chart.plots[0].has_data_labels = True
    add(Sink("chart.data_labels.number_format.plot", _setup_with(mk_chart_labels), lambda prs: _chart(prs).plots[0].data_labels, _set("number_format"),
             _get("number_format"), owner=CHART, reader="DataLabels.number_format"))
    add(Sink("chart.data_labels.number_format.series", _setup_with(_mk_chart("bar")), lambda prs: _chart(prs).plots[0].series[0].data_labels,
             _set("number_format"), _get("number_format"), owner=CHART, reader="DataLabels.number_format"))
    ids = [s.id for s in S]
    assert len(ids) == len(set(ids)), "duplicate sink ids"
    return S


CATALOGUE = build()
BY_ID = {s.id: s for s in CATALOGUE}

# entry points that take a string but are deliberately not catalogued, with the reason (reported in the evidence)
NOT_CATALOGUED = [
    {"api": "TextFrame.fit_text(font_family=s)", "why": "looks the family up among installed font files and raises KeyError for an unknown one; the value reaches XML through Font.name (catalogued)"},
    {"api": "data point number_format (add_data_point(number_format=s))", "why": "written only into the embedded workbook by XlsxWriter, never into a PresentationML/DrawingML part"},
    {"api": "RGBColor.from_string(s) / color.rgb", "why": "validated six-digit hex string, not a free string"},
    {"api": "add_ole_object(object_file=path, icon_file=path), Presentation.save(path), Presentation(path)", "why": "the path names a file; no part of it is stored in XML"},
    {"api": "table style id", "why": "no public setter (constant in the a:tbl template)"},
    {"api": "core_properties.created / last_printed / modified / revision", "why": "datetime / int valued (C18)"},
]


# ------------------------------------------------------------------------------------------------ completeness: AST scan

def _is_xml_tmpl(node, src, assigned):
    """The template of a substitution looks like XML: a string literal with '<' in it, something named *_tmpl*, or a
    local name assigned from one of those in the same function."""
    if isinstance(node, ast.Constant) and isinstance(node.value, str):
        return "<" in node.value and ">" in node.value and "%s>`` " not in node.value and "``<" not in node.value
    if isinstance(node, ast.JoinedStr):
        return any(isinstance(v, ast.Constant) and isinstance(v.value, str) and "<" in v.value and "``" not in v.value for v in node.values) and \
            any(isinstance(v, ast.FormattedValue) for v in node.values)
    if isinstance(node, ast.Call):
        return _is_xml_tmpl(node.func, src, assigned)
    if isinstance(node, ast.Attribute):
        return "tmpl" in node.attr
    if isinstance(node, ast.Name):
        return bool(assigned.get(node.id)) or (node.id.endswith("_tmpl") and node.id not in assigned)
    if isinstance(node, ast.BinOp) and isinstance(node.op, ast.Add):
        return _is_xml_tmpl(node.left, src, assigned) or _is_xml_tmpl(node.right, src, assigned)
    if isinstance(node, ast.BinOp) and isinstance(node.op, ast.Mod):      # (template % nsdecls(..)) % (values)
        return _is_xml_tmpl(node.left, src, assigned)
    return False


def _subst_exprs(node, src):
    """[(source text, ast node)] of the substituted expressions."""
    def seg(n):
        return ast.get_source_segment(src, n) or "?"
    if isinstance(node, ast.JoinedStr):
        return [(seg(v.value), v.value) for v in node.values if isinstance(v, ast.FormattedValue)]
    if isinstance(node, ast.BinOp):
        r = node.right
        return [(seg(e), e) for e in (r.elts if isinstance(r, ast.Tuple) else [r])]
    out = [(seg(x), x) for x in node.args]
    for k in node.keywords:
        if k.arg is None and isinstance(k.value, ast.Dict):
            out += [("%s=%s" % (getattr(kk, "value", "?"), seg(vv)), vv) for kk, vv in zip(k.value.keys, k.value.values)]
        else:
            out.append(("%s=%s" % (k.arg, seg(k.value)), k.value))
    return out


def _safe_expr(n) -> bool:
    """No caller string can arrive through this expression: a constant, a namespace declaration, a length."""
    if isinstance(n, ast.Constant):
        return True
    if isinstance(n, ast.Call) and isinstance(n.func, ast.Name) and n.func.id in ("nsdecls", "len", "int"):
        return True
    if isinstance(n, ast.Subscript) and isinstance(n.value, ast.Name) and n.value.id == "nsmap":
        return True
    if isinstance(n, ast.BinOp) and isinstance(n.op, ast.Mod):
        return _safe_expr(n.left) and all(_safe_expr(e) for e in (n.right.elts if isinstance(n.right, ast.Tuple) else [n.right]))
    return False


def scan_sites(root: str | None = None) -> list[dict]:
    """All `%` / `.format` / f-string substitutions into XML-looking templates under src/pptx."""
    root = root or os.path.join((os.environ.get("VERIF_REPO") or "/repo"), "src", "pptx")
    sites = []
    for dp, _, fns in sorted(os.walk(root)):
        for fn in sorted(fns):
            if not fn.endswith(".py"):
                continue
            path = os.path.join(dp, fn)
            with open(path) as f:
                src = f.read()
            tree = ast.parse(src)
            for parent in ast.walk(tree):
                for ch in ast.iter_child_nodes(parent):
                    ch._parent = parent

            def enclosing(n):
                names, fnode = [], None
                while hasattr(n, "_parent"):
                    n = n._parent
                    if isinstance(n, (ast.FunctionDef, ast.ClassDef)):
                        names.append(n.name)
                        if fnode is None and isinstance(n, ast.FunctionDef):
                            fnode = n
                return ".".join(reversed(names)), fnode
            for node in ast.walk(tree):
                if isinstance(node, ast.BinOp) and isinstance(node.op, ast.Mod):
                    kind, tmpl = "%", node.left
                elif isinstance(node, ast.Call) and isinstance(node.func, ast.Attribute) and node.func.attr == "format":
                    kind, tmpl = "format", node.func.value
                elif isinstance(node, ast.JoinedStr):
                    kind, tmpl = "fstring", node
                else:
                    continue
                qual, fnode = enclosing(node)
                assigned = {}
                if fnode is not None:
                    for n in ast.walk(fnode):
                        if isinstance(n, ast.Assign) and len(n.targets) == 1 and isinstance(n.targets[0], ast.Name):
                            assigned[n.targets[0].id] = _is_xml_tmpl(n.value, src, {})
                if not _is_xml_tmpl(tmpl, src, assigned):
                    continue
                if _in_raise(node) or qual.split(".")[-1] in ("__repr__", "__str__"):
                    continue
                exprs = _subst_exprs(node, src)
                sites.append({"file": os.path.relpath(path, os.path.dirname(root)), "abs": path, "line": node.lineno, "end": node.end_lineno,
                              "kind": kind, "func": qual, "func_line": fnode.lineno if fnode is not None else 0,
                              "substitutes": [" ".join(e.split())[:60] for e, _ in exprs],
                              "string_capable": not all(_safe_expr(n) for _, n in exprs)})
    sites.sort(key=lambda s: (s["file"], s["line"]))
    return sites


def _in_raise(n):
    while hasattr(n, "_parent"):
        n = n._parent
        if isinstance(n, ast.Raise):
            return True
    return False


MARKER = "Zq7Jx"


def trace_sites(sink: Sink, sites: list[dict], scratch: str) -> tuple[set, set]:
    """Run setup + store of one entry with the marker string under sys.settrace.
    Returns (site indexes executed, site indexes inside a function whose return value contained the marker)."""
    import pptx
    from lxml import etree
    by_file = {}
    for i, s in enumerate(sites):
        by_file.setdefault(s["abs"], []).append((s["line"], s["end"], s["func_line"], i))
    reached, tainted = set(), set()

    def local(frame, event, arg):
        lst = by_file.get(frame.f_code.co_filename)
        if lst is None:
            return None
        if event == "line":
            ln = frame.f_lineno
            for lo, hi, _, i in lst:
                if lo <= ln <= hi:
                    reached.add(i)
        elif event == "return":
            fl = frame.f_code.co_firstlineno
            mine = [i for lo, hi, fline, i in lst if i in reached and fline and abs(fline - fl) <= 3]   # decorators shift co_firstlineno
            if mine:
                txt = arg if isinstance(arg, str) else (etree.tostring(arg, encoding="unicode") if isinstance(arg, etree._Element) else "")
                if MARKER in txt:
                    tainted.update(mine)
        return local

    def tracer(frame, event, arg):
        return local if frame.f_code.co_filename in by_file else None
    prs = pptx.Presentation()
    sys.settrace(tracer)
    try:
        sink.setup(prs, scratch)                     # scaffolding: plain strings only, so it can reach a site but never taint it
        obj = sink.at(prs)
        sink.store(obj, MARKER, scratch)
    finally:
        sys.settrace(None)
    return reached, tainted
