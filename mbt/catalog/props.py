"""C09 - the property CATALOGUE: every read/write property of the object model, per object kind.

One entry per object kind:
    kind      name used in signatures  Clause@Kind.prop[value class]
    classes   python classes of the object (catalogue completeness is measured against their settable properties)
    deck      fixture deck (see DECKS) on which a fresh object of the kind lives
    path      how to reach the object from the Presentation (mini path language: attr, [i], name(i,j)); creating
              accessors on the way (font.color, line.color, chart.font ...) are part of the construction of the object
    corpus    how objects of the kind are found on a corpus deck (a walker name, see drive/props.py)
    tier      "thorough": the kind is only explored in the thorough tier (a further Font object behind another accessor)
    props     the property entries

One property entry (P):
    p          name (attribute path relative to the object, or  adjustments[i])
    dom        "emu" | "cpt" (Length stored in 1/100 pt) | "angle" | "frac" | "int" | "double" | "bool" | "enum" |
               "str" | "rgb" | "underline" | "linespacing"
    lo, hi     bounds of the domain in user units (None: unbounded on that side)
    q          storage quantum in user units (1 EMU, 127 EMU = 1/100 pt, 1/60000 degree, 1/100000, 0 = exact)
    edgeDoc    the bounds are DOCUMENTED (docstring / docs): a value one quantum outside must raise TypeError/ValueError and
               the bounds themselves must be accepted.  False: bounds are the schema's, the documentation is silent -> values at
               the bounds may be refused, values outside are tried and only REPORTED
    none       assigning None is documented to remove the explicit setting; noneReads = canonical reading afterwards
    xp         XPath (relative to the object's lxml element) of the explicit attribute/element; lets the driver see
               whether the explicit setting is there ("yes"/"no"), "na" when no xp is given
    coupled    DECLARED dependence set: readings that may change when this property is assigned (documented side effects)
    weak       readings that may change only while they are not explicit themselves (a:off needs both x and y ...)
    needs      the assignment is only defined while one of these readings is not "None" (brightness needs a colour type)
    strict     (bool) the documentation says that only True / False (/ None) may be assigned: another type must be refused.
               Otherwise python truthiness (bool(value)) is a common reading of "boolean": a str is tried and REPORTED
    draw       interval the seeded interior draws are taken from (default lo..hi)
    ro         read-only observer (fill.type, color.type): never assigned, part of the frame
    typ        typical in-domain values (user units)
    mod        readings are modulo this (360 for angles)
    src        where the domain is documented
"""
from __future__ import annotations

from fractions import Fraction as F

Q_ANGLE = F(1, 60000)
Q_FRAC = F(1, 100000)
EMU_MAX = 27273042316900          # ST_Coordinate
EMU_MIN = -27273042329600
I32 = 2147483647


def P(p, dom, *, lo=None, hi=None, q=0, edgeDoc=False, none=False, noneReads="None", xp=None, coupled=(), weak=(),
      needs=(), ro=False, typ=(), enum=None, mod=None, src="", step=None, strict=False, draw=None, nonempty=False):
    return dict(p=p, dom=dom, lo=lo, hi=hi, q=F(q), step=F(step) if step is not None else (F(q) if q else F(1)),
                edgeDoc=edgeDoc, none=none, noneReads=noneReads, xp=xp, coupled=list(coupled), weak=list(weak),
                needs=list(needs), ro=ro, typ=list(typ), enum=enum, mod=mod, src=src, strict=strict, draw=draw, nonempty=nonempty)


def RO(p, **kw):
    return P(p, "ro", ro=True, **kw)


def emu(p, lo, hi, **kw):
    kw.setdefault("typ", (914400, 12700, 360000, 0))        # 0: a coordinate that is falsy
    return P(p, "emu", lo=lo, hi=hi, q=1, **kw)


def boolean(p, **kw):
    return P(p, "bool", **kw)


def enum(p, e, **kw):
    return P(p, "enum", enum=e, **kw)


# ------------------------------------------------------------------------------------------------ property groups
XF = "./*/a:xfrm/%s | ./p:xfrm/%s"


def position_size(placeholder=False):
    """left/top/width/height/rotation/name of a shape.  a:off carries x AND y, a:ext cx AND cy: while a shape has no
    explicit a:xfrm (placeholders inheriting from the layout, bare corpus shapes) assigning one of the four makes the
    other three explicit (0) - declared as `weak` coupling (DESIGN C09: width/height of a placeholder override inheritance)."""
    dims = ["left", "top", "width", "height"]

    def w(p):
        return [d for d in dims if d != p]
    src = "shapes/base.py BaseShape docstrings (EMU; range not stated) / ST_Coordinate, ST_PositiveCoordinate"
    return [
        emu("left", EMU_MIN, EMU_MAX, xp=XF % ("a:off/@x", "a:off/@x"), weak=w("left"), src=src),
        emu("top", EMU_MIN, EMU_MAX, xp=XF % ("a:off/@y", "a:off/@y"), weak=w("top"), src=src),
        emu("width", 0, EMU_MAX, xp=XF % ("a:ext/@cx", "a:ext/@cx"), weak=w("width"), src=src),
        emu("height", 0, EMU_MAX, xp=XF % ("a:ext/@cy", "a:ext/@cy"), weak=w("height"), src=src),
        P("rotation", "angle", q=Q_ANGLE, mod=360, draw=(-360.0, 720.0), typ=(45.0, -45.0, 315.0, 90.5, 360.0, -360.0, 720.0, 0.0), weak=dims,
          src="BaseShape.rotation: float degrees, negative values normalised (-45 -> 315): read-back is modulo 360"),
        P("name", "str", src="BaseShape.name"),
    ]


def _mark(lazy, also, props):
    """lazy: these readers have a documented side effect (line.color makes the line fill solid), so the driver does not read them
    until one of them has been assigned in the scenario; also: further readings the group's setters are declared to change."""
    for pr in props:
        if lazy:
            pr["lazy"] = lazy
        if also and "coupled" in pr:
            pr["coupled"] = list(pr["coupled"]) + list(also)
    return props


def color_props(prefix="", lazy=None, also=()):
    """ColorFormat: rgb / theme_color select the colour type (documented); brightness is an adjustment OF the colour
    choice: changing the type resets it (documented for rgb), and it needs a colour type."""
    pre = prefix
    return _mark(lazy, also, [
        P(pre + "rgb", "rgb", coupled=[pre + "theme_color", pre + "brightness", pre + "type"],
          src="ColorFormat.rgb: RGBColor; type changes to RGB, brightness adjustment removed"),
        enum(pre + "theme_color", "pptx.enum.dml.MSO_THEME_COLOR", coupled=[pre + "rgb", pre + "brightness", pre + "type"],
             src="ColorFormat.theme_color: member of MSO_THEME_COLOR; type changes to SCHEME"),
        P(pre + "brightness", "frac", lo=-1.0, hi=1.0, q=Q_FRAC, edgeDoc=True, needs=[pre + "type"], typ=(-0.25, 0.4, 0.0),
          src="ColorFormat.brightness: float between -1.0 and 1.0; needs a colour type"),
        RO(pre + "type"),
    ])


def font_props():
    return [
        P("size", "cpt", lo=12700, hi=50800000, q=127, step=1, none=True, xp="@sz", typ=(152400, 228600, 304800, 133350),
          src="Font.size: Length, None = inherit; range not stated (ST_TextFontSize 1..4000 pt); stored in 1/100 pt"),
        boolean("bold", none=True, xp="@b", src="Font.bold: True/False/None"),
        boolean("italic", none=True, xp="@i", src="Font.italic: as bold"),
        P("underline", "underline", enum="pptx.enum.text.MSO_UNDERLINE", none=True, xp="@u",
          src="Font.underline: True, False, None or member of MSO_TEXT_UNDERLINE_TYPE"),
        P("name", "str", none=True, xp="a:latin", src="Font.name: str or None"),
        enum("language_id", "pptx.enum.lang.MSO_LANGUAGE_ID", none=True, noneReads="MSO_LANGUAGE_ID.NONE", xp="@lang",
             src="Font.language_id: member of MSO_LANGUAGE_ID; None = MSO_LANGUAGE_ID.NONE removes the setting"),
    ]


def axis_props(value_axis):
    ps = [
        boolean("has_major_gridlines", src="_BaseAxis.has_major_gridlines"),
        boolean("has_minor_gridlines", src="_BaseAxis.has_minor_gridlines"),
        boolean("has_title", src="_BaseAxis.has_title"),
        enum("major_tick_mark", "pptx.enum.chart.XL_TICK_MARK", src="_BaseAxis.major_tick_mark"),
        enum("minor_tick_mark", "pptx.enum.chart.XL_TICK_MARK", src="_BaseAxis.minor_tick_mark"),
        P("maximum_scale", "double", none=True, xp="c:scaling/c:max", typ=(10.0, 2.5, -3.0, 1e6),
          src="_BaseAxis.maximum_scale: float or None (automatic)"),
        P("minimum_scale", "double", none=True, xp="c:scaling/c:min", typ=(0.0, -2.5, 7.0, 1e-3),
          src="_BaseAxis.minimum_scale: float or None (automatic)"),
        boolean("reverse_order", src="_BaseAxis.reverse_order"),
        enum("tick_label_position", "pptx.enum.chart.XL_TICK_LABEL_POSITION", src="_BaseAxis.tick_label_position"),
        boolean("visible", src="_BaseAxis.visible: True or False (ValueError otherwise)"),
    ]
    if value_axis:
        ps += [
            P("major_unit", "double", lo=0.0, none=True, xp="c:majorUnit", typ=(1.0, 0.25, 20.0),
              src="ValueAxis.major_unit: float or None (Auto); positive (ST_AxisUnit), positivity not documented"),
            P("minor_unit", "double", lo=0.0, none=True, xp="c:minorUnit", typ=(0.5, 0.05, 4.0),
              src="ValueAxis.minor_unit: float or None (Auto)"),
            enum("crosses", "pptx.enum.chart.XL_AXIS_CROSSES", coupled=["crosses_at"],
                 src="ValueAxis.crosses: member of XL_AXIS_CROSSES; CUSTOM pairs with crosses_at"),
            P("crosses_at", "double", coupled=["crosses"], typ=(1.5, 0.0, -2.0),
              src="ValueAxis.crosses_at: numeric value; crosses reads CUSTOM then"),
        ]
    return ps


NUMFMT = dict(typ=("0.00", "#,##0", "General", "$#,##0.00", "0.0%"))

# ------------------------------------------------------------------------------------------------ the kinds
KINDS = [
    dict(kind="Presentation", classes=["Presentation"], deck="shapes", path="", corpus="prs", props=[
        emu("slide_width", 914400, 51206400, typ=(12192000, 9144000), src="Presentation.slide_width: EMU; range not stated (ST_SlideSizeCoordinate 1..56 in)"),
        emu("slide_height", 914400, 51206400, typ=(5143500, 6858000), src="Presentation.slide_height"),
    ]),
    dict(kind="Slide", classes=["Slide"], deck="shapes", path="slides[0]", corpus="slide", props=[
        P("name", "str", none=True, noneReads="s:", xp="p:cSld/@name", src="_BaseSlide.name: str; '' or None removes the name"),
    ]),
    dict(kind="SlideLayout", classes=["SlideLayout"], deck="shapes", path="slide_layouts[0]", corpus="layout", props=[
        P("name", "str", none=True, noneReads="s:", xp="p:cSld/@name", src="_BaseSlide.name"),
    ]),
    dict(kind="AutoShape", classes=["Shape"], deck="shapes", path="slides[0].shapes[2]", corpus="autoshape", props=position_size()),
    dict(kind="TextBox", classes=["Shape"], deck="shapes", path="slides[0].shapes[3]", corpus="textbox", props=position_size()),
    dict(kind="Picture", classes=["Picture"], deck="shapes", path="slides[0].shapes[4]", corpus="picture", props=position_size() + [
        P("crop_left", "frac", lo=-21474.83648, hi=21474.83647, q=Q_FRAC, typ=(0.25, -0.1, 1.5, 0.0),
          src="_BasePicture.crop_*: float, 1.0 = 100%, negative and > 1.0 valid; limits not stated (ST_Percentage)"),
        P("crop_right", "frac", lo=-21474.83648, hi=21474.83647, q=Q_FRAC, typ=(0.25, -0.1, 1.5, 0.0), src="as crop_left"),
        P("crop_top", "frac", lo=-21474.83648, hi=21474.83647, q=Q_FRAC, typ=(0.125, -0.3, 2.0, 0.0), src="as crop_left"),
        P("crop_bottom", "frac", lo=-21474.83648, hi=21474.83647, q=Q_FRAC, typ=(0.5, -0.05, 1.0, 0.0), src="as crop_left"),
        enum("auto_shape_type", "pptx.enum.shapes.MSO_SHAPE", src="Picture.auto_shape_type: member of MSO_SHAPE (masking shape)"),
    ]),
    dict(kind="Connector", classes=["Connector"], deck="shapes", path="slides[0].shapes[5]", corpus="connector", props=position_size(),
         skipped={"begin_x": "C17", "begin_y": "C17", "end_x": "C17", "end_y": "C17"}),
    dict(kind="GroupShape", classes=["GroupShape"], deck="shapes", path="slides[0].shapes[6]", corpus="group", props=position_size()),
    dict(kind="GraphicFrame", classes=["GraphicFrame"], deck="shapes", path="slides[0].shapes[7]", corpus="graphicframe", props=position_size()),
    dict(kind="Placeholder", classes=["SlidePlaceholder"], deck="shapes", path="slides[0].shapes[0]", corpus="placeholder", props=position_size(True)),
    dict(kind="LayoutPlaceholder", classes=["LayoutPlaceholder"], deck="shapes", path="slide_layouts[0].placeholders[1]", corpus="layoutph",
         props=position_size(True)),
    dict(kind="Adjustments", classes=["AdjustmentCollection", "Adjustment"], deck="shapes", path="slides[0].shapes[8]", corpus="adjustable", props=[
        P("adjustments[0]", "frac", lo=-21474.83648, hi=21474.83647, q=Q_FRAC, typ=(0.25, 0.0, 1.0, -0.5, 1.5),
          src="Adjustment.effective_value: float, nominally 0.0..1.0, can be negative or > 1.0; stored in 1/100000"),
        P("adjustments[1]", "frac", lo=-21474.83648, hi=21474.83647, q=Q_FRAC, typ=(0.75, 0.5, 0.1, 2.0), src="as adjustments[0]"),
    ]),
    dict(kind="TextFrame", classes=["TextFrame"], deck="shapes", path="slides[0].shapes[3].text_frame", corpus="textframe", props=[
        emu("margin_left", -I32 - 1, I32, typ=(45720, 91440, 0, 914400), xp="a:bodyPr/@lIns", src="TextFrame.margin_*: Length; range not stated (ST_Coordinate32)"),
        emu("margin_right", -I32 - 1, I32, typ=(182880, 91440, 0, 914400), xp="a:bodyPr/@rIns", src="as margin_left"),
        emu("margin_top", -I32 - 1, I32, typ=(91440, 45720, 0, 457200), xp="a:bodyPr/@tIns", src="as margin_left"),
        emu("margin_bottom", -I32 - 1, I32, typ=(22860, 45720, 0, 457200), xp="a:bodyPr/@bIns", src="as margin_left"),
        boolean("word_wrap", none=True, strict=True, xp="a:bodyPr/@wrap", src="TextFrame.word_wrap: True, False or None (ValueError otherwise)"),
        enum("auto_size", "pptx.enum.text.MSO_AUTO_SIZE", none=True, xp="a:bodyPr/a:noAutofit | a:bodyPr/a:normAutofit | a:bodyPr/a:spAutoFit",
             src="TextFrame.auto_size: None, NONE, SHAPE_TO_FIT_TEXT or TEXT_TO_FIT_SHAPE"),
        enum("vertical_anchor", "pptx.enum.text.MSO_ANCHOR", none=True, xp="a:bodyPr/@anchor", src="TextFrame.vertical_anchor: member of MSO_VERTICAL_ANCHOR or None"),
    ], skipped={"text": "C04"}),
    dict(kind="Paragraph", classes=["_Paragraph"], deck="shapes", path="slides[0].shapes[3].text_frame.paragraphs[0]", corpus="paragraph", props=[
        enum("alignment", "pptx.enum.text.PP_ALIGN", none=True, xp="a:pPr/@algn", src="_Paragraph.alignment: member of PP_PARAGRAPH_ALIGNMENT or None"),
        P("level", "int", lo=0, hi=8, q=1, edgeDoc=True, typ=(1, 4), src="_Paragraph.level: integer in range 0..8 inclusive"),
        P("line_spacing", "linespacing", lo=0.0, hi=132.0, q=Q_FRAC, none=True, xp="a:pPr/a:lnSpc", typ=(1.5, 2, 0.9, 152400, 190500),
          src="_Paragraph.line_spacing: number = lines, Length = fixed height, None = inherit; limits not stated"),
        P("space_before", "cpt", lo=0, hi=20116800, q=127, step=1, none=True, xp="a:pPr/a:spcBef", typ=(76200, 152400, 0),
          src="_Paragraph.space_before: Length or None; limits not stated (ST_TextSpacingPoint 0..1584 pt)"),
        P("space_after", "cpt", lo=0, hi=20116800, q=127, step=1, none=True, xp="a:pPr/a:spcAft", typ=(76200, 228600, 0), src="as space_before"),
    ], skipped={"text": "C04"}),
    dict(kind="RunFont", classes=["Font"], deck="shapes", path="slides[0].shapes[3].text_frame.paragraphs[0].runs[0].font", corpus="runfont", props=font_props()),
    dict(kind="ParagraphFont", classes=["Font"], deck="shapes", path="slides[0].shapes[3].text_frame.paragraphs[0].font", corpus="parafont", props=font_props()),
    # relationship-valued string properties: the reading is the target of an external relationship of the part.  Two objects given the
    # same address share ONE relationship (relate_to re-uses it) - the twin observation is what makes these kinds worth having
    dict(kind="RunHyperlink", classes=["_Hyperlink"], deck="shapes", path="slides[0].shapes[3].text_frame.paragraphs[0].runs[0].hyperlink",
         corpus="-", props=[
        P("address", "str", none=True, nonempty=True, xp="a:hlinkClick", typ=("https://example.invalid/a?x=1&y=2", "mailto:someone@example.invalid"),
          src="_Hyperlink.address: str or None; None removes the hyperlink ('' is not documented)")]),
    dict(kind="ShapeHyperlink", classes=["Hyperlink"], deck="shapes", path="slides[0].shapes[2].click_action.hyperlink", corpus="-", props=[
        P("address", "str", none=True, nonempty=True, xp="a:hlinkClick", typ=("https://example.invalid/a?x=1&y=2", "file:///C:/x%20y.pptx"),
          src="Hyperlink.address: str or None; None removes the hyperlink ('' is not documented)")]),
    dict(kind="FontColor", classes=["ColorFormat"], deck="shapes", path="slides[0].shapes[3].text_frame.paragraphs[0].runs[0].font.color", corpus="fontcolor",
         props=color_props()),
    dict(kind="SolidFillColor", classes=["ColorFormat", "FillFormat"], deck="shapes", path="slides[0].shapes[9].fill", corpus="solidfill",
         props=color_props("fore_color.") + [RO("type")]),
    dict(kind="GradientFill", classes=["FillFormat", "_GradFill"], deck="shapes", path="slides[0].shapes[10].fill", corpus="gradfill", props=[
        P("gradient_angle", "angle", q=Q_ANGLE, mod=360, draw=(-360.0, 720.0), typ=(45.0, 90.0, 0.0, 270.5, 360.0, -90.0),
          src="FillFormat.gradient_angle: float degrees (counter-clockwise); read modulo 360"),
        RO("type"),
    ]),
    dict(kind="GradientStop", classes=["_GradientStop", "ColorFormat"], deck="shapes", path="slides[0].shapes[10].fill.gradient_stops[0]", corpus="gradstop",
         props=[P("position", "frac", lo=0.0, hi=1.0, q=Q_FRAC, edgeDoc=True, typ=(0.25, 0.5), src="_GradientStop.position: float between 0.0 and 1.0")]
         + color_props("color.")),
    # the LAST member of an indexed collection (its position starts at the top of the range: any smaller value passes the first stop's)
    dict(kind="LastGradientStop", classes=["_GradientStop", "ColorFormat"], deck="shapes", path="slides[0].shapes[10].fill.gradient_stops[1]", corpus="-",
         props=[P("position", "frac", lo=0.0, hi=1.0, q=Q_FRAC, edgeDoc=True, typ=(0.25, 0.5), src="_GradientStop.position: float between 0.0 and 1.0")]
         + color_props("color.")),
    dict(kind="PatternFill", classes=["FillFormat", "_PattFill"], deck="shapes", path="slides[0].shapes[11].fill", corpus="pattfill", props=[
        enum("pattern", "pptx.enum.dml.MSO_PATTERN", none=True, xp="a:pattFill/@prst", src="FillFormat.pattern: member of MSO_PATTERN_TYPE or None"),
        RO("type"),
    ] + color_props("fore_color.") + color_props("back_color.")),
    dict(kind="Line", classes=["LineFormat"], deck="shapes", path="slides[0].shapes[2].line", corpus="line", props=[
        emu("width", 0, 20116800, typ=(12700, 9525, 38100, 0), src="LineFormat.width: integer EMU; limits not stated (ST_LineWidth 0..1584 pt)"),
        enum("dash_style", "pptx.enum.dml.MSO_LINE", none=True, xp="./*/a:ln/a:prstDash | ./*/a:ln/a:custDash",
             src="LineFormat.dash_style: member of MSO_LINE_DASH_STYLE or None"),
        # colour through the SAME line object (users hold `line = shape.line`): width / dash / colour sequences interleave
    ] + [dict(pr, coupled=[c for c in pr["coupled"] if not c.endswith("brightness")])
         for pr in color_props("color.", lazy="color", also=["fill.type"]) if not pr["p"].endswith("brightness")]   # (brightness: LineColor kind)
      + [RO("fill.type")]),
    dict(kind="LineColor", classes=["ColorFormat"], deck="shapes", path="slides[0].shapes[2].line.color", corpus="linecolor", props=color_props()),
    dict(kind="Shadow", classes=["ShadowFormat"], deck="shapes", path="slides[0].shapes[2].shadow", corpus="shadow", props=[
        boolean("inherit", src="ShadowFormat.inherit: True/False (bool(value) is taken: any value is accepted)"),
    ]),
    dict(kind="Table", classes=["Table"], deck="shapes", path="slides[0].shapes[7].table", corpus="table", props=[
        boolean(n, src="Table.%s: read/write bool" % n) for n in ("first_row", "first_col", "last_row", "last_col", "horz_banding", "vert_banding")]),
    dict(kind="Cell", classes=["_Cell"], deck="shapes", path="slides[0].shapes[7].table.cell(0,0)", corpus="cell", props=[
        emu("margin_left", 0, I32, none=True, noneReads="L:91440", xp="a:tcPr/@marL", typ=(45720, 91440, 0, 182880),
            src="_Cell.margin_*: Length; None = default (0.1 in left/right, 0.05 in top/bottom); limits not stated"),
        emu("margin_right", 0, I32, none=True, noneReads="L:91440", xp="a:tcPr/@marR", typ=(182880, 91440, 0, 45720), src="as margin_left"),
        emu("margin_top", 0, I32, none=True, noneReads="L:45720", xp="a:tcPr/@marT", typ=(91440, 45720, 0, 18288), src="as margin_left"),
        emu("margin_bottom", 0, I32, none=True, noneReads="L:45720", xp="a:tcPr/@marB", typ=(18288, 45720, 0, 91440), src="as margin_left"),
        enum("vertical_anchor", "pptx.enum.text.MSO_ANCHOR", none=True, xp="a:tcPr/@anchor", src="_Cell.vertical_anchor: member of MSO_VERTICAL_ANCHOR or None"),
    ], skipped={"text": "C04"}),
    dict(kind="Row", classes=["_Row"], deck="shapes", path="slides[0].shapes[7].table.rows[0]", corpus="row", props=[
        emu("height", 0, EMU_MAX, typ=(370840, 914400, 0, 457200), src="_Row.height: EMU (C14 covers the frame sum; here read-back)")]),
    dict(kind="Column", classes=["_Column"], deck="shapes", path="slides[0].shapes[7].table.columns[0]", corpus="column", props=[
        emu("width", 0, EMU_MAX, typ=(1828800, 914400, 0), src="_Column.width: EMU")]),
    # ------------------------------------------------------------------------------------------- charts
    dict(kind="Chart", classes=["Chart"], deck="bar", path="slides[0].shapes[0].chart", corpus="chart", props=[
        boolean("has_legend", src="Chart.has_legend: bool (bool(value) taken)"),
        boolean("has_title", src="Chart.has_title: bool (bool(value) taken)"),
        P("chart_style", "int", lo=1, hi=48, q=1, edgeDoc=True, none=True, xp="c:style", typ=(2, 10, 26),
          src="Chart.chart_style: integer 1..48 or None"),
    ]),
    dict(kind="ChartFont", classes=["Font"], deck="bar", path="slides[0].shapes[0].chart.font", corpus="chartfont", props=font_props()),
    dict(kind="LegendFont", classes=["Font"], deck="bar", path="slides[0].shapes[0].chart.legend.font", corpus="legendfont", props=font_props(), tier="thorough"),
    dict(kind="DataLabelsFont", classes=["Font"], deck="bar", path="slides[0].shapes[0].chart.plots[0].data_labels.font", corpus="dlblsfont",
         props=font_props(), tier="thorough"),
    dict(kind="TickLabelsFont", classes=["Font"], deck="bar", path="slides[0].shapes[0].chart.value_axis.tick_labels.font", corpus="tickfont",
         props=font_props(), tier="thorough"),
    dict(kind="ChartTitle", classes=["ChartTitle"], deck="bar", path="slides[0].shapes[1].chart.chart_title", corpus="charttitle", props=[
        boolean("has_text_frame", src="ChartTitle.has_text_frame: bool (bool(value) taken)")]),
    dict(kind="CategoryAxis", classes=["CategoryAxis"], deck="bar", path="slides[0].shapes[0].chart.category_axis", corpus="cataxis", props=axis_props(False)),
    dict(kind="ValueAxis", classes=["ValueAxis"], deck="bar", path="slides[0].shapes[0].chart.value_axis", corpus="valaxis", props=axis_props(True)),
    dict(kind="AxisTitle", classes=["AxisTitle"], deck="bar", path="slides[0].shapes[1].chart.value_axis.axis_title", corpus="axistitle", props=[
        boolean("has_text_frame", src="AxisTitle.has_text_frame: bool (bool(value) taken)")]),
    dict(kind="TickLabels", classes=["TickLabels"], deck="bar", path="slides[0].shapes[0].chart.category_axis.tick_labels", corpus="ticklabels", props=[
        P("number_format", "str", coupled=["number_format_is_linked"], src="TickLabels.number_format: str; sets number_format_is_linked False", **NUMFMT),
        boolean("number_format_is_linked", coupled=["number_format"], src="TickLabels.number_format_is_linked: bool (adds c:numFmt when absent)"),
        P("offset", "int", lo=0, hi=1000, q=1, edgeDoc=True, typ=(50, 100, 250), src="TickLabels.offset: int in range 0-1000 (category axis only)"),
    ]),
    dict(kind="Legend", classes=["Legend"], deck="bar", path="slides[0].shapes[0].chart.legend", corpus="legend", props=[
        enum("position", "pptx.enum.chart.XL_LEGEND_POSITION", src="Legend.position: member of XL_LEGEND_POSITION"),
        boolean("include_in_layout", none=True, noneReads="True", xp="c:overlay", src="Legend.include_in_layout: bool; None removes c:overlay (read as True)"),
        P("horz_offset", "double", lo=-1.0, hi=1.0, edgeDoc=True, typ=(0.25, -0.5, 0.0, 0.42),
          src="Legend.horz_offset: float between -1.0 and 1.0 (fraction of chart width; c:x is xsd:double, stored exactly)"),
    ]),
    dict(kind="DataLabels", classes=["DataLabels"], deck="bar", path="slides[0].shapes[0].chart.plots[0].data_labels", corpus="datalabels", props=[
        enum("position", "pptx.enum.chart.XL_LABEL_POSITION", none=True, xp="c:dLblPos", src="DataLabels.position: member of XL_DATA_LABEL_POSITION or None"),
        P("number_format", "str", coupled=["number_format_is_linked"], src="DataLabels.number_format: str; sets number_format_is_linked False", **NUMFMT),
        boolean("number_format_is_linked", coupled=["number_format"], src="DataLabels.number_format_is_linked: bool"),
        boolean("show_value", src="DataLabels.show_value (bool(value) taken)"),
        boolean("show_category_name", src="DataLabels.show_category_name"),
        boolean("show_series_name", src="DataLabels.show_series_name"),
        boolean("show_legend_key", src="DataLabels.show_legend_key"),
        boolean("show_percentage", src="DataLabels.show_percentage"),
    ]),
    dict(kind="DataLabel", classes=["DataLabel"], deck="bar", path="slides[0].shapes[0].chart.plots[0].series[0].points[0].data_label", corpus="datalabel", props=[
        enum("position", "pptx.enum.chart.XL_LABEL_POSITION", none=True, xp="c:dLbls/c:dLbl[c:idx/@val='0']/c:dLblPos",
             src="DataLabel.position: member of XL_DATA_LABEL_POSITION or None"),
        boolean("has_text_frame", src="DataLabel.has_text_frame (bool(value) taken)"),
    ]),
    dict(kind="BarPlot", classes=["BarPlot"], deck="bar", path="slides[0].shapes[0].chart.plots[0]", corpus="barplot", props=[
        P("gap_width", "int", lo=0, hi=500, q=1, typ=(50, 150, 300), src="BarPlot.gap_width: integer percentage; limits not stated (ST_GapAmount 0..500)"),
        P("overlap", "int", lo=-100, hi=100, q=1, edgeDoc=True, typ=(50, 0, -25), src="BarPlot.overlap: int in range -100..100"),
        boolean("vary_by_categories", src="_BasePlot.vary_by_categories (bool(value) taken)"),
        boolean("has_data_labels", src="_BasePlot.has_data_labels (bool(value) taken)"),
    ]),
    dict(kind="StackedBarPlot", classes=["BarPlot"], deck="bar", path="slides[0].shapes[2].chart.plots[0]", corpus="-", props=[
        P("gap_width", "int", lo=0, hi=500, q=1, typ=(50, 150, 300), src="BarPlot.gap_width: integer percentage; limits not stated (ST_GapAmount 0..500)"),
        P("overlap", "int", lo=-100, hi=100, q=1, edgeDoc=True, typ=(50, 0, -25), src="BarPlot.overlap: int in range -100..100"),
        boolean("vary_by_categories", src="_BasePlot.vary_by_categories (bool(value) taken)"),
    ]),
    dict(kind="BarSeries", classes=["BarSeries"], deck="bar", path="slides[0].shapes[0].chart.plots[0].series[0]", corpus="barseries", props=[
        boolean("invert_if_negative", src="BarSeries.invert_if_negative: bool")]),
    dict(kind="LineSeries", classes=["LineSeries"], deck="line", path="slides[0].shapes[0].chart.plots[0].series[0]", corpus="lineseries", props=[
        boolean("smooth", src="LineSeries.smooth: bool")]),
    dict(kind="Marker", classes=["Marker"], deck="line", path="slides[0].shapes[0].chart.plots[0].series[0].marker", corpus="marker", props=[
        P("size", "int", lo=2, hi=72, q=1, edgeDoc=True, none=True, xp="c:marker/c:size", typ=(9, 5, 24), src="Marker.size: integer 2..72 or None"),
        enum("style", "pptx.enum.chart.XL_MARKER_STYLE", none=True, xp="c:marker/c:symbol", src="Marker.style: member of XL_MARKER_STYLE or None"),
    ]),
    dict(kind="PointMarker", classes=["Marker"], deck="line", path="slides[0].shapes[0].chart.plots[0].series[0].points[0].marker", corpus="-", props=[
        P("size", "int", lo=2, hi=72, q=1, edgeDoc=True, none=True, xp="c:marker/c:size", typ=(9, 5, 24), src="Marker.size: integer 2..72 or None"),
        enum("style", "pptx.enum.chart.XL_MARKER_STYLE", none=True, xp="c:marker/c:symbol", src="Marker.style: member of XL_MARKER_STYLE or None"),
    ]),
    dict(kind="XyPlot", classes=["XyPlot"], deck="xy", path="slides[0].shapes[0].chart.plots[0]", corpus="xyplot", props=[
        boolean("vary_by_categories", src="_BasePlot.vary_by_categories: read/write boolean"),
        boolean("has_data_labels", src="_BasePlot.has_data_labels: read/write boolean"),
    ]),
    dict(kind="BubblePlot", classes=["BubblePlot"], deck="bubble", path="slides[0].shapes[0].chart.plots[0]", corpus="bubbleplot", props=[
        P("bubble_scale", "int", lo=0, hi=300, q=1, edgeDoc=True, none=True, noneReads="i:100", xp="c:bubbleScale", typ=(50, 100, 200),
          src="BubblePlot.bubble_scale: integer 0..300; None = 100"),
        boolean("vary_by_categories", src="_BasePlot.vary_by_categories"),
        boolean("has_data_labels", src="_BasePlot.has_data_labels"),
    ]),
]

# settable properties of the public classes that belong to other checks or are not value properties
OUT_OF_SCOPE = {
    ("Shape", "text"): "C04", ("TextFrame", "text"): "C04", ("_Paragraph", "text"): "C04", ("_Run", "text"): "C04", ("_Cell", "text"): "C04",
    ("Connector", "begin_x"): "C17", ("Connector", "begin_y"): "C17", ("Connector", "end_x"): "C17", ("Connector", "end_y"): "C17",
    ("_BaseShapes", "turbo_add_enabled"): "C06 (allocator switch, not a stored property)",
    ("Part", "blob"): "opc internals (C01)", ("Part", "partname"): "opc internals (C19)", ("ChartWorkbook", "xlsx_part"): "part wiring (C08)",
    ("CategoryChartData", "categories"): "chart-data builder (C07)", ("Categories", "number_format"): "chart-data builder (C07)",
}
OUT_OF_SCOPE.update({("CorePropertiesPart", n): "C18" for n in (
    "author", "category", "comments", "content_status", "created", "identifier", "keywords", "language", "last_modified_by",
    "last_printed", "modified", "revision", "subject", "title", "version")})
# relationship-valued (not value properties: the reading is a target object / URL held in the part's relationships; C02 covers them)
OUT_OF_SCOPE.update({("ActionSetting", "target_slide"): "relationship-valued, the value is an object (C02)"})


def by_kind() -> dict:
    return {k["kind"]: k for k in KINDS}


def catalogued_names() -> set:
    """(python class, property name) pairs the catalogue covers; sub-object paths count for the class that defines the leaf."""
    out = set()
    for k in KINDS:
        for pr in k["props"]:
            if pr["ro"]:
                continue
            leaf = pr["p"].split(".")[-1]
            if leaf.startswith("adjustments["):
                out.add(("Adjustment", "effective_value"))
                continue
            for c in k["classes"]:
                out.add((c, leaf))
    return out
