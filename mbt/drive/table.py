"""Driver for Table.tla: real tables through the public API, projected from the serialised XML plus public readers."""
from __future__ import annotations

import copy

from lxml import etree

A = "http://schemas.openxmlformats.org/drawingml/2006/main"
P = "http://schemas.openxmlformats.org/presentationml/2006/main"


def _tok(text: str) -> int:
    if text == "":
        return 0
    if text.startswith("T") and text[1:].isdigit():
        return int(text[1:])
    return 999


_TR, _TC, _TXB, _P, _T, _GRID, _GC = ("{%s}tr" % A, "{%s}tc" % A, "{%s}txBody" % A, "{%s}p" % A, "{%s}t" % A,
                                       "{%s}tblGrid" % A, "{%s}gridCol" % A)


def project(gf) -> dict:
    """State record of spec/Table.tla from a GraphicFrame holding a table: attributes and paragraphs read from
    the lxml tree with plain lxml calls, readers through the public API."""
    root = gf._element
    tbl = next(root.iter("{%s}tbl" % A))
    table = gf.table
    rows = []
    trs = [x for x in tbl if x.tag == _TR]
    for ri, tr in enumerate(trs):
        row = []
        for ci, tc in enumerate(x for x in tr if x.tag == _TC):
            txt = []
            for txb in tc:
                if txb.tag == _TXB:
                    for p in txb:
                        if p.tag == _P:
                            txt.append(_tok("".join(t.text or "" for t in p.iter(_T))))
            cell = table.cell(ri, ci)
            rtxt = [_tok(x) for x in cell.text.split("\n")]
            row.append({"gs": int(tc.get("gridSpan", "1")), "rs": int(tc.get("rowSpan", "1")),
                        "hm": tc.get("hMerge") in ("1", "true"), "vm": tc.get("vMerge") in ("1", "true"),
                        "o": bool(cell.is_merge_origin), "sp": bool(cell.is_spanned),
                        "sh": int(cell.span_height), "sw": int(cell.span_width),
                        "txt": txt if txt == rtxt else [998]})
        rows.append(row)
    ext = root.find("{%s}xfrm/{%s}ext" % (P, A))
    return {"rows": rows,
            "colw": [int(g.get("w")) for grid in tbl if grid.tag == _GRID for g in grid if g.tag == _GC],
            "rowh": [int(tr.get("h")) for tr in trs],
            "fw": int(ext.get("cx")), "fh": int(ext.get("cy"))}


def kept_flags(kept, state: dict) -> list:
    """The merge readers of every cell reached through a Table object obtained earlier."""
    out = []
    for ri, row in enumerate(state["rows"]):
        r = []
        for ci, _ in enumerate(row):
            try:
                c = kept.cell(ri, ci)
                r.append({"o": bool(c.is_merge_origin), "sp": bool(c.is_spanned), "sh": int(c.span_height), "sw": int(c.span_width)})
            except Exception:       # noqa: BLE001  a reader that raises reads nothing
                r.append({"o": False, "sp": False, "sh": -1, "sw": -1})
        out.append(r)
    return out


class Bench:
    """One slide with the table under test and a second table for cross-table merges."""

    def __init__(self):
        import pptx
        self.prs = pptx.Presentation()
        self.slide = self.prs.slides.add_slide(self.prs.slide_layouts[6])
        self.other = self.slide.shapes.add_table(1, 1, 0, 0, 100, 100)

    def create(self, a: dict):
        gf = self.slide.shapes.add_table(a["r"], a["c"], 10, 20, a["w"], a["h"])
        return gf

    @staticmethod
    def set_texts(gf, txt):
        t = gf.table
        for i, row in enumerate(txt):
            for j, toks in enumerate(row):
                s = "\n".join(("T%d" % k) if k else "" for k in toks)
                if s != "":
                    t.cell(i, j).text = s
                if any(k >= 200 for k in toks):
                    # a paragraph whose only content is a FIELD: no API makes one; the run is rewritten as PowerPoint writes a field
                    tc = [x for x in [r for r in next(gf._element.iter("{%s}tbl" % A)) if r.tag == _TR][i] if x.tag == _TC][j]
                    for r_ in list(tc.iter("{%s}r" % A)):
                        tx = r_.find(_T)
                        if tx is not None and _tok(tx.text or "") >= 200:
                            fld = etree.Element("{%s}fld" % A)
                            fld.set("id", "{B7F3A1C2-0D4E-4F5A-9B6C-7D8E9F0A1B2C}")
                            fld.set("type", "slidenum")
                            for ch in list(r_):
                                fld.append(ch)
                            r_.getparent().replace(r_, fld)

    @staticmethod
    def make_variant(gf, var: int):
        """Document variants (MC_Table.VARS): the same table as another producer may have written it (lxml edits only)."""
        tbl = next(gf._element.iter("{%s}tbl" % A))
        if var == 1:
            for el in tbl.findall("{%s}tblPr" % A):
                tbl.remove(el)
        elif var == 2:
            for tc in tbl.iter(_TC):
                for el in tc.findall("{%s}tcPr" % A):
                    tc.remove(el)
        elif var == 3:
            ext = '<a:extLst xmlns:a="%s"><a:ext uri="{9D8B030D-6E8A-4147-A177-3AD203B41FA5}"/></a:extLst>' % A
            for el in list(tbl.iter(_TR, _TC, _GC)):
                el.append(etree.fromstring(ext))

    def apply(self, gf, a: dict) -> str:
        t = gf.table
        try:
            op = a["op"]
            if op == "merge":
                t.cell(a["a"][0] - 1, a["a"][1] - 1).merge(t.cell(a["b"][0] - 1, a["b"][1] - 1))
            elif op == "mergeOther":
                t.cell(a["a"][0] - 1, a["a"][1] - 1).merge(self.other.table.cell(0, 0))
            elif op == "split":
                t.cell(a["a"][0] - 1, a["a"][1] - 1).split()
            elif op == "colw":
                t.columns[a["i"] - 1].width = a["v"]
            elif op == "rowh":
                t.rows[a["i"] - 1].height = a["v"]
            elif op == "frame":
                gf.width, gf.height = a["w"], a["h"]
            else:
                raise RuntimeError("unknown op " + op)
            return "ok"
        except Exception as e:
            return type(e).__name__

    def clone(self, gf):
        el = copy.deepcopy(gf._element)
        gf._element.getparent().append(el)
        return self.slide.shapes[-1], el

    def drop(self, el):
        el.getparent().remove(el)


def all_actions(s: dict, sizeacts: bool) -> list[dict]:
    R, C = len(s["rows"]), len(s["colw"])
    cells = [[r, c] for r in range(1, R + 1) for c in range(1, C + 1)]
    acts = [{"op": "merge", "a": a, "b": b} for a in cells for b in cells]
    acts += [{"op": "split", "a": a} for a in cells]
    acts.append({"op": "mergeOther", "a": [1, 1]})
    if sizeacts:
        acts += [{"op": "colw", "i": i, "v": v} for i in range(1, C + 1) for v in (1, 40, 914400)]
        acts += [{"op": "rowh", "i": i, "v": v} for i in range(1, R + 1) for v in (3, 370840)]
        acts += [{"op": "frame", "w": s["fw"] + 11, "h": s["fh"] + 13}, {"op": "frame", "w": 1, "h": 0}]
    return acts


_BENCH = []


def run_group(gid: str, h: list[dict], sizeacts: bool, fanout: bool = True, xsd: bool = False) -> dict:
    """xsd=True: the XSD monitor's verdict on the slide part is logged after every real call ("x": error signatures) so that the
    same histories serve as a host of C03 (mbt/checks/c03.py)."""
    if not _BENCH:
        _BENCH.append(Bench())
    b = _BENCH[0]
    if xsd:
        from mbt.monitor import xsd as X
        mon = lambda: X.errors(b.slide._element)  # noqa: E731
    else:
        mon = lambda: []  # noqa: E731
    base = mon()
    gf = b.create(h[0])
    created = project(gf)
    b.set_texts(gf, h[0]["txt"])
    if h[0].get("var"):
        b.make_variant(gf, h[0]["var"])
    t0 = project(gf)
    kept = gf.table                     # obtained once, read through before and after every call of the path
    path = [{"a": h[0], "out": "ok", "t": t0, "x": mon(), "kept": kept_flags(kept, t0)}]
    for a in h[1:]:
        out = b.apply(gf, a)
        t = project(gf)
        path.append({"a": a, "out": out, "t": t, "x": mon(), "kept": kept_flags(kept, t)})
    final = path[-1]["t"]
    steps = []
    if fanout:
        for a in all_actions(final, sizeacts):
            g2, el = b.clone(gf)
            k2 = g2.table
            kept_flags(k2, final)
            out = b.apply(g2, a)
            t = project(g2)
            kf = kept_flags(k2, t)
            x = mon()
            b.drop(el)
            same = t == final
            steps.append({"a": a, "out": out, "same": same, "t": [] if same else t, "x": x, "kept": kf})
    b.drop(gf._element)
    return {"id": gid, "h": h, "created": created, "path": path, "steps": steps, "xbase": base}
