"""Driver for Alloc.tla (C06/C02): replays TLC-generated allocator histories on the real python-pptx objects.

A token is {"c": class, "n": number} (see spec/Alloc.tla).  Each kind has a `Host` that materialises an initial identifier
set on a real object, performs alloc / allocGap / release / turbo through the library, and reads the identifier set back from
the object (never from what the calls returned)."""
from __future__ import annotations

import re
import zlib

NONE = {"c": "none", "n": 0}


def tok(c, n):
    return {"c": c, "n": n}


def key(t):
    return (t["c"], t["n"])


class Host:
    kind = ""

    def spell(self, t) -> str:
        raise NotImplementedError

    def parse(self, s: str, known: dict) -> dict:
        """The token of an identifier read back from the object."""
        if s in known:
            return known[s]
        m = self.CANON.match(s)
        if m:
            v = int(m.group(1))
            if str(v) == m.group(1) and v < 2 ** 31:
                return tok("canon", v)
        return {"c": "bad", "n": zlib.crc32(s.encode()) % 1000}


# ------------------------------------------------------------------ relationship ids of one source part
class RidHost(Host):
    kind = "rid"
    CANON = re.compile(r"^rId([0-9]+)$")
    ALPHA = {1: "rIdX", 2: "R7"}

    def spell(self, t):
        return {"canon": "rId%d", "pad": "rId0%d"}[t["c"]] % t["n"] if t["c"] != "alpha" else self.ALPHA[t["n"]]

    def start(self, used):
        from pptx.opc.constants import RELATIONSHIP_TYPE as RT
        from pptx.opc.package import OpcPackage, XmlPart
        from pptx.opc.packuri import PackURI
        from pptx.oxml import parse_xml
        self.RT = RT
        rels_xml = ['<Relationships xmlns="http://schemas.openxmlformats.org/package/2006/relationships">']
        for t in used:
            rels_xml.append('<Relationship Id="%s" Type="%s" Target="http://old.example/%s" TargetMode="External"/>'
                            % (self.spell(t), RT.HYPERLINK, self.spell(t)))
        rels_xml.append("</Relationships>")
        pkg = OpcPackage(None)
        elm = parse_xml(b'<p:sld xmlns:p="http://schemas.openxmlformats.org/presentationml/2006/main"/>')
        self.part = XmlPart(PackURI("/ppt/slides/slide1.xml"), "application/xml", pkg, elm)
        self.part.load_rels_from_xml(parse_xml("".join(rels_xml).encode()), {})
        self.k = 0

    def alloc(self, op):
        self.k += 1
        return self.part.relate_to("http://new.example/%d" % self.k, self.RT.HYPERLINK, is_external=True)

    def release(self, t):
        self.part.drop_rel(self.spell(t))

    def ids(self):
        return list(self.part.rels.keys())


# ------------------------------------------------------------------ part names (generic template, images, media)
class _PkgHost(Host):
    TMPL = ""
    DIR = ""

    def start(self, used):
        from pptx.opc.constants import RELATIONSHIP_TYPE as RT
        from pptx.opc.package import Part
        from pptx.opc.packuri import PackURI
        from pptx.package import Package
        self.RT, self.Part, self.PackURI = RT, Part, PackURI
        self.pkg = Package(None)
        self.rid = {}
        for t in used:
            self._add(self.spell(t))

    def _add(self, name):
        part = self.Part(self.PackURI(name), "application/octet-stream", self.pkg, b"x")
        self.rid[name] = self.pkg.relate_to(part, self.RT.IMAGE)

    def alloc(self, op):
        name = self._next()
        self._add(str(name))
        return str(name)

    def release(self, t):
        self.pkg._rels.pop(self.rid.pop(self.spell(t)))

    def ids(self):
        return [str(p.partname) for p in self.pkg.iter_parts() if str(p.partname).startswith(self.DIR)]


class PartnameHost(_PkgHost):
    kind = "partname"
    DIR = "/ppt/slides/"
    CANON = re.compile(r"^/ppt/slides/slide([0-9]+)\.xml$")

    def spell(self, t):
        return {"canon": "/ppt/slides/slide%d.xml", "pad": "/ppt/slides/slide0%d.xml"}[t["c"]] % t["n"] if t["c"] != "alpha" else "/ppt/slides/slideX.xml"

    def _next(self):
        return self.pkg.next_partname("/ppt/slides/slide%d.xml")


class ImageHost(_PkgHost):
    kind = "image"
    DIR = "/ppt/media/"
    CANON = re.compile(r"^/ppt/media/image([0-9]+)\.png$")

    def spell(self, t):
        return {"canon": "/ppt/media/image%d.png", "pad": "/ppt/media/image0%d.png", "alt": "/ppt/media/image%d.jpg",
                "alpha": "/ppt/media/imageX%d.png"}[t["c"]] % t["n"] if t["c"] != "alpha" else "/ppt/media/imageX.png"

    def _next(self):
        return self.pkg.next_image_partname("png")


class MediaHost(_PkgHost):
    kind = "media"
    DIR = "/ppt/media/"
    CANON = re.compile(r"^/ppt/media/media([0-9]+)\.mp4$")

    def spell(self, t):
        return {"canon": "/ppt/media/media%d.mp4", "pad": "/ppt/media/media0%d.mp4", "alt": "/ppt/media/media%d.mov"}[t["c"]] % t["n"] \
            if t["c"] != "alpha" else "/ppt/media/mediaX.mp4"

    def _next(self):
        return self.pkg.next_media_partname("mp4")


# ------------------------------------------------------------------ slide ids
class SlideIdHost(Host):
    kind = "slideid"
    CANON = re.compile(r"^([0-9]+)$")

    def spell(self, t):
        return str(t["n"])

    def start(self, used):
        from pptx.oxml import parse_xml
        xml = ['<p:sldIdLst xmlns:p="http://schemas.openxmlformats.org/presentationml/2006/main" '
               'xmlns:r="http://schemas.openxmlformats.org/officeDocument/2006/relationships">']
        for k, t in enumerate(used):
            xml.append('<p:sldId id="%s" r:id="rId%d"/>' % (self.spell(t), k + 10))
        xml.append("</p:sldIdLst>")
        self.lst = parse_xml("".join(xml).encode())
        self.k = 100

    def alloc(self, op):
        self.k += 1
        return self.lst.add_sldId("rId%d" % self.k).get("id")

    def release(self, t):
        for el in list(self.lst):
            if el.get("id") == self.spell(t):
                self.lst.remove(el)
                return

    def ids(self):
        return [el.get("id") for el in self.lst]


# ------------------------------------------------------------------ shape ids (both allocators, turbo cache)
_PRS = {}


def _slide():
    import pptx
    if "prs" not in _PRS or _PRS["n"] > 200:
        _PRS["prs"] = pptx.Presentation()
        _PRS["n"] = 0
    _PRS["n"] += 1
    prs = _PRS["prs"]
    return prs.slides.add_slide(prs.slide_layouts[6])


class ShapeHost(Host):
    kind = "shape"
    CANON = re.compile(r"^([0-9]+)$")
    GUID = "{8D3F2A11-6B0C-4D55-9A77-0123456789AB}"

    def spell(self, t):
        return {"canon": "%d", "pad": "0%d"}[t["c"]] % t["n"] if t["c"] != "alpha" else self.GUID

    def start(self, used):
        from lxml import etree
        self.slide = _slide()
        tree = self.slide.element.find("{http://schemas.openxmlformats.org/presentationml/2006/main}cSld/{http://schemas.openxmlformats.org/presentationml/2006/main}spTree")
        P = "http://schemas.openxmlformats.org/presentationml/2006/main"
        A = "http://schemas.openxmlformats.org/drawingml/2006/main"
        from pptx.oxml import parse_xml
        XF = '<a:xfrm><a:off x="0" y="0"/><a:ext cx="10" cy="10"/></a:xfrm>'
        els = []
        for t in used:
            if t == tok("canon", 1):
                continue                       # p:spTree's own cNvPr
            s = self.spell(t)
            if t["c"] == "alpha":
                # an a16:creationId extension under an existing shape's cNvPr: an @id that is not a shape id (what PowerPoint 2016+ writes)
                xml = ('<p:sp xmlns:p="%s" xmlns:a="%s"><p:nvSpPr><p:cNvPr id="900" name="Ext"><a:extLst><a:ext uri="{FF2B5EF4-FFF2-40B4-BE49-F238E27FC236}">'
                       '<a16:creationId xmlns:a16="http://schemas.microsoft.com/office/drawing/2014/main" id="%s"/></a:ext></a:extLst></p:cNvPr>'
                       '<p:cNvSpPr/><p:nvPr/></p:nvSpPr><p:spPr>%s</p:spPr></p:sp>' % (P, A, s, XF))
                el = parse_xml(xml)
                # the carrier shape's own id must not disturb the universe: it takes the alpha token's place only
                el.find("{%s}nvSpPr/{%s}cNvPr" % (P, P)).attrib.pop("id")
            else:
                el = parse_xml('<p:sp xmlns:p="%s" xmlns:a="%s"><p:nvSpPr><p:cNvPr id="%s" name="S%s"/><p:cNvSpPr/><p:nvPr/></p:nvSpPr><p:spPr>%s</p:spPr></p:sp>'
                               % (P, A, s, s, XF))
            els.append(el)
        # a group without an @id of its own (so that it adds nothing to the universe): shapes are added INTO it by allocIn; with
        # ord = "nested" it also holds the pre-existing shapes, the last of them inside an mc:AlternateContent fallback
        grp = parse_xml('<p:grpSp xmlns:p="%s"><p:nvGrpSpPr><p:cNvPr name="Holder"/><p:cNvGrpSpPr/><p:nvPr/></p:nvGrpSpPr><p:grpSpPr/></p:grpSp>' % P)
        if getattr(self, "ord", "asc") == "nested":
            for el in els[:-1]:
                grp.append(el)
            ac = etree.fromstring('<mc:AlternateContent xmlns:mc="http://schemas.openxmlformats.org/markup-compatibility/2006"><mc:Choice Requires="a14"/>'
                                  '<mc:Fallback/></mc:AlternateContent>')
            ac[1].append(els[-1])
            grp.append(ac)
        else:
            for el in els:
                tree.append(el)
        tree.append(grp)
        self.tree, self.grp = tree, grp

    def alloc(self, op):
        from pptx.util import Emu
        if op == "allocIn":
            from pptx.shapes.group import GroupShape
            return str(GroupShape(self.grp, self.slide.shapes).shapes.add_textbox(Emu(0), Emu(0), Emu(10), Emu(10)).shape_id)
        if op == "allocGap":
            return str(self.slide.shapes.add_group_shape().shape_id)
        if op == "allocFree":
            self.fb = self.slide.shapes.build_freeform(Emu(0), Emu(0))
            self.fb.add_line_segments([(Emu(100), Emu(0)), (Emu(100), Emu(100))])
            return str(self.fb.convert_to_shape().shape_id)
        if op == "allocAgain":
            return str(self.fb.convert_to_shape(Emu(500), Emu(500)).shape_id)
        return str(self.slide.shapes.add_textbox(Emu(0), Emu(0), Emu(10), Emu(10)).shape_id)

    def turbo(self):
        self.slide.shapes.turbo_add_enabled = True

    def release(self, t):
        s = self.spell(t)
        for el in self.tree.xpath(".//*[@id='%s']" % s):
            sp = el      # the shape element that carries the identifier (wherever it sits: in the tree, in the holder group, in a fallback)
            while sp.tag.rsplit("}", 1)[-1] not in ("sp", "pic", "cxnSp", "graphicFrame", "grpSp") or sp is self.grp:
                sp = sp.getparent()
            sp.getparent().remove(sp)
            return

    def ids(self):
        return [str(x) for x in self.tree.xpath(".//@id")]


# ------------------------------------------------------------------ time-node ids
class CtnHost(Host):
    kind = "ctn"
    CANON = re.compile(r"^([0-9]+)$")

    def spell(self, t):
        return {"canon": "%d", "pad": "0%d"}[t["c"]] % t["n"]

    def start(self, used):
        from lxml import etree
        self.slide = _slide()
        sld = self.slide._element
        P = "http://schemas.openxmlformats.org/presentationml/2006/main"
        inner = "".join('<p:par><p:cTn id="%s" fill="hold"/></p:par>' % self.spell(t) for t in used if t != tok("canon", 1))
        timing = etree.fromstring('<p:timing xmlns:p="%s"><p:tnLst><p:par><p:cTn id="1" dur="indefinite" restart="never" nodeType="tmRoot">'
                                  '<p:childTnLst>%s</p:childTnLst></p:cTn></p:par></p:tnLst></p:timing>' % (P, inner))
        sld.append(timing)
        self.sld = sld

    def alloc(self, op):
        lst = self.sld.get_or_add_childTnLst()
        before = list(lst.xpath(".//p:cTn"))            # the proxies are kept alive: identity, not id()
        lst.add_video(7)
        new = [e for e in lst.xpath(".//p:cTn") if all(e is not b for b in before)]
        return new[0].get("id")

    def release(self, t):
        for el in self.sld.xpath("./p:timing//p:cTn[@id='%s']" % self.spell(t)):
            par = el.getparent()
            par.getparent().remove(par)
            return

    def ids(self):
        return [str(x) for x in self.sld.xpath("./p:timing//p:cTn/@id")]


HOSTS = {h.kind: h for h in (RidHost, PartnameHost, ImageHost, MediaHost, SlideIdHost, ShapeHost, CtnHost)}


def run_history(hid: str, hist: list) -> dict:
    init = hist[0]
    h = HOSTS[init["kind"]]()
    used = init["used"]
    known = {h.spell(t): t for t in used}
    h.ord = init.get("ord", "asc")
    h.start(used)

    def observed():
        return sorted((h.parse(s, known) for s in h.ids()), key=lambda t: (t["c"], t["n"]))
    steps = [{"op": "init", "arg": NONE, "new": NONE, "exp": NONE, "raised": "", "used": observed(), "_raw": [x[:60] for x in h.ids()]}]
    for a in hist[1:]:
        new, raised = NONE, ""
        try:
            if a["op"] in ("alloc", "allocGap", "allocIn", "allocFree", "allocAgain"):
                s = h.alloc(a["op"])
                new = h.parse(str(s), {})
                if new["c"] == "canon":
                    known.setdefault(str(s), new)
            elif a["op"] == "release":
                h.release(a["arg"])
            elif a["op"] == "turbo":
                h.turbo()
        except Exception as e:      # the outcome of the real call is part of the observation
            raised = type(e).__name__
        steps.append({"op": a["op"], "arg": a["arg"], "new": new, "exp": a["new"], "raised": raised, "used": observed(), "_raw": [x[:60] for x in h.ids()]})
    return {"id": hid, "kind": init["kind"], "steps": steps}
