"""Driver for CoreProps.tla (C18): real packages through the public API; the state is projected from the serialised
core.xml bytes with plain lxml calls plus the public readers; the XSD monitor is lxml's XMLSchema over the OPC
core-properties schema (its two Dublin Core imports and xml.xsd are the local stubs in /verif/schemas)."""
from __future__ import annotations

import datetime as dt
import io
import os
import re
import zipfile

from lxml import etree

ROOT = os.path.dirname(os.path.dirname(os.path.dirname(os.path.abspath(__file__))))
REPO = (os.environ.get("VERIF_REPO") or "/repo")
SCHEMAS = os.path.join(ROOT, "schemas")
XSD_SRC = os.path.join(REPO, "spec", "ISO-IEC-29500-2", "opc-xsd", "opc-coreProperties.xsd")

CP = "http://schemas.openxmlformats.org/package/2006/metadata/core-properties"
DC = "http://purl.org/dc/elements/1.1/"
DCT = "http://purl.org/dc/terms/"
XSI = "http://www.w3.org/2001/XMLSchema-instance"
RT_CORE = "http://schemas.openxmlformats.org/package/2006/relationships/metadata/core-properties"
CT_CORE = "application/vnd.openxmlformats-package.core-properties+xml"
CORE_NAME = "docProps/core.xml"

# public attribute name -> qualified element name in core.xml
STR_TAGS = {"author": "{%s}creator" % DC, "category": "{%s}category" % CP, "comments": "{%s}description" % DC,
            "content_status": "{%s}contentStatus" % CP, "identifier": "{%s}identifier" % DC, "keywords": "{%s}keywords" % CP,
            "language": "{%s}language" % DC, "last_modified_by": "{%s}lastModifiedBy" % CP, "subject": "{%s}subject" % DC,
            "title": "{%s}title" % DC, "version": "{%s}version" % CP}
DATE_TAGS = {"created": "{%s}created" % DCT, "last_printed": "{%s}lastPrinted" % CP, "modified": "{%s}modified" % DCT}
REV_TAG = "{%s}revision" % CP
TYPED = ("created", "modified")
# revisions beyond TLC's 32-bit integers travel as codes (MC_CoreProps.RevsFull)
REV_BIG = {2147483001: 2 ** 31, 2147483002: 2 ** 53 + 1, 2147483003: 10 ** 20}
REV_CODE_OF = {v: k for k, v in REV_BIG.items()}
EMPTY_CORE = ('<?xml version="1.0" encoding="UTF-8" standalone="yes"?>\n<cp:coreProperties xmlns:cp="%s" xmlns:dc="%s" '
              'xmlns:dcterms="%s" xmlns:xsi="%s"/>' % (CP, DC, DCT, XSI)).encode()

# a core-properties part as ANOTHER producer may write it (all of it allowed by opc-coreProperties.xsd): children in a different order,
# xml:lang on the Dublin Core elements, cp:keywords as mixed content with language-tagged cp:value children (the example of ISO/IEC
# 29500-2), comments and insignificant white space between the children, every date property present
FOREIGN_CORE = ('<?xml version="1.0" encoding="UTF-8" standalone="yes"?>\n<cp:coreProperties xmlns:cp="%s" xmlns:dc="%s" '
                'xmlns:dcterms="%s" xmlns:xsi="%s">\n  <!-- written by another producer -->\n'
                '  <dcterms:modified xsi:type="dcterms:W3CDTF">2019-03-09T08:00:00Z</dcterms:modified>\n'
                '  <cp:keywords xml:lang="en-US">color <cp:value xml:lang="en-GB">colour</cp:value>'
                '<cp:value xml:lang="fr-FR">couleur</cp:value></cp:keywords>\n'
                '  <dc:title xml:lang="en-US">Colour chart</dc:title>\n  <dc:creator>Alice</dc:creator>\n'
                '  <cp:lastPrinted>2019-03-08T23:15:02Z</cp:lastPrinted>\n  <cp:revision>3</cp:revision>\n'
                '  <dcterms:created xsi:type="dcterms:W3CDTF">2019-03-08T23:15:02Z</dcterms:created>\n'
                '  <dc:description xml:lang="en-GB"/>\n  <cp:lastModifiedBy>Bob</cp:lastModifiedBy>\n'
                '</cp:coreProperties>' % (CP, DC, DCT, XSI)).encode()

# ... and as a producer that writes no dates may write it: the root declares only the namespaces it uses (no dcterms, no xsi)
SPARSE_CORE = ('<?xml version="1.0" encoding="UTF-8" standalone="yes"?>\n<cp:coreProperties xmlns:cp="%s" xmlns:dc="%s">'
               '<dc:title>Plain</dc:title><dc:creator>Carol</dc:creator><cp:revision>2</cp:revision></cp:coreProperties>' % (CP, DC)).encode()

# --------------------------------------------------------------------------------------------
# text: class sequences <-> concrete strings.  The representative of class c at absolute position i is REPS[c][i % len];
# a string projects to its class runs only if it is exactly the concretisation of those runs (else opaque class 9), so
# the projection is injective on the strings the driver assigns.
REPS = {1: "aZ09qM", 2: "<&>\"'", 3: " \t\r\n", 4: "\u00e9\u00df\u4e2d\u0085\u2028\ufffd\ud7ff\ue000", 5: "\U0001F600\U00010000\U0010FFFF",
        6: "_xABCD_"}      # looks like the OOXML escape of U+ABCD; the class is only used in runs of 7k characters at 7-aligned positions
_CLS = {ch: c for c, reps in REPS.items() for ch in reps}


def concretise(runs) -> str:
    out, i = [], 0
    for c, n in runs:
        reps = REPS[c]
        k = len(reps)
        out.append("".join(reps[(i + j) % k] for j in range(n)))
        i += n
    return "".join(out)


def project_text(x) -> list:
    if x is None or x == "":
        return []
    if not isinstance(x, str):
        return [[9, 0]]
    runs = []
    for ch in x:
        c = _CLS.get(ch, 9)
        if runs and runs[-1][0] == c:
            runs[-1][1] += 1
        else:
            runs.append([c, 1])
    if any(c == 9 for c, _ in runs) or concretise(runs) != x:
        return [[9, len(x)]]
    return runs


# --------------------------------------------------------------------------------------------
# dates
NODATE = {"has": False, "y": 0, "m": 0, "d": 0, "H": 0, "M": 0, "S": 0}


def dateval(v) -> dict:
    if v is None:
        return dict(NODATE)
    if isinstance(v, dt.datetime):
        return {"has": True, "y": v.year, "m": v.month, "d": v.day, "H": v.hour, "M": v.minute, "S": v.second}
    return {"has": True, "y": 0, "m": 0, "d": 0, "H": 0, "M": 0, "S": 0}     # a reader returned something else


def datetok(v: dict) -> dt.datetime:
    return dt.datetime(v["y"], v["m"], v["d"], v["H"], v["M"], v["S"], 999999 if v["us"] else 0)


def render_lex(v: dict) -> str:
    """The W3CDTF lexical form of a Lex record (pure formatting, no arithmetic)."""
    g = v["g"]
    if g == "y":
        return "%04d" % v["y"]
    if g == "ym":
        return "%04d-%02d" % (v["y"], v["m"])
    if g == "ymd":
        return "%04d-%02d-%02d" % (v["y"], v["m"], v["d"])
    s = "%04d-%02d-%02dT%02d:%02d" % (v["y"], v["m"], v["d"], v["H"], v["M"])
    if g == "full":
        s += ":%02d" % v["S"]
        if v["f"]:
            s += "." + ("1234567890" * 2)[: v["f"]]
    if v["tz"] == "Z":
        s += "Z"
    elif v["tz"] == "off":
        s += "%s%02d:%02d" % ("+" if v["sg"] > 0 else "-", v["hh"], v["mm"])
    return s


def py_utc(v: dict) -> dict:
    """Independent reference for ToUtc (python's own calendar), used only to cross-check the TLA+ definition."""
    base = dt.datetime(v["y"], v["m"], v["d"], v["H"], v["M"], 0 if v["g"] == "hm" else v["S"])
    try:
        if v["tz"] == "off":
            base = base - v["sg"] * dt.timedelta(hours=v["hh"], minutes=v["mm"])
    except OverflowError:
        return {"ok": False}
    return {"ok": True, "v": dateval(base)}


# --------------------------------------------------------------------------------------------
# XSD monitor
_XS = []


def schema() -> etree.XMLSchema:
    if not _XS:
        src = open(XSD_SRC, "rb").read().decode("utf-8")
        base = "http://dublincore.org/schemas/xmls/qdc/2003/04/02/"
        for name in ("dc.xsd", "dcterms.xsd"):
            if base + name not in src:
                raise RuntimeError("opc-coreProperties.xsd no longer imports %s%s" % (base, name))
            src = src.replace(base + name, os.path.join(SCHEMAS, name))
        imp = '<xs:import id="xml" namespace="http://www.w3.org/XML/1998/namespace"/>'
        if imp not in src:
            raise RuntimeError("opc-coreProperties.xsd: xml namespace import not found")
        src = src.replace(imp, imp[:-2] + ' schemaLocation="%s"/>' % os.path.join(SCHEMAS, "xml.xsd"))
        _XS.append(etree.XMLSchema(etree.fromstring(src.encode("utf-8"))))
    return _XS[0]


def _alone_valid(el) -> bool:
    root = etree.fromstring(EMPTY_CORE)
    root.append(etree.fromstring(etree.tostring(el)))
    return bool(schema().validate(root))


# --------------------------------------------------------------------------------------------
# initial packages
_INIT = {}


def _template_bytes() -> bytes:
    import pptx
    b = io.BytesIO()
    pptx.Presentation().save(b)
    return b.getvalue()


def _slim_bytes() -> bytes:
    """The default template with one slide layout instead of eleven (public API): same package root, a quarter of the
    parts, so a save/re-open cycle costs ~5 ms instead of ~20 ms.  Base of the "empty" and "absent" initial packages."""
    import pptx
    prs = pptx.Presentation()
    for layout in list(prs.slide_layouts)[1:]:
        prs.slide_layouts.remove(layout)
    b = io.BytesIO()
    prs.save(b)
    return b.getvalue()


def rewrite_zip(data: bytes, edit) -> bytes:
    """Copy a zip member by member; edit(name, bytes) returns the new bytes or None to drop the member."""
    out = io.BytesIO()
    with zipfile.ZipFile(io.BytesIO(data)) as zin, zipfile.ZipFile(out, "w", zipfile.ZIP_DEFLATED) as zout:
        for info in zin.infolist():
            blob = edit(info.filename, zin.read(info.filename))
            if blob is not None:
                zout.writestr(info.filename, blob)
    return out.getvalue()


def init_bytes(kind: str) -> bytes:
    if kind not in _INIT:
        tpl = _template_bytes() if kind == "template" else _slim_bytes()
        if kind == "template":
            _INIT[kind] = tpl
        elif kind == "empty":
            _INIT[kind] = rewrite_zip(tpl, lambda n, b: EMPTY_CORE if n == CORE_NAME else b)
        elif kind == "sparse":
            _INIT[kind] = rewrite_zip(tpl, lambda n, b: SPARSE_CORE if n == CORE_NAME else b)
        elif kind == "foreign":
            _INIT[kind] = rewrite_zip(tpl, lambda n, b: FOREIGN_CORE if n == CORE_NAME else b)
        elif kind == "absent":
            def edit(n, b):
                if n == CORE_NAME:
                    return None
                if n == "_rels/.rels":
                    root = etree.fromstring(b)
                    for r in list(root):
                        if r.get("Type") == RT_CORE:
                            root.remove(r)
                    return etree.tostring(root, xml_declaration=True, encoding="UTF-8", standalone=True)
                if n == "[Content_Types].xml":
                    root = etree.fromstring(b)
                    for r in list(root):
                        if r.get("PartName") == "/" + CORE_NAME:
                            root.remove(r)
                    return etree.tostring(root, xml_declaration=True, encoding="UTF-8", standalone=True)
                return b
            _INIT[kind] = rewrite_zip(tpl, edit)
        else:
            raise RuntimeError("unknown init kind " + kind)
    return _INIT[kind]


# --------------------------------------------------------------------------------------------
class Bench:
    def __init__(self, kind: str):
        import pptx
        self.pptx = pptx
        self.prs = pptx.Presentation(io.BytesIO(init_bytes(kind)))

    # ---- projection
    def _core_part(self):
        """The core-properties part in the package graph WITHOUT going through Package.core_properties (no first access)."""
        for part in self.prs.part.package.iter_parts():
            if str(part.partname) == "/" + CORE_NAME:
                return part
        return None

    def project(self) -> dict:
        part = self._core_part()
        if part is None:
            return {"present": False, "xsd": True,
                    "str": {p: {"has": False, "x": [], "r": []} for p in STR_TAGS},
                    "date": {p: {"has": False, "w": True, "e": False, "r": dict(NODATE)} for p in DATE_TAGS},
                    "rev": {"has": False, "x": 0, "r": 0}}
        root = etree.fromstring(part.blob)                       # what would be written, parsed by a plain parser
        cp = self.prs.core_properties
        st = {"present": True, "xsd": bool(schema().validate(root)), "str": {}, "date": {}}
        for p, tag in STR_TAGS.items():
            els = root.findall(tag)
            x = [] if not els else (project_text(els[0].text) if len(els) == 1 and len(els[0]) == 0 else [[9, 0]])
            try:
                r = project_text(getattr(cp, p))
            except Exception:
                r = [[8, 0]]
            st["str"][p] = {"has": bool(els), "x": x, "r": r}
        for p, tag in DATE_TAGS.items():
            els = root.findall(tag)
            e = False
            try:
                r = dateval(getattr(cp, p))
            except Exception:
                r, e = dict(NODATE), True
            st["date"][p] = {"has": bool(els), "w": all(_alone_valid(el) for el in els), "e": e, "r": r}
        els = root.findall(REV_TAG)
        txt = (els[0].text or "") if els else ""
        x = int(txt) if re.fullmatch(r"[0-9]{1,10}", txt) and int(txt) < 2 ** 31 else (-1 if els else 0)
        if re.fullmatch(r"[0-9]{1,40}", txt) and int(txt) in REV_CODE_OF:
            x = REV_CODE_OF[int(txt)]
        try:
            r = cp.revision
            if isinstance(r, int) and not isinstance(r, bool) and r in REV_CODE_OF:
                r = REV_CODE_OF[r]
            r = r if isinstance(r, int) and not isinstance(r, bool) and 0 <= r < 2 ** 31 else -2
        except Exception:
            r = -3
        st["rev"] = {"has": bool(els), "x": x, "r": r}
        return st

    # ---- actions
    def save_bytes(self) -> bytes:
        b = io.BytesIO()
        self.prs.save(b)
        return b.getvalue()

    def reopen(self, data: bytes):
        self.prs = self.pptx.Presentation(io.BytesIO(data))

    def apply(self, a: dict) -> str:
        op = a["op"]
        try:
            if op == "FirstAccess":
                self.prs.core_properties
            elif op == "SetStr":
                setattr(self.prs.core_properties, a["p"], concretise(a["v"]))
            elif op == "SetDate":
                k = a["kind"]
                v = (datetok(a["v"]) if k == "datetime" else dt.date(a["v"]["y"], a["v"]["m"], a["v"]["d"]) if k == "date"
                     else None if k == "none" else "2020-02-29T01:02:03Z" if k == "str" else 20200229)
                setattr(self.prs.core_properties, a["p"], v)
            elif op == "SetRev":
                k, n = a["kind"], a["n"]
                v = REV_BIG.get(n, n) if k == "int" else (float(n) if n == 1 else 1.5) if k == "float" else str(n) if k == "str" else None if k == "none" else bool(n)
                self.prs.core_properties.revision = v
            elif op == "SaveReopen":
                self.reopen(self.save_bytes())
            elif op == "LoadLexical":
                self.reopen(load_lexical(self.save_bytes(), a["p"], render_lex(a["v"])))
            else:
                raise RuntimeError("unknown op " + op)
            return "ok"
        except RuntimeError:
            raise
        except Exception as e:
            return type(e).__name__


def load_lexical(data: bytes, p: str, text: str) -> bytes:
    """Write `text` as the content of date property p into docProps/core.xml of the saved package (plain lxml + zipfile)."""
    hit = []

    def edit(n, b):
        if n != CORE_NAME:
            return b
        hit.append(n)
        root = etree.fromstring(b)
        for el in root.findall(DATE_TAGS[p]):
            root.remove(el)
        el = etree.SubElement(root, DATE_TAGS[p])
        el.text = text
        if p in TYPED:
            el.set("{%s}type" % XSI, "dcterms:W3CDTF")
        return etree.tostring(root, xml_declaration=True, encoding="UTF-8", standalone=True)
    out = rewrite_zip(data, edit)
    if not hit:
        raise RuntimeError("LoadLexical on a package without docProps/core.xml")
    return out


def _delta(s: dict, t: dict) -> dict:
    return {"present": t["present"], "xsd": t["xsd"],
            "str": [{"p": p, "v": t["str"][p]} for p in sorted(STR_TAGS) if t["str"][p] != s["str"][p]],
            "date": [{"p": p, "v": t["date"][p]} for p in sorted(DATE_TAGS) if t["date"][p] != s["date"][p]],
            "rev": [t["rev"]] if t["rev"] != s["rev"] else []}


def run_trace(job) -> dict:
    """job = (id, h); h[0] = {"op": "init", "kind": ..}.  Returns the observed trace: the full initial state and, per action,
    the outcome and the state delta (changed slots) projected after the call."""
    tid, h = job
    b = Bench(h[0]["kind"])
    s = b.project()
    tr = {"id": tid, "kind": h[0]["kind"], "init": s, "steps": []}
    for a in h[1:]:
        out = b.apply(a)
        t = b.project()
        step = {"a": a, "out": out, "d": _delta(s, t)}
        tr["steps"].append(step)
        s = t
    return tr
