"""Driver for SlideOps.tla (C03): create the object under test, apply catalogue operations, log the XSD monitor's verdict."""
from __future__ import annotations

import hashlib
import io

from lxml import etree

from mbt.catalog import slideops as CAT
from mbt.monitor import xsd

P, A = xsd.P, xsd.A
_PNG = []
_BASE: dict = {}


def png() -> bytes:
    if not _PNG:
        from PIL import Image
        b = io.BytesIO()
        Image.new("RGB", (6, 4), (200, 30, 30)).save(b, "PNG", dpi=(96, 96))
        _PNG.append(b.getvalue())
    return _PNG[0]


class Ctx:
    pass


def _ext_lst(ns):
    el = etree.SubElement(etree.Element("dummy"), "{%s}extLst" % ns)
    ext = etree.SubElement(el, "{%s}ext" % ns)
    ext.set("uri", "{11111111-2222-3333-4444-555555555555}")
    return el


def create(kind: str, prep: str) -> Ctx:
    import pptx
    from pptx.chart.data import BubbleChartData, CategoryChartData, XyChartData
    from pptx.enum.chart import XL_CHART_TYPE
    from pptx.enum.shapes import MSO_CONNECTOR, MSO_SHAPE
    c = Ctx()
    c.png = png()
    c.flags = set()
    if kind == "ph_insert":
        from mbt.drive import layout as L
        pop = [{"type": t, "idx": 10 + i, "orient": "horz", "sz": "full", "own": True} for i, t in enumerate(("tbl", "chart", "pic", "obj"))]
        c.prs = prs = pptx.Presentation(io.BytesIO(L.gen_deck(pop)))
        c.base = parts_of(prs, all_parts=True)
        c.slide = prs.slides.add_slide(prs.slide_layouts[L.GEN_LAYOUT - 1])
        if prep == "rich":
            sld = c.slide._element
            sld.find("{%s}cSld" % P).append(_ext_lst(P))
            sld.find("{%s}cSld/{%s}spTree" % (P, P)).append(_ext_lst(P))
        c.sh = c.slide
        return c
    c.prs = prs = pptx.Presentation()
    if not _BASE:
        _BASE["parts"] = parts_of(prs, all_parts=True)
        _BASE["hash"] = {str(p.partname): hashlib.sha1(p.blob).hexdigest() for p in prs.part.package.iter_parts()}
    c.base = _BASE["parts"]
    lay = prs.slide_layouts[1] if kind in ("ph_title", "ph_body") else prs.slide_layouts[6]
    c.slide = slide = prs.slides.add_slide(lay)
    if prep == "rich":
        # siblings python-pptx itself never writes but PowerPoint does: extension lists after the shape tree and in it
        sld = slide._element
        sld.find("{%s}cSld" % P).append(_ext_lst(P))
        sld.find("{%s}cSld/{%s}spTree" % (P, P)).append(_ext_lst(P))
    sh = slide.shapes
    if kind == "autoshape":
        c.sh = sh.add_shape(MSO_SHAPE.ROUNDED_RECTANGLE, 100, 200, 3000000, 1000000)
    elif kind == "textbox":
        c.sh = sh.add_textbox(100, 200, 3000000, 1000000)
    elif kind == "picture":
        c.sh = sh.add_picture(io.BytesIO(c.png), 100, 200)
    elif kind == "connector":
        sh.add_textbox(5, 5, 500, 500).text_frame.text = "target"
        c.sh = sh.add_connector(MSO_CONNECTOR.STRAIGHT, 10, 20, 3000, 4000)
    elif kind == "group":
        c.sh = sh.add_group_shape()
    elif kind == "freeform":
        fb = sh.build_freeform(10, 10, scale=100.0)
        fb.add_line_segments([(100, 10), (100, 100), (10, 100)], close=True)
        c.sh = fb.convert_to_shape()
    elif kind == "table":
        c.sh = sh.add_table(3, 3, 100, 100, 3000000, 1500000)
    elif kind.startswith("chart_"):
        if kind == "chart_xy":
            cd = XyChartData()
            s = cd.add_series("XY 1")
            for x, y in ((1, 2), (3, 4), (5.5, -6)):
                s.add_data_point(x, y)
            ct = XL_CHART_TYPE.XY_SCATTER_LINES
        elif kind == "chart_bubble":
            cd = BubbleChartData()
            s = cd.add_series("Bub 1")
            for x, y, z in ((1, 2, 3), (4, 5, 6)):
                s.add_data_point(x, y, z)
            ct = XL_CHART_TYPE.BUBBLE
        elif kind == "chart_date":
            import datetime
            cd = CategoryChartData()
            cd.categories = [datetime.date(2024, 1, 31), datetime.date(2024, 2, 29), datetime.date(2024, 3, 31)]
            cd.add_series("Q1", (1.5, 2, 3))
            cd.add_series("Q2", (4, None, 6))
            ct = XL_CHART_TYPE.LINE_MARKERS
        else:
            cd = CategoryChartData()
            cd.categories = ["East", "West", "Mid"]
            cd.add_series("Q1", (1.5, 2, 3))
            cd.add_series("Q2", (4, None, 6))
            ct = {"chart_bar": XL_CHART_TYPE.COLUMN_CLUSTERED, "chart_line": XL_CHART_TYPE.LINE_MARKERS, "chart_pie": XL_CHART_TYPE.PIE}[kind]
        c.sh = sh.add_chart(ct, 100, 100, 4000000, 3000000, cd)
    elif kind == "movie":
        c.sh = sh.add_movie(io.BytesIO(b"\x00\x00\x00\x18ftypmp42 fake video"), 10, 10, 100000, 100000, mime_type="video/mp4")
    elif kind == "ole":
        c.sh = sh.add_ole_object(io.BytesIO(b"ole payload"), "Verif.Object.2", 10, 10)
    elif kind == "ph_title":
        c.sh = slide.shapes.title
    elif kind == "ph_body":
        c.sh = [p for p in slide.placeholders if p.placeholder_format.idx == 1][0]
    elif kind == "slide":
        c.sh = slide
    else:
        raise RuntimeError("unknown kind " + kind)
    if prep == "rich" and kind in CAT.TEXTY:
        # a body as PowerPoint writes it: bodyPr with an extension list, paragraph starting with a break, endParaRPr present
        tx = c.sh._element.find("{%s}txBody" % P)
        if tx is not None:
            bp = tx.find("{%s}bodyPr" % A)
            bp.append(_ext_lst(A))
            p0 = tx.find("{%s}p" % A)
            br = etree.SubElement(p0, "{%s}br" % A)
            ppr = p0.find("{%s}pPr" % A)
            p0.insert(1 if ppr is not None else 0, br)
            etree.SubElement(p0, "{%s}endParaRPr" % A).set("lang", "en-US")
    return c


def parts_of(prs, all_parts: bool = False, skip_unchanged: bool = False) -> list[dict]:
    """Monitor verdict per XML part (role = part name): the slides, their charts and notes; all parts if asked
    (parts byte-identical to the template's keep the template's verdict)."""
    out = []
    pkg = prs.part.package
    for part in pkg.iter_parts():
        el = getattr(part, "_element", None)
        if el is None:
            continue
        pn = str(part.partname)
        if skip_unchanged and _BASE.get("hash", {}).get(pn) == hashlib.sha1(part.blob).hexdigest():
            out.append(next(x for x in _BASE["parts"] if x["role"] == pn))
            continue
        if not all_parts and not (pn.startswith("/ppt/slides/") or pn.startswith("/ppt/charts/") or pn.startswith("/ppt/notesSlides/")
                                  or pn.startswith("/ppt/notesMasters/")):
            continue
        try:
            err = xsd.errors(etree.fromstring(etree.tostring(el)))
        except etree.XMLSyntaxError as e:
            err = ["not-well-formed"]
        out.append({"role": pn, "err": err})
    return sorted(out, key=lambda x: x["role"])


def run(tid: str, kind: str, prep: str, ops: list[str]) -> dict:
    steps = []
    try:
        c = create(kind, prep)
        steps.append({"op": "create." + kind, "out": "ok", "parts": parts_of(c.prs)})
    except Exception as e:
        return {"id": tid, "base": [], "steps": [{"op": "create." + kind, "out": type(e).__name__, "parts": [], "err": str(e)[:200]}], "final": [],
                "unexpected": ["create." + kind + ":" + type(e).__name__]}
    unexpected = []
    for name in ops:
        o = CAT.BY_NAME[name]
        try:
            o["fn"](c)
            out = "ok"
        except Exception as e:
            out = type(e).__name__
            if out not in o["rejects"]:
                unexpected.append("%s:%s:%s" % (name, out, str(e)[:80]))
        steps.append({"op": name, "out": out, "parts": parts_of(c.prs)})
    b = io.BytesIO()
    c.prs.save(b)
    import pptx
    final = parts_of(pptx.Presentation(io.BytesIO(b.getvalue())), all_parts=True, skip_unchanged=True)
    return {"id": tid, "base": c.base, "steps": steps, "final": final, "unexpected": unexpected}
