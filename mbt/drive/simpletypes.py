"""Driver for SimpleTypes (C11): concretises the tokens TLC enumerated, assigns them through a REAL element (the element
class registered for the tag, the declared property), reads the attribute string back with plain lxml, asks the schema itself
(lxml XMLSchema on a one-attribute probe) whether that string is valid for the attribute's XSD type, and reads the value back
through the property. The arithmetic TLC cannot do (IEEE floats, integers >= 2^31) is done here with Fractions and logged as
booleans / anchored pairs."""
from __future__ import annotations

import math
import random
import re
from decimal import Decimal
from fractions import Fraction

from mbt.extract import simpletypes as S

# set by the check before forking workers
PAIRS: dict = {}
PROBE: S.Probe | None = None
SEED = 0
_INT = re.compile(r"^[+-]?\d+$")


def setup(pairs: list[dict], probe: S.Probe, seed: int):
    global PROBE, SEED
    PAIRS.clear()
    PAIRS.update({p["id"]: p for p in pairs})
    PROBE, SEED = probe, seed


def lex_valid(p: dict, s: str) -> bool:
    """valid for the attribute's XSD type = accepted by ANY of the candidate XSD types of that (element, attribute)."""
    return any(PROBE.valid(t, s) for t in p["xsd_types"])


# --------------------------------------------------------------------------------------------
# tokens -> python values


def _int_member(p):
    return next((m for m in p["members"] if m["kind"] == "int"), None)


def valid_int(p) -> int:
    """an integer (XSD units) inside the first integer member's range, near 1."""
    m = _int_member(p)
    if m is None:
        return 1
    lo, hi = m["lo"], m["hi"]
    n = 1
    if lo is not None and n < lo:
        n = lo
    if hi is not None and n > hi:
        n = hi
    return n


def to_py(p, n_xsd: Fraction):
    """XSD units -> python units (exact)."""
    return n_xsd * p["scaleDen"] / p["scaleNum"]


def shift(x: float, u: int) -> float:
    for _ in range(abs(u)):
        x = math.nextafter(x, math.inf if u > 0 else -math.inf)
    return x


def write_value(p: dict, t: dict):
    """(python value, value class) for a write token."""
    kind, c, s = p["pyKind"], t["c"], t["s"]
    st = p["st"]
    if c == "anch":
        a = p["anchors"][t["a"] - 1]
        n = int(a["value"]) + t["d"]
        if kind == "int":
            v = to_py(p, Fraction(n))
            return int(v), "int:" + a["name"]
        x = float(to_py(p, Fraction(2 * n + t["h"], 2)))
        return shift(x, t["u"]), "float:" + a["name"] + (":threshold" if t["h"] else "")
    if c == "rand":
        rnd = random.Random(SEED * 1000003 + p["id"] * 1009 + t["a"])
        m = _int_member(p)
        lo = m["lo"] if m and m["lo"] is not None else -10**7
        hi = m["hi"] if m and m["hi"] is not None else 10**7
        if rnd.random() < 0.5:
            n = rnd.randint(lo, hi)
            x = shift(float(to_py(p, Fraction(2 * n + rnd.choice((-1, 1)), 2))), rnd.randint(-3, 3))
            near = next((a["name"] for a in p["anchors"] if abs(n - int(a["value"])) <= 8), "random")   # same class as the
            return x, "float:%s:threshold" % near                                                        # anchored token there
        return rnd.uniform(float(to_py(p, Fraction(lo))), float(to_py(p, Fraction(hi)))), "float:random"
    if c == "member":
        m = p["pyMembers"][t["a"] - 1]
        return (st[m["name"]] if kind == "xmlenum" else m["tok"]), "member:" + m["name"]
    if c == "xsdtok":
        tok = p["members"][t["a"] - 1]["enum"][t["d"] - 1]
        return tok, "tok:" + tok
    # specials
    n0 = valid_int(p)
    v0 = to_py(p, Fraction(n0))
    if s == "None":
        return None, s
    if s in ("True", "False"):
        return s == "True", "bool"
    if s in ("nan", "inf", "-inf"):
        return float(s), s
    if kind == "int":
        i0 = int(v0)
        return {"str": str(i0), "floatWhole": float(i0), "floatHalf": i0 + 0.5, "Decimal": Decimal(i0),
                "huge": 10**30, "-huge": -10**30}[s], {"floatWhole": "float", "floatHalf": "float"}.get(s, s)
    if kind == "float":
        f0 = float(v0)
        return {"str": str(f0), "int": int(round(f0)), "Decimal": Decimal(str(f0)), "huge": 1e308, "-huge": -1e308,
                "tiny": 5e-324}[s], s
    if kind == "double":
        return {"str": "1.5", "int": 3, "Decimal": Decimal("1.5"), "huge": 1.7976931348623157e308, "-huge": -1.7976931348623157e308,
                "tiny": 5e-324, "zero": 0.0, "negzero": -0.0, "1.5": 1.5, "-1.5": -1.5, "1e16": 1e16, "1e-7": 1e-7,
                "third": 1.0 / 3.0}[s], ("float" if s in ("zero", "negzero", "1.5", "-1.5", "1e16", "1e-7", "third") else s)
    if kind == "bool":
        return {"int0": 0, "int1": 1, "int2": 2, "str": "true", "float1": 1.0}[s], s
    if kind == "str":
        return {"exemplar": p["exemplar"], "int": 5, "bytes": b"abc", "control": "a\x01b", "empty": "",
                "hexUpper": "FF00AA", "hexLower": "ff00aa", "hex5": "12345", "hex7": "1234567", "nonhex": "GGGGGG",
                "plus5": "+12345", "0x4": "0x1234", "under": "1_2345", "space5": " 12345"}[s], "str:" + s if s not in ("int", "bytes") else s
    if kind == "strenum":
        return {"bogus": "bogus", "int": 5}[s], s
    if kind == "xmlenum":
        first = next(m for m in p["pyMembers"] if m["tok"])
        return {"bogus": 99999, "int": int(st[first["name"]].value), "tokstr": first["tok"]}[s], s
    raise KeyError((kind, t))


def read_lexical(p: dict, t: dict):
    """(lexical string | None, value class) for a read token."""
    c, f = t["c"], t["s"]
    if c == "xsdtok":
        tok = p["members"][t["a"] - 1]["enum"][t["d"] - 1]
        return tok, "tok:" + tok
    if t["a"] == 0:
        lit = {"true": "true", "false": "false", "1": "1", "0": "0", "hexUpper": "FF00AA", "hexLower": "ff00aa", "hexMixed": "Ff00aA",
               "exemplar": p["exemplar"], "other": "zz-ZZ"}.get(f)
        if lit is None and f.startswith("d"):
            lit = f[1:]
        return lit, "form:" + f
    a = p["anchors"][t["a"] - 1]
    n = int(a["value"]) + t["d"]
    sign, digits = ("-" if n < 0 else ""), str(abs(n))
    if f == "plain":
        s = str(n)
    elif f == "plus":
        s = "+" + digits if n >= 0 else None
    elif f == "zeros":
        s = sign + "00" + digits
    elif f == "pct":
        s = "%d%%" % n
    elif f == "pctFrac":
        s = "%d.5%%" % n
    elif f == "pctFrac2":
        s = "%d.25%%" % n
    elif f == "pctZeros":
        s = sign + "00" + digits + "%"
    elif f.startswith("um_"):
        s = "%d%s" % (n, f[3:])
    elif f.startswith("umFrac_"):
        s = "%d.5%s" % (n, f[7:])
    else:
        s = None
    return s, "form:%s:%s" % (f.split("_")[0], a["name"])


# --------------------------------------------------------------------------------------------
# the monitor for clause D


def within(p: dict, v, back, present: bool = True) -> bool:
    kind = p["pyKind"]
    try:
        if v is None or back is None:
            return v is None and back is None
        if not present:
            # accepted without writing: the value equals the declared default and the attribute was removed; the default
            # is what is read back, and "equal to the default" (python ==) is the library's own criterion
            return bool(back == v)
        if kind in ("int", "float"):
            if isinstance(back, bool) or not isinstance(back, (int, float)) or not isinstance(v, (int, float)):
                return False
            q = Fraction(p["scaleDen"], p["scaleNum"])           # one quantum in python units
            diff = abs(Fraction(back) - Fraction(v))
            if p["circular"]:
                mod = Fraction(p["circular"]) * q
                diff = diff % mod
                diff = min(diff, mod - diff)
            return diff < q if (p["scaleNum"], p["scaleDen"]) != (1, 1) else diff == 0
        if kind == "double":
            return (back == v) or (isinstance(v, float) and isinstance(back, float) and math.isnan(v) and math.isnan(back))
        if kind == "str" and any(m["kind"] == "hex" for m in p["members"]):
            return isinstance(back, str) and isinstance(v, str) and back.upper() == v.upper()
        return bool(back == v)
    except Exception:
        return False


def anchored(p: dict, s: str):
    if not _INT.match(s or ""):
        return False, 0, 0
    n = int(s)
    best = None
    for i, a in enumerate(p["anchors"]):
        d = n - int(a["value"])
        if abs(d) <= 1000 and (best is None or abs(d) < abs(best[1])):
            best = (i + 1, d)
    return (True, best[0], best[1]) if best else (False, 0, 0)


# --------------------------------------------------------------------------------------------
# one site


def make_element(site: dict):
    from pptx.oxml import parse_xml
    return parse_xml('<%s:%s xmlns:%s="%s"/>' % (site["pfx"], site["tag"], site["pfx"], site["uri"]))


def clark(site: dict) -> str:
    from pptx.oxml.ns import qn
    return qn(site["attr"]) if ":" in site["attr"] else site["attr"]


def prior_lexical(p: dict):
    cands = []
    for m in p["members"]:
        if m["kind"] == "int":
            cands.append(str(valid_int(p) + (1 if (m["hi"] is None or valid_int(p) + 1 <= m["hi"]) else 0)))
        elif m["kind"] == "enum" and m["enum"]:
            cands.append(m["enum"][-1])
        elif m["kind"] == "boolean":
            cands.append("true")
        elif m["kind"] == "double":
            cands.append("2.5")
        elif m["kind"] == "hex":
            cands.append("0A0B0C")
        else:
            cands.append(p["exemplar"])
    return next((c for c in cands if lex_valid(p, c)), None)


def write_one(p: dict, site: dict, t: dict, prior) -> tuple[dict, dict]:
    v, vclass = write_value(p, t)
    el = make_element(site)
    ck = clark(site)
    if prior is not None:
        el.set(ck, prior)
    before = el.get(ck)
    acc, exc = True, ""
    try:
        setattr(el, site["prop"], v)
    except Exception as ex:  # recorded; clause B judges the class
        acc, exc = False, type(ex).__name__
    after = el.get(ck)
    present = after is not None
    rec = {"pair": p["id"], "tok": t, "acc": acc, "exc": exc, "present": present, "changed": after != before,
           "attrValid": lex_valid(p, after) if present else True, "readOk": True, "within": True}
    rec["isInt"], rec["la"], rec["ld"] = anchored(p, after) if (acc and present) else (False, 0, 0)
    back_repr = ""
    if acc:
        try:
            back = getattr(el, site["prop"])
            back_repr = repr(back)
            rec["within"] = within(p, v, back, present)
        except Exception as ex:
            rec["readOk"], rec["within"], back_repr = False, False, "!" + type(ex).__name__
    # the direct conversion, for the record (the element path is what is judged)
    try:
        direct = p["st"].to_xml(v)
        direct = direct if isinstance(direct, str) else repr(direct)
    except Exception as ex:
        direct = "!" + type(ex).__name__
    meta = {"site": "%s:%s@%s" % (site["pfx"], site["tag"], site["attr"]), "prop": "%s.%s" % (site["cls"], site["prop"]),
            "vclass": vclass, "value": repr(v), "before": before if before is not None else "(absent)",
            "after": after if after is not None else "(absent)", "read": back_repr, "to_xml": direct}
    return rec, meta


def pct_plain_equivalent(p: dict, t: dict):
    """The plain-integer spelling of the number a whole-percent form "N%" denotes, by the standard's reading of the union: the chart
    schema's percent unions (gap width, overlap, bubble scale, label offset, hole size ...) count whole percents in both members;
    DrawingML's ST_Percentage family counts 1000ths of a percent in its integer member."""
    if t.get("c") != "form" or t.get("s") != "pct" or not t.get("a"):
        return None
    n = int(p["anchors"][t["a"] - 1]["value"]) + t["d"]
    chart = any(isinstance(x, (tuple, list)) and str(x[0]).endswith("/chart") for x in p["xsd_types"])
    return str(n * (1 if chart else 1000))


def read_one(p: dict, site: dict, t: dict, lex: str, vclass: str) -> tuple[dict, dict]:
    el = make_element(site)
    el.set(clark(site), lex)
    ok, exc, back = True, "", ""
    try:
        back = repr(getattr(el, site["prop"]))
    except Exception as ex:
        ok, exc = False, type(ex).__name__
    # a percent form and the plain integer that denotes the same number read as the same value (both forms schema-valid and readable)
    same = True
    plain = pct_plain_equivalent(p, t)
    if ok and plain is not None and lex_valid(p, lex) and lex_valid(p, plain):
        el2 = make_element(site)
        el2.set(clark(site), plain)
        try:
            same = repr(getattr(el2, site["prop"])) == back
        except Exception:
            same = True         # the plain form is judged by its own record (clause C)
    rec = {"pair": p["id"], "tok": t, "lexValid": lex_valid(p, lex), "readOk": ok, "exc": exc, "sameAsPlain": same}
    meta = {"site": "%s:%s@%s" % (site["pfx"], site["tag"], site["attr"]), "prop": "%s.%s" % (site["cls"], site["prop"]),
            "vclass": vclass, "lex": lex, "read": back if ok else "!" + exc}
    return rec, meta


def run_site(job: tuple) -> dict:
    """job = (pair id, site index, write tokens, read tokens) -> {w, wm, r, rm}"""
    pid, si, wt, rt = job
    p = PAIRS[pid]
    site = p["sites"][si]
    prior = prior_lexical(p)
    w, wm, r, rm = [], [], [], []
    for t in wt:
        rec, meta = write_one(p, site, t, prior)
        w.append(rec)
        wm.append(meta)
    seen = set()
    for t in rt:
        lex, vclass = read_lexical(p, t)
        if lex is None or lex in seen:
            continue
        seen.add(lex)
        rec, meta = read_one(p, site, t, lex, vclass)
        r.append(rec)
        rm.append(meta)
    return {"pair": pid, "site": si, "w": w, "wm": wm, "r": r, "rm": rm}
