"""Driver for Deck.tla: histories of public-API operations on a real Presentation; observation without observer effects
(the slide list is read from the presentation part's XML and relationships, never through prs.slides)."""
from __future__ import annotations

import hashlib
import io
import os
import json
import re
import zipfile

from lxml import etree

from mbt.drive import faults as F
from mbt.drive import opc as D

NS_P = "http://schemas.openxmlformats.org/presentationml/2006/main"
NS_A = "http://schemas.openxmlformats.org/drawingml/2006/main"
NS_R = "http://schemas.openxmlformats.org/officeDocument/2006/relationships"
NS_C = "http://schemas.openxmlformats.org/drawingml/2006/chart"
_CNVPR = "{%s}cNvPr" % NS_P
URLS = ["http://example.invalid/a?x=1&y=2", "https://example.invalid/other page", "mailto:someone@example.invalid"]


# ------------------------------------------------------------------ generated images / media
def image_bytes(tok: int, fmt: str = "PNG", size=(4, 3), dpi=None) -> bytes:
    from PIL import Image
    im = Image.new("RGB", size, ((tok * 37) % 256, (tok * 91) % 256, (tok * 13) % 256))
    b = io.BytesIO()
    kw = {}
    if dpi is not None:
        kw["dpi"] = dpi
    im.save(b, fmt, **kw)
    return b.getvalue()


VIDEO = b"\x00\x00\x00\x18ftypmp42 fake video payload for verification" + bytes(range(64))
OLEBYTES = b"PK\x03\x04 not really an xlsx, any bytes are embedded verbatim " + bytes(range(32))


# ------------------------------------------------------------------ initial decks
def build_initial(init: dict) -> bytes:
    import pptx
    if init["deck"] == "default":
        b = io.BytesIO()
        pptx.Presentation().save(b)
        return b.getvalue()
    if init["deck"] == "genmedia":
        prs = pptx.Presentation()
        s = prs.slides.add_slide(prs.slide_layouts[6])
        for i, (tok, fmt) in enumerate(((11, "PNG"), (12, "JPEG"), (13, "PNG"))):
            s.shapes.add_picture(io.BytesIO(image_bytes(tok, fmt, size=(5, 4))), 100000 * (i + 1), 100000)
        b = io.BytesIO()
        prs.save(b)
        members = D.read_zip(io.BytesIO(b.getvalue()))
        # image1.png, image2.jpg, image3.png  ->  image1.png, image1.jpg, image2.png
        members = F.rename_parts(members, {"/ppt/media/image2.jpg": "/ppt/media/image1.jpg", "/ppt/media/image3.png": "/ppt/media/image2.png"})
        out = io.BytesIO()
        D.write_zip(members, out)
        return out.getvalue()
    if init["deck"] == "genoddrids":
        prs = pptx.Presentation()
        s = prs.slides.add_slide(prs.slide_layouts[6])
        for i, tok in enumerate((31, 32)):
            s.shapes.add_picture(io.BytesIO(image_bytes(tok)), 100000 * (i + 1), 100000)
        b = io.BytesIO()
        prs.save(b)
        members = D.read_zip(io.BytesIO(b.getvalue()))
        R_NS = "http://schemas.openxmlformats.org/officeDocument/2006/relationships"

        def respell(part, rels, names):
            rr = etree.fromstring(members[rels])
            ren = {}
            for k, el in enumerate(x for x in rr if isinstance(x.tag, str)):
                ren[el.get("Id")] = names[k % len(names)] if k < len(names) else "R%016x" % (0x5f0c1a2b3c4d5e6f + k)
                el.set("Id", ren[el.get("Id")])
            members[rels] = etree.tostring(rr, xml_declaration=True, encoding="UTF-8", standalone=True)
            root = etree.fromstring(members[part])
            for el in root.iter():
                if isinstance(el.tag, str):
                    for a, v in list(el.attrib.items()):
                        if a.startswith("{%s}" % R_NS) and v in ren:
                            el.set(a, ren[v])
            members[part] = etree.tostring(root, xml_declaration=True, encoding="UTF-8", standalone=True)
        respell("ppt/slides/slide1.xml", "ppt/slides/_rels/slide1.xml.rels", ["R5f0c1a2b3c4d5e6f", "rId01", "Rabc"])
        respell("ppt/presentation.xml", "ppt/_rels/presentation.xml.rels", ["rId1", "R00000000000000aa", "rId07", "x", "rId3"])
        out = io.BytesIO()
        D.write_zip(members, out)
        return out.getvalue()
    if init["deck"] == "corpus2masters":
        from mbt.engine import REPO
        with open(os.path.join(REPO, "features", "steps", "test_files", "prs-slide-masters.pptx"), "rb") as f:
            return f.read()
    if init["deck"] == "gengap":
        from pptx.chart.data import CategoryChartData
        from pptx.enum.chart import XL_CHART_TYPE
        prs = pptx.Presentation()
        for k in range(2):
            s = prs.slides.add_slide(prs.slide_layouts[6])
            cd = CategoryChartData()
            cd.categories = ["a", "b"]
            cd.add_series("s%d" % k, (1 + k, 2))
            s.shapes.add_chart(XL_CHART_TYPE.COLUMN_CLUSTERED, 0, 0, 3000000, 2000000, cd)
        b = io.BytesIO()
        prs.save(b)
        members = D.read_zip(io.BytesIO(b.getvalue()))
        assert "ppt/charts/chart2.xml" in members and "ppt/embeddings/Microsoft_Excel_Sheet2.xlsx" in members
        members = F.rename_parts(members, {"/ppt/charts/chart2.xml": "/ppt/charts/chart3.xml",
                                           "/ppt/embeddings/Microsoft_Excel_Sheet2.xlsx": "/ppt/embeddings/Microsoft_Excel_Sheet3.xlsx"})
        out = io.BytesIO()
        D.write_zip(members, out)
        return out.getvalue()
    if init["deck"] == "gengeneric":
        prs = pptx.Presentation()
        prs.slides.add_slide(prs.slide_layouts[6])
        b = io.BytesIO()
        prs.save(b)
        members = D.read_zip(io.BytesIO(b.getvalue()))
        RELS = "http://schemas.openxmlformats.org/package/2006/relationships"
        OD = "http://schemas.openxmlformats.org/officeDocument/2006/relationships"
        CTN = "http://schemas.openxmlformats.org/package/2006/content-types"

        def add_rel(rels, rid, rtype, target):
            root = etree.fromstring(members[rels]) if rels in members else etree.Element("{%s}Relationships" % RELS, nsmap={None: RELS})
            el = etree.SubElement(root, "{%s}Relationship" % RELS)
            el.set("Id", rid), el.set("Type", rtype), el.set("Target", target)
            members[rels] = etree.tostring(root, xml_declaration=True, encoding="UTF-8", standalone=True)
        members["customXml/item1.xml"] = b'<?xml version="1.0" encoding="UTF-8" standalone="yes"?>\n<verif:item xmlns:verif="http://example.invalid/verif">kept</verif:item>'
        members["customXml/itemProps1.xml"] = (b'<?xml version="1.0" encoding="UTF-8" standalone="no"?>\n<ds:datastoreItem ds:itemID="{7B5E2C6A-0000-4000-8000-000000000001}" '
                                               b'xmlns:ds="http://schemas.openxmlformats.org/officeDocument/2006/customXml"><ds:schemaRefs/></ds:datastoreItem>')
        add_rel("ppt/_rels/presentation.xml.rels", "rId77", OD + "/customXml", "../customXml/item1.xml")
        add_rel("customXml/_rels/item1.xml.rels", "rId1", OD + "/customXmlProps", "itemProps1.xml")
        members["ppt/media/image1.png"] = image_bytes(41)
        add_rel("ppt/theme/_rels/theme1.xml.rels", "rId1", OD + "/image", "../media/image1.png")
        ct = etree.fromstring(members["[Content_Types].xml"])
        if not any(el.get("Extension") == "png" for el in ct):
            el = etree.Element("{%s}Default" % CTN)
            el.set("Extension", "png"), el.set("ContentType", "image/png")
            ct.insert(0, el)
        el = etree.SubElement(ct, "{%s}Override" % CTN)
        el.set("PartName", "/customXml/itemProps1.xml"), el.set("ContentType", "application/vnd.openxmlformats-officedocument.customXmlProperties+xml")
        members["[Content_Types].xml"] = etree.tostring(ct, xml_declaration=True, encoding="UTF-8", standalone=True)
        out = io.BytesIO()
        D.write_zip(members, out)
        return out.getvalue()
    if init["deck"] == "genmany":
        prs = pptx.Presentation()
        s = prs.slides.add_slide(prs.slide_layouts[6])
        for i in range(10):
            s.shapes.add_picture(io.BytesIO(image_bytes(21 + i)), 50000 * (i + 1), 100000)
        prs.slides.add_slide(prs.slide_layouts[6])
        b = io.BytesIO()
        prs.save(b)
        return b.getvalue()
    if init["deck"] == "gendupimg":
        prs = pptx.Presentation()
        s = prs.slides.add_slide(prs.slide_layouts[6])
        for i, tok in enumerate((2, 21)):
            s.shapes.add_picture(io.BytesIO(image_bytes(tok)), 100000 * (i + 1), 100000)
        b = io.BytesIO()
        prs.save(b)
        members = D.read_zip(io.BytesIO(b.getvalue()))
        assert "ppt/media/image2.png" in members and members["ppt/media/image1.png"] != members["ppt/media/image2.png"]
        members["ppt/media/image2.png"] = members["ppt/media/image1.png"]
        out = io.BytesIO()
        D.write_zip(members, out)
        return out.getvalue()
    if init["deck"] == "genlogo":
        from mbt.drive import media as MD
        prs = pptx.Presentation(io.BytesIO(MD.logo_deck({"fmt": "PNG", "bytes": image_bytes(1)})))
        prs.slides.add_slide(prs.slide_layouts[6])
        b = io.BytesIO()
        prs.save(b)
        return b.getvalue()
    if init["deck"] != "gen":
        with open(init["deck"], "rb") as f:
            return f.read()
    prs = pptx.Presentation()
    for k, ids in enumerate(init["ids"]):
        s = prs.slides.add_slide(prs.slide_layouts[init["lays"][k] - 1])
        for i, _ in enumerate(ids):
            tb = s.shapes.add_textbox(100000 * (i + 1), 100000, 500000, 300000)
            tb.text_frame.text = "s%d-t%d" % (k + 1, i + 1)
        if init.get("noted") and init["noted"][k]:
            s.notes_slide.notes_text_frame.text = "notes written before"
    b = io.BytesIO()
    prs.save(b)
    members = D.read_zip(io.BytesIO(b.getvalue()))
    if init.get("noted"):
        # the notes pages are numbered from 1 in the order they were written, whatever the positions of their slides
        notes = sorted(n for n in members if re.match(r"^ppt/notesSlides/notesSlide\d+\.xml$", n))
        ren = {"/" + n: "/ppt/notesSlides/notesSlideTMP%d.xml" % (i + 1) for i, n in enumerate(notes)}
        members = F.rename_parts(members, ren)
        members = F.rename_parts(members, {v: "/ppt/notesSlides/notesSlide%d.xml" % (i + 1) for i, v in enumerate(ren.values())})
    # shape ids and slide ids as given
    n = len(init["ids"])
    for k in range(n):
        name = "ppt/slides/slide%d.xml" % (k + 1)
        root = etree.fromstring(members[name])
        ids = list(init["ids"][k])
        sps = [el for el in root.iter(_CNVPR) if el.get("id") != "1"]
        for el, v in zip(sps, ids):
            el.set("id", str(v))
        members[name] = etree.tostring(root, xml_declaration=True, encoding="UTF-8", standalone=True)
    prsx = etree.fromstring(members["ppt/presentation.xml"])
    for el, sid in zip(prsx.iterfind("{%s}sldIdLst/{%s}sldId" % (NS_P, NS_P)), init["sids"]):
        el.set("id", str(sid))
    members["ppt/presentation.xml"] = etree.tostring(prsx, xml_declaration=True, encoding="UTF-8", standalone=True)
    # slide part names as given (two-phase rename so permutations work)
    tmp = {"/ppt/slides/slide%d.xml" % (k + 1): "/ppt/slides/slideTMP%d.xml" % (k + 1) for k in range(n)}
    fin = {"/ppt/slides/slideTMP%d.xml" % (k + 1): "/ppt/slides/slide%d.xml" % init["pnums"][k] for k in range(n)}
    members = F.rename_parts(F.rename_parts(members, tmp), fin)
    out = io.BytesIO()
    D.write_zip(members, out)
    return out.getvalue()


# ------------------------------------------------------------------ the run
class DeckRun:
    def __init__(self, init: dict):
        import pptx
        self.pptx = pptx
        self.raw0 = build_initial(init)
        self.prs = pptx.Presentation(io.BytesIO(self.raw0))
        self.acc = False
        self.nimg = 0
        self.last_saved = None

    # ---- observation (no observer effects)
    def observe(self) -> dict:
        part = self.prs.part
        slides = []
        lst = part._element.find("{%s}sldIdLst" % NS_P)
        for sldId in (lst if lst is not None else []):
            sid = sldId.get("id")
            rid = sldId.get("{%s}id" % NS_R)
            try:
                sp = part.related_part(rid)
            except KeyError:
                slides.append({"sid": sid, "sidOk": False, "pname": "<<missing:%s>>" % rid, "pnum": -1, "sh": [], "rels": [], "refs": [], "refsBy": []})
                continue
            pname = str(sp.partname)
            m = re.match(r"^/ppt/slides/slide([1-9]\d*)\.xml$", pname)
            root = sp._element
            sh = []
            for el in root.iter(_CNVPR):
                v = el.get("id")
                par = el.getparent().getparent()
                if par.tag == "{%s}spTree" % NS_P:
                    continue
                if par.getparent() is None or par.getparent().tag not in ("{%s}spTree" % NS_P, "{%s}grpSp" % NS_P):
                    continue        # e.g. the p:pic inside p:oleObj (id="0" as PowerPoint writes it) is not a shape of the tree
                relmap = {str(r.rId): (str(r._target) if r.is_external else "part:" + str(r.target_part.partname)) for r in sp.rels.values()}

                def link_tok(hl):
                    if hl is None:
                        return "none"
                    if "hlinksldjump" in (hl.get("action") or ""):
                        return "jump"
                    tgt = relmap.get(hl.get("{%s}id" % NS_R), "<<dangling>>")
                    return {URLS[0]: "u0", URLS[1]: "u1", URLS[2]: "u2"}.get(tgt, "other:" + tgt[:40])
                first_run_rpr = par.find("{%s}txBody/{%s}p/{%s}r/{%s}rPr" % (NS_P, NS_A, NS_A, NS_A))
                sh.append({"id": v, "pos": bool(re.match(r"^[1-9]\d*$", v or "")) and int(v) <= 4294967295,
                           "kind": etree.QName(par).localname, "name": el.get("name", ""),
                           "lk": link_tok(el.find("{%s}hlinkClick" % NS_A)),
                           "rl": link_tok(first_run_rpr.find("{%s}hlinkClick" % NS_A) if first_run_rpr is not None else None)})
            rels = []
            for rel in sp.rels.values():
                ext = bool(rel.is_external)
                rels.append({"rid": str(rel.rId), "tgt": str(rel._target) if ext else str(rel.target_part.partname), "ext": ext})
            refs = sorted({v for el in root.iter() if isinstance(el.tag, str) for k, v in el.attrib.items() if k.startswith("{%s}" % NS_R) and v != ""})
            refs_by = []
            shape_tags = {"{%s}%s" % (NS_P, t) for t in ("sp", "pic", "graphicFrame", "cxnSp", "grpSp")}
            for el in root.iter():
                if not isinstance(el.tag, str):
                    continue
                for k, v in el.attrib.items():
                    if k.startswith("{%s}" % NS_R) and v != "":
                        anc = el
                        while anc is not None and anc.tag not in shape_tags:
                            anc = anc.getparent()
                        owner = ""
                        if anc is not None:
                            cnv = next(anc.iter(_CNVPR), None)
                            owner = cnv.get("id", "") if cnv is not None else ""
                        refs_by.append({"sh": owner, "rid": v})
            ok = bool(re.match(r"^\d+$", sid or "")) and 256 <= int(sid) <= 2147483647
            slides.append({"sid": sid, "sidOk": ok, "pname": pname, "pnum": int(m.group(1)) if m else -1, "sh": sh, "rels": rels, "refs": refs, "refsBy": refs_by})
        parts = [str(p.partname) for p in part.package.iter_parts()]
        return {"slides": slides, "parts": parts, "acc": self.acc}

    # ---- helpers
    def _slides(self):
        self.acc = True
        return self.prs.slides

    def _shape(self, a):
        """Shape j (1-based, document order of obs.sh) of slide k."""
        slide = self._slides()[a["k"] - 1]
        flat = []

        def walk(shapes):
            for s in shapes:
                flat.append(s)
                if s.shape_type is not None and s.shape_type == self.pptx.enum.shapes.MSO_SHAPE_TYPE.GROUP:
                    walk(s.shapes)
        import pptx.enum.shapes  # noqa: F401
        walk(slide.shapes)
        return slide, flat[a["j"] - 1]

    def _image(self):
        self.nimg += 1
        return io.BytesIO(image_bytes(self.nimg % 3 + 1))

    # ---- actions
    def apply(self, a: dict) -> str:
        try:
            return self._apply(a)
        except Exception as e:
            return type(e).__name__

    def _apply(self, a: dict) -> str:
        from pptx.chart.data import CategoryChartData
        from pptx.enum.chart import XL_CHART_TYPE
        from pptx.enum.shapes import MSO_CONNECTOR, MSO_SHAPE
        op = a["op"]
        prs = self.prs
        if op == "access":
            len(self._slides())
        elif op == "addSlide":
            self._slides().add_slide(prs.slide_layouts[a["l"] - 1])
        elif op == "addShape":
            slide = self._slides()[a["k"] - 1]
            sh, kind = slide.shapes, a["kind"]
            n = len(sh)
            x, y = 50000 * (n + 1), 40000 * (n + 1)
            if kind == "autoshape":
                sh.add_shape(MSO_SHAPE.ROUNDED_RECTANGLE, x, y, 400000, 300000).text_frame.text = "auto %d" % n
            elif kind == "textbox":
                sh.add_textbox(x, y, 400000, 300000).text_frame.text = "box %d" % n
            elif kind == "connector":
                sh.add_connector(MSO_CONNECTOR.STRAIGHT, x, y, x + 300000, y + 200000)
            elif kind == "group":
                g = sh.add_group_shape()
                g.shapes.add_textbox(x, y, 100000, 100000).text_frame.text = "in group"
            elif kind == "freeform":
                fb = sh.build_freeform(x, y, scale=100.0)
                fb.add_line_segments([(x + 1000, y), (x + 1000, y + 1000), (x, y + 1000)], close=True)
                fb.convert_to_shape()
            elif kind == "table":
                t = sh.add_table(2, 2, x, y, 800000, 400000).table
                t.cell(0, 0).text = "cell"
            elif kind == "picture":
                # the model names the image token (field j); histories recorded before it did fall back to the driver's own cycle
                sh.add_picture(io.BytesIO(image_bytes(a["j"])) if a.get("j") else self._image(), x, y)
            elif kind == "chart":
                cd = CategoryChartData()
                cd.categories = ["a", "b", "c"]
                cd.add_series("S1", (1, 2, 3))
                cd.add_series("S2", (4, None, 6))
                sh.add_chart(XL_CHART_TYPE.COLUMN_CLUSTERED, x, y, 2000000, 1500000, cd)
            elif kind == "movie":
                sh.add_movie(io.BytesIO(VIDEO), x, y, 600000, 400000, poster_frame_image=self._image() if n % 2 else None, mime_type="video/mp4")
            elif kind == "ole":
                from pptx.enum.shapes import PROG_ID
                sh.add_ole_object(io.BytesIO(OLEBYTES), PROG_ID.XLSX if n % 2 else "Verif.Object.1", x, y)
            else:
                raise RuntimeError("unknown kind " + kind)
        elif op == "setTurbo":
            self._slides()[a["k"] - 1].shapes.turbo_add_enabled = True
        elif op == "notes":
            ns = self._slides()[a["k"] - 1].notes_slide
            ns.notes_text_frame.text = "notes for %d" % a["k"]
        elif op in ("setLink", "changeLink", "clearLink", "setJump", "clearJump", "setRunLink", "clearRunLink", "setHover"):
            slide, shp = self._shape(a)
            if op == "setLink":
                shp.click_action.hyperlink.address = URLS[0]
            elif op == "changeLink":
                shp.click_action.hyperlink.address = URLS[1]
            elif op == "clearLink":
                shp.click_action.hyperlink.address = None
            elif op == "setJump":
                shp.click_action.target_slide = self._slides()[len(self._slides()) - 1]
            elif op == "clearJump":
                shp.click_action.target_slide = None
            else:
                tf = shp.text_frame
                p = tf.paragraphs[0]
                r = p.runs[0] if p.runs else p.add_run()
                if not r.text:
                    r.text = "link"
                r.hyperlink.address = None if op == "clearRunLink" else (URLS[2] if op == "setHover" else URLS[0])
        elif op == "removeLayout":
            prs.slide_layouts.remove(prs.slide_layouts[a["l"] - 1])
        elif op == "coreProps":
            prs.core_properties.title = "Verif & <Title>"
            prs.core_properties.revision = 7
        elif op == "replaceData":
            slide, shp = self._shape(a)
            cd = CategoryChartData()
            cd.categories = ["x", "y"]
            cd.add_series("R1", (9, 8))
            shp.chart.replace_data(cd)
        elif op == "read":
            self._read(a["kind"])
        elif op == "rejected":
            w = a["kind"]
            if w == "slideIndex":
                self._slides()[len(self._slides()) + 5]
            elif w == "removeLayoutInUse":
                prs.slide_layouts.remove(prs.slide_layouts[a["l"] - 1])
            elif w == "placeholderIndex":
                self._slides()[0].placeholders[99]
            elif w == "layoutIndex":
                prs.slide_layouts[99]
            elif w == "removeForeignLayout":
                prs.slide_layouts.remove(prs.slide_masters[1].slide_layouts[0])
            return "notRejected"
        elif op == "save":
            # an object with a life: every "save" of a history goes to the SAME stream the caller holds (never rewound or truncated by the
            # caller); what the stream holds afterwards is the saved file that is judged
            if getattr(self, "stream", None) is None:
                self.stream = io.BytesIO()
            prs.save(self.stream)
            self.last_saved = self.stream.getvalue()
        elif op == "reopen":
            b = io.BytesIO()
            prs.save(b)
            self.last_saved = b.getvalue()
            self.prs = self.pptx.Presentation(io.BytesIO(self.last_saved))
            self.acc = False
        else:
            raise RuntimeError("unknown op " + op)
        return "ok"

    def _read(self, group: str):
        prs = self.prs
        if group == "slides":
            for s in self._slides():
                s.slide_id, s.name, s.has_notes_slide, s.slide_layout.name
            len(self._slides())
        elif group == "shapes":
            for s in self._slides():
                for sh in s.shapes:
                    sh.shape_id, sh.name, sh.shape_type, sh.has_text_frame, sh.left, sh.top, sh.width, sh.height, sh.is_placeholder
                    getattr(sh, "has_chart", None), getattr(sh, "has_table", None)
                for ph in s.placeholders:
                    ph.placeholder_format.idx, ph.placeholder_format.type
        elif group == "text":
            for s in self._slides():
                for sh in s.shapes:
                    if sh.has_text_frame:
                        sh.text_frame.text
                        for p in sh.text_frame.paragraphs:
                            p.text, p.level
                            for r in p.runs:
                                r.text
        elif group == "layouts":
            for m in prs.slide_masters:
                m.name
                for lay in m.slide_layouts:
                    lay.name, len(lay.placeholders), len(lay.used_by_slides)
            len(prs.slide_layouts), prs.slide_width, prs.slide_height
        elif group == "core":
            cp = prs.core_properties
            cp.title, cp.author, cp.created, cp.modified, cp.revision

    # ---- saved package
    def saved(self, st: D.SegTable, with_facets: bool, raw: bytes | None = None) -> dict:
        if raw is None:
            b = io.BytesIO()
            self.prs.save(b)
            raw = b.getvalue()
        return project_saved(raw, st, self.prs if with_facets else None, self.pptx,
                             [(str(p.partname), str(p.content_type)) for p in self.prs.part.package.iter_parts()])


def facets(prs) -> dict:
    """What a presentation 'shows': slide order, shapes, text, pictures, charts — through the public read API."""
    from pptx.enum.shapes import MSO_SHAPE_TYPE
    order, shapes, text, pics, charts = [], [], [], [], []

    def walk(shs, acc_s, acc_t):
        for sh in shs:
            acc_s.append([str(sh.shape_type), sh.name, sh.shape_id, int(sh.left or 0), int(sh.top or 0), int(sh.width or 0), int(sh.height or 0)])
            if sh.has_text_frame:
                acc_t.append(sh.text_frame.text)
            if getattr(sh, "has_table", False) and sh.has_table:
                acc_t.append([[c.text for c in r.cells] for r in sh.table.rows])
            if sh.shape_type == MSO_SHAPE_TYPE.PICTURE:
                pics.append(hashlib.sha1(sh.image.blob).hexdigest())
            if getattr(sh, "has_chart", False) and sh.has_chart:
                ch = sh.chart
                charts.append([str(ch.chart_type), [[list(map(str, pl.categories)), [[s.name, list(s.values)] for s in pl.series]] for pl in ch.plots]])
            if sh.shape_type == MSO_SHAPE_TYPE.GROUP:
                walk(sh.shapes, acc_s, acc_t)
    for s in prs.slides:
        ss, tt = [], []
        walk(s.shapes, ss, tt)
        if s.has_notes_slide:
            tt.append(["notes", s.notes_slide.notes_text_frame.text if s.notes_slide.notes_text_frame is not None else None])
        order.append([s.slide_id, s.slide_layout.name, len(ss)])
        shapes.append(ss)
        text.append(tt)
    cp = prs.core_properties
    text.append(["core", cp.title, cp.author, cp.revision])
    h = lambda x: hashlib.sha1(json.dumps(x, sort_keys=True, default=str).encode()).hexdigest()[:16]  # noqa: E731
    return {"order": h(order), "shapes": h(shapes), "text": h(text), "pictures": h(pics), "charts": h(charts)}


NOFACETS = {"order": "-", "shapes": "-", "text": "-", "pictures": "-", "charts": "-"}


def project_saved(raw: bytes, st: D.SegTable, live_prs, pptx_mod, mem_types) -> dict:
    with zipfile.ZipFile(io.BytesIO(raw)) as zf:
        names = zf.namelist()
        members = {n: zf.read(n) for n in names}
    tok = lambda n, b: D.generic_token(b, True)  # noqa: E731
    ph = D.project_members(members, st, tok)
    refs = []
    for n, b in members.items():
        if n == "[Content_Types].xml" or D._RELS_RE.match(n) or not (n.endswith(".xml") or n.endswith(".vml")):
            continue
        try:
            root = etree.fromstring(b)
        except etree.XMLSyntaxError:
            continue
        rids = sorted({v for el in root.iter() if isinstance(el.tag, str) for k, v in el.attrib.items() if k.startswith("{%s}" % NS_R) and v != ""})   # r:id="" (media action links) is no reference
        if rids:
            refs.append({"n": st.name("/" + n), "rids": rids})
    z = {"ph": ph, "dup": len(set(names)) != len(names), "refs": refs,
         "mem": [{"n": st.name(n), "type": t} for n, t in mem_types],
         "facetsMem": dict(NOFACETS), "facetsReopen": dict(NOFACETS), "reopenOk": True, "reopenErr": ""}
    try:
        prs2 = pptx_mod.Presentation(io.BytesIO(raw))
        if live_prs is not None:
            z["facetsReopen"] = facets(prs2)
            z["facetsMem"] = facets(live_prs)
    except Exception as e:
        z["reopenOk"] = False
        z["reopenErr"] = "%s: %s" % (type(e).__name__, str(e)[:120])
    return z


def run_history(hid: str, h: list[dict], final_saved: bool = True, facets_on: bool = True, companion: bool = False) -> dict:
    """Replay history h (h[0] = open action with the initial deck) and record obs after every step; every
    'save'/'reopen' action and the end of the history yield a saved-package projection."""
    # THE COMPANION: a second presentation lives in the same process.  It stores an image of its own before the history starts and,
    # after the history, the three images the history's pictures rotate through and core properties - then it is
    # saved and judged by the same saved-package clauses as any other deck (nothing one presentation did may reach another one)
    comp = DeckRun({"deck": "default", "pnums": [], "sids": [], "ids": [], "lays": []}) if companion else None
    try:
        if comp is not None:
            cs = comp.prs.slides.add_slide(comp.prs.slide_layouts[6])
            cs.shapes.add_picture(io.BytesIO(image_bytes(9)), 1000, 1000)
    except Exception:       # noqa: BLE001  (judged at the end: the companion's save)
        pass
    run = DeckRun(h[0]["init"])
    st = D.LazySegTable()
    steps = [{"a": {"op": "open", "k": 0, "j": 0, "kind": "", "l": 0}, "out": "ok", "t": run.observe()}]
    saves = []
    for i, a in enumerate(h[1:], start=2):
        before_saved = None
        if a["op"] == "rejected":
            b = io.BytesIO()
            run.prs.save(b)
            before_saved = D.read_zip(io.BytesIO(b.getvalue()))
        tid = ""
        prev = steps[-1]["t"]
        if a.get("j") and a.get("k") and a["k"] <= len(prev["slides"]) and a["j"] <= len(prev["slides"][a["k"] - 1]["sh"]):
            tid = prev["slides"][a["k"] - 1]["sh"][a["j"] - 1]["id"]
        out = run.apply(a)
        steps.append({"a": dict(a, tid=tid), "out": out, "t": run.observe()})
        if a["op"] in ("save", "reopen"):
            try:
                saves.append({"at": i, "z": run.saved(st, False, raw=run.last_saved)})
            except Exception as e:      # what was written cannot be read as a package: an observation (ok = FALSE), not a crash
                saves.append({"at": i, "z": None, "err": "%s: %s" % (type(e).__name__, str(e)[:200])})
        if before_saved is not None:
            b = io.BytesIO()
            run.prs.save(b)
            after = D.read_zip(io.BytesIO(b.getvalue()))
            steps[-1]["savedSame"] = after == before_saved
    if final_saved:
        try:
            saves.append({"at": len(h) + 1, "z": run.saved(st, facets_on)})
        except Exception as e:
            saves.append({"at": len(h) + 1, "z": None, "err": "%s: %s" % (type(e).__name__, str(e)[:200])})
        if comp is None:
            return {"id": hid, "h": h, "steps": steps, "saves": saves}
        try:
            for k_, a_ in enumerate(({"op": "addShape", "k": 1, "kind": "picture", "j": 2}, {"op": "addShape", "k": 1, "kind": "picture", "j": 3},
                                     {"op": "addShape", "k": 1, "kind": "picture", "j": 1}, {"op": "coreProps"})):
                o_ = comp.apply(a_)
                if o_ not in ("ok", "", None):
                    raise RuntimeError("companion %s: %s" % (a_["op"], o_))
            saves.append({"at": len(h) + 2, "z": comp.saved(st, facets_on)})
        except Exception as e:
            saves.append({"at": len(h) + 2, "z": None, "err": "companion: %s: %s" % (type(e).__name__, str(e)[:200])})
    return {"id": hid, "h": h, "steps": steps, "saves": saves}
